(* Python str operations used by yamlpath, over Coq strings holding UTF-8 bytes.
   Every character the modelled code tests is ASCII; bytes >= 128 are plain. *)
From Coq Require Import List Ascii String ZArith Bool Arith.
Import ListNotations.
Open Scope string_scope.

Definition ch (n : nat) : ascii := ascii_of_nat n.

Definition ascii_eqb (a b : ascii) : bool := Ascii.eqb a b.

Fixpoint str_in (c : ascii) (s : string) : bool :=
  match s with
  | EmptyString => false
  | String d r => if Ascii.eqb c d then true else str_in c r
  end.

Fixpoint mem_ascii (c : ascii) (l : list ascii) : bool :=
  match l with
  | [] => false
  | d :: r => if Ascii.eqb c d then true else mem_ascii c r
  end.

Fixpoint mem_string (s : string) (l : list string) : bool :=
  match l with
  | [] => false
  | d :: r => if String.eqb s d then true else mem_string s r
  end.

Fixpoint count_char (c : ascii) (s : string) : nat :=
  match s with
  | EmptyString => 0
  | String d r => (if Ascii.eqb c d then 1 else 0) + count_char c r
  end.

(* str.index(c) for a c known to occur; length s when absent *)
Fixpoint index_char (c : ascii) (s : string) : nat :=
  match s with
  | EmptyString => 0
  | String d r => if Ascii.eqb c d then 0 else S (index_char c r)
  end.

Fixpoint take (n : nat) (s : string) : string :=
  match n, s with
  | S k, String c r => String c (take k r)
  | _, _ => EmptyString
  end.

Fixpoint drop (n : nat) (s : string) : string :=
  match n, s with
  | S k, String _ r => drop k r
  | _, _ => s
  end.

Definition snoc (s : string) (c : ascii) : string := s ++ String c EmptyString.

Definition first_char (s : string) : option ascii :=
  match s with EmptyString => None | String c _ => Some c end.

Fixpoint last_char (s : string) : option ascii :=
  match s with
  | EmptyString => None
  | String c EmptyString => Some c
  | String _ r => last_char r
  end.

(* s[1:-1] *)
Definition strip_ends (s : string) : string :=
  take (String.length s - 2) (drop 1 s).

Definition nonempty (s : string) : bool :=
  match s with EmptyString => false | _ => true end.

Fixpoint starts_with (p s : string) : bool :=
  match p, s with
  | EmptyString, _ => true
  | String a p', String b s' => if Ascii.eqb a b then starts_with p' s' else false
  | _, _ => false
  end.

Fixpoint rev_str_acc (s acc : string) : string :=
  match s with
  | EmptyString => acc
  | String c r => rev_str_acc r (String c acc)
  end.
Definition rev_str (s : string) : string := rev_str_acc s EmptyString.

Definition ends_with (p s : string) : bool := starts_with (rev_str p) (rev_str s).

(* `p in s` for strings *)
Fixpoint str_contains (p s : string) : bool :=
  if starts_with p s then true
  else match s with
       | EmptyString => false
       | String _ r => str_contains p r
       end.

(* Python str.isspace() restricted to ASCII *)
Definition is_space_py (c : ascii) : bool :=
  let n := nat_of_ascii c in
  (((9 <=? n) && (n <=? 13)) || ((28 <=? n) && (n <=? 32)))%nat.

Fixpoint lstrip_py (s : string) : string :=
  match s with
  | EmptyString => EmptyString
  | String c r => if is_space_py c then lstrip_py r else s
  end.
Definition strip_py (s : string) : string :=
  rev_str (lstrip_py (rev_str (lstrip_py s))).

Definition lower_ascii (c : ascii) : ascii :=
  let n := nat_of_ascii c in
  if ((65 <=? n) && (n <=? 90))%nat then ascii_of_nat (n + 32) else c.
Definition upper_ascii (c : ascii) : ascii :=
  let n := nat_of_ascii c in
  if ((97 <=? n) && (n <=? 122))%nat then ascii_of_nat (n - 32) else c.
Fixpoint map_str (f : ascii -> ascii) (s : string) : string :=
  match s with
  | EmptyString => EmptyString
  | String c r => String (f c) (map_str f r)
  end.
Definition lower_str := map_str lower_ascii.
Definition upper_str := map_str upper_ascii.

(* ---- int(s): ASCII blanks stripped, optional sign, digits with single
   underscores between digits.  None = ValueError. *)
Definition digit_val (c : ascii) : option Z :=
  let n := nat_of_ascii c in
  if ((48 <=? n) && (n <=? 57))%nat then Some (Z.of_nat (n - 48)) else None.

(* state: acc value, whether previous char was a digit (else underscore/start) *)
Fixpoint digits_go (s : string) (acc : Z) (prev_digit : bool) : option Z :=
  match s with
  | EmptyString => if prev_digit then Some acc else None
  | String c r =>
      match digit_val c with
      | Some d => digits_go r (acc * 10 + d)%Z true
      | None =>
          if Ascii.eqb c "_"%char then
            if prev_digit then digits_go r acc false else None
          else None
      end
  end.

Definition py_int (s : string) : option Z :=
  match strip_py s with
  | EmptyString => None
  | String c r =>
      if Ascii.eqb c "-"%char then option_map Z.opp (digits_go r 0%Z false)
      else if Ascii.eqb c "+"%char then digits_go r 0%Z false
      else digits_go (String c r) 0%Z false
  end.

(* ---- split / replace / join with a non-empty separator ---- *)
Fixpoint split_go (sep s : string) (skip : nat) (cur : string) : list string :=
  match s with
  | EmptyString => [cur]
  | String c rest =>
      match skip with
      | S k => split_go sep rest k cur
      | O => if starts_with sep s
             then cur :: split_go sep rest (String.length sep - 1) EmptyString
             else split_go sep rest 0 (snoc cur c)
      end
  end.
Definition split_on (sep s : string) : list string := split_go sep s 0 EmptyString.

Fixpoint replace_go (old new s : string) (skip : nat) : string :=
  match s with
  | EmptyString => EmptyString
  | String c rest =>
      match skip with
      | S k => replace_go old new rest k
      | O => if starts_with old s
             then new ++ replace_go old new rest (String.length old - 1)
             else String c (replace_go old new rest 0)
      end
  end.
Definition replace_all (old new s : string) : string := replace_go old new s 0.

Fixpoint join (sep : string) (l : list string) : string :=
  match l with
  | [] => EmptyString
  | [x] => x
  | x :: r => x ++ sep ++ join sep r
  end.

(* decimal rendering of Z: str(int) *)
Fixpoint pos_digits_fuel (fuel : nat) (p : Z) (acc : string) : string :=
  match fuel with
  | O => acc
  | S f =>
      let d := Z.modulo p 10 in
      let q := Z.div p 10 in
      let acc' := String (ascii_of_nat (48 + Z.to_nat d)) acc in
      if (q =? 0)%Z then acc' else pos_digits_fuel f q acc'
  end.
Definition str_of_Z (z : Z) : string :=
  let a := Z.abs z in
  let body := pos_digits_fuel (S (Z.to_nat (Z.log2 a + 1))) a EmptyString in
  if (z <? 0)%Z then String "-"%char body else body.
