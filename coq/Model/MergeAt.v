(* Model of Merger.merge_with for an insertion point (--mergeat) other than
   the trivial one: merger.py:834-915, the loop over _get_merge_target_nodes.

   Input, not modelled: Processor.get_nodes(insert_at, default_value=rhs) --
   path evaluation and creation of a missing path are the subject of C01/C09.
   The harness runs the real Processor and hands over (a) the document as it
   is after that call (a missing path has been created and holds the
   right-hand document itself), (b) the locations of the yielded nodes.
   Modelled: the per-target dispatch, `target_node is rhs`, the root
   replacement (`self.data = merged_data` only for the root path; elsewhere
   the target object as it is after the in-place merge stays in the tree),
   "a merge was not performed".  Targets are assumed pairwise non-nested. *)
From Coq Require Import List Ascii String ZArith NArith Bool.
From YP Require Import Outcome PyStr PyVal Doc PathParser Searches MergeConfig Merge.
Import ListNotations.
Open Scope list_scope.

Fixpoint update_at (l : loc) (f : node -> outcome node) (n : node) : outcome node :=
  match l with
  | [] => f n
  | r :: rest =>
      match n, r with
      | NMap i kvs, RKey k =>
          match assoc_key k kvs with
          | Some c => do c' <- update_at rest f c; Ok (NMap i (set_val k c' kvs))
          | None => Raise (YPE Unmatched)
          end
      | NSeq i els, RIdx j =>
          match nth_error els j with
          | Some c => do c' <- update_at rest f c; Ok (NSeq i (replace_nth j c' els))
          | None => Raise (YPE Unmatched)
          end
      | _, _ => Raise (YPE Unmatched)
      end
  end.

Section WithConfig.
Variable lit : string -> outcome litres.
Variable cfg : mconfig.

(* one iteration of the loop body for the target node [t] *)
Definition merge_target (is_root : bool) (rhs t : node) : outcome node :=
  if same_obj t rhs then Ok t                         (* novel mergeat: get_nodes already placed rhs *)
  else
    match rhs, t with
    | NLeaf _ rv, NLeaf ti _ =>
        if is_root then Ok rhs
        else Ok (NLeaf ti rv)                          (* lhs_proc.set_value(insert_at, rhs): the value changes *)
    | _, _ =>
        do m <- insert_any lit cfg t rhs;
        Ok (if is_root then ret m else inplace m)
    end.

Definition target_kind_is (p : node -> bool) (doc : node) (t : loc) : bool :=
  match lookup doc t with Some n => p n | None => false end.

(* A Scalar merged at a non-root path that has a Scalar target: _insert_scalar
   calls lhs_proc.set_value(insert_at, rhs), which re-evaluates the WHOLE path
   and overwrites every match -- also the Array / Set targets the loop merged
   into (known finding F-C11-2).  A Hash target still raises. *)
Definition scalar_clobbers (is_root : bool) (targets : list loc) (doc rhs : node) : bool :=
  negb is_root && is_leaf rhs && existsb (target_kind_is is_leaf doc) targets
  && negb (existsb (target_kind_is (fun n => same_obj n rhs) doc) targets).

Definition merge_at (is_root : bool) (targets : list loc) (doc rhs : node) : outcome node :=
  if is_none rhs then Ok doc
  else
    match targets with
    | [] => Raise MergeExc                             (* "A merge was not performed." *)
    | _ =>
        if scalar_clobbers is_root targets doc rhs then
          if existsb (target_kind_is is_map doc) targets then Raise MergeExc
          else foldM (fun d t => update_at t (fun old =>
                        Ok (NLeaf (node_info old) (match rhs with NLeaf _ v => v | _ => PNone end))) d) targets doc
        else foldM (fun d t => update_at t (merge_target is_root rhs) d) targets doc
    end.

End WithConfig.
