(* Model of Merger.merge_with for an insertion point (--mergeat) other than
   the trivial one: merger.py:834-915, the loop over _get_merge_target_nodes.

   Input, not modelled: Processor.get_nodes(insert_at, default_value=rhs) --
   path evaluation and creation of a missing path are the subject of C01/C09.
   The harness runs the real Processor and hands over (a) the document as it
   is after that call (a missing path has been created and holds the
   right-hand document itself), (b) the locations of the yielded nodes.
   Modelled: the per-target dispatch, `target_node is rhs`, _set_merge_result
   (the RETURNED merge result is stored: `self.data = merged_data` for the root
   path, `parent[parentref] = merged_data` elsewhere when it is another object
   than the target -- fix 6840572; before it only in-place mutations reached
   the document away from the root), the Scalar-into-Scalar route
   `lhs_proc._apply_change(insert_at, node_coord, rhs)` which changes THIS
   target only (fix c8dbfd9; before it `set_value(insert_at, rhs)` re-evaluated
   the path and overwrote every match), "a merge was not performed".
   Targets are assumed pairwise non-nested. *)
From Coq Require Import List Ascii String ZArith NArith Bool.
From YP Require Import Outcome PyStr PyVal Doc PathParser Searches MergeConfig Merge.
Import ListNotations.
Open Scope list_scope.

Fixpoint update_at (l : loc) (f : node -> outcome node) (n : node) : outcome node :=
  match l with
  | [] => f n
  | r :: rest =>
      match n, r with
      | NMap i kvs, RKey k =>
          match assoc_key k kvs with
          | Some c => do c' <- update_at rest f c; Ok (NMap i (set_val k c' kvs))
          | None => Raise (YPE Unmatched)
          end
      | NSeq i els, RIdx j =>
          match nth_error els j with
          | Some c => do c' <- update_at rest f c; Ok (NSeq i (replace_nth j c' els))
          | None => Raise (YPE Unmatched)
          end
      | _, _ => Raise (YPE Unmatched)
      end
  end.

Section WithConfig.
Variable lit : string -> outcome litres.
Variable cfg : mconfig.

(* one iteration of the loop body for the target node [t] *)
Definition merge_target (is_root : bool) (rhs t : node) : outcome node :=
  if same_obj t rhs then Ok t                         (* novel mergeat: get_nodes already placed rhs *)
  else
    match rhs, t with
    | NLeaf _ rv, NLeaf ti _ =>
        if is_root then Ok rhs
        else Ok (NLeaf ti rv)                          (* lhs_proc._apply_change(insert_at, node_coord, rhs): the value changes *)
    | _, _ =>
        (* _set_merge_result: the returned node takes the target's place (it IS
           the target, as the in-place merge left it, unless a RIGHT rule or a
           UNIQUE re-build returned another object) *)
        do m <- insert_any lit cfg t rhs;
        Ok (ret m)
    end.

Definition merge_at (is_root : bool) (targets : list loc) (doc rhs : node) : outcome node :=
  if is_none rhs then Ok doc
  else
    match targets with
    | [] => Raise MergeExc                             (* "A merge was not performed." *)
    | _ => foldM (fun d t => update_at t (merge_target is_root rhs) d) targets doc
    end.

End WithConfig.
