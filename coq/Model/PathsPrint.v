(* Model of the glue of yamlpath/commands/yaml_paths.py around the search:
   process_yaml_file (for ONE loaded document: the loop over args.search with
   get_search_term, search_for_paths and the de-duplication of results by
   str(result); lines 843-877 and 907) and print_results (lines 765-820).

   str(result) is YAMLPath.__str__ of YAMLPath(tmp_path): PathPrinter.path_str
   Auto.  The text print_results appends for the value (-L): the first node of
   Processor.get_nodes(result, mustexist=True), json.dumps(jsonify) for a
   container, str() with newlines escaped otherwise -- is an ORACLE
   ([value_text], keyed by the text the path was constructed from).

   Not modelled: --except (lines 879-905), multi-document files, decrypt,
   logging, the exit state other than "an expression was rejected".  Python
   prints line by line; the model returns all lines or the exception. *)
From Coq Require Import List Ascii String ZArith NArith Bool Arith.
From YP Require Import Outcome PyStr PyVal Doc Generated PathParser PathPrinter Searches PathsSearch.
Import ListNotations.
Open Scope string_scope.
Open Scope nat_scope.

Record pflags := mkpflags {
  pf_nofile : bool;          (* -F / --nofile *)
  pf_noexpression : bool;    (* -X / --noexpression *)
  pf_noyamlpath : bool;      (* -P / --noyamlpath *)
  pf_values : bool;          (* -L / --values *)
  pf_noescape : bool         (* -n / --noescape *)
}.

(* (expression, result) *)
Definition pentry := (string * hit)%type.

Definition hit_str (h : hit) : outcome string := path_str Auto (h_path h).

(* "for entry in yaml_paths: if str(result) == str(entry[1]): add_entry = False; break" *)
Fixpoint is_dup (h : hit) (acc : list pentry) : outcome bool :=
  match acc with
  | [] => Ok false
  | e :: r =>
      do t <- hit_str h;
      do te <- hit_str (snd e);
      if String.eqb t te then Ok true else is_dup h r
  end.

Definition add_unique (expr : string) (acc : list pentry) (h : hit) : outcome (list pentry) :=
  do d <- is_dup h acc;
  Ok (if d then acc else (acc ++ [(expr, h)])%list).

Section Print.
Variable lit : string -> outcome litres.
Variable re_search : string -> string -> outcome reres.
Variable value_text : string -> outcome string.
Variable mt : mtable.
Variable sp : sep.
Variable o : opts.
Variable d : node.

(* the loop over args.search; the flag = "exit_state = 1" (an expression was rejected) *)
Fixpoint collect (exprs : list string) (acc : list pentry) (bad : bool) : outcome (list pentry * bool) :=
  match exprs with
  | [] => Ok (acc, bad)
  | e :: r =>
      do t <- get_search_term e;
      match t with
      | None => collect r acc true
      | Some tm =>
          do hs <- search_doc lit re_search mt tm sp o d;
          do acc' <- foldM (add_unique e) hs acc;
          collect r acc' bad
      end
  end.

(* --noescape: the segments' own text joined by the separator *)
Definition noescape_str (text : string) : outcome string :=
  do sg <- parse Auto true text;
  let use_flash := match sp with Slash => true | Dot => false end in
  Ok ((if use_flash then "/" else "") ++
      join (if use_flash then "/" else ".") (map (fun s => attrs_str (snd s)) sg)).

Definition print_line (fl : pflags) (nexprs : nat) (yaml_file : string) (doc_index : Z) (e : pentry)
  : outcome string :=
  let print_file := negb (pf_nofile fl) in
  let print_expr := (1 <? nexprs) && negb (pf_noexpression fl) in
  let print_path := negb (pf_noyamlpath fl) in
  let print_value := pf_values fl in
  let b0 := if print_file || (print_expr && (print_path || print_value)) then ": " else "" in
  let b1 := if print_path && print_value then ": " else "" in
  let s1 := if print_file
            then (if String.eqb (strip_py yaml_file) "-" then "STDIN" else yaml_file) ++ "/" ++ str_of_Z doc_index
            else "" in
  let s2 := if print_expr then "[" ++ fst e ++ "]" else "" in
  do p <- (if print_path
           then (if pf_noescape fl then noescape_str (h_path (snd e)) else hit_str (snd e))
           else Ok "");
  do v <- (if print_value then value_text (h_path (snd e)) else Ok "");
  Ok (s1 ++ s2 ++ b0 ++ p ++ b1 ++ v).

(* process_yaml_file for the one document d: the printed lines and the flag *)
Definition process_doc (fl : pflags) (exprs : list string) (yaml_file : string) (doc_index : Z)
  : outcome (list string * bool) :=
  do c <- collect exprs [] false;
  do lines <- mapM (print_line fl (List.length exprs) yaml_file doc_index) (fst c);
  Ok (lines, snd c).

End Print.
