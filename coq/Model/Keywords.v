(* Model of yamlpath/common/keywordsearches.py (KeywordSearches: search_matches
   dispatch, has_child incl. the &anchor form, name, max, min, parent, distinct,
   unique, every parameter-count / inversion error branch) over Doc.node
   documents.  The functions take what the Python static methods take: the
   document, the current node's coordinates (data, parent, parentref,
   translated_path, ancestry) and the keyword terms; they return the yielded
   NodeCoords in order.

   Nodes are identified by location; a NodeCoords is [coords].  translated_path
   is its list of segments (a key or an index per segment); ancestry is the list
   of (parent location, reference) entries.  Nothing in keywordsearches.py calls
   back into the Processor, so there is no evaluator variable; the oracles are
   ast.literal_eval / re (through Searches.search_matches) and str() of
   containers.

   Outside the modelled domain (stated in docs/C13.md): data wrapped in
   NodeCoords by a collector, YAML merge keys (`data.merge`), TaggedScalar. *)
From Coq Require Import List Ascii String ZArith NArith Bool.
From YP Require Import Outcome PyStr PyVal Doc PathParser Searches.
Import ListNotations.
Open Scope string_scope.
Open Scope list_scope.

(* the `node` of a NodeCoords: a document node, or -- for name() -- the key or
   index itself *)
Inductive rnode := AtLoc (l : loc) | RefVal (r : option ref).

Record coords := mkcoords {
  c_node : rnode;
  c_parent : option loc;
  c_parentref : option ref;
  c_path : list ref;
  c_ancestry : list (loc * ref)
}.

(* the keyword arguments of one call *)
Record kctx := mkkctx {
  k_here : loc;                      (* where `data` lives *)
  k_parent : option loc;
  k_parentref : option ref;
  k_path : list ref;                 (* translated_path *)
  k_ancestry : list (loc * ref)
}.

Definition self_coords (x : kctx) : coords :=
  mkcoords (AtLoc (k_here x)) (k_parent x) (k_parentref x) (k_path x) (k_ancestry x).

Definition is_none_node (n : node) : bool :=
  match n with NLeaf _ PNone => true | _ => false end.

(* Nodes.node_is_aoh (nodes.py:565-589).  `isinstance(node, (list, set))`: a
   loaded !!set is a ruamel CommentedSet, which is a MutableSet and NOT a
   `set` (a set of nulls is therefore no Array-of-Hashes) *)
Definition node_is_aoh (accept_nulls : bool) (n : node) : bool :=
  match n with
  | NSeq _ els =>
      forallb (fun e => (accept_nulls && is_none_node e) || is_map e) els
  | _ => false
  end.

(* `key in data` / data[key] for a str key *)
Definition map_get (kvs : list (node * node)) (key : string) : option node :=
  assoc_key (PStr key) kvs.

(* `match_key in data` for a list: an element == the str *)
Definition list_has_str (els : list node) (key : string) : bool :=
  existsb (fun e => match e with NLeaf _ v => py_eq v (PStr key) | _ => false end) els.

Fixpoint enumerate_from {A} (i : nat) (l : list A) : list (nat * A) :=
  match l with
  | [] => []
  | x :: r => (i, x) :: enumerate_from (S i) r
  end.
Definition enumerate {A} (l : list A) := enumerate_from 0 l.

Definition key_ref (k : node) : ref :=
  match k with NLeaf _ v => RKey v | _ => RKey PNone end.

(* Anchors.get_node_anchor: None when unset or empty *)
Definition get_node_anchor (n : node) : option string :=
  match node_anchor n with
  | Some s => if nonempty s then Some s else None
  | None => None
  end.

(* Anchors.scan_for_anchors (anchors.py:17-45): later assignments win; the
   value recorded is whether the anchored node is a dict *)
Fixpoint scan_for_anchors (fuel : nat) (dom : node) (acc : list (string * bool)) : list (string * bool) :=
  match fuel with
  | O => acc
  | S f =>
      match dom with
      | NMap _ kvs =>
          fold_left (fun a kv =>
              let a1 := match node_anchor (fst kv) with Some s => (s, false) :: a | None => a end in
              let a2 := match node_anchor (snd kv) with Some s => (s, is_map (snd kv)) :: a1 | None => a1 end in
              if is_map (snd kv) || is_seq (snd kv) then scan_for_anchors f (snd kv) a2 else a2)
            kvs acc
      | NSeq _ els => fold_left (fun a e => scan_for_anchors f e a) els acc
      | _ => match node_anchor dom with Some s => (s, is_map dom) :: acc | None => acc end
      end
  end.

Fixpoint assoc_str {A} (k : string) (l : list (string * A)) : option A :=
  match l with
  | [] => None
  | (a, b) :: r => if String.eqb k a then Some b else assoc_str k r
  end.

Section Oracles.
Variable lit : string -> outcome litres.
Variable re_search : string -> string -> outcome reres.
Variable node_str : node -> string.      (* str() of a container *)

Variable doc : node.

Definition node_at (l : loc) : outcome node :=
  match lookup doc l with
  | Some n => Ok n
  | None => Raise OracleMiss          (* a harness error: coordinates outside the document *)
  end.

(* the value Searches.search_matches sees for a node *)
Definition val_of_node (n : node) : pyval :=
  match n with NLeaf _ v => v | _ => POther (node_str n) end.

(* Searches.search_matches(method, needle, haystack) with a non-str needle
   (keywordsearches.py hands it the running match_value) *)
Definition sm (m : smethod) (needle hay : pyval) : outcome bool :=
  search_matches_g lit re_search m needle (HVal hay).

(* ---------------- has_child (93-346) ---------------- *)

Definition xor_verdict (invert present : bool) : bool :=
  (invert && negb present) || (present && negb invert).

(* _has_concrete_child: [depth] = 1 for the call from has_child, 0 for the
   recursive call on an element of an Array-of-Hashes (which is a dict, so it
   does not recurse further) *)
Definition concrete_on_map (invert : bool) (key : string) (kvs : list (node * node)) (x : kctx) : list coords :=
  let present := match map_get kvs key with Some _ => true | None => false end in
  if xor_verdict invert present then [self_coords x] else [].

Definition has_concrete_child (invert : bool) (key : string) (data : node) (x : kctx) : outcome (list coords) :=
  match data with
  | NMap _ kvs => Ok (concrete_on_map invert key kvs x)
  | NSeq _ els =>
      if node_is_aoh false data then
        (* for idx, ele in enumerate(data): recursive call with parent=data,
           parentref=idx, translated_path + "[idx]", ancestry + [(data, idx)] *)
        Ok (flat_map (fun ie =>
              let '(idx, ele) := ie in
              let x' := mkkctx (k_here x ++ [RIdx idx]) (Some (k_here x)) (Some (RIdx idx))
                               (k_path x ++ [RIdx idx]) (k_ancestry x ++ [(k_here x, RIdx idx)]) in
              match ele with
              | NMap _ kvs => concrete_on_map invert key kvs x'
              | _ => []
              end) (enumerate els))
      else
        Ok (if xor_verdict invert (list_has_str els key) then [self_coords x] else [])
  | NLeaf _ PNone => Ok (if invert then [self_coords x] else [])
  | _ => Raise (YPE Generic)
  end.

Definition anchored_on_map (invert : bool) (name : string) (kvs : list (node * node)) (x : kctx)
  : list coords :=
  let all_loc := match k_ancestry x with (l, _) :: _ => Some l | [] => None end in
  let all_data := match all_loc with
                  | Some l => match lookup doc l with Some n => n | None => NMap (mkinfo 0 None false None) kvs end
                  | None => NMap (mkinfo 0 None false None) kvs
                  end in
  let anchors := scan_for_anchors (S (node_size all_data)) all_data [] in
  let is_ymk := match assoc_str name anchors with Some true => true | _ => false end in
  if is_ymk then
    (* no merge keys in the modelled domain: child_present = False *)
    if xor_verdict invert false then [self_coords x] else []
  else
    let present := existsb (fun kv =>
        (match get_node_anchor (fst kv) with Some a => String.eqb a name | None => false end) ||
        (match get_node_anchor (snd kv) with Some a => String.eqb a name | None => false end)) kvs in
    if xor_verdict invert present then [self_coords x] else [].

Definition has_anchored_child (invert : bool) (match_key : string) (data : node) (x : kctx)
  : outcome (list coords) :=
  let name := match match_key with String "&" r => r | _ => match_key end in
  match data with
  | NMap _ kvs => Ok (anchored_on_map invert name kvs x)
  | _ =>
      if node_is_aoh true data then
        match data with
        | NSeq _ els | NSet _ els =>
            Ok (flat_map (fun ie =>
                  let '(idx, ele) := ie in
                  let x' := mkkctx (k_here x ++ [RIdx idx]) (Some (k_here x)) (Some (RIdx idx))
                                   (k_path x ++ [RIdx idx]) (k_ancestry x ++ [(k_here x, RIdx idx)]) in
                  match ele with
                  | NMap _ kvs => anchored_on_map invert name kvs x'
                  | _ => []          (* None: continue *)
                  end) (enumerate els))
        | _ => Ok []
        end
      else
        match data with
        | NSeq _ els =>
            let present := existsb (fun e =>
                match get_node_anchor e with Some a => String.eqb a name | None => false end) els in
            Ok (if xor_verdict invert present then [self_coords x] else [])
        | _ => Ok []
        end
  end.

Definition has_child (invert : bool) (params : list string) (data : node) (x : kctx) : outcome (list coords) :=
  match params with
  | [match_key] =>
      match match_key with
      | EmptyString => has_concrete_child invert match_key data x     (* match_key.startswith("&"), fix 092bab8 *)
      | String c _ =>
          if Ascii.eqb c "&"%char then has_anchored_child invert match_key data x
          else has_concrete_child invert match_key data x
      end
  | _ => Raise (YPE Generic)
  end.

(* ---------------- name (349-399) ---------------- *)
Definition kw_name_search (invert : bool) (params : list string) (x : kctx) : outcome (list coords) :=
  if Nat.ltb 1 (List.length params) then Raise (YPE Generic)
  else if invert then Raise (YPE Generic)
  else Ok [mkcoords (RefVal (k_parentref x)) (k_parent x) (k_parentref x) (k_path x) (k_ancestry x)].

(* ---------------- max / min (402-816) ---------------- *)
Record scan := mkscan {
  s_value : pyval;               (* match_value; PNone = None *)
  s_match : list coords;         (* match_nodes *)
  s_discard : list coords        (* discard_nodes *)
}.

Definition is_pnone (v : pyval) : bool := match v with PNone => true | _ => false end.

(* the two tests on one comparable value (468-489 and the like); [None] = fell
   through to the discard statement *)
Definition scan_value (cmp : smethod) (s : scan) (eval_val : pyval) (nc : coords) : outcome (option scan) :=
  do c1 <- (if is_pnone (s_value s) then Ok true else sm cmp (s_value s) eval_val);
  if c1 then Ok (Some (mkscan eval_val [nc] (s_discard s ++ s_match s)))
  else
    do c2 <- (if is_pnone (s_value s) then Ok true else sm MEquals (s_value s) eval_val);
    if c2 then Ok (Some (mkscan (s_value s) (s_match s ++ [nc]) (s_discard s)))
    else Ok None.

Definition discard (s : scan) (nc : coords) : scan :=
  mkscan (s_value s) (s_match s) (s_discard s ++ [nc]).

Definition child_coords (x : kctx) (r : ref) : coords :=
  mkcoords (AtLoc (k_here x ++ [r])) (Some (k_here x)) (Some r) (k_path x ++ [r]) (k_ancestry x ++ [(k_here x, r)]).

(* Array-of-Hashes branch: one element *)
Definition aoh_step (cmp : smethod) (attr : string) (x : kctx) (s : scan) (ie : nat * node) : outcome scan :=
  let '(idx, ele) := ie in
  let nc := child_coords x (RIdx idx) in
  match ele with
  | NMap _ kvs =>
      match map_get kvs attr with
      | Some vn =>
          (* `scan_node in ele and ele[scan_node] is not None` *)
          if is_none_node vn then Ok (discard s nc)
          else
            do r <- scan_value cmp s (val_of_node vn) nc;
            match r with Some s' => Ok s' | None => Ok (discard s nc) end
      | None => Ok (discard s nc)
      end
  | _ => Ok (discard s nc)
  end.

(* dict branch: one (key, val) *)
Definition hoh_step (cmp : smethod) (attr : string) (data_kvs : list (node * node)) (x : kctx)
           (s : scan) (kv : node * node) : outcome scan :=
  let nc := child_coords x (key_ref (fst kv)) in
  match snd kv with
  | NMap _ kvs =>
      match map_get kvs attr with
      | Some vn =>
          (* `scan_node in ele and ele[scan_node] is not None` *)
          if is_none_node vn then Ok (discard s nc)
          else
            do r <- scan_value cmp s (val_of_node vn) nc;
            match r with Some s' => Ok s' | None => Ok (discard s nc) end
      | None => Ok (discard s nc)
      end
  | _ =>
      match map_get data_kvs attr with
      | Some _ => Raise (YPE Generic)
      | None => Ok (discard s nc)
      end
  end.

(* list branch: one element (563-593) *)
Definition list_step (cmp : smethod) (x : kctx) (s : scan) (ie : nat * node) : outcome scan :=
  let '(idx, ele) := ie in
  let nc := child_coords x (RIdx idx) in
  if is_none_node ele then Ok (discard s nc)
  else
    let v := val_of_node ele in
    do c1 <- (if is_pnone (s_value s) then Ok true else sm cmp (s_value s) v);
    if c1 then Ok (mkscan v [nc] (s_discard s ++ s_match s))
    else
      do c2 <- sm MEquals (s_value s) v;
      if c2 then Ok (mkscan (s_value s) (s_match s ++ [nc]) (s_discard s))
      else Ok (discard s nc).

Definition scan0 := mkscan PNone [] [].

Definition extremum (cmp : smethod) (invert : bool) (params : list string) (data : node) (x : kctx)
  : outcome (list coords) :=
  if Nat.ltb 1 (List.length params) then Raise (YPE Generic)
  else
    let scan_node := match params with p :: _ => Some p | [] => None end in
    do s <-
      (if node_is_aoh true data then
         match scan_node with
         | None => Raise (YPE Generic)
         | Some attr =>
             match data with
             | NSeq _ els | NSet _ els => foldM (aoh_step cmp attr x) (enumerate els) scan0
             | _ => Ok scan0
             end
         end
       else
         match data with
         | NMap _ kvs =>
             match scan_node with
             | None => Raise (YPE Generic)
             | Some attr => foldM (hoh_step cmp attr kvs x) kvs scan0
             end
         | NSeq _ els =>
             match scan_node with
             | Some _ => Raise (YPE Generic)
             | None => foldM (list_step cmp x) (enumerate els) scan0
             end
         | _ => Ok (mkscan (val_of_node data) [self_coords x] [])
         end);
    Ok (if invert then s_discard s else s_match s).

Definition kw_max := extremum MGt.
Definition kw_min := extremum MLt.

(* ---------------- parent (819-909) ---------------- *)
Fixpoint climb (n : nat) (here : loc) (path : list ref) (anc : list (loc * ref))
  : outcome (loc * list ref * list (loc * ref)) :=
  match n with
  | O => Ok (here, path, anc)
  | S k =>
      match path with
      | [] => Raise (YPE Generic)                 (* translated_path.pop() on an empty path *)
      | _ =>
          match rev anc with
          | [] => Raise (PyCrash IndexError)      (* ancestry.pop() on [] *)
          | (l, _) :: ranc => climb k l (removelast path) (rev ranc)
          end
      end
  end.

Definition kw_parent (invert : bool) (params : list string) (x : kctx) : outcome (list coords) :=
  if Nat.ltb 1 (List.length params) then Raise (YPE Generic)
  else if invert then Raise (YPE Generic)
  else
    do levels <-
      match params with
      | p :: _ => match py_int p with Some z => Ok z | None => Raise (YPE Generic) end
      | [] => Ok 1%Z
      end;
    let steps_max := Z.of_nat (List.length (k_ancestry x)) in
    if Z.ltb steps_max levels then Raise (YPE Generic)
    else if Z.ltb levels 1 then Ok [self_coords x]
    else
      do r <- climb (Z.to_nat levels) (k_here x) (k_path x) (k_ancestry x);
      let '(here, path, anc) := r in
      let last_entry := match rev anc with e :: _ => Some e | [] => None end in
      Ok [mkcoords (AtLoc here)
                   (match last_entry with Some (l, _) => Some l | None => None end)
                   (match last_entry with Some (_, r) => Some r | None => None end)
                   path anc].

(* ---------------- distinct / unique (912-1237) ---------------- *)
(* seen_values: a dict keyed by value = association list under Python ==,
   in insertion order; containers are unhashable *)
Definition seen := list (pyval * list coords).

Fixpoint seen_add (v : pyval) (nc : coords) (s : seen) : seen :=
  match s with
  | [] => [(v, [nc])]
  | (k, l) :: r => if py_eq k v then (k, l ++ [nc]) :: r else (k, l) :: seen_add v nc r
  end.

(* KeywordSearches._group_by_value: `eval_val in seen_values` on a Hash, Array
   or Set raises TypeError (unhashable), which is reported as a
   YAMLPathException *)
Definition hashable_val (n : node) : outcome pyval :=
  match n with
  | NLeaf _ v => Ok v
  | _ => Raise (YPE Generic)
  end.

Definition group_values (params : list string) (data : node) (x : kctx) : outcome seen :=
  let scan_node := match params with p :: _ => Some p | [] => None end in
  if node_is_aoh true data then
    match scan_node with
    | None => Raise (YPE Generic)
    | Some attr =>
        match data with
        | NSeq _ els | NSet _ els =>
            foldM (fun (s : seen) (ie : nat * node) =>
                     let '(idx, ele) := ie in
                     match ele with
                     | NMap _ kvs =>
                         match map_get kvs attr with
                         | Some vn => do v <- hashable_val vn; Ok (seen_add v (child_coords x (RIdx idx)) s)
                         | None => Ok s
                         end
                     | _ => Ok s
                     end) (enumerate els) []
        | _ => Ok []
        end
    end
  else
    match data with
    | NMap _ kvs =>
        match scan_node with
        | None => Raise (YPE Generic)
        | Some attr =>
            foldM (fun (s : seen) (kv : node * node) =>
                     match snd kv with
                     | NMap _ ckvs =>
                         match map_get ckvs attr with
                         | Some vn => do v <- hashable_val vn; Ok (seen_add v (child_coords x (key_ref (fst kv))) s)
                         | None => Ok s
                         end
                     | _ =>
                         match map_get kvs attr with
                         | Some _ => Raise (YPE Generic)
                         | None => Ok s
                         end
                     end) kvs []
        end
    | NSeq _ els =>
        match scan_node with
        | Some _ => Raise (YPE Generic)
        | None =>
            foldM (fun (s : seen) (ie : nat * node) =>
                     let '(idx, ele) := ie in
                     do v <- hashable_val ele; Ok (seen_add v (child_coords x (RIdx idx)) s))
                  (enumerate els) []
        end
    | _ => do v <- hashable_val data; Ok [(v, [self_coords x])]
    end.

Definition kw_distinct (invert : bool) (params : list string) (data : node) (x : kctx) : outcome (list coords) :=
  if invert then Raise (YPE Generic)
  else if Nat.ltb 1 (List.length params) then Raise (YPE Generic)
  else
    do s <- group_values params data x;
    Ok (flat_map (fun g => match snd g with nc :: _ => [nc] | [] => [] end) s).

Definition kw_unique (invert : bool) (params : list string) (data : node) (x : kctx) : outcome (list coords) :=
  if Nat.ltb 1 (List.length params) then Raise (YPE Generic)
  else
    do s <- group_values params data x;
    Ok (flat_map (fun g =>
          let n := List.length (snd g) in
          if invert then (if Nat.ltb 1 n then snd g else [])
          else (if Nat.eqb n 1 then snd g else [])) s).

(* ---------------- KeywordSearches.search_matches (25-90) ---------------- *)
Definition keyword_search (invert : bool) (kw : keyword) (raw_params : string) (x : kctx)
  : outcome (list coords) :=
  (* 47-56: terms.parameters splits the text on first use; its ValueError
     (unmatched quote) becomes a YAMLPathException *)
  do params <- match keyword_parameters raw_params with
               | Raise (PyCrash ValueError) => Raise (YPE Generic)
               | o => o
               end;
  do data <- node_at (k_here x);
  match kw with
  | KDistinct => kw_distinct invert params data x
  | KHasChild => has_child invert params data x
  | KName => kw_name_search invert params x
  | KMax => kw_max invert params data x
  | KMin => kw_min invert params data x
  | KParent => kw_parent invert params x
  | KUnique => kw_unique invert params data x
  end.

End Oracles.
