(* Model of the node-construction branch of Processor._get_optional_nodes
   (processor.py 2463-2618 in the original numbering) for straight paths of
   keys and indexes, with Nodes.build_next_node, Nodes.append_list_element
   padding and Nodes.wrap_type (nodes.py 405-514), followed by set_value's
   _apply_change on the coordinate it yields.

   The existing prefix is walked by the straight-line key / index lookups
   (_get_nodes_by_key on a dict, _get_nodes_by_index / bare integer key on a
   list); Array-of-Hashes pass-through, searches, wildcards, anchors and
   Collectors are outside this model (the generators avoid them).
   No proofs in this file. *)
From Coq Require Import List Ascii String ZArith NArith QArith Bool.
From YP Require Import Outcome PyStr PyVal Doc Searches Mutate.
Import ListNotations.
Open Scope string_scope.
Open Scope list_scope.

(* one escaped path segment: (KEY, text) with the identity of the text object
   when the document already holds that object (interned one-character
   strings), or (INDEX, int) *)
Inductive seg := SKey (k : string) (ko : option N) | SIdx (z : Z).

Section Create.
Variable lit : string -> outcome litres.
Variable fl : string -> outcome flres.

(* Nodes.wrap_type(value) *)
Definition wrap_type (value : pyval) (fresh vo : N) : res node :=
  rbind (of_outcome (typed_value lit value)) (fun ast =>
  let wrapped v := ROk (NLeaf (mkinfo fresh None true None) v) in
  let bare := ROk (NLeaf (mkinfo vo None false None) value) in
  match ast with
  | PStr _ => match value with PStr s => wrapped (PStr s) | _ => bare end          (* PlainScalarString(value) *)
  | PInt _ =>
      match value with
      | PStr s => match py_int s with Some z => wrapped (PInt z) | None => RErr (PyCrash ValueError) end   (* ScalarInt("0x10") *)
      | PInt z => wrapped (PInt z)
      | _ => bare
      end
  | PFloat _ _ => wrapped ast                                                       (* make_float_node(ast_value) *)
  | PBool _ =>
      match value with
      | PBool b => ROk (NLeaf (mkinfo fresh None true (Some sbool_tag)) (PInt (Z_of_bool b)))   (* ScalarBoolean(bool(value)) *)
      | PStr s => ROk (NLeaf (mkinfo fresh None true (Some sbool_tag)) (PInt (if nonempty s then 1%Z else 0%Z)))   (* ScalarBoolean(bool("false")) is True *)
      | _ => bare
      end
  | PNone => bare
  | POther t =>
      if first_char_is "{"%char t then RErr (PyCrash ValueError)                    (* CommentedMap("{..}") *)
      else if first_char_is "["%char t then RErr (PyCrash NotImplemented)           (* CommentedSeq(text): not modelled *)
      else bare
  end).

(* Nodes.build_next_node(yaml_path, depth + 1, value): an empty container of the
   kind the NEXT segment needs, or the wrapped value for the last segment *)
Definition build_next (rest : list seg) (value : pyval) (fresh vo : N) : res node :=
  match rest with
  | [] => wrap_type value fresh vo
  | SIdx _ :: _ => ROk (NSeq (mkinfo fresh None true None) [])
  | SKey _ _ :: _ => ROk (NMap (mkinfo fresh None true None) [])
  end.

Definition key_leaf (k : string) (ko : option N) (fresh : N) : node :=
  NLeaf (mkinfo (match ko with Some o => o | None => fresh end) None false None) (PStr k).

(* n freshly built next nodes (the padding loop `for _ in range(len(data) - 1, newidx)`) *)
Fixpoint pads (n : nat) (rest : list seg) (value : pyval) (next vo : N) : res (list node * N) :=
  match n with
  | O => ROk ([], next)
  | S m => rbind (build_next rest value next vo) (fun x =>
           rbind (pads m rest value (N.succ next) vo) (fun r => ROk (x :: fst r, snd r)))
  end.

Definition last_and_init {A} (l : list A) : option (list A * A) :=
  match rev l with [] => None | x :: r => Some (rev r, x) end.

(* the construction branch, from the node [cur] on (cur has no child for the
   first of [segs]); returns the grown node, the coordinate finally yielded
   and the next unused identity.  [pc] is cur's own coordinate. *)
Fixpoint grow (segs : list seg) (cur : node) (pc : pcoord) (next vo : N) (value : pyval)
  : res (node * pcoord * N) :=
  match segs with
  | [] => ROk (cur, pc, next)
  | s :: rest =>
      match cur with
      | NSeq i els =>
          let zidx := match s with
                      | SIdx z => Some z
                      | SKey k _ => py_int k
                      end in
          match zidx with
          | None => RErr (YPE TypeMismatch)                 (* Cannot add non-integer KEY subreference to lists *)
          | Some z =>
              let n := Z.to_nat (z - Z.of_nat (List.length els) + 1) in
              rbind (pads n rest value next vo) (fun pr =>
              match last_and_init (fst pr) with
              | None => RErr (PyCrash IndexError)
              | Some (init, lastn) =>
                  rbind (grow rest lastn (mkpc (Some (oid i)) (PInt z)) (snd pr) vo value) (fun g =>
                  ROk (NSeq i (els ++ init ++ [fst (fst g)]), snd (fst g), snd g))
              end)
          end
      | NMap i kvs =>
          match s with
          | SIdx _ => RErr (YPE Generic)                    (* Cannot add INDEX subreference to dictionaries *)
          | SKey k ko =>
              rbind (build_next rest value next vo) (fun child =>
              rbind (grow rest child (mkpc (Some (oid i)) (PStr k)) (N.succ (N.succ next)) vo value) (fun g =>
              ROk (NMap i (kvs ++ [(key_leaf k ko (N.succ next), fst (fst g))]), snd (fst g), snd g)))
          end
      | NSet i els =>
          match s with
          | SKey k ko =>
              (* data.add(stripped_attrs); the SET's own coordinate is yielded, whatever follows *)
              ROk (NSet i (if existsb (member_is (PStr k)) els then els else els ++ [key_leaf k ko next]), pc, N.succ next)
          | SIdx _ => RErr (YPE Generic)
          end
      | NLeaf _ _ => RErr (YPE Generic)                      (* Cannot add ... subreference to scalars *)
      end
  end.

(* Nodes.require_buildable_path (nodes.py; fix 45f1b07) on a straight path: beneath
   an element that does not exist only Hash keys and NON-NEGATIVE Array indexes
   can be built; the walk asks before it builds anything *)
Definition straight_buildable (s : seg) : bool :=
  match s with SKey _ _ => true | SIdx z => (0 <=? z)%Z end.

(* could the Array-of-Hashes pass-through find key k below this node? *)
Fixpoint aoh_has (k : string) (n : node) : bool :=
  match n with
  | NLeaf _ _ => false
  | NMap _ kvs => existsb (key_is (PStr k)) kvs
  | NSeq _ els => existsb (aoh_has k) els
  | NSet _ els => existsb (member_is (PStr k)) els
  end.

(* replace the container object o by n' wherever the document holds it *)
Definition put_obj (o : N) (n' : node) (d : node) : node :=
  match app_obj o (fun _ => ROk n') d with ROk d' => d' | RErr _ => d end.

(* `parent[parentref] = data` for the child the segment s found in cur: the
   entry of the first equal key keeps its place / the element at the
   (normalised) index is replaced *)
Fixpoint put_key (k : pyval) (v : node) (kvs : list (node * node)) : list (node * node) :=
  match kvs with
  | [] => []
  | kv :: r => if key_is k kv then (fst kv, v) :: r else kv :: put_key k v r
  end.

Fixpoint put_nth (n : nat) (v : node) (els : list node) : list node :=
  match els, n with
  | [], _ => []
  | _ :: r, O => v :: r
  | x :: r, S m => x :: put_nth m v r
  end.

Definition null_put (cur : node) (s : seg) (v : node) : node :=
  match cur with
  | NMap i kvs => match s with SKey k _ => NMap i (put_key (PStr k) v kvs) | SIdx _ => cur end
  | NSeq i els =>
      match (match s with SIdx z => Some z | SKey k _ => py_int k end) with
      | Some z =>
          let len := Z.of_nat (List.length els) in
          NSeq i (put_nth (Z.to_nat (if (0 <=? z)%Z then z else z + len)) v els)
      | None => cur
      end
  | _ => cur
  end.

(* _get_optional_nodes along a straight path: walk what exists, build the rest.
   Returns the new document, the yielded coordinate, the next identity. *)
Fixpoint walk (segs : list seg) (cur : node) (pc : pcoord) (d : node) (next vo : N) (value : pyval)
  : res (node * pcoord * N) :=
  match segs with
  | [] => ROk (d, pc, next)
  | s :: rest =>
      let found : res (option (node * pcoord)) :=
        match cur, s with
        | NMap i kvs, SKey k _ =>
            ROk (match find (key_is (PStr k)) kvs with
                 | Some kv => Some (snd kv, mkpc (Some (oid i)) (PStr k))
                 | None => None
                 end)
        | NMap _ _, SIdx _ => ROk None
        | NSeq i els, _ =>
            match (match s with SIdx z => Some z | SKey k _ => py_int k end) with
            | None =>
                (* a non-integer key on a list searches the elements (Array-of-Hashes pass-through): modelled only
                   when no element can match, i.e. nothing is found *)
                match s with
                | SKey k _ => if aoh_has k cur then RErr (PyCrash NotImplemented) else ROk None
                | SIdx _ => ROk None
                end
            | Some z =>
                let len := Z.of_nat (List.length els) in
                if (z <? len)%Z then
                  if (0 <=? z)%Z then
                    ROk (match nth_error els (Z.to_nat z) with Some x => Some (x, mkpc (Some (oid i)) (PInt z)) | None => None end)
                  else if (0 <=? z + len)%Z then
                    ROk (match nth_error els (Z.to_nat (z + len)) with Some x => Some (x, mkpc (Some (oid i)) (PInt z)) | None => None end)
                  else RErr (PyCrash IndexError)
                else ROk None
            end
        | NSet i els, SKey k _ =>
            ROk (match find (member_is (PStr k)) els with
                 | Some m => Some (m, mkpc (Some (oid i)) (PStr k))
                 | None => None
                 end)
        | NSet _ _, SIdx _ => RErr (YPE Generic)            (* Array indexing is invalid against unordered set data *)
        | NLeaf _ _, _ => ROk None
        end in
      rbind found (fun f =>
      match f with
      | Some (child, cpc) =>
          match child, rest with
          | NLeaf _ PNone, _ :: _ =>
              (* (fix 09e1e7a; the walk used to stop here: `if next_coord.node is None: yield next_coord; continue`)
                 no key / index segment finds anything in None; the missing-element block replaces a null that is
                 the child of a dict / list by the container the segment needs - data =
                 Nodes.build_next_node(yaml_path, depth, value); parent[parentref] = data - and builds the tail
                 in it; (fix 45f1b07) first of all Nodes.require_buildable_path(yaml_path, depth): the null is
                 left alone when the tail cannot be built *)
              if negb (forallb straight_buildable rest) then RErr (YPE Generic) else
              match cur with
              | NMap _ _ | NSeq _ _ =>
                  rbind (build_next rest value next vo) (fun cont =>
                  rbind (grow rest cont cpc (N.succ next) vo value) (fun g =>
                  match coid cur with
                  | Some o => ROk (put_obj o (null_put cur s (fst (fst g))) d, snd (fst g), snd g)
                  | None => RErr (YPE Generic)
                  end))
              | _ => RErr (YPE Generic)                     (* Cannot add ... subreference to scalars *)
              end
          | _, _ => walk rest child cpc d next vo value
          end
      | None =>
          (* (fix 45f1b07) Nodes.require_buildable_path(yaml_path, depth + 1), before anything is built *)
          if negb (forallb straight_buildable rest) then RErr (YPE Generic) else
          rbind (grow segs cur pc next vo value) (fun g =>
          match coid cur with
          | Some o => ROk (put_obj o (fst (fst g)) d, snd (fst g), snd g)
          | None => RErr (YPE Generic)
          end)
      end)
  end.

(* Processor.get_nodes(path, mustexist=False, default_value=value): the document afterwards *)
Definition create_query (segs : list seg) (value : pyval) (vo : option N) (d : node) : res (node * pcoord * N) :=
  let next := N.succ (max_oid d) in
  let '(vo', next') := match vo with Some o => (o, next) | None => (next, N.succ next) end in
  walk segs d (mkpc None PNone) d next' vo' value.

(* Processor.set_value(path, value, mustexist=False, value_format=fmt) *)
Definition create_set (segs : list seg) (value : pyval) (fmt : vformat) (vo : option N) (d : node) : sfinal :=
  let next := N.succ (max_oid d) in
  let '(vo', next') := match vo with Some o => (o, next) | None => (next, N.succ next) end in
  match walk segs d (mkpc None PNone) d next' vo' value with
  | RErr e => SFailed (d, next') e
  | ROk (d1, pc, next1) => run_actions lit fl value vo' [mkact pc false fmt] (d1, next1)
  end.

End Create.
