(* Model of yamlpath/yamlpath.py: YAMLPath._parse_path, _expand_splats, the
   `original` setter, separator inference, and SearchKeywordTerms.parameters.

   The Python for-loop body is an if/elif chain; it is modelled literally as a
   rule list in source order.  Every Python operation that can raise is an
   outcome: list.pop() / list[-1] on an empty list is PyCrash IndexError,
   int() failure is wrapped into TypeMismatch exactly where the code wraps it,
   PathSearchKeywords[...] on an unknown name is PyCrash KeyError. *)
From Coq Require Import List Ascii String ZArith Bool Arith.
From YP Require Import Outcome PyStr Generated.
Import ListNotations.
Open Scope string_scope.
Open Scope nat_scope.

Inductive sep := Dot | Slash.
Inductive sepmode := Auto | Forced (s : sep).
Inductive smethod := MContains | MEndsWith | MEquals | MStartsWith | MGt | MLt | MGe | MLe | MRegex.
Inductive keyword := KDistinct | KHasChild | KName | KMax | KMin | KParent | KUnique.
Inductive cop := CNone | CAdd | CSub | CAnd.
Inductive segtype := TAnchor | TCollector | TIndex | TKey | TSearch | TTraverse
                   | TKeywordSearch | TMatchAll.

Inductive attrs :=
  | AStr (s : string)
  | AInt (z : Z)
  | ANone
  | ASearch (inv : bool) (m : smethod) (attr term : string)
  | AKeyword (inv : bool) (k : keyword) (params : string)
  | ACollector (op : cop) (expr : string).

Definition seg : Type := option segtype * attrs.

Definition sep_char (s : sep) : ascii :=
  match s with Dot => "."%char | Slash => "/"%char end.

(* ---- enum names, tied to the regenerated tables ---- *)
Definition kw_name (k : keyword) : string :=
  match k with
  | KDistinct => "DISTINCT" | KHasChild => "HAS_CHILD" | KName => "NAME" | KMax => "MAX"
  | KMin => "MIN" | KParent => "PARENT" | KUnique => "UNIQUE"
  end.
Definition all_keywords := [KDistinct; KHasChild; KName; KMax; KMin; KParent; KUnique].

Definition method_name (m : smethod) : string :=
  match m with
  | MContains => "CONTAINS" | MEndsWith => "ENDS_WITH" | MEquals => "EQUALS"
  | MStartsWith => "STARTS_WITH" | MGt => "GREATER_THAN" | MLt => "LESS_THAN"
  | MGe => "GREATER_THAN_OR_EQUAL" | MLe => "LESS_THAN_OR_EQUAL" | MRegex => "REGEX"
  end.
Definition all_methods := [MContains; MEndsWith; MEquals; MStartsWith; MGt; MLt; MGe; MLe; MRegex].

Definition cop_name (c : cop) : string :=
  match c with CNone => "NONE" | CAdd => "ADDITION" | CSub => "SUBTRACTION" | CAnd => "INTERSECTION" end.

Fixpoint assoc (k : string) (l : list (string * string)) : option string :=
  match l with
  | [] => None
  | (a, b) :: r => if String.eqb k a then Some b else assoc k r
  end.

Definition assoc_default (k : string) (l : list (string * string)) : string :=
  match assoc k l with Some v => v | None => "" end.

(* str(enum member) as the source defines it today *)
Definition method_str (m : smethod) : string := assoc_default (method_name m) g_search_methods.
Definition kw_str (k : keyword) : string := assoc_default (kw_name k) g_search_keywords.
Definition cop_str (c : cop) : string := assoc_default (cop_name c) g_collector_ops.

(* PathSearchKeywords[NAME]: member lookup by enum name; None = KeyError *)
Definition keyword_of_name (n : string) : option keyword :=
  match assoc n g_search_keywords with
  | None => None
  | Some _ => find (fun k => String.eqb (kw_name k) n) all_keywords
  end.

(* PathSearchKeywords.is_keyword *)
Definition is_keyword (s : string) : bool := mem_string s g_keywords_list.

(* ---- parser state: the locals of _parse_path ---- *)
Record pst := mkpst {
  segs : list seg;
  sid : string;                   (* segment_id *)
  stype : option segtype;         (* segment_type *)
  stack : list ascii;             (* demarc_stack, head = top *)
  esc : bool;                     (* escape_next *)
  sinv : bool;                    (* search_inverted *)
  smeth : option smethod;         (* search_method *)
  sattr : string;                 (* search_attr *)
  skw : option keyword;           (* search_keyword *)
  seek_re : bool;                 (* seeking_regex_delim *)
  cap_re : bool;                  (* capturing_regex *)
  clevel : nat;                   (* collector_level *)
  copr : cop;                     (* collector_operator *)
  seek_cop : bool;                (* seeking_collector_operator *)
  ncmb : option ascii;            (* next_char_must_be *)
  seek_anchor : bool;             (* seeking_anchor_mark *)
  dcount : nat;                   (* demarc_count (a separately tracked local) *)
  tdem : bool                     (* search_term_demarcated (since the fix of F21) *)
}.

Definition init_pst (seek_anchor0 : bool) : pst :=
  mkpst [] "" None [] false false None "" None false false 0 CNone false None seek_anchor0 0 false.

(* record updates, one per field actually assigned *)
Definition set_segs v s := mkpst v (sid s) (stype s) (stack s) (esc s) (sinv s) (smeth s) (sattr s) (skw s) (seek_re s) (cap_re s) (clevel s) (copr s) (seek_cop s) (ncmb s) (seek_anchor s) (dcount s) (tdem s).
Definition set_sid v s := mkpst (segs s) v (stype s) (stack s) (esc s) (sinv s) (smeth s) (sattr s) (skw s) (seek_re s) (cap_re s) (clevel s) (copr s) (seek_cop s) (ncmb s) (seek_anchor s) (dcount s) (tdem s).
Definition set_stype v s := mkpst (segs s) (sid s) v (stack s) (esc s) (sinv s) (smeth s) (sattr s) (skw s) (seek_re s) (cap_re s) (clevel s) (copr s) (seek_cop s) (ncmb s) (seek_anchor s) (dcount s) (tdem s).
Definition set_stack v n s := mkpst (segs s) (sid s) (stype s) v (esc s) (sinv s) (smeth s) (sattr s) (skw s) (seek_re s) (cap_re s) (clevel s) (copr s) (seek_cop s) (ncmb s) (seek_anchor s) n (tdem s).
Definition set_esc v s := mkpst (segs s) (sid s) (stype s) (stack s) v (sinv s) (smeth s) (sattr s) (skw s) (seek_re s) (cap_re s) (clevel s) (copr s) (seek_cop s) (ncmb s) (seek_anchor s) (dcount s) (tdem s).
Definition set_sinv v s := mkpst (segs s) (sid s) (stype s) (stack s) (esc s) v (smeth s) (sattr s) (skw s) (seek_re s) (cap_re s) (clevel s) (copr s) (seek_cop s) (ncmb s) (seek_anchor s) (dcount s) (tdem s).
Definition set_smeth v s := mkpst (segs s) (sid s) (stype s) (stack s) (esc s) (sinv s) v (sattr s) (skw s) (seek_re s) (cap_re s) (clevel s) (copr s) (seek_cop s) (ncmb s) (seek_anchor s) (dcount s) (tdem s).
Definition set_sattr v s := mkpst (segs s) (sid s) (stype s) (stack s) (esc s) (sinv s) (smeth s) v (skw s) (seek_re s) (cap_re s) (clevel s) (copr s) (seek_cop s) (ncmb s) (seek_anchor s) (dcount s) (tdem s).
Definition set_skw v s := mkpst (segs s) (sid s) (stype s) (stack s) (esc s) (sinv s) (smeth s) (sattr s) v (seek_re s) (cap_re s) (clevel s) (copr s) (seek_cop s) (ncmb s) (seek_anchor s) (dcount s) (tdem s).
Definition set_seek_re v s := mkpst (segs s) (sid s) (stype s) (stack s) (esc s) (sinv s) (smeth s) (sattr s) (skw s) v (cap_re s) (clevel s) (copr s) (seek_cop s) (ncmb s) (seek_anchor s) (dcount s) (tdem s).
Definition set_cap_re v s := mkpst (segs s) (sid s) (stype s) (stack s) (esc s) (sinv s) (smeth s) (sattr s) (skw s) (seek_re s) v (clevel s) (copr s) (seek_cop s) (ncmb s) (seek_anchor s) (dcount s) (tdem s).
Definition set_clevel v s := mkpst (segs s) (sid s) (stype s) (stack s) (esc s) (sinv s) (smeth s) (sattr s) (skw s) (seek_re s) (cap_re s) v (copr s) (seek_cop s) (ncmb s) (seek_anchor s) (dcount s) (tdem s).
Definition set_copr v s := mkpst (segs s) (sid s) (stype s) (stack s) (esc s) (sinv s) (smeth s) (sattr s) (skw s) (seek_re s) (cap_re s) (clevel s) v (seek_cop s) (ncmb s) (seek_anchor s) (dcount s) (tdem s).
Definition set_seek_cop v s := mkpst (segs s) (sid s) (stype s) (stack s) (esc s) (sinv s) (smeth s) (sattr s) (skw s) (seek_re s) (cap_re s) (clevel s) (copr s) v (ncmb s) (seek_anchor s) (dcount s) (tdem s).
Definition set_ncmb v s := mkpst (segs s) (sid s) (stype s) (stack s) (esc s) (sinv s) (smeth s) (sattr s) (skw s) (seek_re s) (cap_re s) (clevel s) (copr s) (seek_cop s) v (seek_anchor s) (dcount s) (tdem s).
Definition set_seek_anchor v s := mkpst (segs s) (sid s) (stype s) (stack s) (esc s) (sinv s) (smeth s) (sattr s) (skw s) (seek_re s) (cap_re s) (clevel s) (copr s) (seek_cop s) (ncmb s) v (dcount s) (tdem s).
Definition set_dcount v s := mkpst (segs s) (sid s) (stype s) (stack s) (esc s) (sinv s) (smeth s) (sattr s) (skw s) (seek_re s) (cap_re s) (clevel s) (copr s) (seek_cop s) (ncmb s) (seek_anchor s) v (tdem s).
Definition set_tdem v s := mkpst (segs s) (sid s) (stype s) (stack s) (esc s) (sinv s) (smeth s) (sattr s) (skw s) (seek_re s) (cap_re s) (clevel s) (copr s) (seek_cop s) (ncmb s) (seek_anchor s) (dcount s) v.

(* demarc_stack.append(c); demarc_count += 1 *)
Definition push (c : ascii) (s : pst) : pst := set_stack (c :: stack s) (S (dcount s)) s.

(* demarc_stack.pop(); demarc_count -= 1   -- IndexError on an empty list.
   demarc_count is a plain int in Python, so "-= 1" below zero is not an
   error; it cannot go below zero here because pop raises first. *)
Definition pop (s : pst) : outcome pst :=
  match stack s with
  | [] => Raise (PyCrash IndexError)
  | _ :: r => Ok (set_stack r (pred (dcount s)) s)
  end.

(* demarc_stack.pop() WITHOUT the count update (regex close) *)
Definition pop_nocount (s : pst) : outcome pst :=
  match stack s with
  | [] => Raise (PyCrash IndexError)
  | _ :: r => Ok (set_stack r (dcount s) s)
  end.

(* demarc_stack[-1] *)
Definition top (s : pst) : outcome ascii :=
  match stack s with
  | [] => Raise (PyCrash IndexError)
  | c :: _ => Ok c
  end.

Definition top_is (c : ascii) (s : pst) : outcome bool :=
  do t <- top s; Ok (Ascii.eqb t c).

(* demarc_stack[0]: the OUTERMOST open demarcation (the list's head is the top) *)
Fixpoint bottom_of (l : list ascii) : outcome ascii :=
  match l with
  | [] => Raise (PyCrash IndexError)
  | [c] => Ok c
  | _ :: r => bottom_of r
  end.

(* ---- _expand_splats ---- *)
Definition star : ascii := "*"%char.

(* the multi-wildcard loop: "^" + chars with * -> .* ; two adjacent * raise *)
Fixpoint splat_regex (s : string) (was_splat : bool) (acc : string) : outcome string :=
  match s with
  | EmptyString => Ok (acc ++ "$")
  | String c r =>
      if Ascii.eqb c star then
        if was_splat then Raise (YPE Generic)
        else splat_regex r true (acc ++ ".*")
      else splat_regex r false (snoc acc c)
  end.

Definition expand_splats (id : string) (ty : option segtype) : outcome seg :=
  if str_in star id then
    let cnt := count_char star id in
    let pos := index_char star id in
    let len := String.length id in
    if cnt =? 1 then
      if len =? 1 then Ok (Some TMatchAll, ANone)
      else if pos =? 0 then Ok (Some TSearch, ASearch false MEndsWith "." (drop 1 id))
      else if pos =? len - 1 then Ok (Some TSearch, ASearch false MStartsWith "." (take pos id))
      else Ok (Some TSearch,
               ASearch false MRegex "." ("^" ++ take pos id ++ ".*" ++ drop (S pos) id ++ "$"))
    else if (cnt =? 2) && (len =? 2) then Ok (Some TTraverse, ANone)
    else if 1 <? cnt then
      do t <- splat_regex id false "^"; Ok (Some TSearch, ASearch false MRegex "." t)
    else Ok (ty, AStr id)
  else Ok (ty, AStr id).

Definition key_if_none (t : option segtype) : option segtype :=
  match t with None => Some TKey | Some _ => t end.

(* "if segment_id: (type None -> KEY); path_segments.append(_expand_splats(...));
    segment_id = ''"  -- shared by the '(' , '[' and separator rules *)
Definition flush_expand (s : pst) : outcome pst :=
  if nonempty (sid s) then
    let ty := key_if_none (stype s) in
    do sg <- expand_splats (sid s) ty;
    Ok (set_sid "" (set_stype ty (set_segs ((segs s ++ [sg])%list) s)))
  else Ok s.

(* ---- the rule list ---- *)
Record rule := mkrule {
  guard : pst -> ascii -> outcome bool;
  act : pst -> ascii -> outcome (pst * bool)   (* bool: true = `continue` *)
}.

Definition gtrue (b : bool) : outcome bool := Ok b.
Definition cont (s : pst) : outcome (pst * bool) := Ok (s, true).
Definition fall (s : pst) : outcome (pst * bool) := Ok (s, false).

Definition segtype_eqb (a b : segtype) : bool :=
  match a, b with
  | TAnchor, TAnchor | TCollector, TCollector | TIndex, TIndex | TKey, TKey
  | TSearch, TSearch | TTraverse, TTraverse | TKeywordSearch, TKeywordSearch
  | TMatchAll, TMatchAll => true
  | _, _ => false
  end.

(* segment_type is T *)
Definition is_stype (t : segtype) (o : option segtype) : bool :=
  match o with Some u => segtype_eqb t u | None => false end.

Section Rules.
Variable strip : bool.
Variable sepc : ascii.

(* 1 *) Definition r_escape_next := mkrule
  (fun s _ => Ok (esc s))
  (fun s _ => fall (set_esc false s)).

(* 2 *) Definition r_capturing_regex := mkrule
  (fun s _ => Ok (cap_re s))
  (fun s c =>
     do t <- top s;
     if Ascii.eqb c t then
       do s' <- pop_nocount (set_cap_re false s); cont s'
     else fall s).

(* 3 *) Definition r_backslash := mkrule
  (fun _ c => Ok (Ascii.eqb c "\"%char))
  (fun s _ => let s' := set_esc true s in if strip then cont s' else fall s').

(* 4 *) Definition r_space := mkrule
  (fun s c =>
     if Ascii.eqb c " "%char then
       if dcount s <? 1 then Ok true
       else do t <- top s; Ok (negb (mem_ascii t g_space_quote_chars))
     else Ok false)
  (fun s _ => cont s).

(* 5 *) Definition r_regex_delim := mkrule
  (fun s _ => Ok (seek_re s))
  (fun s c => cont (push c (set_cap_re true (set_seek_re false s)))).

(* 6 *) Definition r_anchor_mark := mkrule
  (fun s c => Ok (seek_anchor s && Ascii.eqb c "&"%char))
  (fun s _ => cont (set_stype (Some TAnchor) (set_seek_anchor false s))).

(* 7 *) Definition r_collector_operator := mkrule
  (fun s c => Ok (seek_cop s && mem_ascii c g_collector_op_chars))
  (fun s c =>
     let s1 := set_ncmb (Some "("%char) (set_seek_cop false s) in
     let s2 := if Ascii.eqb c "+"%char then set_copr CAdd s1
               else if Ascii.eqb c "-"%char then set_copr CSub s1
               else if Ascii.eqb c "&"%char then set_copr CAnd s1
               else s1 in
     cont s2).

(* 8 *) Definition r_must_be := mkrule
  (fun s c => Ok (match ncmb s with Some m => negb (Ascii.eqb c m) | None => false end))
  (fun _ _ => Raise (YPE Generic)).

(* 9 *) Definition r_quote := mkrule
  (fun _ c => Ok (mem_ascii c g_quote_chars))
  (fun s c =>
     if 0 <? dcount s then
       do t <- top s;
       if Ascii.eqb c t then
         do s1 <- pop s;
         if dcount s1 <? 1 then
           let s2 := if nonempty (sid s1)
                     then let ty := key_if_none (stype s1) in
                          set_segs (segs s1 ++ [(ty, AStr (sid s1))])%list s1
                     else s1 in
           cont (set_stype None (set_sid "" s2))
         else fall s1
       else
         (* since the fix of F21: a quote that OPENS the term of a search
            (method known, nothing accumulated yet) demarcates it *)
         fall (push c (if (match smeth s with Some _ => true | None => false end) && negb (nonempty (sid s))
                       then set_tdem true s else s))
     else cont (push c s)).

(* 10 *) Definition r_open_paren := mkrule
  (fun _ c => Ok (Ascii.eqb c "("%char))
  (fun s c =>
     do in_bracket <-
        (if dcount s =? 1 then do t <- top s; Ok (Ascii.eqb t "["%char && nonempty (sid s))
         else Ok false);
     if in_bracket then
       if is_keyword (sid s) then
         match keyword_of_name (upper_str (sid s)) with
         | Some k =>
             cont (set_sid "" (set_skw (Some k) (set_stype (Some TKeywordSearch) (push c s))))
         | None => Raise (PyCrash KeyError)
         end
       else Raise (YPE Generic)
     else
       (* since the fix of F30: no collector inside a [...] segment *)
       do in_segment <-
          (if 0 <? dcount s then do b <- bottom_of (stack s); Ok (Ascii.eqb b "["%char)
           else Ok false);
       if in_segment then Raise (YPE Generic) else
       do s1 <- (if (clevel s =? 0) then flush_expand s else Ok s);
       let s2 := set_stype (Some TCollector)
                   (push c (set_clevel (S (clevel s1)) (set_seek_cop false s1))) in
       if clevel s2 =? 1 then cont s2 else fall s2).

(* 11 *) Definition r_close_keyword := mkrule
  (fun s c => Ok ((0 <? dcount s) && Ascii.eqb c ")"%char
                  && is_stype TKeywordSearch (stype s)))
  (fun s _ =>
     (* since the fix of F30: the keyword's ")" closes a "(" and nothing else *)
     do t <- top s;
     if negb (Ascii.eqb t "("%char) then Raise (YPE Generic) else
     do s1 <- pop s;
     cont (set_seek_cop false (set_ncmb (Some "]"%char) s1))).

(* 12 *) Definition r_close_collector := mkrule
  (fun s c =>
     if (0 <? dcount s) && Ascii.eqb c ")"%char then
       do t <- top s; Ok (Ascii.eqb t "("%char && (0 <? clevel s))
     else Ok false)
  (fun s _ =>
     do s1 <- pop (set_clevel (pred (clevel s)) s);
     if clevel s1 <? 1 then
       (* since the fix of F25 segment_type is reset with the collector stored:
          text glued to the parenthesis ("(a)b") starts a segment of its own *)
       cont (set_seek_cop true (set_copr CNone (set_stype None (set_sid ""
              (set_segs (segs s1 ++ [(stype s1, ACollector (copr s1) (sid s1))])%list s1)))))
     else fall s1).

(* 13 *) Definition r_open_bracket := mkrule
  (fun s c => Ok ((dcount s =? 0) && Ascii.eqb c "["%char))
  (fun s c =>
     do s1 <- flush_expand s;
     cont (set_sattr "" (set_smeth None (set_sinv false (set_seek_anchor true
            (set_seek_cop false (set_stype (Some TIndex) (push c s1)))))))).

Definition take_attr (m : smethod) (s : pst) : pst :=
  let s1 := set_smeth (Some m) (set_stype (Some TSearch) s) in
  if nonempty (sid s1) then set_sid "" (set_sattr (sid s1) s1) else s1.

(* 14 *) Definition r_search_operator := mkrule
  (fun s c =>
     if dcount s =? 1 then
       do t <- top s; Ok (Ascii.eqb t "["%char && mem_ascii c g_search_op_chars)
     else Ok false)
  (fun s c =>
     if Ascii.eqb c "!"%char then
       if sinv s then Raise (YPE Generic) else cont (set_sinv true s)
     else if Ascii.eqb c "="%char then
       let s1 := set_stype (Some TSearch) s in
       match smeth s1 with
       | Some MLt => cont (set_smeth (Some MLe) s1)
       | Some MGt => cont (set_smeth (Some MGe) s1)
       | Some MEquals => cont s1
       | None =>
           let s2 := set_smeth (Some MEquals) s1 in
           if nonempty (sid s2) then cont (set_sid "" (set_sattr (sid s2) s2))
           else Raise (YPE Generic)
       | Some _ => Raise (YPE Generic)
       end
     else if Ascii.eqb c "~"%char then
       match smeth s with
       | Some MEquals => cont (set_seek_re true (set_smeth (Some MRegex) s))
       | _ => Raise (YPE Generic)
       end
     else if negb (nonempty (sid s)) then Raise (YPE Generic)
     else if Ascii.eqb c "^"%char then cont (take_attr MStartsWith s)
     else if Ascii.eqb c "$"%char then cont (take_attr MEndsWith s)
     else if Ascii.eqb c "%"%char then cont (take_attr MContains s)
     else if Ascii.eqb c ">"%char then cont (take_attr MGt s)
     else if Ascii.eqb c "<"%char then cont (take_attr MLt s)
     else fall s).

(* 15 *) Definition r_nested_bracket := mkrule
  (fun _ c => Ok (Ascii.eqb c "["%char))
  (fun s c => fall (push c s)).

(* s[0] in quotes and s[-1] == s[0]  ->  s[1:-1] *)
Definition undemarcate (id : string) : string :=
  match first_char id with
  | Some q =>
      if mem_ascii q g_term_quote_chars then
        match last_char id with
        | Some l => if Ascii.eqb l q then strip_ends id else id
        | None => id
        end
      else id
  | None => id
  end.

(* 16 *) Definition r_close_bracket := mkrule
  (fun s c =>
     if (dcount s =? 1) && Ascii.eqb c "]"%char then
       do t <- top s; Ok (Ascii.eqb t "["%char)
     else Ok false)
  (fun s _ =>
     do sg <-
       (if is_stype TIndex (stype s) && negb (str_in ":"%char (sid s)) then
          match py_int (sid s) with
          | Some z => Ok (stype s, AInt z)
          | None => Raise (YPE TypeMismatch)
          end
        else if is_stype TSearch (stype s) && (match smeth s with Some _ => true | None => false end) then
          match smeth s with
          | Some m => Ok (stype s, ASearch (sinv s) m (sattr s)
                               (if tdem s then undemarcate (sid s) else sid s))
          | None => Ok (stype s, AStr (sid s))
          end
        else if is_stype TKeywordSearch (stype s) && (match skw s with Some _ => true | None => false end) then
          match skw s with
          | Some k => Ok (stype s, AKeyword (sinv s) k (sid s))
          | None => Ok (stype s, AStr (sid s))
          end
        else Ok (stype s, AStr (sid s)));
     do s1 <- pop (set_stype None (set_sid "" (set_segs ((segs s ++ [sg])%list) s)));
     cont (set_tdem false (set_skw None (set_sinv false (set_smeth None s1))))).

(* 17 -- after the "fix:" commits: an unmatched ] raises YAMLPathException,
   and so does (F30) a ] whose innermost open demarcation is not a [ *)
Definition r_stray_close_bracket := mkrule
  (fun _ c => Ok (Ascii.eqb c "]"%char))
  (fun s _ =>
     if dcount s <? 1 then Raise (YPE Generic)
     else do t <- top s;
          if negb (Ascii.eqb t "["%char) then Raise (YPE Generic)
          else do s1 <- pop s; fall s1).

(* 18 *) Definition r_separator := mkrule
  (fun s c => Ok ((dcount s <? 1) && Ascii.eqb c sepc))
  (fun s _ =>
     do s1 <- flush_expand s;
     cont (set_seek_anchor true (set_stype None s1))).

Definition rules : list rule :=
  [ r_escape_next; r_capturing_regex; r_backslash; r_space; r_regex_delim;
    r_anchor_mark; r_collector_operator; r_must_be; r_quote; r_open_paren;
    r_close_keyword; r_close_collector; r_open_bracket; r_search_operator;
    r_nested_bracket; r_close_bracket; r_stray_close_bracket; r_separator ].

(* first applicable rule; None = the chain falls through to the append *)
Fixpoint first_rule (rs : list rule) (s : pst) (c : ascii) : outcome (pst * bool) :=
  match rs with
  | [] => fall s
  | r :: rest =>
      do g <- guard r s c;
      if g then act r s c else first_rule rest s c
  end.

Fixpoint which_rule_go (rs : list rule) (n : nat) (s : pst) (c : ascii) : nat :=
  match rs with
  | [] => n
  | r :: rest =>
      match guard r s c with
      | Ok true => n
      | Ok false => which_rule_go rest (S n) s c
      | _ => n
      end
  end.

(* top of the loop body: demarc_count = len(stack); clear a satisfied
   next_char_must_be *)
Definition pre_step (s : pst) (c : ascii) : pst :=
  let s1 := set_dcount (List.length (stack s)) s in
  match ncmb s1 with
  | Some m => if Ascii.eqb c m then set_ncmb None s1 else s1
  | None => s1
  end.

Definition which_rule (s : pst) (c : ascii) : nat := which_rule_go rules 0 (pre_step s c) c.

(* tail of the loop body *)
Definition append_char (s : pst) (c : ascii) : pst :=
  set_seek_cop false (set_seek_anchor false (set_sid (snoc (sid s) c) s)).

Definition step (s : pst) (c : ascii) : outcome pst :=
  do r <- first_rule rules (pre_step s c) c;
  let '(s', continued) := r in
  if continued then Ok s' else Ok (append_char s' c).

Fixpoint run (s : pst) (str : string) : outcome pst :=
  match str with
  | EmptyString => Ok s
  | String c r => do s' <- step s c; run s' r
  end.

(* the four post-loop checks *)
Definition finish (s : pst) : outcome (list seg) :=
  if 0 <? clevel s then Raise (YPE Generic)
  else if cap_re s then Raise (YPE Generic)
  else if 0 <? dcount s then Raise (YPE Generic)
  else do s1 <- flush_expand s; Ok (segs s1).

End Rules.

(* ---- the `original` setter and separator inference ---- *)
Definition normalize_original (s : string) : string :=
  match strip_py s with EmptyString => EmptyString | _ => s end.

(* PathSeparators.infer_separator; None = AUTO (empty path) *)
Definition infer_sep (orig : string) : option sep :=
  match orig with
  | EmptyString => None
  | String c _ => Some (if Ascii.eqb c "/"%char then Slash else Dot)
  end.

(* effective separator of `self.separator` for a given setting *)
Definition effective_sep (m : sepmode) (orig : string) : option sep :=
  match m with
  | Auto => infer_sep orig
  | Forced s => Some s
  end.

Definition sepc_of (o : option sep) : ascii :=
  match o with Some s => sep_char s | None => "."%char end.

Definition nth_char (n : nat) (s : string) : option ascii := String.get n s.

(* _parse_path for a YAMLPath whose _separator is [m] and whose original text
   (after the setter's normalisation) is [normalize_original text]. *)
Definition parse (m : sepmode) (strip : bool) (text : string) : outcome (list seg) :=
  let orig := normalize_original text in
  match orig with
  | EmptyString => Ok []
  | _ =>
      let es := effective_sep m orig in
      let pos := match es with
                 | Some Slash => if 1 <? String.length orig then 1 else 0
                 | _ => 0
                 end in
      match nth_char pos orig with
      | None => Raise (PyCrash IndexError)
      | Some c0 =>
          let sc := sepc_of es in
          do s <- run strip sc (init_pst (Ascii.eqb c0 "&"%char)) orig;
          finish s
      end
  end.

(* ---- SearchKeywordTerms.parameters ---- *)
Record kst := mkkst { k_param : string; k_params : list string; k_esc : bool; k_stack : list ascii }.

Definition kstep (s : kst) (c : ascii) : outcome kst :=
  let cnt := List.length (k_stack s) in
  let app s' := Ok (mkkst (snoc (k_param s') c) (k_params s') (k_esc s') (k_stack s')) in
  if k_esc s then app (mkkst (k_param s) (k_params s) false (k_stack s))
  else if Ascii.eqb c "\"%char then Ok (mkkst (k_param s) (k_params s) true (k_stack s))
  else if Ascii.eqb c " "%char && (cnt <? 1) then Ok s
  else if mem_ascii c [ch 34; ch 39] then
    if 0 <? cnt then
      match k_stack s with
      | [] => Raise (PyCrash IndexError)
      | t :: r =>
          if Ascii.eqb c t then
            let s' := mkkst (k_param s) (k_params s) (k_esc s) r in
            if List.length r <? 1 then Ok s' else app s'
          else app (mkkst (k_param s) (k_params s) (k_esc s) (c :: k_stack s))
      end
    else Ok (mkkst (k_param s) (k_params s) (k_esc s) (c :: k_stack s))
  else if (cnt <? 1) && Ascii.eqb c ","%char then
    Ok (mkkst "" ((k_params s ++ [k_param s])%list) (k_esc s) (k_stack s))
  else app s.

Fixpoint krun (s : kst) (str : string) : outcome kst :=
  match str with
  | EmptyString => Ok s
  | String c r => do s' <- kstep s c; krun s' r
  end.

(* Note: the post-loop test reads the demarc_count local, which holds
   len(stack) as of the START of the last iteration adjusted by that
   iteration's own push/pop; both equal len(stack) at loop exit. *)
Definition keyword_parameters (raw : string) : outcome (list string) :=
  do s <- krun (mkkst "" [] false []) raw;
  if 0 <? List.length (k_stack s) then Raise (PyCrash ValueError)
  else Ok (if nonempty (k_param s) then (k_params s ++ [k_param s])%list else k_params s).
