(* Model of the query evaluator of yamlpath/processor.py (class Processor):
   get_nodes / exists, _get_required_nodes, _get_optional_nodes,
   _get_nodes_by_path_segment, _get_nodes_by_key, _get_nodes_by_index,
   _get_nodes_by_anchor, _get_nodes_by_search, _get_nodes_by_traversal,
   _get_nodes_by_match_all(_unfiltered/_filtered), _get_nodes_by_collector and
   its three helpers, plus yamlpath/wrappers/nodecoords.py and the pieces of
   yamlpath/yamlpath.py (YAMLPath.__add__/append/separator) and
   yamlpath/common/nodes.py (node_is_aoh) they use.

   The model follows the code AFTER the fix: commits of this branch (see
   docs/C15.md); every remaining raising site is an explicit outcome.

   Python generators are modelled as streams: the finite list of yielded items
   followed by how the generator stopped (normal end, an exception, or the
   model's own fuel exhaustion).  Consumers that `break` after the first item
   therefore never see an exception the real generator would only raise later.

   External libraries are oracles (Section variables): ast.literal_eval, re,
   str() of a ruamel container, str() of a Python list built by the evaluator.
   The keyword-search handler (yamlpath/common/keywordsearches.py) and the
   node-creating branches of _get_optional_nodes are parameters: they are
   modelled by other files (Keywords.v, the C09 creation half). *)
From Coq Require Import List Ascii String ZArith NArith Bool Arith.
From YP Require Import Outcome PyStr PyVal Doc Generated PathParser PathPrinter Searches.
Import ListNotations.
Open Scope string_scope.
Open Scope nat_scope.

(* ---- values the evaluator passes around ---- *)
Inductive rval :=
  | RNode (n : node)                       (* a node of the loaded document *)
  | RList (l : list rval)                 (* a Python list built by the evaluator *)
  | RCoords (nd : rval) (par : option rval) (ref : option pyval)
            (path : string) (anc : list (rval * pyval)).   (* a NodeCoords *)

(* evaluation context = the keyword arguments threaded through the handlers *)
Record ctx := mkctx {
  x_par : option rval;          (* parent *)
  x_ref : option pyval;          (* parentref *)
  x_tl : bool;                   (* traverse_lists *)
  x_tp : string;                 (* translated_path.original *)
  x_anc : list (rval * pyval)   (* ancestry *)
}.

(* ---- generators as streams ---- *)
(* Mut o k: the evaluator changed the loaded document -- a node-creating branch
   reported by the [creator] parameter; the model stops there.  (Until the fix of
   F16 the `del <dict with identity o>[k]` of collector subtraction ended here
   too; no read path does any more: Proofs/EvalPure.v.) *)
Inductive stop := Done | Err (e : exn) | Fuel | Mut (o : N) (k : pyval).
Definition gen (A : Type) : Type := (list A * stop)%type.

Definition gnil {A} : gen A := ([], Done).
Definition gone {A} (x : A) : gen A := ([x], Done).
Definition gerr {A} (e : exn) : gen A := ([], Err e).
Definition gfuel {A} : gen A := ([], Fuel).

Definition gapp {A} (a : gen A) (b : unit -> gen A) : gen A :=
  match a with
  | (l, Done) => let '(l2, s2) := b tt in ((l ++ l2)%list, s2)
  | _ => a
  end.

Fixpoint gfor {A B} (l : list A) (f : A -> gen B) : gen B :=
  match l with
  | [] => gnil
  | x :: r => gapp (f x) (fun _ => gfor r f)
  end.

(* `for x in g: yield from f x` *)
Definition gbind {A B} (g : gen A) (f : A -> gen B) : gen B :=
  match gfor (fst g) f with
  | (l2, Done) => (l2, snd g)
  | r => r
  end.

Definition glift {A B} (o : outcome A) (k : A -> gen B) : gen B :=
  match o with
  | Ok a => k a
  | Raise e => gerr e
  | OutOfFuel => gfuel
  end.

(* `for x in g: ...; break` -- only the first item is ever requested; how the
   generator would have stopped after it is never observed *)
Definition gfirst {A B} (g : gen A) (k : option A -> gen B) : gen B :=
  match g with
  | (x :: _, _) => k (Some x)
  | ([], Done) => k None
  | ([], s) => ([], s)
  end.

(* list(g) *)
Definition grun {A} (g : gen A) : outcome (list A) :=
  match g with
  | (l, Done) => Ok l
  | (_, Err e) => Raise e
  | (_, Fuel) => OutOfFuel
  | (_, Mut _ _) => Raise OracleMiss
  end.

Fixpoint enumerate_from {A} (i : nat) (l : list A) : list (nat * A) :=
  match l with
  | [] => []
  | x :: r => (i, x) :: enumerate_from (S i) r
  end.
Definition enumerate {A} (l : list A) := enumerate_from 0 l.

(* ---- prepared paths: escaped and unescaped parse zipped, sub-paths parsed ---- *)
Inductive ppath :=
  | PPath (segs : list pseg)
  | PFail (e : exn)             (* YAMLPath(text).escaped / .unescaped raises e *)
with pseg :=
  | PSeg (es us : seg) (sub sub2 : ppath).
(* sub  = search attribute (escaped attrs) / collector expression of the
          UNESCAPED attrs (what _get_nodes_by_path_segment hands over);
   sub2 = collector expression of the ESCAPED attrs (what the peek loop of
          _get_nodes_by_collector reads) *)

Definition seg_es (p : pseg) : seg := match p with PSeg es _ _ _ => es end.
Definition seg_us (p : pseg) : seg := match p with PSeg _ us _ _ => us end.
Definition seg_sub (p : pseg) : ppath := match p with PSeg _ _ s _ => s end.
Definition seg_sub2 (p : pseg) : ppath := match p with PSeg _ _ _ s => s end.

Definition sub_text (a : attrs) : option string :=
  match a with
  | ASearch _ _ attr _ => Some attr
  | ACollector _ expr => Some expr
  | _ => None
  end.

Fixpoint zip_segs (prep : string -> outcome ppath) (es us : list seg) : outcome (list pseg) :=
  match es, us with
  | [], _ => Ok []
  | e :: er, u :: ur =>
      do sub <- match snd e with
                | ASearch _ _ attr _ => prep attr
                | _ => match snd u with ACollector _ expr => prep expr | _ => Ok (PPath []) end
                end;
      do sub2 <- match snd e with ACollector _ expr => prep expr | _ => Ok (PPath []) end;
      do rest <- zip_segs prep er ur;
      Ok (PSeg e u sub sub2 :: rest)
  | _ :: _, [] => Raise (PyCrash IndexError)      (* yaml_path.unescaped[segment_index] *)
  end.

(* YAMLPath(text) as the evaluator consumes it (separator AUTO).  The escaped
   parse is requested first; the unescaped one only when the escaped one is
   non-empty.  A parse error is data (PFail): it is raised when the evaluator
   first touches the path. *)
Fixpoint prepare (fuel : nat) (text : string) : outcome ppath :=
  match fuel with
  | O => OutOfFuel
  | S f =>
      match parse Auto true text with
      | Raise e => Ok (PFail e)
      | OutOfFuel => OutOfFuel
      | Ok [] => Ok (PPath [])
      | Ok es =>
          match parse Auto false text with
          | Raise e => Ok (PFail e)
          | OutOfFuel => OutOfFuel
          | Ok us =>
              match zip_segs (prepare f) es us with
              | Ok l => Ok (PPath l)
              | Raise e => Ok (PFail e)
              | OutOfFuel => OutOfFuel
              end
          end
      end
  end.

(* weight of a prepared path = fuel the evaluator needs for it *)
Fixpoint pweight (p : ppath) : nat :=
  match p with
  | PFail _ => 1
  | PPath segs =>
      S ((fix go (l : list pseg) : nat :=
            match l with
            | [] => 0
            | PSeg _ _ s s2 :: r => S (pweight s + pweight s2 + go r)
            end) segs)
  end.

(* ---- Python helpers ---- *)
Definition py_nth {A} (l : list A) (i : Z) : outcome A :=
  let n := Z.of_nat (List.length l) in
  let j := if (i <? 0)%Z then (i + n)%Z else i in
  if ((0 <=? j)%Z && (j <? n)%Z)%bool then
    match nth_error l (Z.to_nat j) with
    | Some x => Ok x
    | None => Raise (PyCrash IndexError)
    end
  else Raise (PyCrash IndexError).

(* slice(a, b).indices(n) for step 1 *)
Definition slice_bounds (a b : Z) (n : nat) : (nat * nat) :=
  let len := Z.of_nat n in
  let clamp x := if (x <? 0)%Z then Z.max 0 (x + len) else Z.min x len in
  (Z.to_nat (clamp a), Z.to_nat (clamp b)).

Fixpoint range_from (lo cnt : nat) : list nat :=
  match cnt with O => [] | S c => lo :: range_from (S lo) c end.
Definition range (lo hi : nat) : list nat := range_from lo (hi - lo).

Definition idx_text (z : Z) : string := "[" ++ str_of_Z z ++ "]".

(* YAMLPath.separator of a translated path, as str() prints it *)
Definition tp_sepc (tp : string) : ascii :=
  match tp with String c _ => if Ascii.eqb c "/"%char then "/"%char else "."%char | EmptyString => "."%char end.
(* (translated_path + segment).original *)
Definition tp_add (tp sg : string) : string :=
  match tp with
  | EmptyString => normalize_original sg
  | _ => normalize_original (tp ++ String (tp_sepc tp) EmptyString ++ sg)
  end.
Definition esc_sec (txt : string) (tp : string) : string := escape_path_section txt (tp_sepc tp).

Definition is_pylist (v : rval) : bool :=
  match v with RList _ | RNode (NSeq _ _) => true | _ => false end.
Definition is_pydict (v : rval) : bool := match v with RNode (NMap _ _) => true | _ => false end.
Definition is_pynone (v : rval) : bool := match v with RNode (NLeaf _ PNone) => true | _ => false end.

Definition elems (v : rval) : list rval :=
  match v with
  | RNode (NSeq _ els) => map RNode els
  | RList l => l
  | _ => []
  end.

Definition key_val (k : node) : pyval := match k with NLeaf _ v => v | _ => PNone end.

(* key in data / data[key] for a mapping node *)
Definition dict_get (k : pyval) (v : rval) : option node :=
  match v with RNode (NMap _ kvs) => assoc_key k kvs | _ => None end.

(* hasattr(x, "anchor") and name == x.anchor.value *)
Definition node_anchor_is (name : string) (n : node) : bool :=
  has_anchor_attr (node_info n) &&
  match anchor (node_info n) with Some a => String.eqb name a | None => false end.
Definition anchor_is (name : string) (v : rval) : bool :=
  match v with RNode n => node_anchor_is name n | _ => false end.

(* the value a segment's attributes compare as *)
Definition attr_val (a : attrs) : pyval :=
  match a with
  | AStr s => PStr s
  | AInt z => PInt z
  | ANone => PNone
  | _ => POther (attrs_str a)
  end.

Definition is_ty (t : segtype) (o : option segtype) : bool := is_stype t o.

Definition ncoords (nd : rval) (par : option rval) (rf : option pyval) (path : string)
           (anc : list (rval * pyval)) : rval := RCoords nd par rf path anc.

Definition xorb_cond (matches inv : bool) : bool := (matches && negb inv) || (inv && negb matches).

(* NodeCoords.node ; AttributeError on anything that is not a NodeCoords *)
Definition cnode (x : rval) : outcome rval :=
  match x with RCoords nd _ _ _ _ => Ok nd | _ => Raise (PyCrash AttributeError) end.

Fixpoint vsize (v : rval) : nat :=
  match v with
  | RNode n => node_size n
  | RList l => S ((fix go (l : list rval) := match l with [] => 0 | x :: r => vsize x + go r end) l)
  | RCoords nd _ _ _ _ => S (vsize nd)
  end.

Section Eval.
Variable lit : string -> outcome litres.
Variable re_search : string -> string -> outcome reres.
Variable nstr : node -> string.          (* str() of a ruamel container *)
Variable vstr : list rval -> string.    (* str() of a list built by the evaluator *)
(* KeywordSearches.search_matches(terms, data, yaml_path, **kwargs) *)
Variable kw_handler : bool -> keyword -> string -> rval -> ctx -> gen rval.
(* the node-creating branches of _get_optional_nodes *)
Variable creator : list pseg -> nat -> rval -> ctx -> gen rval.

(* what Searches.search_matches sees of a haystack (an anchored YAML boolean
   is ruamel's ScalarBoolean: Doc.is_sbool) *)
Fixpoint haystack_of (v : rval) : hay :=
  match v with
  | RNode (NLeaf i x as n) =>
      if is_sbool n then HSBool (match x with PInt z => negb (Z.eqb z 0) | _ => false end) else HVal x
  | RNode n => HVal (POther (nstr n))
  | RList l => HVal (POther (vstr l))
  | RCoords nd _ _ _ _ => haystack_of nd
  end.
Definition esm (m : smethod) (term : string) (v : rval) : outcome bool :=
  search_matches_h lit re_search m term (haystack_of v).

(* ---- _get_nodes_by_key (processor.py:936-1056) ---- *)
Definition by_key (self : rval -> ctx -> gen rval) (a : attrs) (v : rval) (c : ctx) : gen rval :=
  let str_stripped := attrs_str a in
  let kv := attr_val a in
  let tp := x_tp c in
  let anc := x_anc c in
  match v with
  | RNode (NMap _ kvs) =>
      let ntp := tp_add tp (esc_sec str_stripped tp) in
      match assoc_key kv kvs with
      | Some val => gone (ncoords (RNode val) (Some v) (Some kv) ntp (anc ++ [(v, kv)])%list)
      | None =>
          match py_int str_stripped with
          | Some z =>
              match assoc_key (PInt z) kvs with
              | Some val => gone (ncoords (RNode val) (Some v) (Some (PInt z)) ntp (anc ++ [(v, PInt z)])%list)
              | None => gnil
              end
          | None => gnil
          end
      end
  | RNode (NSet _ els) =>
      match find (fun e => py_eq (key_val e) kv) els with
      | Some e =>
          gone (ncoords (RNode e) (Some v) (Some kv) (tp_add tp (esc_sec (py_str (key_val e)) tp))
                       (anc ++ [(v, key_val e)])%list)
      | None => gnil
      end
  | RNode (NLeaf _ _) | RCoords _ _ _ _ _ => gnil
  | _ =>   (* list *)
      let els := elems v in
      match py_int str_stripped with
      | Some idx =>
          let n := Z.of_nat (List.length els) in
          if ((- n <=? idx)%Z && (idx <? n)%Z)%bool then
            glift (py_nth els idx) (fun e =>
              gone (ncoords e (Some v) (Some (PInt idx)) (tp_add tp (idx_text idx)) (anc ++ [(v, PInt idx)])%list))
          else gnil
      | None =>
          if negb (x_tl c) then gnil
          else
            gfor (enumerate els) (fun ie =>
              let '(i, e) := ie in
              let zi := Z.of_nat i in
              self e (mkctx (Some v) (Some (PInt zi)) (x_tl c) (tp_add tp (idx_text zi))
                            (anc ++ [(v, PInt zi)])%list))
      end
  end.

(* ---- _get_nodes_by_index (processor.py:1059-1172) ---- *)
Definition split_colon (s : string) : (string * string) :=
  let p := index_char ":"%char s in (take p s, drop (S p) s).

Definition by_index (a : attrs) (v : rval) (c : ctx) : gen rval :=
  let str_stripped := attrs_str a in
  let tp := x_tp c in
  let anc := x_anc c in
  if str_in ":"%char str_stripped then
    let '(min_match, max_match) := split_colon str_stripped in
    match v with
    | RNode (NMap _ kvs) =>
        gfor kvs (fun kv =>
          let k := key_val (fst kv) in
          if str_leb min_match (py_str k) && str_leb (py_str k) max_match then
            gone (ncoords (RNode (snd kv)) (Some v) (Some k) (tp_add tp (esc_sec (py_str k) tp))
                         (anc ++ [(v, k)])%list)
          else gnil)
    | RNode (NSet _ els) =>
        gfor els (fun e =>
          let k := key_val e in
          if str_leb min_match (py_str k) && str_leb (py_str k) max_match then
            gone (ncoords (RNode e) (Some v) (Some k) (tp_add tp (esc_sec (py_str k) tp))
                         (anc ++ [(v, k)])%list)
          else gnil)
    | RNode (NLeaf _ _) | RCoords _ _ _ _ _ => gnil
    | _ =>
        let els := elems v in
        match py_int min_match, py_int max_match with
        | Some intmin, Some intmax =>
            let n := Z.of_nat (List.length els) in
            if ((intmin =? intmax)%Z && (- n <=? intmin)%Z && (intmin <? n)%Z)%bool then
              glift (py_nth els intmin) (fun e =>
                gone (ncoords (RList [e]) (Some v) (Some (PInt intmin)) (tp_add tp (idx_text intmin))
                             (anc ++ [(v, PInt intmin)])%list))
            else
              let '(lo, hi) := slice_bounds intmin intmax (List.length els) in
              glift (mapM (fun si =>
                             let zi := Z.of_nat si in
                             do e <- py_nth els zi;
                             Ok (ncoords e (Some v) (Some (PInt zi)) (tp_add tp (idx_text zi))
                                        (anc ++ [(v, PInt zi)])%list))
                          (range lo hi))
                    (fun sliced =>
                       gone (ncoords (RList sliced) (Some v) (Some (PInt intmin))
                                    (tp_add tp ("[" ++ str_of_Z intmin ++ ":" ++ str_of_Z intmax ++ "]"))
                                    (anc ++ [(v, PInt intmin)])%list))
        | _, _ => gerr (YPE TypeMismatch)
        end
    end
  else
    match py_int str_stripped with
    | None => gerr (YPE TypeMismatch)
    | Some idx =>
        if is_pylist v then
          let els := elems v in
          let n := Z.of_nat (List.length els) in
          if ((- n <=? idx)%Z && (idx <? n)%Z)%bool then
            glift (py_nth els idx) (fun e =>
              gone (ncoords e (Some v) (Some (PInt idx)) (tp_add tp (idx_text idx)) (anc ++ [(v, PInt idx)])%list))
          else gnil
        else match v with
             | RNode (NSet _ _) => gerr (YPE Generic)
             | _ => gnil
             end
    end.

(* ---- _get_nodes_by_anchor (processor.py:1174-1264); YAML merge keys are
   outside the modelled documents ---- *)
Definition by_anchor (a : attrs) (v : rval) (c : ctx) : gen rval :=
  let name := attrs_str a in
  let tp := x_tp c in
  let anc := x_anc c in
  let ntp := tp_add tp ("[&" ++ esc_sec name tp ++ "]") in
  match v with
  | RNode (NMap _ kvs) =>
      gfor kvs (fun kv =>
        let k := key_val (fst kv) in
        if node_anchor_is name (fst kv) || node_anchor_is name (snd kv) then
          gone (ncoords (RNode (snd kv)) (Some v) (Some k) ntp (anc ++ [(v, k)])%list)
        else gnil)
  | RNode (NSet _ els) =>
      gfor els (fun e =>
        if node_anchor_is name e then
          gone (ncoords (RNode e) (Some v) (Some (key_val e)) ntp (anc ++ [(v, key_val e)])%list)
        else gnil)
  | RNode (NLeaf _ _) | RCoords _ _ _ _ _ => gnil
  | _ =>
      gfor (enumerate (elems v)) (fun ie =>
        let '(i, e) := ie in
        let zi := Z.of_nat i in
        if anchor_is name e then
          gone (ncoords e (Some v) (Some (PInt zi)) ntp (anc ++ [(v, PInt zi)])%list)
        else gnil)
  end.

(* ---- _get_nodes_by_search (processor.py:1309-1509) ---- *)
(* the descendant loop over a hash: scan until the verdict satisfies the
   (possibly inverted) condition; `matches` keeps its last value *)
Fixpoint hash_desc_scan {B} (m : smethod) (term : string) (inv : bool) (items : list rval) (st : stop)
         (matches : bool) (k : bool -> gen B) : gen B :=
  match items with
  | [] => match st with Done => k matches | _ => ([], st) end
  | d :: r =>
      glift (cnode d) (fun nd =>
        glift (esm m term nd) (fun mt =>
          if xorb_cond mt inv then k mt else hash_desc_scan m term inv r st mt k))
  end.

Definition by_search (rq_sub : rval -> ctx -> gen rval)
           (inv : bool) (m : smethod) (attr term : string) (v : rval) (c : ctx) : gen rval :=
  let tp := x_tp c in
  let anc := x_anc c in
  match v with
  | RNode (NMap _ kvs) =>
      if String.eqb attr "." then
        gfor kvs (fun kv =>
          let k := key_val (fst kv) in
          glift (esm m term (RNode (fst kv))) (fun mt =>
            if xorb_cond mt inv then
              gone (ncoords (RNode (snd kv)) (Some v) (Some k) (tp_add tp (esc_sec (py_str k) tp))
                           (anc ++ [(v, k)])%list)
            else gnil))
      else
        match assoc_key (PStr attr) kvs with
        | Some value =>
            glift (esm m term (RNode value)) (fun mt =>
              if xorb_cond mt inv then
                gone (ncoords (RNode value) (Some v) (Some (PStr attr)) (tp_add tp (esc_sec attr tp))
                             (anc ++ [(v, PStr attr)])%list)
              else gnil)
        | None =>
            let g := rq_sub v (mkctx (x_par c) (x_ref c) true tp anc) in
            hash_desc_scan m term inv (fst g) (snd g) false (fun mt =>
              if xorb_cond mt inv then gone (ncoords v (x_par c) (x_ref c) tp anc) else gnil)
        end
  | RNode (NSet _ els) =>
      gfor els (fun e =>
        let k := key_val e in
        glift (esm m term (RNode e)) (fun mt =>
          if xorb_cond mt inv then
            gone (ncoords (RNode e) (Some v) (Some k) (tp_add tp (esc_sec (py_str k) tp))
                         (anc ++ [(v, k)])%list)
          else gnil))
  | RNode (NLeaf _ _) | RCoords _ _ _ _ _ =>
      glift (esm m term v) (fun mt =>
        if xorb_cond mt inv then gone (ncoords v (x_par c) (x_ref c) tp anc) else gnil)
  | _ =>
      if negb (x_tl c) then gnil
      else
        let els := elems v in
        let is_aoh := forallb (fun e => is_pynone e || is_pydict e) els in
        let search_keys := String.eqb attr "." in
        gfor (enumerate els) (fun ie =>
          let '(i, e) := ie in
          let zi := Z.of_nat i in
          let yield_if := fun (mt : bool) =>
            if xorb_cond mt inv then
              gone (ncoords e (Some v) (Some (PInt zi)) (tp_add tp (idx_text zi)) (anc ++ [(v, PInt zi)])%list)
            else gnil in
          if search_keys then
            if is_aoh && negb (is_pynone e)
               && match dict_get (PStr term) e with Some _ => true | None => false end
            then yield_if true
            else glift (esm m term e) yield_if
          else
            match dict_get (PStr attr) e with
            | Some x => glift (esm m term (RNode x)) yield_if
            | None =>
                gfirst (rq_sub e (mkctx None None true (tp_add tp (idx_text zi)) (anc ++ [(v, PInt zi)])%list))
                  (fun f =>
                     match f with
                     | Some d => glift (cnode d) (fun nd => glift (esm m term nd) yield_if)
                     | None => yield_if false
                     end)
            end)
  end.

(* ---- _get_nodes_by_match_all (processor.py:2005-2241) ---- *)
Definition match_all_unfiltered (v : rval) (c : ctx) : gen rval :=
  let tp := x_tp c in
  let anc := x_anc c in
  match v with
  | RNode (NMap _ kvs) =>
      gfor kvs (fun kv =>
        let k := key_val (fst kv) in
        gone (ncoords (RNode (snd kv)) (Some v) (Some k) (tp_add tp (esc_sec (py_str k) tp))
                     (anc ++ [(v, k)])%list))
  | RNode (NSet _ els) =>
      gfor els (fun e =>
        let k := key_val e in
        gone (ncoords (RNode e) (Some v) (Some k) (tp_add tp (esc_sec (py_str k) tp))
                     (anc ++ [(v, k)])%list))
  | RNode (NLeaf _ _) | RCoords _ _ _ _ _ => gnil
  | _ =>
      gfor (enumerate (elems v)) (fun ie =>
        let '(i, e) := ie in
        let zi := Z.of_nat i in
        gone (ncoords e (Some v) (Some (PInt zi)) (tp_add tp (idx_text zi)) (anc ++ [(v, PInt zi)])%list))
  end.

Definition match_all_filtered (sg_next : rval -> ctx -> gen rval) (v : rval) (c : ctx) : gen rval :=
  let tp := x_tp c in
  let anc := x_anc c in
  match v with
  | RNode (NMap _ kvs) =>
      gfor kvs (fun kv =>
        let k := key_val (fst kv) in
        let ntp := tp_add tp (esc_sec (py_str k) tp) in
        let nanc := (anc ++ [(v, k)])%list in
        gfirst (sg_next (RNode (snd kv)) (mkctx (Some v) (Some k) true ntp nanc)) (fun f =>
          match f with
          | Some _ => gone (ncoords (RNode (snd kv)) (Some v) (Some k) ntp nanc)
          | None => gnil
          end))
  | RNode (NSet _ els) =>       (* since the fix of F29: mirrors the set branch of the unfiltered handler *)
      gfor els (fun e =>
        let k := key_val e in
        let ntp := tp_add tp (esc_sec (py_str k) tp) in
        let nanc := (anc ++ [(v, k)])%list in
        gfirst (sg_next (RNode e) (mkctx (Some v) (Some k) true ntp nanc)) (fun f =>
          match f with
          | Some _ => gone (ncoords (RNode e) (Some v) (Some k) ntp nanc)
          | None => gnil
          end))
  | RNode (NLeaf _ _) | RCoords _ _ _ _ _ => gnil
  | _ =>
      gfor (enumerate (elems v)) (fun ie =>
        let '(i, e) := ie in
        let zi := Z.of_nat i in
        let ntp := tp_add tp (idx_text zi) in
        let nanc := (anc ++ [(v, PInt zi)])%list in
        gfirst (sg_next e (mkctx (Some v) (Some (PInt zi)) true ntp nanc)) (fun f =>
          match f with
          | Some _ => gone (ncoords e (Some v) (Some (PInt zi)) ntp nanc)
          | None => gnil
          end))
  end.

(* ---- _get_nodes_by_traversal (processor.py:1833-2003) ---- *)
Fixpoint trav (tf : nat) (last : bool) (sg_next : rval -> ctx -> gen rval) (v : rval) (c : ctx) : gen rval :=
  match tf with
  | O => gfuel
  | S tf' =>
      let tp := x_tp c in
      let anc := x_anc c in
      let kids : gen rval :=
        match v with
        | RNode (NMap _ kvs) =>
            gfor kvs (fun kv =>
              let k := key_val (fst kv) in
              trav tf' last sg_next (RNode (snd kv))
                   (mkctx (Some v) (Some k) (x_tl c) (tp_add tp (esc_sec (py_str k) tp)) (anc ++ [(v, k)])%list))
        | RNode (NLeaf _ _) | RNode (NSet _ _) | RCoords _ _ _ _ _ => gnil
        | _ =>
            gfor (enumerate (elems v)) (fun ie =>
              let '(i, e) := ie in
              let zi := Z.of_nat i in
              trav tf' last sg_next e
                   (mkctx (Some v) (Some (PInt zi)) (x_tl c) (tp_add tp (idx_text zi)) (anc ++ [(v, PInt zi)])%list))
        end in
      if last then
        match v with
        | RNode (NLeaf _ _) | RCoords _ _ _ _ _ => gone (ncoords v (x_par c) (x_ref c) tp anc)
        | RNode (NSet _ els) =>
            gfor els (fun e =>
              let k := key_val e in
              gone (ncoords (RNode e) (Some v) (Some k) (tp_add tp (esc_sec (py_str k) tp)) (anc ++ [(v, k)])%list))
        | _ => kids
        end
      else
        gapp (gfirst (sg_next v (mkctx (x_par c) (x_ref c) false tp anc)) (fun f =>
                match f with
                | Some _ => gone (ncoords v (x_par c) (x_ref c) tp anc)
                | None => gnil
                end))
             (fun _ => kids)
  end.


(* ---- collectors (processor.py:1511-1830) ---- *)
(* NodeCoords.unwrap_node_coords *)
Fixpoint unw (v : rval) : rval :=
  match v with
  | RCoords nd _ _ _ _ => unw nd
  | RList l => RList (map unw l)
  | RNode n => RNode n
  end.

(* NodeCoords.deepest_node_coord *)
Fixpoint deepest (v : rval) : rval :=
  match v with
  | RCoords (RCoords _ _ _ _ _ as inner) _ _ _ _ => deepest inner
  | _ => v
  end.

(* Python == on loaded data (all mappings are ruamel CommentedMaps, i.e.
   OrderedDicts: order-sensitive among themselves) *)
Fixpoint list_eqb {A} (f : A -> A -> bool) (a b : list A) : bool :=
  match a, b with
  | [], [] => true
  | x :: r, y :: s => f x y && list_eqb f r s
  | _, _ => false
  end.

Fixpoint pynode_eq (a b : node) {struct a} : bool :=
  match a, b with
  | NLeaf _ x, NLeaf _ y => py_eq x y
  | NMap _ k1, NMap _ k2 =>
      (fix go (l1 l2 : list (node * node)) : bool :=
         match l1, l2 with
         | [], [] => true
         | (ka, va) :: r1, (kb, vb) :: r2 => py_eq (key_val ka) (key_val kb) && pynode_eq va vb && go r1 r2
         | _, _ => false
         end) k1 k2
  | NSeq _ e1, NSeq _ e2 =>
      (fix go (l1 l2 : list node) : bool :=
         match l1, l2 with
         | [], [] => true
         | x :: r1, y :: r2 => pynode_eq x y && go r1 r2
         | _, _ => false
         end) e1 e2
  | NSet _ e1, NSet _ e2 =>
      forallb (fun x => existsb (fun y => py_eq (key_val x) (key_val y)) e2) e1
      && forallb (fun y => existsb (fun x => py_eq (key_val x) (key_val y)) e1) e2
  | _, _ => false
  end.

(* == on unwrapped values; a Python list equals a loaded sequence elementwise *)
Fixpoint veq (a b : rval) {struct a} : bool :=
  match a with
  | RNode (NSeq _ e1) =>
      match b with
      | RNode nb => pynode_eq (match a with RNode n => n | _ => NLeaf (mkinfo 0 None false None) PNone end) nb
      | RList l2 =>
          (fix go (l1 : list node) (l2 : list rval) : bool :=
             match l1, l2 with
             | [], [] => true
             | x :: r1, y :: r2 => (match y with RNode ny => pynode_eq x ny | _ => false end) && go r1 r2
             | _, _ => false
             end) e1 l2
      | _ => false
      end
  | RNode na => match b with RNode nb => pynode_eq na nb | _ => false end
  | RList l1 =>
      match b with
      | RList l2 =>
          (fix go (l1 l2 : list rval) : bool :=
             match l1, l2 with
             | [], [] => true
             | x :: r1, y :: r2 => veq x y && go r1 r2
             | _, _ => false
             end) l1 l2
      | RNode (NSeq _ e2) =>
          (fix go (l1 : list rval) (l2 : list node) : bool :=
             match l1, l2 with
             | [], [] => true
             | x :: r1, y :: r2 => veq x (RNode y) && go r1 r2
             | _, _ => false
             end) l1 e2
      | _ => false
      end
  | RCoords _ _ _ _ _ => false
  end.

(* entries of rem_data in _collector_subtraction *)
Inductive rem :=
  | RemVal (v : rval)                 (* an unwrapped node *)
  | RemPair (k : pyval) (v : rval).   (* the plain dict {parentref: node} *)

(* lhs == rhs for an unwrapped lhs *)
Definition rem_eq (lhs : rval) (r : rem) : bool :=
  match r with
  | RemVal v => veq lhs v
  | RemPair k x =>
      match lhs with
      | RNode (NMap _ [(kn, vn)]) => py_eq (key_val kn) k && veq (RNode vn) x
      | _ => false
      end
  end.

Definition all_gen {A B} (g : gen A) (k : list A -> gen B) : gen B :=
  match g with
  | (l, Done) => k l
  | (_, Err e) => ([], Err e)
  | (_, Fuel) => ([], Fuel)
  | (_, Mut o key) => ([], Mut o key)
  end.

(* _collector_addition: what one right-hand result contributes *)
Definition addition_items (c : ctx) (nc : rval) : list rval :=
  match nc with
  | RCoords nd _ _ path _ =>
      if is_pylist nd then
        map (fun ie =>
               let '(i, e) := ie in
               match e with
               | RCoords _ _ _ _ _ => e
               | _ => let zi := Z.of_nat i in
                      ncoords e (Some nd) (Some (PInt zi)) (tp_add path (idx_text zi)) (x_anc c ++ [(nd, PInt zi)])%list
               end) (enumerate (elems nd))
      else [nc]
  | _ => [nc]
  end.

(* deeply_unwrap_nodes of _collector_intersection (Python `set` never occurs
   in loaded data; CommentedSet is not a `set`) *)
Definition inter_items (nc : rval) : list rval :=
  let u := unw nc in if is_pylist u then elems u else [u].

(* get_del_nodes of _collector_subtraction *)
Definition del_items (nc : rval) : outcome (list rem) :=
  let u := unw nc in
  if is_pylist u then Ok (map RemVal (elems u))
  else match u with
       | RNode (NSet _ els) => Ok (map (fun e => RemVal (RNode e)) els)
       | _ =>
           match nc with
           | RCoords _ par rf _ _ =>
               match par, rf with
               | Some (RNode (NMap _ _)), Some k => Ok [RemPair k u]
               | Some (RNode (NMap _ _)), None => Ok [RemPair PNone u]
               | _, _ => Ok [RemVal u]
               end
           | _ => Raise (PyCrash AttributeError)
           end
       end.

(* `parentref in rhs` *)
Definition ref_in_rem (rf : option pyval) (r : rem) : outcome bool :=
  let k := match rf with Some k => k | None => PNone end in
  match r with
  | RemPair k2 _ => Ok (py_eq k k2)
  | RemVal (RNode (NMap _ kvs)) => Ok (match assoc_key k kvs with Some _ => true | None => false end)
  | RemVal (RNode (NLeaf _ (PStr s))) =>
      match k with PStr ks => Ok (str_contains ks s) | _ => Raise (PyCrash TypeError) end
  | RemVal (RNode (NLeaf _ _)) => Raise (PyCrash TypeError)
  | RemVal (RNode (NSet _ els)) => Ok (existsb (fun e => py_eq (key_val e) k) els)
  | RemVal v => Ok (existsb (fun e => match e with RNode (NLeaf _ x) => py_eq x k | _ => false end) (elems v))
  end.

(* the loop over rem_data for an lhs wrapping a dict: (append_node, rem_keys);
   a key is recorded once (`key not in rem_keys`) *)
Fixpoint sub_dict_scan (lhs_kvs : list (node * node)) (rf : option pyval) (rems : list rem)
         (append_node : bool) (keys : list pyval) : outcome (bool * list pyval) :=
  match rems with
  | [] => Ok (append_node, keys)
  | r :: rest =>
      do hit <- ref_in_rem rf r;
      let append_node := if hit then false else append_node in
      match r with
      | RemVal (RNode (NMap _ _)) => sub_dict_scan lhs_kvs rf rest append_node keys   (* isinstance(rhs, OrderedDict) *)
      | RemPair k x =>
          let keys := match assoc_key k lhs_kvs with
                      | Some val => if veq (RNode val) x && negb (existsb (py_eq k) keys)
                                    then (keys ++ [k])%list else keys
                      | None => keys
                      end in
          sub_dict_scan lhs_kvs rf rest append_node keys
      | RemVal _ => Raise (PyCrash AttributeError)     (* rhs.items() *)
      end
  end.

(* copy(unwrapped_lhs): a NEW object.  Its identity is no loaded object's: the
   harness numbers the objects of the document from 0 upwards (docenc.Encoder),
   the shallow copy of object o is given the number copy_base + o.  Anchor, tag
   and the children (the document's own objects) are kept. *)
Definition copy_base : N := 4294967296%N.
Definition copy_info (i : info) : info :=
  mkinfo (copy_base + oid i)%N (anchor i) (has_anchor_attr i) (tag i).
Definition is_copy (n : node) : bool := (copy_base <=? node_oid n)%N.

(* for key in rem_keys: del reduced_lhs[key] *)
Definition del_keys (keys : list pyval) (kvs : list (node * node)) : list (node * node) :=
  filter (fun kv => negb (existsb (py_eq (key_val (fst kv))) keys)) kvs.

(* NodeCoords(reduced_lhs, deepest_lhs.parent, .parentref, .path, .ancestry, .path_segment) *)
Definition reduced_coords (i : info) (kvs : list (node * node)) (keys : list pyval) (dl : rval) : rval :=
  match dl with
  | RCoords _ par rf path anc => RCoords (RNode (NMap (copy_info i) (del_keys keys kvs))) par rf path anc
  | _ => dl
  end.

(* the loop over lhs_ncs: updated_coords.  Since the fix of F16 the pairs are
   removed from a shallow copy of the hash where it is appended; the document
   is not written to. *)
Fixpoint sub_scan (rems : list rem) (lhs : list rval) (updated : list rval) : outcome (list rval) :=
  match lhs with
  | [] => Ok updated
  | l :: rest =>
      match l with
      | RCoords _ _ rf _ _ =>
          let u := unw l in
          match u with
          | RNode (NMap i kvs) =>
              if existsb (rem_eq u) rems then sub_scan rems rest updated
              else
                do r <- sub_dict_scan kvs rf rems true [];
                let '(append_node, keys) := r in
                if append_node then
                  sub_scan rems rest
                    (updated ++ [match keys with
                                 | [] => deepest l
                                 | _ => reduced_coords i kvs keys (deepest l)
                                 end])%list
                else sub_scan rems rest updated
          | _ =>
              if existsb (rem_eq u) rems
                 || (is_pylist u && Nat.eqb (List.length (elems u)) (List.length rems)
                     && forallb (fun xr => rem_eq (fst xr) (snd xr)) (combine (elems u) rems))
              then sub_scan rems rest updated
              else sub_scan rems rest (updated ++ [deepest l])%list
          end
      | _ => Raise (PyCrash AttributeError)
      end
  end.

(* _collector_subtraction after rem_data is gathered *)
Definition subtraction (rems : list rem) (lhs : list rval) : gen rval :=
  match sub_scan rems lhs [] with
  | Raise e => gerr e
  | OutOfFuel => gfuel
  | Ok updated => (updated, Done)
  end.

Fixpoint peek_loop (rqp : ppath -> rval -> ctx -> gen rval) (rest : list pseg) (v : rval) (c : ctx)
         (ncs : list rval) (k : list rval -> gen rval) : gen rval :=
  match rest with
  | [] => k ncs
  | ps :: r =>
      match seg_es ps with
      | (Some TCollector, ACollector op _) =>
          match op with
          | CAdd =>
              all_gen (rqp (seg_sub2 ps) v c) (fun items =>
                peek_loop rqp r v c (ncs ++ flat_map (addition_items c) items)%list k)
          | CSub =>
              all_gen (rqp (seg_sub2 ps) v c) (fun items =>
                glift (mapM del_items items) (fun rems =>
                  match subtraction (List.concat rems) ncs with
                  | (l, Done) => peek_loop rqp r v c l k
                  | (_, s) => ([], s)
                  end))
          | CAnd =>
              all_gen (rqp (seg_sub2 ps) v c) (fun items =>
                let rhs := flat_map inter_items items in
                peek_loop rqp r v c (filter (fun nc => existsb (veq (unw nc)) rhs) ncs) k)
          | CNone => gerr (YPE Generic)
          end
      | _ => k ncs
      end
  end.

Definition by_collector (rqp : ppath -> rval -> ctx -> gen rval) (op : cop) (ps : pseg) (rest : list pseg)
           (v : rval) (c : ctx) : gen rval :=
  match op with
  | CNone =>
      all_gen (rqp (seg_sub ps) v c) (fun ncs =>
        let ncs :=
          match ncs with
          | [RCoords nd par _ path anc] =>
              if is_pylist nd then
                map (fun ie => ncoords (snd ie) par (Some (PInt (Z.of_nat (fst ie)))) path anc) (enumerate (elems nd))
              else ncs
          | _ => ncs
          end in
        peek_loop rqp rest v c ncs (fun l => match l with [] => gnil | _ => gone (RList l) end))
  | _ => gone v
  end.

(* ---- _get_nodes_by_path_segment (processor.py:811-934) ---- *)
Definition seg_type_at (segs : list pseg) (i : nat) : option segtype :=
  match nth_error segs i with Some ps => fst (seg_es ps) | None => None end.

Definition unwrap_ctx (v : rval) (c : ctx) : (rval * ctx) :=
  match v with
  | RCoords nd par rf path anc => (nd, mkctx par rf (x_tl c) (normalize_original path) anc)
  | _ => (v, c)
  end.

Definition dispatch (self : rval -> ctx -> gen rval)                (* same segment, other data *)
           (sg_next : rval -> ctx -> gen rval)                      (* next segment *)
           (rqp : ppath -> rval -> ctx -> gen rval)                 (* _get_required_nodes(data, sub-path, 0) *)
           (segs : list pseg) (i : nat) (v0 : rval) (c0 : ctx) : gen rval :=
  match nth_error segs i with
  | None => gnil
  | Some ps =>
      let '(ty, a) := seg_es ps in
      let '(uty, ua) := seg_us ps in
      if (0 <? i) && is_ty TTraverse ty && is_ty TTraverse (seg_type_at segs (i - 1)) then gerr (YPE Recursion)
      else
        let '(v, c) := unwrap_ctx v0 c0 in
        let has_next := S i <? List.length segs in
        let fallback :=
          match uty, ua with
          | Some TCollector, ACollector op _ => by_collector rqp op ps (skipn (S i) segs) v c
          | _, _ =>
              if is_ty TTraverse ty then trav (S (vsize v)) (negb has_next) sg_next v c
              else gerr (PyCrash NotImplemented)
          end in
        match ty with
        | Some TKey => by_key self a v c
        | Some TIndex => by_index a v c
        | Some TMatchAll => if has_next then match_all_filtered sg_next v c else match_all_unfiltered v c
        | Some TAnchor => by_anchor a v c
        | Some TKeywordSearch =>
            match a with AKeyword inv k params => kw_handler inv k params v c | _ => fallback end
        | Some TSearch =>
            match a with
            | ASearch inv m attr term => by_search (rqp (seg_sub ps)) inv m attr term v c
            | _ => fallback
            end
        | _ => fallback
        end
  end.

(* ---- the drivers ---- *)
Inductive mode := MReq | MOpt | MSeg.

Definition creatable (uty : option segtype) : bool :=
  negb (is_ty TSearch uty || is_ty TKeywordSearch uty || is_ty TMatchAll uty || is_ty TTraverse uty).

(* Nodes.require_buildable_path(yaml_path, depth) (nodes.py, fix 45f1b07): beneath an
   element that does not exist only Hash keys and non-negative Array indexes
   can be built -- every ESCAPED segment from [from] on is a KEY or an INDEX
   whose attribute is a non-negative int (a slice is an INDEX with a text) *)
Definition buildable_seg (ps : pseg) : bool :=
  let '(ty, a) := seg_es ps in
  is_ty TKey ty || (is_ty TIndex ty && match a with AInt z => (0 <=? z)%Z | _ => false end).
Definition buildable_tail (segs : list pseg) (from : nat) : bool := forallb buildable_seg (skipn from segs).

(* the missing-element branch of _get_optional_nodes (processor.py:2463-2618):
   the refusals are modelled here, the node-creating branches are [creator].
   Since fix 09e1e7a the walk no longer stops at a null node (the old
   `if next_coord.node is None: yield next_coord; continue`): a null is walked
   into like any other node and, when a KEY / INDEX segment finds nothing in it,
   replaced by the container that segment needs. *)
Definition missing_element (segs : list pseg) (i : nat) (ps : pseg) (v : rval) (c : ctx) : gen rval :=
  let uty := fst (seg_us ps) in
  let a := snd (seg_es ps) in
  (* (fix 45f1b07) before anything is built: Nodes.require_buildable_path(yaml_path, depth if data is None else
     depth + 1), asked only for the segment types that build (a COLLECTOR runs into the refusals below) *)
  if (is_ty TAnchor uty || is_ty TIndex uty || is_ty TKey uty)
     && negb (buildable_tail segs (match v with RNode (NLeaf _ PNone) => i | _ => S i end))
  then gerr (YPE Generic)
  else
  match v with
  | RNode (NMap _ _) =>
      if is_ty TAnchor uty then gerr (YPE BadAlias)
      else if is_ty TKey uty then creator segs i v c
      else gerr (YPE Generic)
  | RNode (NSet _ _) => if is_ty TKey uty then creator segs i v c else gerr (YPE Generic)
  | RNode (NLeaf _ PNone) =>
      (* a null that is the child of a dict / list is replaced by the container a KEY / INDEX segment needs
         (Nodes.build_next_node(yaml_path, depth, value); parent[parentref] = data) before the branches below *)
      if (is_ty TIndex uty || is_ty TKey uty)
         && match x_par c with Some par => is_pydict par || is_pylist par | None => false end
      then creator segs i v c
      else gerr (YPE Generic)
  | RNode (NLeaf _ _) | RCoords _ _ _ _ _ => gerr (YPE Generic)
  | _ =>
      if is_ty TAnchor uty && match a with AStr _ => true | _ => false end then creator segs i v c
      else if is_ty TIndex uty || is_ty TKey uty then
        match (match a with AInt z => Some z | _ => py_int (attrs_str a) end) with
        | None => gerr (YPE TypeMismatch)
        | Some z => if (z <? 0)%Z then gerr (YPE Generic) else creator segs i v c
        end
      else gerr (YPE Generic)
  end.

(* _get_nodes_by_path_segment for segment i, with fuel for the data dimension
   (key pass-through re-enters the dispatcher on the elements of a list) *)
Fixpoint walk (sg_next : rval -> ctx -> gen rval) (rqp : ppath -> rval -> ctx -> gen rval)
         (segs : list pseg) (i : nat) (vf : nat) (v : rval) (c : ctx) {struct vf} : gen rval :=
  match vf with
  | O => gfuel
  | S vf' => dispatch (walk sg_next rqp segs i vf') sg_next rqp segs i v c
  end.

(* one level of the drivers; [rec] evaluates strictly lighter (path, index) pairs *)
Definition ev_body (rec : mode -> list pseg -> nat -> rval -> ctx -> gen rval)
           (md : mode) (segs : list pseg) (i : nat) (v : rval) (c : ctx) : gen rval :=
  let rqp := fun (p : ppath) (v : rval) (c : ctx) =>
               match p with
               | PFail e => gerr e
               | PPath s => rec MReq s 0 v c
               end in
  let here := fun (v : rval) (c : ctx) => walk (rec MSeg segs (S i)) rqp segs i (S (vsize v)) v c in
  match md with
  | MSeg => here v c
  | MReq =>
      if i <? List.length segs then
        gbind (here v (mkctx (x_par c) (x_ref c) true (x_tp c) (x_anc c))) (fun x =>
          if is_pylist x then rec MReq segs (S i) x c
          else match x with
               | RCoords nd par rf path anc => rec MReq segs (S i) nd (mkctx par rf true path anc)
               | _ => gerr (PyCrash AttributeError)
               end)
      else gone (ncoords v (x_par c) (x_ref c) (x_tp c) (x_anc c))
  | MOpt =>
      match nth_error segs i with
      | None => gone (ncoords v (x_par c) (x_ref c) (x_tp c) (x_anc c))
      | Some ps =>
          let g := here v (mkctx (x_par c) (x_ref c) true (x_tp c) (x_anc c)) in
          let found :=
            gbind g (fun x =>
              if is_pylist x then rec MOpt segs (S i) x c
              else match x with
                   | RCoords nd par rf path anc => rec MOpt segs (S i) nd (mkctx par rf true path anc)
                   | _ => gerr (PyCrash AttributeError)
                   end) in
          match g with
          | ([], Done) => if creatable (fst (seg_us ps)) then missing_element segs i ps v c else found
          | _ => found
          end
      end
  end.

Fixpoint ev (pf : nat) (md : mode) (segs : list pseg) (i : nat) (v : rval) (c : ctx) {struct pf} : gen rval :=
  match pf with
  | O => gfuel
  | S pf' => ev_body (ev pf') md segs i v c
  end.

Definition root_ctx : ctx := mkctx None None true "" [].

Definition fuel_for (p : ppath) : nat := S (pweight p).

(* Processor.get_nodes(path, mustexist=True) *)
Definition get_required (p : ppath) (d : node) : gen rval :=
  match d with
  | NLeaf _ PNone => gnil                      (* "Refusing to get nodes from a null document" *)
  | _ =>
      match p with
      | PFail e => gerr e
      | PPath segs =>
          match ev (fuel_for p) MReq segs 0 (RNode d) root_ctx with
          | ([], Done) => gerr (YPE Unmatched)
          | g => g
          end
      end
  end.

(* Processor.get_nodes(path, mustexist=False) *)
Definition get_optional (p : ppath) (d : node) : gen rval :=
  match d with
  | NLeaf _ PNone => gnil
  | _ =>
      match p with
      | PFail e => gerr e
      | PPath segs => ev (fuel_for p) MOpt segs 0 (RNode d) root_ctx
      end
  end.

(* Processor.exists(path): one item, the answer *)
Definition exists_ (p : ppath) (d : node) : gen bool :=
  match d with
  | NLeaf _ PNone => gone false
  | _ =>
      match p with
      | PFail e => gerr e
      | PPath segs =>
          match ev (fuel_for p) MReq segs 0 (RNode d) root_ctx with
          | (l, Done) => gone (match l with [] => false | _ => true end)
          | (_, s) => ([], s)
          end
      end
  end.

End Eval.
