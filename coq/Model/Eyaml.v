(* C19 -- eyaml-rotate-keys: discovery of encrypted values, the rotation loop
   with its seen_anchors handling, decrypt-with-old / encrypt-with-new through
   the external command protocol, the "file changed" flag.

   Code mirrored (repo worktree, after the fix: commits of this branch):
     yamlpath/eyaml/eyamlprocessor.py   55-112  _find_eyaml_paths / find_eyaml_paths
                                        115-191  decrypt_eyaml
                                        193-269  encrypt_eyaml
                                        271-305  set_eyaml_value
                                        381-395  is_eyaml_value
     yamlpath/commands/eyaml_rotate_keys.py 112-200 the loop over the files, the per-file loop and the
                                        save decision
     yamlpath/processor.py  2663-2684 (recurse, Hash and Array branches) and
                            2729-2738 (_update_node: the replacement node) -- see below
     yamlpath/common/nodes.py 96-106, 222-247 (make_new_node: the new scalar keeps the Anchor,
                            loses the tag)

   What is NOT modelled here and is replaced by a stated abstraction:
   * Turning a discovered position into YAML Path text (escape_path_section,
     YAMLPath.__add__) and evaluating that text again (Processor.get_nodes /
     set_value -> _get_optional_nodes): a path is kept as its list of segments
     (key / index / anchor-named list element) and [resolve] gives the segment
     semantics of the Processor (C01/C08 model the text side).  Processor.set_value
     is modelled as "replace the scalar at each matched location and at every
     alias of it" by the identity-driven rule of _update_node's recurse (module
     Mutate of branch `mutate` is the full model of that code).
   * find_eyaml_paths and get_nodes are generators over the live document; the
     model enumerates the paths on the document as it is when the loop starts.
     The loop only replaces scalar leaves by scalar leaves with the same Anchor
     that are again encrypted values, so the live enumeration visits the same
     positions (checked by the correspondence run on aliased documents).
   * Sets and scalars used as mapping keys are outside the modelled domain. *)
From Coq Require Import List Ascii String NArith Bool Arith.
From YP Require Import Outcome PyStr PyVal Doc.
Import ListNotations.
Open Scope string_scope.
Open Scope list_scope.

Module Ey.

(* ---- marker recognition ---------------------------------------------------- *)

Definition is_blank (c : ascii) : bool := Ascii.eqb c " " || Ascii.eqb c (ch 10).

(* value.replace("\n", "").replace(" ", "") *)
Fixpoint clean (s : string) : string :=
  match s with
  | EmptyString => EmptyString
  | String c r => if is_blank c then clean r else String c (clean r)
  end.

Definition is_eyaml_str (s : string) : bool := starts_with "ENC[" (clean s).

(* EYAMLProcessor.is_eyaml_value: isinstance(value, str) and ... *)
Definition is_eyaml_value (v : pyval) : bool :=
  match v with PStr s => is_eyaml_str s | _ => false end.

Definition rstrip_py (s : string) : string := rev_str (lstrip_py (rev_str s)).

Fixpoint is_ascii_str (s : string) : bool :=
  match s with
  | EmptyString => true
  | String c r => Nat.ltb (nat_of_ascii c) 128 && is_ascii_str r
  end.

Definition str_is_empty (s : string) : bool := match s with EmptyString => true | _ => false end.

(* ---- paths as segment lists --------------------------------------------------- *)

Inductive pseg :=
  | SKey (k : pyval)        (* build_path + escape_path_section(key) *)
  | SIdx (n : nat)          (* "[idx]" *)
  | SAnchor (a : string).   (* "[&anchor]" : every element of the list carrying that Anchor *)
Definition ypath := list pseg.

(* Anchors.get_node_anchor *)
Definition anchor_name (n : node) : option string :=
  if has_anchor_attr (node_info n)
  then match anchor (node_info n) with
       | Some a => if str_is_empty a then None else Some a
       | None => None
       end
  else None.

Definition key_val (k : node) : pyval := match k with NLeaf _ v => v | _ => PNone end.

Definition is_eyaml_node (n : node) : bool :=
  match n with NLeaf _ v => is_eyaml_value v | _ => false end.

(* _find_eyaml_paths: CommentedSeq by position (or by Anchor), CommentedMap by
   key; anything else (scalars, sets) yields nothing *)
Fixpoint find_paths (n : node) (pre : ypath) : list ypath :=
  match n with
  | NSeq _ els =>
      (fix go (l : list node) (idx : nat) : list ypath :=
         match l with
         | [] => []
         | e :: r =>
             let seg := match anchor_name e with Some a => SAnchor a | None => SIdx idx end in
             (if is_eyaml_node e then [pre ++ [seg]] else find_paths e (pre ++ [seg])) ++ go r (S idx)
         end) els 0
  | NMap _ kvs =>
      (fix go (l : list (node * node)) : list ypath :=
         match l with
         | [] => []
         | (k, v) :: r =>
             (if is_eyaml_node v then [pre ++ [SKey (key_val k)]] else find_paths v (pre ++ [SKey (key_val k)]))
             ++ go r
         end) kvs
  | _ => []
  end.

Definition find_eyaml_paths (d : node) : list ypath := find_paths d [].

(* segment semantics of the Processor for these three segment kinds *)
Fixpoint anchor_matches (a : string) (els : list node) (idx : nat) : list nat :=
  match els with
  | [] => []
  | e :: r =>
      (if has_anchor_attr (node_info e) &&
          match anchor (node_info e) with Some b => String.eqb a b | None => false end
       then [idx] else []) ++ anchor_matches a r (S idx)
  end.

Fixpoint key_index (k : pyval) (kvs : list (node * node)) : option pyval :=
  match kvs with
  | [] => None
  | (kn, _) :: r => if py_eq (key_val kn) k then Some (key_val kn) else key_index k r
  end.

Definition step_locs (n : node) (sg : pseg) : list ref :=
  match n, sg with
  | NMap _ kvs, SKey k => match key_index k kvs with Some k' => [RKey k'] | None => [] end
  | NSeq _ els, SIdx i => if Nat.ltb i (List.length els) then [RIdx i] else []
  | NSeq _ els, SAnchor a => map RIdx (anchor_matches a els 0)
  | _, _ => []
  end.

Fixpoint resolve (n : node) (p : ypath) : list loc :=
  match p with
  | [] => [[]]
  | sg :: rest =>
      flat_map (fun r => match child n r with
                         | Some c => map (cons r) (resolve c rest)
                         | None => []
                         end) (step_locs n sg)
  end.

(* ---- the identity-driven replacement of Processor._update_node ------------------- *)

Definition ref_is_key (r : ref) (k : node) : bool :=
  match r with RKey kv => py_eq (key_val k) kv | _ => false end.

Definition ref_is_idx (r : ref) (idx : nat) : bool :=
  match r with RIdx j => Nat.eqb j idx | _ => false end.

(* recurse(data, parent, parentref, reference_node, replacement_node), as repaired
   by the fix: commits aaea88e / f917898 of branch `mutate` (cherry-picked into
   branch `save`): a reference is replaced when it carries an `anchor` attribute
   (every alias, wherever it lives) or is the addressed child of the parent *)
Fixpoint subst (poid : N) (pref : ref) (old : N) (oldattr : bool) (new : node) (n : node) : node :=
  match n with
  | NLeaf _ _ => n
  | NMap i kvs =>
      NMap i (map (fun kv : node * node =>
                     let (k, v) := kv in
                     if N.eqb (node_oid v) old
                     then (if oldattr || (N.eqb (oid i) poid && ref_is_key pref k) then (k, new) else (k, v))
                     else (k, subst poid pref old oldattr new v)) kvs)
  | NSeq i els =>
      NSeq i ((fix go (l : list node) (idx : nat) : list node :=
                 match l with
                 | [] => []
                 | v :: r =>
                     (if N.eqb (node_oid v) old && (oldattr || (N.eqb (oid i) poid && ref_is_idx pref idx))
                      then new else subst poid pref old oldattr new v) :: go r (S idx)
                 end) els 0)
  | NSet _ _ => n
  end.

Inductive out_fmt := OString | OBlock.

Record rstate := mkrs {
  r_doc : node;
  r_seen : list string;          (* seen_anchors *)
  r_changed : bool;              (* file_changed *)
  r_exit : nat;                  (* exit_state *)
  r_next : N;                    (* identity of the next object created *)
  r_folded : list N;             (* the FoldedScalarString objects *)
  r_log : list (N * string * string)   (* (object rotated, plaintext sent to encrypt, value stored) *)
}.

Fixpoint mem_N (x : N) (l : list N) : bool :=
  match l with [] => false | y :: r => N.eqb x y || mem_N x r end.

(* Processor.set_value on a path that matches: every matched location in turn *)
Definition set_at (st : rstate) (l : loc) (value : string) (fmt : out_fmt) : outcome rstate :=
  let d := r_doc st in
  match lookup d (removelast l), last l (RIdx 0), lookup d l with
  | Some parent, pref, Some (NLeaf i _ as oldn) =>
      let newi := mkinfo (r_next st) (anchor_name oldn) true None in
      let newn := NLeaf newi (PStr value) in
      Ok (mkrs (subst (node_oid parent) pref (oid i) (has_anchor_attr i) newn d)
               (r_seen st) (r_changed st) (r_exit st) (N.succ (r_next st))
               (match fmt with OBlock => r_next st :: r_folded st | OString => r_folded st end)
               (r_log st))
  | _, _, _ => Raise (YPE Unmatched)
  end.

Fixpoint set_value_locs (st : rstate) (ls : list loc) (value : string) (fmt : out_fmt) : outcome rstate :=
  match ls with
  | [] => Ok st
  | l :: r => do st' <- set_at st l value fmt; set_value_locs st' r value fmt
  end.

Section Cipher.
  (* The external eyaml command: a keyed cipher and the layout of its output. *)
  Variable key : Type.
  Variable enc : key -> string -> option string.   (* None: the command fails *)
  Variable dec : key -> string -> option string.   (* None: the command fails (wrong key, corrupt) *)
  Variable layout : out_fmt -> string -> string.   (* what `eyaml encrypt --output=` prints for a ciphertext *)
  (* `eyaml decrypt` prints the plaintext followed by a newline unless it ends with one *)
  Definition decrypt_stdout (p : string) : string :=
    match last_char p with Some c => if Ascii.eqb c (ch 10) then p else snoc p (ch 10) | None => String (ch 10) EmptyString end.

  (* decrypt_eyaml for a scalar value (eyamlprocessor.py:140-191) *)
  Definition decrypt_eyaml (k : key) (v : pyval) : outcome pyval :=
    match v with
    | PStr s =>
        if negb (is_eyaml_str s) then Ok v
        else
          let cleanval := rstrip_py (clean s) in
          if negb (is_ascii_str cleanval) then Raise (PyCrash ValueError)       (* .encode("ascii") *)
          else match dec k cleanval with
               | None => Raise EyamlExc                                        (* CalledProcessError *)
               | Some p =>
                   let out := decrypt_stdout p in
                   if negb (is_ascii_str out) then Raise (PyCrash ValueError)  (* .decode("ascii") *)
                   else
                     let retval := rstrip_py out in
                     if str_is_empty retval || String.eqb retval cleanval
                     then Raise EyamlExc else Ok (PStr retval)
               end
    | _ => Ok v
    end.

  (* what encrypt_eyaml makes of the command's output (eyamlprocessor.py:238-269) *)
  Definition post_encrypt (fmt : out_fmt) (out : string) : outcome string :=
    if negb (is_ascii_str out) then Raise (PyCrash ValueError)                  (* .decode("ascii") *)
    else
      let retval := rstrip_py out in
      if str_is_empty retval then Raise EyamlExc
      else match fmt with
           | OString => Ok retval
           | OBlock =>
               let fixval := replace_all " " "" (strip_py retval) in
               Ok (replace_all (String (ch 13) (String (ch 10) EmptyString)) " " fixval
                   ++ String (ch 10) EmptyString)%string
           end.

  (* encrypt_eyaml (eyamlprocessor.py:210-269) *)
  Definition encrypt_eyaml (k : key) (value : string) (fmt : out_fmt) : outcome string :=
    if is_eyaml_str value then Ok value
    else if negb (is_ascii_str value) then Raise (PyCrash ValueError)           (* .encode("ascii") *)
    else match enc k value with
         | None => Raise EyamlExc
         | Some c => post_encrypt fmt (layout fmt c)
         end.

  Variables (oldk newk : key).

  (* the body of `for node_coordinate in processor.get_nodes(yaml_path, mustexist=True)` *)
  Definition rotate_at (st : rstate) (p : ypath) (l : loc) : outcome rstate :=
    match lookup (r_doc st) l with
    | Some (NLeaf i v as node) =>
        let anc := anchor_name node in
        let skip := match anc with Some a => mem_string a (r_seen st) | None => false end in
        if skip then Ok st
        else
          let seen' := match anc with Some a => r_seen st ++ [a] | None => r_seen st end in
          let st1 := mkrs (r_doc st) seen' (r_changed st) (r_exit st) (r_next st) (r_folded st) (r_log st) in
          match decrypt_eyaml oldk v with
          | Raise EyamlExc => Ok (mkrs (r_doc st1) seen' (r_changed st1) 3 (r_next st1) (r_folded st1) (r_log st1))
          | Raise e => Raise e
          | OutOfFuel => OutOfFuel
          | Ok (PStr txt) =>
              let fmt := if mem_N (oid i) (r_folded st) then OBlock else OString in
              match encrypt_eyaml newk txt fmt with
              | Raise EyamlExc => Ok (mkrs (r_doc st1) seen' (r_changed st1) 3 (r_next st1) (r_folded st1) (r_log st1))
              | Raise e => Raise e
              | OutOfFuel => OutOfFuel
              | Ok encval =>
                  do st2 <- set_value_locs st1 (resolve (r_doc st1) p) encval fmt;
                  Ok (mkrs (r_doc st2) (r_seen st2) true (r_exit st2) (r_next st2) (r_folded st2)
                           (r_log st2 ++ [(oid i, txt, encval)]))
              end
          | Ok _ => Raise (PyCrash TypeError)
          end
    | _ => Raise (PyCrash TypeError)     (* a container where a scalar was found: unreachable *)
    end.

  Fixpoint rotate_locs (st : rstate) (p : ypath) (ls : list loc) : outcome rstate :=
    match ls with
    | [] => Ok st
    | l :: r => do st' <- rotate_at st p l; rotate_locs st' p r
    end.

  Definition rotate_path (st : rstate) (p : ypath) : outcome rstate :=
    match resolve (r_doc st) p with
    | [] => Raise (YPE Unmatched)          (* get_nodes(mustexist=True) on a path that leads nowhere *)
    | ls => rotate_locs st p ls
    end.

  Fixpoint rotate_paths (st : rstate) (ps : list ypath) : outcome rstate :=
    match ps with
    | [] => Ok st
    | p :: r => do st' <- rotate_path st p; rotate_paths st' r
    end.

  (* one file of eyaml-rotate-keys (eyaml_rotate_keys.py:116-185): `file_changed = False`,
     `seen_anchors = []` are set PER FILE; `exit_state` is set once before the loop and
     carried from file to file.  The caller writes (and backs up) iff r_changed. *)
  Definition rotate_file_from (ex : nat) (d : node) (next : N) (folded : list N) : outcome rstate :=
    rotate_paths (mkrs d [] false ex next folded []) (find_eyaml_paths d).

  Definition rotate_file (d : node) (next : N) (folded : list N) : outcome rstate :=
    rotate_file_from 0 d next folded.

  (* ---- `for yaml_file in args.yaml_files` (eyaml_rotate_keys.py:114-198) --------------------
     What a command-line argument turns out to be is an input (isfile / ruamel load are
     oracles); a loaded file comes with its own identity numbering ([next] = first identity
     not used by its document).  A changed file is saved (C17: Sv.CRotate) before the next
     file is looked at; an exception that is not an EYAMLCommandException leaves main() at
     once: the files before it are done, the others untouched, no exit status of its own. *)
  Inductive file_in :=
    | FiNotFile                                       (* not isfile(): exit_state = 2; continue *)
    | FiUnloadable                                    (* get_yaml_data failed: exit_state = 3; continue *)
    | FiDoc (d : node) (next : N) (folded : list N).

  Inductive file_res :=
    | FrSkipped                                       (* nothing read into memory, nothing written *)
    | FrDone (st : rstate).                           (* r_changed st: backed up (on request) and written with r_doc st *)

  Record run_out := mkro {
    ro_files : list file_res;                         (* one entry per file the loop got through *)
    ro_end : outcome nat                              (* sys.exit(exit_state), or the escaping exception *)
  }.

  Fixpoint rotate_files (ex : nat) (fs : list file_in) : run_out :=
    match fs with
    | [] => mkro [] (Ok ex)
    | FiNotFile :: r => let o := rotate_files 2 r in mkro (FrSkipped :: ro_files o) (ro_end o)
    | FiUnloadable :: r => let o := rotate_files 3 r in mkro (FrSkipped :: ro_files o) (ro_end o)
    | FiDoc d next folded :: r =>
        match rotate_file_from ex d next folded with
        | Ok st => let o := rotate_files (r_exit st) r in mkro (FrDone st :: ro_files o) (ro_end o)
        | Raise e => mkro [] (Raise e)
        | OutOfFuel => mkro [] OutOfFuel
        end
    end.

  (* main(): exit_state = 0 before the loop *)
  Definition rotate_main (fs : list file_in) : run_out := rotate_files 0 fs.
End Cipher.

End Ey.
