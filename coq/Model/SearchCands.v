(* The candidate abstraction of Processor._get_nodes_by_search
   (yamlpath/processor.py:1320-1520) as a FUNCTION of the document.

   Model/SearchLoops.v models the five candidate loops at the level
   "candidates + inverted flag -> which candidates are yielded"; until now the
   candidates of a real document were computed by the harness
   (harness/c12.py loop_candidates).  [sc_cands_of] computes them from a
   Doc.node and a search segment (attribute '.', a named attribute, a
   descendant attribute path), reading the code the way Model/Eval.v
   [by_search] does:

     list  (1368-1408)  one [lcand] per element: on '.' the element itself (with
                        the Array-of-Hashes key-name shortcut `is_aoh and ele is
                        not None and term in ele`), `ele[attr]`, or the nodes the
                        descendant search `_get_required_nodes(ele, attr)` yields;
     hash  (1410-1488)  the key names on '.', `data[attr]`, or the nodes of the
                        descendant search (the hash itself is the candidate);
     set   (1490-1503)  the members;  anything else (1505-1515): the data itself.

   The evaluator for the attribute path is the parameter [rq] (in Eval.v:
   `rqp (seg_sub ps)`); [sc_cands_doc] instantiates it with Eval.ev for the
   correspondence run.  [sc_items] lists, candidate by candidate, the NodeCoords
   under which a candidate is yielded; [sc_run] hands the candidates to the
   loop of SearchLoops.v.  Proofs/SearchLink.v proves that [by_search] yields
   exactly [sc_pick (sc_run ..) (sc_items ..)]. *)
From Coq Require Import List Ascii String ZArith NArith Bool Arith.
From YP Require Import Outcome PyStr PyVal Doc Generated PathParser PathPrinter Searches SearchLoops Eval.
Import ListNotations.
Open Scope string_scope.
Open Scope nat_scope.

(* what one call of _get_nodes_by_search iterates over *)
Inductive sc_cands :=
  | SCList (cs : list lcand)     (* the elements of a list *)
  | SCKeys (ks : list hay)       (* the key names of a hash, attr = '.' *)
  | SCAttr (v : hay)             (* data[attr] of a hash having the attribute *)
  | SCDesc (ds : list hay)       (* a hash without it: the nodes of the descendant search *)
  | SCSet (ms : list hay)        (* the members of a set *)
  | SCSelf (v : hay)             (* scalar data: itself *)
  | SCSkip.                      (* a list under traverse_lists=False: nothing is looked at *)

Definition sc_count (cs : sc_cands) : nat :=
  match cs with
  | SCList l => List.length l
  | SCKeys l | SCSet l => List.length l
  | SCAttr _ | SCDesc _ | SCSelf _ => 1
  | SCSkip => 0
  end.

(* the guard of the listed finding F12a: below a HASH candidate the attribute
   path reaches at most one node (the list loop only ever looks at the first
   node, so it needs no guard for the inversion clause) *)
Definition sc_guard (cs : sc_cands) : bool :=
  match cs with
  | SCDesc ds => List.length ds <=? 1
  | _ => true
  end.

(* candidates picked by position, in the order the positions are listed *)
Definition sc_pick {A} (idxs : list nat) (items : list A) : list A :=
  flat_map (fun i => match nth_error items i with Some x => [x] | None => [] end) idxs.

(* candidates picked by a mask, in candidate order *)
Fixpoint sc_select {A} (mask : list bool) (items : list A) : list A :=
  match mask, items with
  | b :: m, x :: r => if b then x :: sc_select m r else sc_select m r
  | _, _ => []
  end.

Section Cands.
Variable nstr : node -> string.
Variable vstr : list rval -> string.
(* _get_required_nodes(data, YAMLPath(attr), 0, ...) *)
Variable rq : rval -> ctx -> gen rval.

Definition sc_hay (v : rval) : hay := haystack_of nstr vstr v.

(* `desc_node.node` of every yielded NodeCoords *)
Definition sc_desc_hays (items : list rval) : outcome (list hay) :=
  do nds <- mapM cnode items; Ok (map sc_hay nds).

(* the list loop stops the descendant generator after its first item
   (`break`): how the generator would have ended is never seen; with no
   item at all its end IS seen *)
Definition sc_first_hays (g : gen rval) : outcome (list hay) :=
  match g with
  | ([], Done) => Ok []
  | ([], Err e) => Raise e
  | ([], Fuel) => OutOfFuel
  | ([], Mut _ _) => Raise OracleMiss
  | (items, _) => sc_desc_hays items
  end.

(* the hash loop may run the generator to its end *)
Definition sc_all_hays (g : gen rval) : outcome (list hay) :=
  do items <- grun g; sc_desc_hays items.

Definition sc_has_key (term : string) (e : rval) : bool :=
  match dict_get (PStr term) e with Some _ => true | None => false end.

(* one element of a list (processor.py:1377-1397) *)
Definition sc_list_cand (v : rval) (c : ctx) (is_aoh : bool) (attr term : string) (ie : nat * rval)
  : outcome lcand :=
  let '(i, e) := ie in
  let zi := Z.of_nat i in
  if String.eqb attr "." then
    Ok (LKey (if is_aoh then Some (negb (is_pynone e) && sc_has_key term e) else None) (sc_hay e))
  else
    match dict_get (PStr attr) e with
    | Some x => Ok (LAttr (sc_hay (RNode x)))
    | None =>
        do ds <- sc_first_hays (rq e (mkctx None None true (tp_add (x_tp c) (idx_text zi))
                                           (x_anc c ++ [(v, PInt zi)])%list));
        Ok (LDesc ds)
    end.

Definition sc_cands_of (attr term : string) (n : node) (c : ctx) : outcome sc_cands :=
  let v := RNode n in
  match n with
  | NMap _ kvs =>
      if String.eqb attr "." then Ok (SCKeys (map (fun kv => sc_hay (RNode (fst kv))) kvs))
      else
        match assoc_key (PStr attr) kvs with
        | Some value => Ok (SCAttr (sc_hay (RNode value)))
        | None =>
            do ds <- sc_all_hays (rq v (mkctx (x_par c) (x_ref c) true (x_tp c) (x_anc c)));
            Ok (SCDesc ds)
        end
  | NSet _ els => Ok (SCSet (map (fun e => sc_hay (RNode e)) els))
  | NLeaf _ _ => Ok (SCSelf (sc_hay v))
  | NSeq _ els =>
      if negb (x_tl c) then Ok SCSkip
      else
        let es := map RNode els in
        let is_aoh := forallb (fun e => is_pynone e || is_pydict e) es in
        do cs <- mapM (sc_list_cand v c is_aoh attr term) (enumerate es);
        Ok (SCList cs)
  end.

(* the NodeCoords under which candidate i is yielded when the verdict says so *)
Definition sc_items (attr : string) (n : node) (c : ctx) : list rval :=
  let v := RNode n in
  let tp := x_tp c in
  let anc := x_anc c in
  let self := ncoords v (x_par c) (x_ref c) tp anc in
  match n with
  | NMap _ kvs =>
      if String.eqb attr "." then
        map (fun kv =>
               let k := key_val (fst kv) in
               ncoords (RNode (snd kv)) (Some v) (Some k) (tp_add tp (esc_sec (py_str k) tp))
                       (anc ++ [(v, k)])%list) kvs
      else
        match assoc_key (PStr attr) kvs with
        | Some value =>
            [ncoords (RNode value) (Some v) (Some (PStr attr)) (tp_add tp (esc_sec attr tp))
                     (anc ++ [(v, PStr attr)])%list]
        | None => [self]
        end
  | NSet _ els =>
      map (fun e =>
             let k := key_val e in
             ncoords (RNode e) (Some v) (Some k) (tp_add tp (esc_sec (py_str k) tp)) (anc ++ [(v, k)])%list) els
  | NLeaf _ _ => [self]
  | NSeq _ els =>
      if negb (x_tl c) then []
      else
        map (fun ie =>
               let zi := Z.of_nat (fst ie) in
               ncoords (snd ie) (Some v) (Some (PInt zi)) (tp_add tp (idx_text zi)) (anc ++ [(v, PInt zi)])%list)
            (enumerate (map RNode els))
  end.

End Cands.

(* the loop of SearchLoops.v for each kind of candidates: positions yielded *)
Definition sc_run (lit : string -> outcome litres) (re_search : string -> string -> outcome reres)
           (invert : bool) (m : smethod) (term : string) (cs : sc_cands) : outcome (list nat) :=
  match cs with
  | SCList l => list_loop lit re_search invert m term l
  | SCKeys l => keys_loop lit re_search invert m term l
  | SCSet l => set_loop lit re_search invert m term l
  | SCAttr v => attr_site lit re_search invert m term v
  | SCSelf v => self_site lit re_search invert m term v
  | SCDesc ds => desc_site lit re_search invert m term ds
  | SCSkip => Ok []
  end.

(* ---- for the correspondence run: the attribute path evaluated by Eval.ev ---- *)
Definition sc_rq (lit : string -> outcome litres) (re_search : string -> string -> outcome reres)
           (nstr : node -> string) (vstr : list rval -> string)
           (kw_handler : bool -> keyword -> string -> rval -> ctx -> gen rval)
           (creator : list pseg -> nat -> rval -> ctx -> gen rval)
           (sub : ppath) (v : rval) (c : ctx) : gen rval :=
  match sub with
  | PFail e => gerr e
  | PPath s => ev lit re_search nstr vstr kw_handler creator (fuel_for sub) MReq s 0 v c
  end.

(* the candidates of `[attr OP term]` applied to the document node [n]
   (reached at the root context) *)
Definition sc_cands_doc (lit : string -> outcome litres) (re_search : string -> string -> outcome reres)
           (nstr : node -> string) (vstr : list rval -> string)
           (kw_handler : bool -> keyword -> string -> rval -> ctx -> gen rval)
           (creator : list pseg -> nat -> rval -> ctx -> gen rval)
           (attr term : string) (n : node) : outcome sc_cands :=
  do sub <- prepare (String.length attr + 2) attr;
  sc_cands_of nstr vstr (sc_rq lit re_search nstr vstr kw_handler creator sub) attr term n root_ctx.
