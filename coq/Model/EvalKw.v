(* The query evaluator (Eval.v) joined with the keyword searches (Keywords.v):
   Eval's parameter [kw_handler] instantiated with Keywords.keyword_search, so
   that a path with [has_child(..)], [name()], [max(..)], [min(..)],
   [parent(..)], [unique(..)], [distinct(..)] segments evaluates end to end.

   Keywords.v works on a document and LOCATIONS (what the static methods of
   keywordsearches.py take when the data is a node of the loaded document);
   the evaluator hands over arbitrary values (a node, a Python list it built
   itself -- slice and collector results, whose elements are NodeCoords --, a
   parent and an ancestry made of such values) and a translated path that is a
   text.  The conversion builds, per call, a small synthetic document

       [ <view of data> ; <placeholder for the parent> ; <ancestor 0> ; <ancestor 1> ; ... ]

   so that data lives at [0], the parent at [1], ancestor j at [2+j]; the
   coordinates Keywords.v answers with are mapped back to the evaluator's values
   by position.  The VIEW of a Python list is keyword specific, because
   keywordsearches.py treats NodeCoords elements differently per keyword:

   * max/min (388-799): `unwrapped_data = unwrap_node_coords(data)` decides
     Array-of-Hashes; then the elements are unwrapped (and yielded unwrapped);
     otherwise the list branch compares the raw elements, and
     Searches.search_matches / Nodes.typed_value read a NodeCoords as its node
     (a wrapped None is text "None": `ele is not None` holds of the wrapper);
   * unique/distinct (930-1217): Array-of-Hashes decided on the unwrapped data,
     values unwrapped, and an element that already is a NodeCoords is yielded
     AS IS (with its own path and ancestry);
   * has_child (79-331): nothing is unwrapped; a NodeCoords is neither a dict
     nor None nor equal to a str.

   translated_path: Keywords.v keeps a list of references; only its LENGTH
   matters to the code (parent() pops, everything else appends), so the
   evaluator's text is represented by as many placeholders as it has
   segments, appended references are printed the way the handlers of
   processor.py print them, and pops are YAMLPath.pop (PathPrinter.y_pop).

   Follows the code AFTER the fix: commits 092bab8 (has_child with an empty
   key), 01d3062 (parent() climbs on copies), 6fe25cf (search_matches strips
   nested NodeCoords wrappers from the haystack). *)
From Coq Require Import List Ascii String ZArith NArith Bool Arith.
From YP Require Import Outcome PyStr PyVal Doc Generated PathParser PathPrinter Searches Eval Keywords.
Import ListNotations.
Open Scope string_scope.
Open Scope nat_scope.

(* a Python object that is not a node of the loaded document *)
Definition ek_fk : info := mkinfo 0 None false None.
Definition ek_none : node := NLeaf ek_fk PNone.

(* `while isinstance(haystack, NodeCoords): haystack = haystack.node` *)
Fixpoint ek_strip (v : rval) : rval :=
  match v with
  | RCoords nd _ _ _ _ => ek_strip nd
  | _ => v
  end.

(* NodeCoords.unwrap_node_coords, as a node *)
Fixpoint ek_unode (v : rval) : node :=
  match v with
  | RNode n => n
  | RList l => NSeq ek_fk (map ek_unode l)
  | RCoords nd _ _ _ _ => ek_unode nd
  end.

Definition ek_ref_val (r : ref) : pyval :=
  match r with
  | RKey k => k
  | RIdx i => PInt (Z.of_nat i)
  | RMember k => k
  end.

(* data[r] for a node of the document *)
Definition ek_child (n : node) (r : ref) : option node :=
  match n, r with
  | NMap _ kvs, RKey k => assoc_key k kvs
  | NSeq _ els, RIdx i | NSet _ els, RIdx i => nth_error els i
  | _, _ => None
  end.

(* number of segments of a translated path (0 when it does not parse: the
   first pop raises) *)
Definition ek_seg_count (tp : string) : nat :=
  match fst (y_unescaped (y_new tp)) with
  | Ok l => List.length l
  | _ => 0
  end.

(* translated_path.pop(), n times; the text that remains *)
Fixpoint ek_pop_n (n : nat) (tp : string) : outcome string :=
  match n with
  | O => Ok tp
  | S k =>
      let '(r, p) := y_pop (y_new tp) in
      match r with
      | Ok _ => ek_pop_n k (y_orig p)
      | Raise e => Raise e
      | OutOfFuel => OutOfFuel
      end
  end.

(* translated_path + "[idx]"  /  + escape_path_section(key, separator) *)
Definition ek_ref_text (tp : string) (r : ref) : string :=
  match r with
  | RIdx i => idx_text (Z.of_nat i)
  | RKey k | RMember k => esc_sec (py_str k) tp
  end.

Section EvalKw.
Variable lit : string -> outcome litres.
Variable re_search : string -> string -> outcome reres.
Variable nstr : node -> string.
Variable vstr : list rval -> string.

(* the value Searches.search_matches reads out of a NodeCoords element *)
Definition ek_leafval (e : rval) : pyval :=
  match ek_strip e with
  | RNode (NLeaf _ PNone) => POther "None"
  | RNode (NLeaf _ v) => v
  | RNode n => POther (nstr n)
  | RList l => POther (vstr l)
  | RCoords _ _ _ _ _ => PNone
  end.

(* an element of a Python list as the list branch of max/min sees it *)
Definition ek_lview (e : rval) : node :=
  match e with
  | RNode n => n
  | RList l => NLeaf ek_fk (POther (vstr l))
  | RCoords _ _ _ _ _ => NLeaf ek_fk (ek_leafval e)
  end.

(* ... as has_child sees it: a NodeCoords or a Python list is no dict, not
   None, equal to no str and carries no anchor *)
Definition ek_hview (e : rval) : node :=
  match e with
  | RNode n => n
  | RList _ => NSeq ek_fk []
  | RCoords _ _ _ _ _ => NLeaf ek_fk (POther "")
  end.

Definition ek_mm_aoh (v : rval) : bool := node_is_aoh true (ek_unode v).

(* the data a keyword sees *)
Definition ek_view (kw : keyword) (v : rval) : node :=
  match v with
  | RNode n => n
  | RList l =>
      match kw with
      | KMax | KMin => if ek_mm_aoh v then ek_unode v else NSeq ek_fk (map ek_lview l)
      | KUnique | KDistinct => ek_unode v
      | _ => NSeq ek_fk (map ek_hview l)
      end
  | RCoords _ _ _ _ _ => ek_none
  end.

(* an ancestor as Anchors.scan_for_anchors sees it: a Python list has no anchors *)
Definition ek_anc_node (a : rval) : node :=
  match a with RNode n => n | _ => ek_none end.

Definition ek_doc (kw : keyword) (v : rval) (c : ctx) : node :=
  NSeq ek_fk (ek_view kw v :: ek_none :: map (fun a => ek_anc_node (fst a)) (x_anc c)).

Definition ek_here : loc := [RIdx 0].

Definition ek_kctx (kw : keyword) (c : ctx) : kctx :=
  mkkctx ek_here
         (match x_par c with Some _ => Some [RIdx 1] | None => None end)
         (match x_ref c with Some r => Some (RKey r) | None => None end)
         (match kw with KParent => repeat (RKey PNone) (ek_seg_count (x_tp c)) | _ => [] end)
         (map (fun ja => ([RIdx (S (S (fst ja)))], RKey (snd (snd ja)))) (Eval.enumerate (x_anc c))).

(* ---- back from Keywords' coordinates ---- *)
Definition ek_val_at (v : rval) (c : ctx) (l : loc) : option rval :=
  match l with
  | [RIdx 0] => Some v
  | [RIdx 1] => x_par c
  | [RIdx (S (S j))] => match nth_error (x_anc c) j with Some a => Some (fst a) | None => None end
  | _ => None
  end.

(* the element a child coordinate [0; r] stands for, and whether the element
   itself (a NodeCoords) is the result *)
Definition ek_elem (kw : keyword) (v : rval) (r : ref) : option rval :=
  match v with
  | RNode n => match ek_child n r with Some ch => Some (RNode ch) | None => None end
  | RList l =>
      match r with
      | RIdx i =>
          match nth_error l i with
          | Some e =>
              match kw with
              | KMax | KMin => Some (if ek_mm_aoh v then unw e else e)
              | _ => Some e
              end
          | None => None
          end
      | _ => None
      end
  | RCoords _ _ _ _ _ => None
  end.

Definition ek_path (c : ctx) (n0 : nat) (q : list ref) : outcome string :=
  if n0 <=? List.length q then
    Ok (fold_left (fun t r => tp_add t (ek_ref_text t r)) (skipn n0 q) (x_tp c))
  else ek_pop_n (n0 - List.length q) (x_tp c).

Definition ek_back (kw : keyword) (v : rval) (c : ctx) (n0 : nat) (co : coords) : outcome rval :=
  let par := match c_parent co with Some l => ek_val_at v c l | None => None end in
  let rf := match c_parentref co with Some r => Some (ek_ref_val r) | None => None end in
  let anc := map (fun lr => (match ek_val_at v c (fst lr) with Some a => a | None => RNode ek_none end,
                             ek_ref_val (snd lr))) (c_ancestry co) in
  do path <- ek_path c n0 (c_path co);
  match c_node co with
  | RefVal r =>
      (* name(): the key or index itself *)
      Ok (ncoords (RNode (NLeaf ek_fk (match r with Some r => ek_ref_val r | None => PNone end))) par rf path anc)
  | AtLoc [RIdx 0; r] =>
      match ek_elem kw v r with
      | Some e =>
          match kw, v, e with
          | KUnique, RList _, RCoords _ _ _ _ _ | KDistinct, RList _, RCoords _ _ _ _ _ => Ok e   (* wrapped_ele = raw_ele *)
          | _, _, _ => Ok (ncoords e par rf path anc)
          end
      | None => Ok (ncoords (RNode ek_none) par rf path anc)
      end
  | AtLoc l =>
      Ok (ncoords (match ek_val_at v c l with Some a => a | None => RNode ek_none end) par rf path anc)
  end.

(* KeywordSearches.search_matches(terms, data, yaml_path, parent=.., parentref=..,
   translated_path=.., ancestry=..) as _get_nodes_by_keyword_search calls it *)
Definition ek_kw_handler (inv : bool) (kw : keyword) (params : string) (v0 : rval) (c : ctx) : gen rval :=
  let v := ek_strip v0 in
  let kx := ek_kctx kw c in
  glift (keyword_search lit re_search nstr (ek_doc kw v c) inv kw params kx) (fun cs =>
    glift (mapM (ek_back kw v c (List.length (k_path kx))) cs) (fun l => (l, Done))).

(* the node-creating branches are not part of this model: a query that would
   create nodes stops at the mutation *)
Definition ek_creator (_ : list pseg) (_ : nat) (_ : rval) (_ : ctx) : gen rval := ([], Mut 0%N PNone).

Definition ek_required := get_required lit re_search nstr vstr ek_kw_handler ek_creator.
Definition ek_optional := get_optional lit re_search nstr vstr ek_kw_handler ek_creator.
Definition ek_exists := exists_ lit re_search nstr vstr ek_kw_handler ek_creator.

End EvalKw.
