(* Model of yamlpath/merger/mergerconfig.py (MergerConfig) and of the from_str
   of yamlpath/merger/enums/{hash,array,aoh,set}mergeopts.py and
   anchorconflictresolutions.py.

   What is input, not modelled: MergerConfig.prepare / _prepare_user_rules
   resolve every `[rules]` and `[keys]` path of the INI configuration to nodes
   of the right-hand document with a Processor (Processor.get_nodes is the
   subject of C01/C15).  The model takes the RESOLVED tables -- one entry per
   NodeCoords the real MergerConfig holds after prepare(rhs), in dict order:
   the object identity of the node, of its parent, the parentref and the rule
   text -- which the harness reads off the real MergerConfig.  Everything
   after that (matching a node against the table, rule > CLI > [defaults] >
   built-in default, from_str with its NameError) is modelled here. *)
From Coq Require Import List Ascii String ZArith NArith Bool.
From YP Require Import Outcome PyStr PyVal Doc.
Import ListNotations.
Open Scope string_scope.

Inductive hash_opt := HDeep | HLeft | HRight.
Inductive array_opt := AAll | ALeft | ARight | AUnique.
Inductive aoh_opt := OAll | ODeep | OLeft | ORight | OUnique.
Inductive set_opt := SLeft | SRight | SUnique.
Inductive anchor_opt := KStop | KLeft | KRight | KRename.

(* NameError (raised by every from_str on an unknown name).  Lib/Outcome.v has
   no constructor of that name; the merge models use NotImplemented for it and
   ocaml/drv_merge.ml prints it as NameError. *)
Definition name_error : exn := PyCrash NotImplemented.

(* X.from_str(name): str(name).upper() looked up among the member names *)
Definition hash_of_str (s : string) : outcome hash_opt :=
  let u := upper_str s in
  if String.eqb u "DEEP" then Ok HDeep
  else if String.eqb u "LEFT" then Ok HLeft
  else if String.eqb u "RIGHT" then Ok HRight
  else Raise name_error.

Definition array_of_str (s : string) : outcome array_opt :=
  let u := upper_str s in
  if String.eqb u "ALL" then Ok AAll
  else if String.eqb u "LEFT" then Ok ALeft
  else if String.eqb u "RIGHT" then Ok ARight
  else if String.eqb u "UNIQUE" then Ok AUnique
  else Raise name_error.

Definition aoh_of_str (s : string) : outcome aoh_opt :=
  let u := upper_str s in
  if String.eqb u "ALL" then Ok OAll
  else if String.eqb u "DEEP" then Ok ODeep
  else if String.eqb u "LEFT" then Ok OLeft
  else if String.eqb u "RIGHT" then Ok ORight
  else if String.eqb u "UNIQUE" then Ok OUnique
  else Raise name_error.

Definition set_of_str (s : string) : outcome set_opt :=
  let u := upper_str s in
  if String.eqb u "LEFT" then Ok SLeft
  else if String.eqb u "RIGHT" then Ok SRight
  else if String.eqb u "UNIQUE" then Ok SUnique
  else Raise name_error.

Definition anchor_of_str (s : string) : outcome anchor_opt :=
  let u := upper_str s in
  if String.eqb u "STOP" then Ok KStop
  else if String.eqb u "LEFT" then Ok KLeft
  else if String.eqb u "RIGHT" then Ok KRight
  else if String.eqb u "RENAME" then Ok KRename
  else Raise name_error.

(* MultiDocModes.from_str and MergerConfig.get_multidoc_mode (mergerconfig.py:251-261):
   `hasattr(self.args, "multi_doc_mode")` -- [None] is the absent attribute *)
Inductive mdmode := MCondense | MAcross | MMatrix.

Definition multidoc_of_str (s : string) : outcome mdmode :=
  let u := upper_str s in
  if String.eqb u "CONDENSE_ALL" then Ok MCondense
  else if String.eqb u "MERGE_ACROSS" then Ok MAcross
  else if String.eqb u "MATRIX_MERGE" then Ok MMatrix
  else Raise name_error.

Definition get_multidoc_mode (arg : option string) : outcome mdmode :=
  match arg with Some s => multidoc_of_str s | None => Ok MCondense end.

(* NodeCoords(node, parent, parentref) as far as MergerConfig looks at it *)
Record coord := mkcoord {
  mc_node : N;                 (* id(node) *)
  mc_parent : option N;        (* id(parent); None = the Python None *)
  mc_ref : option pyval        (* parentref: a key, an index (PInt), or None *)
}.

(* one entry of MergerConfig.rules / MergerConfig.keys after prepare() *)
Record rule := mkrule { r_at : coord; r_val : string }.

Record mconfig := mkconfig {
  has_config : bool;          (* self.config is not None (an INI file / override with a section) *)
  m_rules : list rule;         (* self.rules, in dict order *)
  m_keys : list rule;         (* self.keys, in dict order *)
  cli_hashes : option string; (* getattr(args, "hashes", None) etc. *)
  cli_arrays : option string;
  cli_aoh : option string;
  cli_sets : option string;
  cli_anchors : option string;
  ini_hashes : option string; (* config["defaults"]["hashes"] when has_config and present *)
  ini_arrays : option string;
  ini_aoh : option string;
  ini_sets : option string;
  ini_anchors : option string
}.

Definition opt_N_eqb (a b : option N) : bool :=
  match a, b with
  | None, None => true
  | Some x, Some y => N.eqb x y
  | _, _ => false
  end.

(* rule_coord.parentref == node_coord.parentref *)
Definition ref_eqb (a b : option pyval) : bool :=
  match a, b with
  | None, None => true
  | Some x, Some y => py_eq x y
  | _, _ => false
  end.

(* rule_coord.node is node_coord.node and rule_coord.parent is node_coord.parent
   and rule_coord.parentref == node_coord.parentref   (mergerconfig.py:372-376,
   after fix d59fc2c; the unrepaired code compared with ==) *)
Definition coord_match (rc nc : coord) : bool :=
  N.eqb (mc_node rc) (mc_node nc) && opt_N_eqb (mc_parent rc) (mc_parent nc) && ref_eqb (mc_ref rc) (mc_ref nc).

(* _get_config_for *)
Fixpoint first_match (nc : coord) (section : list rule) : string :=
  match section with
  | [] => ""
  | r :: rest => if coord_match (r_at r) nc then r_val r else first_match nc rest
  end.

Definition get_config_for (cfg : mconfig) (nc : coord) (section : list rule) : string :=
  if has_config cfg then first_match nc section else "".

Definition get_rule_for (cfg : mconfig) (nc : coord) : string := get_config_for cfg nc (m_rules cfg).
Definition get_key_for (cfg : mconfig) (nc : coord) : string := get_config_for cfg nc (m_keys cfg).

(* Precedence: config[rules] > CLI > config[defaults] > default.
   `if merge_rule:` and `self.args.x` are truthiness tests (non-empty text);
   the [defaults] entry is used whenever it is present. *)
Definition cli_or_default (cli ini : option string) (dflt : string) : string :=
  match cli with
  | Some s => if nonempty s then s
              else match ini with Some i => i | None => dflt end
  | None => match ini with Some i => i | None => dflt end
  end.

Definition mode_text (cfg : mconfig) (nc : coord) (cli ini : option string) (dflt : string) : string :=
  let r := get_rule_for cfg nc in
  if nonempty r then r else cli_or_default cli ini dflt.

Definition ini_of (cfg : mconfig) (o : option string) : option string :=
  if has_config cfg then o else None.

Definition hash_merge_mode (cfg : mconfig) (nc : coord) : outcome hash_opt :=
  hash_of_str (mode_text cfg nc (cli_hashes cfg) (ini_of cfg (ini_hashes cfg)) "DEEP").
Definition array_merge_mode (cfg : mconfig) (nc : coord) : outcome array_opt :=
  array_of_str (mode_text cfg nc (cli_arrays cfg) (ini_of cfg (ini_arrays cfg)) "ALL").
Definition aoh_merge_mode (cfg : mconfig) (nc : coord) : outcome aoh_opt :=
  aoh_of_str (mode_text cfg nc (cli_aoh cfg) (ini_of cfg (ini_aoh cfg)) "ALL").
Definition set_merge_mode (cfg : mconfig) (nc : coord) : outcome set_opt :=
  set_of_str (mode_text cfg nc (cli_sets cfg) (ini_of cfg (ini_sets cfg)) "UNIQUE").
(* Precedence: CLI > config[defaults] > default (no per-node rules for anchors) *)
Definition anchor_merge_mode (cfg : mconfig) : outcome anchor_opt :=
  anchor_of_str (cli_or_default (cli_anchors cfg) (ini_of cfg (ini_anchors cfg)) "STOP").

(* aoh_merge_key(node_coord, data): the [keys] entry for the first record, else
   the entry registered for its parent list (`node_coord.parent is
   eval_nc.node`), else the first key of the record, else "". *)
Fixpoint parent_key (p : option N) (section : list rule) : string :=
  match section with
  | [] => ""
  | r :: rest =>
      match p with
      | Some pn => if N.eqb pn (mc_node (r_at r)) then r_val r else parent_key p rest
      | None => parent_key p rest     (* None is never a registered node *)
      end
  end.

Definition aoh_merge_key (cfg : mconfig) (nc : coord) (first_key : option pyval) : pyval :=
  let k := get_key_for cfg nc in
  let k := if nonempty k then k else parent_key (mc_parent nc) (m_keys cfg) in
  if nonempty k then PStr k
  else match first_key with Some fk => fk | None => PStr k end.
