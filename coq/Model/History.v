(* Edit histories: sequences of set_value / set_value(mustexist=False) on a
   missing path / delete_nodes calls on one Processor (C03 "this remains true
   after any sequence of such edits").  Every operation is the model of the
   corresponding call (Mutate.set_value, Create.create_set,
   Mutate.delete_nodes) applied to the document the previous one left; fresh
   object identities are numbered past the largest identity of that document
   (Mutate.init_state), exactly as the correspondence run does step by step.
   The read side is not modelled: Set and Delete steps carry the coordinates
   the real read side gathered on the current document.  No proofs here. *)
From Coq Require Import List Ascii String ZArith NArith QArith Bool.
From YP Require Import Outcome PyStr PyVal Doc Searches Mutate Create.
Import ListNotations.

Inductive hop :=
  | HSet (cs : list coord) (value : pyval) (fmt : vformat) (vo : option N)
  | HCreate (segs : list seg) (value : pyval) (fmt : vformat) (vo : option N)
  | HDelete (cs : list coord).

(* all operations done, or the first failing one: the document as it is then, the exception, how many completed *)
Inductive hfinal := HDone (d : node) | HFailed (d : node) (e : exn) (completed : nat).

Section History.
Variable lit : string -> outcome litres.
Variable fl : string -> outcome flres.

Definition run_op (op : hop) (d : node) : final :=
  match op with
  | HSet cs v f vo =>
      match set_value lit fl cs v f vo (init_state d) with
      | SDone st => MDone (fst st)
      | SFailed st e => Failed (fst st) e
      end
  | HCreate segs v f vo =>
      match create_set lit fl segs v f vo d with
      | SDone st => MDone (fst st)
      | SFailed st e => Failed (fst st) e
      end
  | HDelete cs => delete_nodes cs d
  end.

Fixpoint run_ops (ops : list hop) (d : node) (k : nat) : hfinal :=
  match ops with
  | [] => HDone d
  | op :: r =>
      match run_op op d with
      | MDone d' => run_ops r d' (S k)
      | Failed d' e => HFailed d' e k
      end
  end.
End History.
