(* The seam between the READ side and the WRITE side of yamlpath/processor.py,
   closed: Processor.set_value (processor.py 170-241) as the composition of

     list(self._get_required_nodes(self.data, yaml_path))     Model/Eval.v   get_required
     list(self._get_optional_nodes(self.data, yaml_path, v))  Model/Eval.v   get_optional
     for nc in gathered: self._apply_change(yaml_path, nc, v) Model/Mutate.v set_value

   Model/Mutate.v takes the gathered NodeCoords as INPUT ([coord]: parent object
   identity, parentref, Collector nesting, "the producing segment is [name()]");
   this file computes them from the evaluator's own answer.  The only new
   definitions are the adapter between the two coordinate types ([ce_pc],
   [ce_coord]) and the glue of set_value's two routes ([ce_set]).  Nothing of
   Eval.v / Mutate.v is re-defined.

   All names carry the prefix ce_ (one extracted OCaml file).  No proofs here
   (Proofs/EvalSet.v). *)
From Coq Require Import List Ascii String ZArith NArith Bool.
From YP Require Import Outcome PyStr PyVal Doc PathParser Searches Eval Mutate Create.
Import ListNotations.

(* NodeCoords.parent (as an object identity) and NodeCoords.parentref.  A parent
   that is no object of the loaded document - a Python list the evaluator built
   (slice / Collector result) or the reduced copy of a Collector subtraction -
   cannot be addressed by Mutate.v (it mutates objects of the document): such a
   coordinate is outside the adapter ([None], fail closed). *)
Definition ce_pc (par : option rval) (rf : option pyval) : option pcoord :=
  let r := match rf with Some r => r | None => PNone end in
  match par with
  | None => Some (mkpc None r)
  | Some (RNode p) =>
      match p with
      | NLeaf _ _ => None
      | _ => if is_copy p then None else Some (mkpc (Some (node_oid p)) r)
      end
  | Some _ => None
  end.

(* Processor._is_empty_slice(node_coord) (fix f20b613): the node is an empty list,
   the parent a list, parentref an int, the producing segment an INDEX slice
   (`a:b`), and the parent does not hold that very list object at parentref.
   The last clause is always true of a list the evaluator built (RList: no
   object of the document); a real empty sequence of the document is
   RNode (NSeq _ []), never RList [], and the only RCoords the evaluator builds
   around an empty RList is the one of the slice branch of Eval.v (by_index),
   whose segment is that slice: so the test reads the node, the parent and the
   parentref only.  (A parent that is itself
   a list of the evaluator is outside the adapter anyway: ce_pc.) *)
Definition ce_empty_slice (nd : rval) (par : option rval) (rf : option pyval) : bool :=
  match nd, par, rf with
  | RList [], Some (RNode (NSeq _ _)), Some r => match as_index r with Some _ => true | None => false end
  | _, _, _ => false
  end.

(* One gathered NodeCoords as _apply_change reads it:
     isinstance(node_coord.node, NodeCoords)                          -> CWrap
     _is_empty_slice(node_coord): the Array slice that selects nothing -> CList [] (nothing to change / delete)
     a non-empty list whose first element is a NodeCoords             -> CList
     anything else (a document node; a list of plain nodes: [n:n])    -> CNode
   [nk]: node_coord.path_segment is a [name()] keyword segment.  Only the
   results of the path itself carry it here (the elements of a Collector list
   were produced by operand paths: False; an operand ending in [name()] is
   outside the adapter's tie, see harness/c03.py). *)
Fixpoint ce_coord (nk : bool) (x : rval) {struct x} : option coord :=
  match x with
  | RCoords nd par rf _ _ =>
      match ce_pc par rf with
      | None => None
      | Some pc =>
          match nd with
          | RCoords _ _ _ _ _ =>
              match ce_coord false nd with Some c => Some (CWrap c pc nk) | None => None end
          | RList ((RCoords _ _ _ _ _ :: _) as l) =>
              match (fix go (l : list rval) : option (list coord) :=
                       match l with
                       | [] => Some []
                       | y :: r => match ce_coord false y, go r with
                                   | Some c, Some cs => Some (c :: cs)
                                   | _, _ => None
                                   end
                       end) l with
              | Some cs => Some (CList cs pc nk)
              | None => None
              end
          | _ => if ce_empty_slice nd par rf then Some (CList [] pc nk) else Some (CNode pc nk)
          end
      end
  | _ => None                              (* the drivers yield NodeCoords only *)
  end.

Fixpoint ce_coords (nk : bool) (l : list rval) : option (list coord) :=
  match l with
  | [] => Some []
  | x :: r => match ce_coord nk x, ce_coords nk r with
              | Some c, Some cs => Some (c :: cs)
              | _, _ => None
              end
  end.

(* relay_segment of the results of a path = yaml_path.unescaped[-1] (processor.py
   2383 / 2450): is it a [name()] keyword segment (inverted or not)? *)
Definition ce_name_kw (p : ppath) : bool :=
  match p with
  | PPath segs =>
      match last (map (fun s => snd (seg_us s)) segs) ANone with
      | AKeyword _ KName _ => true
      | _ => false
      end
  | PFail _ => false
  end.

(* how one Processor.set_value call ends *)
Inductive ce_final :=
  | CeDone (st : state)                 (* every change applied *)
  | CeFailed (st : state) (e : exn)     (* a change raised: the document as it is then *)
  | CeRead (s : stop)                   (* the gather raised / created nodes / ran out of fuel: no change applied *)
  | CeShape.                            (* a gathered NodeCoords outside the adapter *)

Section Compose.
Variable lit : string -> outcome litres.
Variable re_search : string -> string -> outcome reres.
Variable nstr : node -> string.
Variable vstr : list rval -> string.
Variable kw_handler : bool -> keyword -> string -> rval -> ctx -> gen rval.
Variable creator : list pseg -> nat -> rval -> ctx -> gen rval.
Variable fl : string -> outcome flres.

(* the gather of set_value: required when mustexist, optional otherwise.  The
   required route raises Unmatched for an empty answer (get_required already
   ends Err (YPE Unmatched) then: `if found_nodes < 1: raise`). *)
Definition ce_gather (mustexist : bool) (p : ppath) (d : node) : gen rval :=
  if mustexist then get_required lit re_search nstr vstr kw_handler creator p d
  else get_optional lit re_search nstr vstr kw_handler creator p d.

(* Processor.set_value(yaml_path, value, mustexist=.., value_format=fmt); [vo]
   as in Mutate.set_value.  `if self.data is None: return` is the empty gather
   of a null document.  list(generator) raising = nothing applied. *)
Definition ce_set (mustexist : bool) (p : ppath) (d : node) (value : pyval) (fmt : vformat) (vo : option N)
  : ce_final :=
  let g := ce_gather mustexist p d in
  match snd g with
  | Done =>
      match ce_coords (ce_name_kw p) (fst g) with
      | None => CeShape
      | Some cs =>
          match set_value lit fl cs value fmt vo (init_state d) with
          | SDone st => CeDone st
          | SFailed st e => CeFailed st e
          end
      end
  | s => CeRead s
  end.

(* ---- Processor.delete_nodes(path) (processor.py 690-734): the generator gathers with
   _get_required_nodes DIRECTLY (no Unmatched error for an empty answer) and deletes
   when it gathered something; a gather that raises deletes nothing ---- *)
Definition ce_required_raw (p : ppath) (d : node) : gen rval :=
  match d with
  | NLeaf _ PNone => gnil                      (* "Refusing to delete nodes from a null document" *)
  | _ =>
      match p with
      | PFail e => gerr e
      | PPath segs => ev lit re_search nstr vstr kw_handler creator (fuel_for p) MReq segs 0 (RNode d) root_ctx
      end
  end.

Inductive ce_step :=
  | CsDone (d : node)
  | CsFailed (d : node) (e : exn)       (* the call raised: the document as it is then *)
  | CsOutside.                          (* the gather created nodes / ran out of fuel / left the adapter *)

Definition ce_delete (p : ppath) (d : node) : ce_step :=
  let g := ce_required_raw p d in
  match snd g with
  | Done =>
      match ce_coords false (fst g) with
      | None => CsOutside
      | Some cs => match delete_nodes cs d with MDone d' => CsDone d' | Failed d' e => CsFailed d' e end
      end
  | Err e => CsFailed d e
  | _ => CsOutside
  end.

(* ---- edit histories given as PATHS: every step gathers on the document the
   previous step left (History.v takes the gathered coordinates as inputs) ---- *)
Inductive ce_hop :=
  | CeSet (mustexist : bool) (p : ppath) (value : pyval) (fmt : vformat) (vo : option N)
  | CeCreate (segs : list Create.seg) (value : pyval) (fmt : vformat) (vo : option N)
      (* set_value on a missing straight path: Create.v already takes the path *)
  | CeDelete (p : ppath).

Definition ce_run_op (op : ce_hop) (d : node) : ce_step :=
  match op with
  | CeSet must p v f vo =>
      match ce_set must p d v f vo with
      | CeDone st => CsDone (fst st)
      | CeFailed st e => CsFailed (fst st) e
      | CeRead (Err e) => CsFailed d e
      | _ => CsOutside
      end
  | CeCreate segs v f vo =>
      match create_set lit fl segs v f vo d with
      | SDone st => CsDone (fst st)
      | SFailed st e => CsFailed (fst st) e
      end
  | CeDelete p => ce_delete p d
  end.

Inductive ce_hfinal :=
  | ChDone (d : node)
  | ChFailed (d : node) (e : exn) (completed : nat)
  | ChOutside (completed : nat).

Fixpoint ce_run_ops (ops : list ce_hop) (d : node) (k : nat) : ce_hfinal :=
  match ops with
  | [] => ChDone d
  | op :: r =>
      match ce_run_op op d with
      | CsDone d' => ce_run_ops r d' (S k)
      | CsFailed d' e => ChFailed d' e k
      | CsOutside => ChOutside k
      end
  end.

End Compose.
