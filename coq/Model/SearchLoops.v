(* Model of the candidate loops of Processor._get_nodes_by_search
   (yamlpath/processor.py:1350-1503) at the level "candidates + inverted flag
   -> which candidates are yielded".  The evaluator proper (how candidates are
   found in a document, what _get_required_nodes yields for the attribute path)
   is modelled in Eval.v; here a candidate carries the value(s) the loop hands
   to Searches.search_matches.

   The function-level variable `matches` (processor.py:1354) is threaded through
   every loop exactly as the code does; [reset] tells whether the list loop
   clears it before a descendant search (true = the code since the fix
   "reset the match flag for every list element"; false = the code before). *)
From Coq Require Import List Ascii String ZArith Bool.
From YP Require Import Outcome PyStr PyVal PathParser Searches.
Import ListNotations.
Open Scope string_scope.

(* (matches and not invert) or (invert and not matches) *)
Definition verdict (invert matches : bool) : bool :=
  (matches && negb invert) || (invert && negb matches).

(* one element of a list under search (processor.py:1366-1385) *)
Inductive lcand :=
  | LKey (term_in_ele : option bool) (v : hay)
      (* attr = '.':  (is_aoh and term in ele) or search_matches(method, term, ele);
         None = the list is not an Array-of-Hashes; Some b = it is, and `term in ele`
         is b.  (A null element of an Array-of-Hashes makes `term in None` raise
         TypeError: DESIGN section 5 defect #4, owned by C15 and modelled in Eval.v;
         outside this model's domain.) *)
  | LAttr (v : hay)
      (* isinstance(ele, dict) and attr in ele:  search_matches(method, term, ele[attr]) *)
  | LDesc (ds : list hay).
      (* descendant search: the nodes _get_required_nodes(ele, desc_path) yields;
         only the first is looked at (`break`) *)

Section Oracles.
Variable lit : string -> outcome litres.
Variable re_search : string -> string -> outcome reres.

Definition sm (m : smethod) (term : string) (v : hay) : outcome bool :=
  search_matches_h lit re_search m term v.

(* new value of `matches` after the body of the list loop for one element *)
Definition list_elem_matches (reset : bool) (m : smethod) (term : string)
           (prev : bool) (c : lcand) : outcome bool :=
  match c with
  | LKey None v => sm m term v
  | LKey (Some has) v =>
      if has then Ok true else sm m term v
  | LAttr v => sm m term v
  | LDesc ds =>
      let start := if reset then false else prev in
      match ds with
      | [] => Ok start
      | d :: _ => sm m term d
      end
  end.

(* for lstidx, ele in enumerate(data): ...; yields are recorded as indices *)
Fixpoint list_loop_from (reset invert : bool) (m : smethod) (term : string)
         (cs : list lcand) (idx : nat) (matches : bool) : outcome (list nat) :=
  match cs with
  | [] => Ok []
  | c :: r =>
      do mt <- list_elem_matches reset m term matches c;
      do rest <- list_loop_from reset invert m term r (S idx) mt;
      Ok (if verdict invert mt then idx :: rest else rest)
  end.

(* the code as it is (after the fix) *)
Definition list_loop (invert : bool) (m : smethod) (term : string) (cs : list lcand) : outcome (list nat) :=
  list_loop_from true invert m term cs 0 false.
(* the code before the fix: `matches` survives from the previous element *)
Definition list_loop_before_fix (invert : bool) (m : smethod) (term : string) (cs : list lcand)
  : outcome (list nat) :=
  list_loop_from false invert m term cs 0 false.

(* hash keys on '.' (1404-1417) and set members (1479-1491): matches is
   assigned for every candidate *)
Fixpoint each_loop_from (invert : bool) (m : smethod) (term : string)
         (vs : list hay) (idx : nat) : outcome (list nat) :=
  match vs with
  | [] => Ok []
  | v :: r =>
      do mt <- sm m term v;
      do rest <- each_loop_from invert m term r (S idx);
      Ok (if verdict invert mt then idx :: rest else rest)
  end.
Definition keys_loop (invert : bool) (m : smethod) (term : string) (keys : list hay) :=
  each_loop_from invert m term keys 0.
Definition set_loop (invert : bool) (m : smethod) (term : string) (members : list hay) :=
  each_loop_from invert m term members 0.

(* hash attribute (1419-1437) and scalar self (1493-1503): one candidate *)
Definition single_site (invert : bool) (m : smethod) (term : string) (v : hay) : outcome (list nat) :=
  do mt <- sm m term v;
  Ok (if verdict invert mt then [0] else []).
Definition attr_site := single_site.
Definition self_site := single_site.

(* hash without the attribute (1439-1476): every descendant node is compared
   until one gives a positive verdict; the hash itself is the candidate *)
Fixpoint desc_scan (invert : bool) (m : smethod) (term : string) (ds : list hay) (matches : bool)
  : outcome bool :=
  match ds with
  | [] => Ok matches
  | d :: r =>
      do mt <- sm m term d;
      if verdict invert mt then Ok mt else desc_scan invert m term r mt
  end.
Definition desc_site (invert : bool) (m : smethod) (term : string) (ds : list hay) : outcome (list nat) :=
  do mt <- desc_scan invert m term ds false;
  Ok (if verdict invert mt then [0] else []).

End Oracles.
