(* Model of yamlpath/common/anchors.py (Anchors.scan_for_anchors 20-46,
   rename_anchor 48-70, replace_anchor 106-143, an_get_node_anchor) and of
   yamlpath/merger/merger.py Merger._calc_unique_anchor (514-532),
   _resolve_anchor_conflicts (534-631) and the order in which merge_with
   (845-880) calls them before the merge proper (Merge.merge_root).

   Documents are the rose trees of Lib/Doc.v; two nodes with one [oid] are ONE
   Python object (an anchored scalar and its aliases).
   * rename_anchor MUTATES objects (`x.anchor.value = new`): every occurrence
     of a reached object changes, also an occurrence the walk itself does not
     visit (a set member, ...).  Model: phase 1 collects the oids of the
     objects the walk reaches under the old name, phase 2 renames every
     occurrence of these objects.
   * replace_anchor re-assigns container SLOTS (`data[key] = repl`,
     `data[idx] = repl`, key re-insertion); on trees this is substitution, as
     long as no container object is reachable at two places (the assumption
     of Merge.v).
   * the dictionaries `lhs_anchors` / `rhs_anchors` are association lists in
     insertion order (a re-assigned key keeps its place: "last definition
     wins"); they are computed once and are STALE during the loop, as in the
     code.
   Not modelled: YAML merge keys (replace_merge_anchor, combine_merge_anchors
   are no-ops without them; non_merged_items() = items()), comments
   (Parsers.delete_all_comments), flow style. *)
From Coq Require Import List Ascii String ZArith NArith Bool.
From YP Require Import Outcome PyStr PyVal Doc PathParser Searches MergeConfig Merge.
Import ListNotations.
Open Scope string_scope.
Open Scope list_scope.

(* hasattr(n, "anchor") and n.anchor.value is not None: the name *)
Definition an_name (n : node) : option string :=
  if has_anchor_attr (node_info n) then anchor (node_info n) else None.

(* hasattr(n, "anchor") and n.anchor.value == name *)
Definition an_has (name : string) (n : node) : bool :=
  match an_name n with Some a => String.eqb a name | None => false end.

(* Anchors.get_node_anchor: None for a missing attribute, a None or an empty name *)
Definition an_get_node_anchor (n : node) : option string :=
  match an_name n with
  | Some a => if nonempty a then Some a else None
  | None => None
  end.

(* ---------- Dict[str, node] in insertion order ---------- *)
Definition an_dict := list (string * node).

Fixpoint ad_set (k : string) (v : node) (d : an_dict) : an_dict :=
  match d with
  | [] => [(k, v)]
  | (k', v') :: r => if String.eqb k k' then (k, v) :: r else (k', v') :: ad_set k v r
  end.

Fixpoint ad_get (k : string) (d : an_dict) : option node :=
  match d with
  | [] => None
  | (k', v) :: r => if String.eqb k k' then Some v else ad_get k r
  end.

Definition ad_keys (d : an_dict) : list string := map fst d.

(* ---------- scan_for_anchors ---------- *)
Definition scan_one (n : node) (d : an_dict) : an_dict :=
  match an_name n with Some a => ad_set a n d | None => d end.

Fixpoint an_scan_anchors (dom : node) (d : an_dict) {struct dom} : an_dict :=
  match dom with
  | NMap _ kvs =>
      (fix go (l : list (node * node)) (d : an_dict) : an_dict :=
         match l with
         | [] => d
         | (k, v) :: r =>
             let d1 := scan_one k d in
             let d2 := scan_one v d1 in
             (* "Recurse into complex values": CommentedMap / CommentedSeq only *)
             let d3 := match v with
                       | NMap _ _ | NSeq _ _ => an_scan_anchors v d2
                       | _ => d2
                       end in
             go r d3
         end) kvs d
  | NSeq _ els =>
      (fix go (l : list node) (d : an_dict) : an_dict :=
         match l with
         | [] => d
         | e :: r => go r (an_scan_anchors e d)
         end) els d
  | _ => scan_one dom d
  end.

(* ---------- rename_anchor ---------- *)
Definition an_hit (name : string) (n : node) : list N :=
  if an_has name n then [node_oid n] else [].

(* phase 1: the objects the walk reaches under the name [old] *)
Fixpoint rename_reach (old : string) (dom : node) {struct dom} : list N :=
  match dom with
  | NMap _ kvs =>
      flat_map (fun kv => an_hit old (fst kv) ++ an_hit old (snd kv) ++ rename_reach old (snd kv)) kvs
  | NSeq _ els => flat_map (rename_reach old) els
  | _ => an_hit old dom
  end.

Definition an_set (i : info) (a : string) : info :=
  mkinfo (oid i) (Some a) (has_anchor_attr i) (tag i).

Definition an_upd (ids : list N) (new : string) (i : info) : info :=
  if existsb (N.eqb (oid i)) ids then an_set i new else i.

(* phase 2: `obj.anchor.value = new` seen from every place the object occupies *)
Fixpoint rename_objs (ids : list N) (new : string) (n : node) {struct n} : node :=
  match n with
  | NLeaf i v => NLeaf (an_upd ids new i) v
  | NMap i kvs =>
      NMap (an_upd ids new i)
           (map (fun kv => (rename_objs ids new (fst kv), rename_objs ids new (snd kv))) kvs)
  | NSeq i els => NSeq (an_upd ids new i) (map (rename_objs ids new) els)
  | NSet i els => NSet (an_upd ids new i) (map (rename_objs ids new) els)
  end.

Definition rename_anchor (old new : string) (dom : node) : node :=
  rename_objs (rename_reach old dom) new dom.

(* ---------- replace_anchor ---------- *)

(* dict item assignment self[k] = v *)
Definition an_od_setitem (k v : node) (items : list (node * node)) : list (node * node) :=
  match assoc_key (key_val k) items with
  | Some _ => set_val (key_val k) v items
  | None => items ++ [(k, v)]
  end.

(* ruamel.yaml.compat.ordereddict.insert(pos, key, value): append when pos is
   past the end; otherwise empty the dict and re-fill it, assigning the new
   item when the old position [pos] comes up (a key equal to an existing one
   collapses with it) *)
Definition an_od_insert (pos : nat) (k v : node) (items : list (node * node)) : list (node * node) :=
  if Nat.leb (List.length items) pos then an_od_setitem k v items
  else
    (fix go (idx : nat) (old : list (node * node)) (acc : list (node * node)) : list (node * node) :=
       match old with
       | [] => acc
       | (ok, ov) :: r =>
           let acc1 := if Nat.eqb idx pos then an_od_setitem k v acc else acc in
           go (S idx) r (an_od_setitem ok ov acc1)
       end) 0 items [].

(* data.pop(key) *)
Fixpoint an_od_pop (k : pyval) (items : list (node * node)) : option (node * list (node * node)) :=
  match items with
  | [] => None
  | (kn, v) :: r =>
      if py_eq (key_val kn) k then Some (v, r)
      else match an_od_pop k r with
           | Some (x, r') => Some (x, (kn, v) :: r')
           | None => None
           end
  end.

(* [(idx, key) for idx, key in enumerate(data.keys()) if key carries the name] *)
Fixpoint key_snapshot (name : string) (idx : nat) (items : list (node * node)) : list (nat * node) :=
  match items with
  | [] => []
  | (k, _) :: r => if an_has name k then (idx, k) :: key_snapshot name (S idx) r
                   else key_snapshot name (S idx) r
  end.

(* data.insert(idx, repl_node, data.pop(key)) for every snapshot entry.  The arguments are
   evaluated first (the pop, KeyError); the insertion then hashes the new key: a Hash / Array /
   Set as replacement node is unhashable -- TypeError (finding F-C10-3: an anchored hash KEY
   meeting an anchored CONTAINER of the same name under left / right) *)
Definition rekey (repl : node) (items : list (node * node)) (e : nat * node) : outcome (list (node * node)) :=
  match an_od_pop (key_val (snd e)) items with
  | Some (v, rest) => if is_leaf repl then Ok (an_od_insert (fst e) repl v rest)
                      else Raise (PyCrash TypeError)
  | None => Raise (PyCrash KeyError)
  end.

(* Anchors.replace_anchor(data, old_node, repl_node) for the anchor name of
   repl_node (old_node is only compared with YAML merge-key references).
   The code first re-keys (keys carrying the name become repl_node), then walks
   the items replacing values that carry the name and recursing into the
   others.  The two passes commute -- re-keying moves items without looking at
   values, the value pass is item-wise -- and the model runs the value pass
   first because it is the structurally recursive one. *)
Fixpoint replace_walk (name : string) (repl : node) (data : node) {struct data} : outcome node :=
  match data with
  | NMap i kvs =>
      do kvs1 <- (fix go (l : list (node * node)) : outcome (list (node * node)) :=
                    match l with
                    | [] => Ok []
                    | (k, v) :: r =>
                        do v' <- (if an_has name v then Ok repl else replace_walk name repl v);
                        do r' <- go r;
                        Ok ((k, v') :: r')
                    end) kvs;
      do kvs2 <- foldM (rekey repl) (key_snapshot name 0 kvs1) kvs1;
      Ok (NMap i kvs2)
  | NSeq i els =>
      do els' <- (fix go (l : list node) : outcome (list node) :=
                    match l with
                    | [] => Ok []
                    | e :: r =>
                        do e' <- (if an_has name e then Ok repl else replace_walk name repl e);
                        do r' <- go r;
                        Ok (e' :: r')
                    end) els;
      Ok (NSeq i els')
  | _ => Ok data
  end.

(* anchor_name = repl_node.anchor.value *)
Definition replace_anchor (repl : node) (data : node) : outcome node :=
  match an_name repl with
  | Some name => replace_walk name repl data
  | None => Raise (PyCrash AttributeError)
  end.

(* ---------- Merger._calc_unique_anchor ---------- *)
Definition str_of_nat (n : nat) : string := str_of_Z (Z.of_nat n).

(* "{}_{}".format(anchor, aid) *)
Definition next_anchor (anchor : string) (aid : nat) : string := anchor ++ "_" ++ str_of_nat aid.

(* while anchor in known_anchors: anchor = "{}_{}".format(anchor, aid); aid += 1
   -- the code's `while` has no bound; every candidate is longer than its
   predecessor, so at most |known| of them can be members.  Fuel |known| + 1
   is proved sufficient in Proofs/AnchorsFuel.v. *)
Fixpoint calc_unique_fuel (fuel : nat) (anchor : string) (aid : nat) (known : list string) : outcome string :=
  if mem_string anchor known then
    match fuel with
    | O => OutOfFuel
    | S f => calc_unique_fuel f (next_anchor anchor aid) (S aid) known
    end
  else Ok anchor.

Definition calc_unique_anchor (anchor : string) (known : list string) : outcome string :=
  calc_unique_fuel (S (List.length known)) anchor 1 known.

(* set(lhs_anchors.keys()).union(set(rhs_anchors.keys())) *)
Definition known_names (lanc ranc : an_dict) : list string :=
  nodup string_dec (ad_keys lanc ++ ad_keys ranc).

(* ---------- Merger._resolve_anchor_conflicts ---------- *)
Definition an_opt_str_eqb (a b : option string) : bool :=
  match a, b with
  | None, None => true
  | Some x, Some y => String.eqb x y
  | _, _ => false
  end.

(* Merger._scalar_kind (added by the fix "anchors holding true / 1 / 1.0 do
   conflict"): bool (also ruamel's ScalarBoolean), int, float, str for Scalars
   however they are presented; the node's class otherwise *)
Inductive an_kind := AKBool | AKInt | AKFloat | AKStr | AKOther | AKMap | AKSeq | AKSet.

Definition scalar_kind (n : node) : an_kind :=
  match n with
  | NLeaf _ v =>
      if is_sbool n then AKBool
      else match v with
           | PBool _ => AKBool
           | PInt _ => AKInt
           | PFloat _ _ => AKFloat
           | PStr _ => AKStr
           | _ => AKOther
           end
  | NMap _ _ => AKMap
  | NSeq _ _ => AKSeq
  | NSet _ _ => AKSet
  end.

Definition an_kind_eqb (a b : an_kind) : bool :=
  match a, b with
  | AKBool, AKBool | AKInt, AKInt | AKFloat, AKFloat | AKStr, AKStr | AKOther, AKOther
  | AKMap, AKMap | AKSeq, AKSeq | AKSet, AKSet => true
  | _, _ => false
  end.

(* the three-way test of merger.py:594-612 *)
Definition anchors_match (la ra : node) : bool :=
  let lt := is_tagged_scalar la in
  let rt := is_tagged_scalar ra in
  if negb (Bool.eqb lt rt) then false
  else if lt then
    match la, ra with
    | NLeaf il vl, NLeaf ir vr =>
        py_eq (tagged_text vl) (tagged_text vr) && an_opt_str_eqb (tag il) (tag ir)
    | _, _ => false
    end
  else node_eq la ra && an_kind_eqb (scalar_kind la) (scalar_kind ra).

Section WithConfig.
Variable cfg : mconfig.

(* one common anchor name; state = (left document, right document) *)
Definition resolve_step (lanc ranc : an_dict) (st : node * node) (name : string) : outcome (node * node) :=
  let (l, r) := st in
  match ad_get name lanc, ad_get name ranc with
  | Some la, Some ra =>
      do mode <- anchor_merge_mode cfg;
      if anchors_match la ra then
        (* "symmetric; RIGHT will override to eliminate spurious anchor re-definition" *)
        do l' <- replace_anchor ra l; Ok (l', r)
      else
        match mode with
        | KRename =>
            do nn <- calc_unique_anchor name (known_names lanc ranc);
            Ok (l, rename_anchor name nn r)
        | KLeft => do r' <- replace_anchor la r; Ok (l, r')
        | KRight => do l' <- replace_anchor ra l; Ok (l', r)
        | KStop => Raise MergeExc
        end
  | _, _ => Raise (PyCrash KeyError)
  end.

(* [anchor for anchor in rhs_anchors if anchor in lhs_anchors] *)
Definition common_names (lanc ranc : an_dict) : list string :=
  filter (fun a => match ad_get a lanc with Some _ => true | None => false end) (ad_keys ranc).

Definition resolve_conflicts (l r : node) : outcome (node * node) :=
  let lanc := an_scan_anchors l [] in
  let ranc := an_scan_anchors r [] in
  foldM (resolve_step lanc ranc) (common_names lanc ranc) (l, r).

Variable lit : string -> outcome litres.

(* merge_with for the insertion point "/": an empty right document changes
   nothing; an empty left document BECOMES the right one (a container: done; a
   Scalar: the conflict check then compares the document with itself -- only
   the policy lookup can fail -- and the target `is rhs`); otherwise conflicts
   are resolved on both documents and the results are merged. *)
Definition merge_with_anchors (l r : node) : outcome node :=
  if is_none r then Ok l
  else if is_none l then
    match r with
    | NLeaf _ _ =>
        match an_name r with
        | Some _ => do _ <- anchor_merge_mode cfg; Ok r
        | None => Ok r
        end
    | _ => Ok r
    end
  else
    do lr <- resolve_conflicts l r;
    merge_root lit cfg (fst lr) (snd lr).

End WithConfig.
