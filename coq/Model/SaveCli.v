(* C17 -- the order of events in main() of yaml-set and yaml-merge: every
   validation, load, query, check and change application happens before the
   single call of write_output_document; any of them ending the run leaves the
   file system alone.

   Code mirrored:
     yamlpath/commands/yaml_set.py    499-682  main (the write is the last statement)
                                      194-308  validateargs (sys.exit(1) at 307-308)
                                      427-496  _try_load_input_file, _delete_nodes, _get_nodes,
                                               _alias_nodes, _ymk_nodes
                                      411-421  write_output_document: STDOUT branch
     yamlpath/commands/yaml_merge.py  223-286  validateargs
                                      507-572  main and the exit_state plumbing
                                      483-505  merge_docs (3 = RHS not loaded)
                                      288-300  write_output_document: the prepare_for_dump calls
                                      349-371  write_output_document: STDOUT branch
     yamlpath/wrappers/consoleprinter.py 133-157 critical(): sys.exit(exit_code)

   What each step *computes* belongs to other models (C03/C04/C05/C16); here a
   step is reduced to how it can end, which is an input of the model. *)
From Coq Require Import List Bool Arith.
From YP Require Import SaveProtocol.
Import ListNotations.

Module Sc.
Import Sv.

(* How a step inside main() ends: it returns, it raises the exception its
   caller catches (YAMLPathException / EYAMLCommandException), or it raises
   something nobody catches. *)
Inductive step_res := ROk | RCaught | RUncaught.

(* ---- yaml-set ---------------------------------------------------------- *)

Inductive check_res :=
  | CkMatch            (* the old value equals --check *)
  | CkMismatch         (* log.critical(..., 20) *)
  | CkKeyPair          (* encrypted value, only one of the two keys given: log.error; sys.exit(1) *)
  | CkDecryptFail      (* EYAMLCommandException: log.critical(ex, 1) *)
  | CkCrash.

Inductive action := ADelete | AAlias | AMergeKey | AEyaml | AValue | ATag | ANothing.

Record set_in := mkset {
  s_usage_ok : bool;              (* argparse accepted the command line (else exit 2) *)
  s_args_ok : bool;               (* validateargs found no error (else exit 1) *)
  s_stream : bool;                (* the document comes from STDIN, the result goes to STDOUT *)
  s_backup : bool;
  s_json : bool;                  (* not write_document_as_yaml *)
  s_value_file : option bool;     (* --file given: Some readable? *)
  s_loaded : bool;                (* Parsers.get_yaml_data loaded a document *)
  s_must_exist : bool;            (* --mustexist or --saveto (or --delete, via validateargs) *)
  s_get : step_res;               (* _get_nodes *)
  s_nodes : nat;                  (* number of gathered nodes *)
  s_check : option (list check_res);   (* --check given: result per gathered node, in order *)
  s_saveto : option step_res;     (* --saveto given: result of processor.set_value(saveto_path, ...) *)
  s_action : action;
  s_apply : step_res;             (* result of applying the change *)
  s_whole_doc : bool;             (* the caught delete exception says "delete the entire document" *)
  s_dump_ok : bool                (* the serialiser (ruamel's dumper for YAML, json for JSON) accepts
                                     the changed document; false: it raises by itself *)
}.

(* for node in nodes: ... log.critical / sys.exit inside the loop *)
Fixpoint check_loop (l : list check_res) : option status :=
  match l with
  | [] => None
  | CkMatch :: r => check_loop r
  | CkMismatch :: _ => Some (SExit 20)
  | CkKeyPair :: _ => Some (SExit 1)
  | CkDecryptFail :: _ => Some (SExit 1)
  | CkCrash :: _ => Some SCrash
  end.

Definition apply_phase (i : set_in) : option status :=
  match s_action i, s_apply i with
  | _, ROk => None
  | ANothing, _ => None                         (* no branch of the if/elif chain runs *)
  | _, RUncaught => Some SCrash
  | ADelete, RCaught => if s_whole_doc i then Some (SExit 1) else None   (* swallowed: 423-428 *)
  | AAlias, RCaught | AMergeKey, RCaught | AValue, RCaught => Some (SExit 1)
  | AEyaml, RCaught => Some (SExit 2)
  | ATag, RCaught => Some SCrash                (* tag_gathered_nodes is not guarded: 660-661 *)
  end.

(* First [Some] in source order; None = main() reaches write_output_document. *)
Definition first_some {A} (l : list (option A)) : option A :=
  fold_right (fun o acc => match o with Some a => Some a | None => acc end) None l.

Definition set_pre (i : set_in) : option status :=
  first_some [
    (if s_usage_ok i then None else Some (SExit 2));
    (if s_args_ok i then None else Some (SExit 1));
    (match s_value_file i with Some false => Some SCrash | _ => None end);       (* open(args.file): 503-505 *)
    (if s_loaded i then None else Some (SExit 1));                              (* 412-414 *)
    (match s_get i with
     | ROk => None
     | RCaught => if s_must_exist i then Some (SExit 1) else None               (* ignore_fail: 446-451 *)
     | RUncaught => Some SCrash
     end);
    (match s_check i with
     | Some l => check_loop (firstn (match s_get i with ROk => s_nodes i | _ => 0 end) l)
     | None => None
     end);
    (match s_saveto i with
     | None => None
     | Some r =>
         let n := match s_get i with ROk => s_nodes i | _ => 0 end in
         if Nat.ltb 1 n then Some (SExit 1)                                       (* 591-595 *)
         else if Nat.eqb n 0 then Some SCrash                                     (* change_node_coordinates[0]: 604 *)
         else match r with ROk => None | RCaught => Some (SExit 1) | RUncaught => Some SCrash end
     end);
    apply_phase i
  ].

Definition set_cfg (i : set_in) : cfg :=
  if s_stream i then CSetStream else CSet (s_backup i) (s_json i) (s_dump_ok i).

Definition set_main2 (i : set_in) (f f2 : option fault) (s : fs) : save_out :=
  match set_pre i with
  | Some st => mkout s [] st
  | None =>
      (* yaml.dump / json.dump(..., sys.stdout) raising: uncaught, no file involved *)
      if s_stream i && negb (s_dump_ok i) then mkout s [] SCrash
      else save2 (set_cfg i) f f2 s
  end.

Definition set_main (i : set_in) (f : option fault) (s : fs) : save_out := set_main2 i f None s.

(* ---- yaml-merge -------------------------------------------------------- *)

(* What merging one more file into the accumulated documents returns:
   merge_docs' return_state (0 = merged), or an uncaught exception. *)
Inductive mcode := MCode (n : nat) | MCrash.

Record mfile := mkmfile {
  mf_loaded : bool;       (* get_doc_mergers: docs_loaded *)
  mf_ndocs : nat;         (* number of documents it holds *)
  mf_merge : mcode        (* result of the merge proper when it is a right-hand side *)
}.

Record merge_in := mkmerge {
  m_usage_ok : bool;
  m_args_ok : bool;             (* no validation error other than the --output / --backup ones *)
  m_mode : out_mode;
  m_backup : bool;
  m_json : bool;
  m_files : list mfile;
  m_stdin : option mfile;       (* an unconsumed, non-TTY STDIN without --nostdin *)
  m_condense : bool;            (* multi-doc mode is CONDENSE_ALL *)
  m_single : mcode;             (* merge_condense_all(log, mergers, []) *)
  m_prepare : step_res;         (* the prepare_for_dump calls (incl. docs[0]) *)
  m_outdocs : nat;              (* len(mergers) when the result is written *)
  m_dump_ok : bool              (* the serialiser accepts the prepared result; false: it raises *)
}.

Inductive loop_end := LEnd (have : bool) (count : nat) (exit_state : nat) | LCrash.

(* for yaml_file in args.yaml_files: ... (512-532); [have] is len(mergers) >= 1 *)
Fixpoint merge_loop (files : list mfile) (have : bool) (count : nat) : loop_end :=
  match files with
  | [] => LEnd have count 0
  | f :: rest =>
      if negb have
      then (if mf_loaded f then merge_loop rest (Nat.ltb 0 (mf_ndocs f)) count
            else LEnd have count 4)
      else if mf_loaded f
           then match mf_merge f with
                | MCode 0 => merge_loop rest true (S count)
                | MCode n => LEnd have count n
                | MCrash => LCrash
                end
           else LEnd have count 3
  end.

(* The exit_state main() holds when it decides whether to write; None = crash. *)
Definition merge_exit_state (i : merge_in) : option nat :=
  match merge_loop (m_files i) false 0 with
  | LCrash => None
  | LEnd have count es =>
      let after_stdin :=
        match es, m_stdin i with
        | 0, Some f =>
            if mf_loaded f
            then match mf_merge f with MCode n => Some (n, S count) | MCrash => None end
            else Some (3, S count)
        | _, _ => Some (es, count)
        end in
      match after_stdin with
      | None => None
      | Some (es, count) =>
          if Nat.eqb es 0 && Nat.eqb count 0 && m_condense i
          then match m_single i with MCode n => Some n | MCrash => None end
          else Some es
      end
  end.

Definition merge_cfg (i : merge_in) : cfg :=
  CMerge (m_mode i) (m_backup i) (m_json i) (m_outdocs i) (m_dump_ok i).

(* Everything main() does between validateargs and the backup copy. *)
Definition merge_pre (i : merge_in) : option status :=
  match merge_exit_state i with
  | None => Some SCrash
  | Some 0 =>
      match m_prepare i with
      | ROk => None
      | _ => Some SCrash                      (* nothing catches it *)
      end
  | Some n => Some (SExit n)
  end.

Definition is_stdout (m : out_mode) : bool := match m with ToStdout => true | _ => false end.

Definition merge_main (i : merge_in) (f : option fault) (s : fs) : save_out :=
  if negb (m_usage_ok i) then mkout s [] (SExit 2)
  else
    let p := plan_of (merge_cfg i) s in
    (* validateargs: the exists() calls happen, then has_errors -> sys.exit(1) *)
    let pv := mkplan (p_validate p) (p_refuse p || negb (m_args_ok i)) [] None [] in
    let v := run_plan pv f s in
    match o_status v with
    | SOk =>
        match merge_pre i with
        | Some st => mkout (o_fs v) (o_trace v) st
        | None =>
            (* the dump to sys.stdout raising: uncaught, no file involved *)
            if is_stdout (m_mode i) && negb (m_dump_ok i) then mkout (o_fs v) (o_trace v) SCrash
            else run_plan p f s
        end
    | _ => v
    end.

End Sc.
