(* The multi-document drivers instantiated with C05's merge model, for the
   correspondence run (MultiDoc.v itself is abstract in the pairwise merge). *)
From Coq Require Import List String ZArith.
From YP Require Import Outcome PyVal Doc Searches MergeConfig Merge MultiDoc.
Import ListNotations.

Definition merge2_model (lit : string -> outcome litres) (cfg : mconfig) (l r : node) : node * option exn :=
  match merge_root lit cfg l r with
  | Ok m => (m, None)
  | Raise e => (l, Some e)          (* the partially merged left document is not observable: no output is written *)
  | OutOfFuel => (l, Some OracleMiss)
  end.

Definition multidoc_run (lit : string -> outcome litres) (cfg : mconfig) (m : mdmode) (ls rs : list node)
  : outcome (list node * nat) :=
  match m with
  | MCondense => merge_condense_all node (merge2_model lit cfg) ls rs
  | MAcross => merge_across node (merge2_model lit cfg) ls rs
  | MMatrix => merge_matrix node (merge2_model lit cfg) ls rs
  end.

(* merge_docs with the mode as the option text (None = attribute absent) and the
   right-hand stream as loaded from its file (None = not loadable) *)
Definition merge_docs_run (lit : string -> outcome litres) (cfg : mconfig) (mode : option string)
           (ls : list node) (rs : option (list node)) : outcome (list node * nat) :=
  merge_docs node (merge2_model lit cfg) (get_multidoc_mode mode) rs ls.
