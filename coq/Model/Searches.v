(* Model of yamlpath/common/nodes.py Nodes.typed_value and
   yamlpath/common/searches.py Searches.search_matches.

   ast.literal_eval and re are oracles (Section variables); for execution they
   are instantiated with the finite tables the harness ships with a request. *)
From Coq Require Import List Ascii String ZArith QArith Bool.
From YP Require Import Outcome PyStr PyVal PathParser.
Import ListNotations.
Open Scope string_scope.

(* result of ast.literal_eval(text) *)
Inductive litres :=
  | LVal (v : pyval)          (* a literal: int/float/bool/None/str, or POther (str of a tuple/list/...) *)
  | LFail                     (* ValueError or SyntaxError (what typed_value catches) *)
  | LCrash (c : pycrash).     (* anything else literal_eval raised, e.g. TypeError for "{[1]: 2}" *)

(* result of re.compile(pattern).search(text) *)
Inductive reres := RMatch (b : bool) | RError.

(* nodes.py:648-651: the exception classes of literal_eval that typed_value
   catches (ValueError and SyntaxError are LFail; MemoryError has no pycrash
   name and cannot be shipped by the harness) *)
Definition lit_crash_caught (c : pycrash) : bool :=
  match c with TypeError | RecursionError | ValueError => true | _ => false end.

Inductive hay := HVal (v : pyval) | HSBool (b : bool).

Section Oracles.
Variable lit : string -> outcome litres.
Variable re_search : string -> string -> outcome reres.

(* Nodes.typed_value for a scalar (the NodeCoords unwrapping branch is applied
   by callers) *)
Definition typed_value (value : pyval) : outcome pyval :=
  match value with
  | PNone => Ok PNone
  | _ =>
      let lower := lower_str (py_str value) in
      let cased : option string :=
        if String.eqb lower "true" then Some "True"
        else if String.eqb lower "false" then Some "False"
        else match value with PStr s => Some s | _ => None end in
      match cased with
      | None => Ok value            (* literal_eval(non-str) raises ValueError: caught *)
      | Some text =>
          do r <- lit text;
          match r with
          | LVal v => Ok v
          | LFail => Ok value
          | LCrash c => if lit_crash_caught c then Ok value else Raise (PyCrash c)
          end
      end
  end.

(* A haystack as the operators receive it: any scalar, or ruamel.yaml's
   ScalarBoolean -- the int subclass wrapping an anchored YAML boolean, which
   pyval files under PInt but searches.py:42-44 tells apart
   (isinstance(typed_haystack, ScalarBoolean) -> bool(typed_haystack)). *)
Definition hay_pyval (h : hay) : pyval :=
  match h with HVal v => v | HSBool b => PInt (Z_of_bool b) end.

Definition typed_haystack (h : hay) : outcome pyval :=
  do t <- typed_value (hay_pyval h);
  match h with
  | HSBool b => Ok (PBool b)
  | HVal _ => Ok t
  end.

Definition is_num_inst (v : pyval) : bool := is_int_inst v || is_float_inst v.

Definition py_gt (a b : pyval) : outcome bool := py_lt b a.
Definition py_ge (a b : pyval) : outcome bool := py_le b a.

(* the four ordering operators share one shape *)
Definition ordered (cmp : pyval -> pyval -> outcome bool) (strcmp : string -> string -> bool)
           (th tn : pyval) (needle : string) : outcome bool :=
  if is_int_inst th then
    if is_num_inst tn then cmp th tn else Ok false
  else if is_float_inst th then
    if is_num_inst tn then cmp th tn else Ok false
  else Ok (strcmp (py_str th) needle).

(* Searches.search_matches(method, needle, haystack).  The path parser always
   hands over a str needle; KeywordSearches.max/min hand over the running
   match_value, which is any scalar: str(needle) is then its text, and the
   str-only operations (startswith / endswith / in / re.compile) raise TypeError
   on a non-str. *)
Definition needle_text (needle : pyval) : outcome string :=
  match needle with
  | PStr s => Ok s
  | _ => Raise (PyCrash TypeError)
  end.

Definition search_matches_g (m : smethod) (needle : pyval) (haystack : hay) : outcome bool :=
  do th <- typed_haystack haystack;
  do tn <- typed_value needle;
  match m with
  | MEquals =>
      if is_bool_inst th && type_is_bool tn then Ok (py_eq th tn)
      else if is_int_inst th && type_is_int tn then Ok (py_eq th tn)
      else if is_float_inst th && type_is_float tn then Ok (py_eq th tn)
      else Ok (String.eqb (py_str th) (py_str needle))
  | MStartsWith => do n <- needle_text needle; Ok (starts_with n (py_str th))
  | MEndsWith => do n <- needle_text needle; Ok (ends_with n (py_str th))
  | MContains => do n <- needle_text needle; Ok (str_contains n (py_str th))
  | MGt => ordered py_gt (fun a b => str_ltb b a) th tn (py_str needle)
  | MLt => ordered py_lt str_ltb th tn (py_str needle)
  | MGe => ordered py_ge (fun a b => str_leb b a) th tn (py_str needle)
  | MLe => ordered py_le str_leb th tn (py_str needle)
  | MRegex =>
      do n <- needle_text needle;
      do r <- re_search n (py_str th);
      match r with
      | RMatch b => Ok b
      | RError => Raise (YPE Generic)     (* re.error is wrapped into YAMLPathException (searches.py) *)
      end
  end.

Definition search_matches_h (m : smethod) (needle : string) (haystack : hay) : outcome bool :=
  search_matches_g m (PStr needle) haystack.

Definition search_matches (m : smethod) (needle : string) (haystack : pyval) : outcome bool :=
  search_matches_h m needle (HVal haystack).

End Oracles.

(* ---- finite oracle tables for execution ---- *)
Fixpoint assoc_s {A} (k : string) (l : list (string * A)) : option A :=
  match l with
  | [] => None
  | (a, b) :: r => if String.eqb k a then Some b else assoc_s k r
  end.

Definition lit_of_table (t : list (string * litres)) (s : string) : outcome litres :=
  match assoc_s s t with Some r => Ok r | None => Raise OracleMiss end.

Fixpoint assoc_ss {A} (k1 k2 : string) (l : list (string * string * A)) : option A :=
  match l with
  | [] => None
  | (a, b, c) :: r => if String.eqb k1 a && String.eqb k2 b then Some c else assoc_ss k1 k2 r
  end.

Definition re_of_table (t : list (string * string * reres)) (p s : string) : outcome reres :=
  match assoc_ss p s t with Some r => Ok r | None => Raise OracleMiss end.
