(* Model of yamlpath/common/nodes.py Nodes.typed_value and
   yamlpath/common/searches.py Searches.search_matches.

   ast.literal_eval and re are oracles (Section variables); for execution they
   are instantiated with the finite tables the harness ships with a request. *)
From Coq Require Import List Ascii String ZArith QArith Bool.
From YP Require Import Outcome PyStr PyVal PathParser.
Import ListNotations.
Open Scope string_scope.

(* result of ast.literal_eval(text) *)
Inductive litres :=
  | LVal (v : pyval)          (* a literal: int/float/bool/None/str, or POther (str of a tuple/list/...) *)
  | LFail                     (* ValueError or SyntaxError (what typed_value catches) *)
  | LCrash (c : pycrash).     (* anything else literal_eval raised, e.g. TypeError for "{[1]: 2}" *)

(* result of re.compile(pattern).search(text) *)
Inductive reres := RMatch (b : bool) | RError.

Section Oracles.
Variable lit : string -> outcome litres.
Variable re_search : string -> string -> outcome reres.

(* Nodes.typed_value for a scalar (the NodeCoords unwrapping branch is applied
   by callers) *)
Definition typed_value (value : pyval) : outcome pyval :=
  match value with
  | PNone => Ok PNone
  | _ =>
      let lower := lower_str (py_str value) in
      let cased : option string :=
        if String.eqb lower "true" then Some "True"
        else if String.eqb lower "false" then Some "False"
        else match value with PStr s => Some s | _ => None end in
      match cased with
      | None => Ok value            (* literal_eval(non-str) raises ValueError: caught *)
      | Some text =>
          do r <- lit text;
          match r with
          | LVal v => Ok v
          | LFail => Ok value
          | LCrash c => Raise (PyCrash c)
          end
      end
  end.

Definition is_num_inst (v : pyval) : bool := is_int_inst v || is_float_inst v.

Definition py_gt (a b : pyval) : outcome bool := py_lt b a.
Definition py_ge (a b : pyval) : outcome bool := py_le b a.

(* the four ordering operators share one shape *)
Definition ordered (cmp : pyval -> pyval -> outcome bool) (strcmp : string -> string -> bool)
           (th tn : pyval) (needle : string) : outcome bool :=
  if is_int_inst th then
    if is_num_inst tn then cmp th tn else Ok false
  else if is_float_inst th then
    if is_num_inst tn then cmp th tn else Ok false
  else Ok (strcmp (py_str th) needle).

Definition search_matches (m : smethod) (needle : string) (haystack : pyval) : outcome bool :=
  do th <- typed_value haystack;
  do tn <- typed_value (PStr needle);
  match m with
  | MEquals =>
      if is_bool_inst th && type_is_bool tn then Ok (py_eq th tn)
      else if is_int_inst th && type_is_int tn then Ok (py_eq th tn)
      else if is_float_inst th && type_is_float tn then Ok (py_eq th tn)
      else Ok (String.eqb (py_str th) needle)
  | MStartsWith => Ok (starts_with needle (py_str th))
  | MEndsWith => Ok (ends_with needle (py_str th))
  | MContains => Ok (str_contains needle (py_str th))
  | MGt => ordered py_gt (fun a b => str_ltb b a) th tn needle
  | MLt => ordered py_lt str_ltb th tn needle
  | MGe => ordered py_ge (fun a b => str_leb b a) th tn needle
  | MLe => ordered py_le str_leb th tn needle
  | MRegex =>
      do r <- re_search needle (py_str th);
      match r with
      | RMatch b => Ok b
      | RError => Raise (YPE Generic)     (* re.error is wrapped into YAMLPathException (searches.py) *)
      end
  end.

End Oracles.

(* ---- finite oracle tables for execution ---- *)
Fixpoint assoc_s {A} (k : string) (l : list (string * A)) : option A :=
  match l with
  | [] => None
  | (a, b) :: r => if String.eqb k a then Some b else assoc_s k r
  end.

Definition lit_of_table (t : list (string * litres)) (s : string) : outcome litres :=
  match assoc_s s t with Some r => Ok r | None => Raise OracleMiss end.

Fixpoint assoc_ss {A} (k1 k2 : string) (l : list (string * string * A)) : option A :=
  match l with
  | [] => None
  | (a, b, c) :: r => if String.eqb k1 a && String.eqb k2 b then Some c else assoc_ss k1 k2 r
  end.

Definition re_of_table (t : list (string * string * reres)) (p s : string) : outcome reres :=
  match assoc_ss p s t with Some r => Ok r | None => Raise OracleMiss end.
