(* The path TEXT the tools report for a location of a document, and the
   explicit guard under which that text leads back to the location.

   Three tools build the text of a reported path the same way, step by step
   from the document root:
     Processor (processor.py: every handler's next_translated_path),
     yaml-paths (commands/yaml_paths.py search_for_paths / yield_children: tmp_path),
     Differ (differ.py: path + escape_path_section(key, path.separator), path + "[idx]"):
   a mapping key / set member contributes
       escape_path_section(str(key), separator)          (yamlpath.py:1004-1035)
   after a separator, a sequence element contributes "[index]".

   [build_path sp loc] is the text str() shows for such a path in notation
   [sp] (the form yaml-paths builds directly: no separator before "[index]",
   forward-slash notation starts with the separator).
   [build_orig loc] is the `.original` text of the YAMLPath object that
   Processor and Differ build by repeated `path + segment` from the empty path
   (YAMLPath.__add__/append, yamlpath.py:113-137): the separator is inferred
   from the text so far (dot unless it starts with "/"), and append puts a
   separator also before "[index]".

   No proofs here (Proofs/ResolveText.v, ResolveEval.v, ResolvePaths.v, ResolveDiff.v). *)
From Coq Require Import List Ascii String ZArith Bool Arith.
From YP Require Import Outcome PyStr PyVal Doc Generated PathParser PathPrinter.
Import ListNotations.
Open Scope string_scope.

(* escape_path_section(str(key), separator) *)
Definition pb_sec (k : pyval) (sepc : ascii) : string := escape_path_section (py_str k) sepc.
(* "[{}]".format(index) *)
Definition pb_idx (i : nat) : string := "[" ++ str_of_Z (Z.of_nat i) ++ "]".

Definition pb_ref_text (sepc : ascii) (first : bool) (r : ref) : string :=
  match r with
  | RKey k | RMember k => (if first then "" else str1 sepc) ++ pb_sec k sepc
  | RIdx i => pb_idx i
  end.

Fixpoint pb_go (sepc : ascii) (first : bool) (l : loc) : string :=
  match l with
  | [] => ""
  | r :: rest => pb_ref_text sepc first r ++ pb_go sepc false rest
  end.

Definition build_path (sp : sep) (l : loc) : string :=
  (match sp with Slash => "/" | Dot => "" end) ++ pb_go (sep_char sp) true l.

(* ---- the append form: YAMLPath("") + seg + seg ... ---- *)
(* str(path.separator) of the path built so far *)
Definition pb_sepc (tp : string) : ascii :=
  match tp with
  | String c _ => if Ascii.eqb c "/"%char then "/"%char else "."%char
  | EmptyString => "."%char
  end.
(* (path + segment).original *)
Definition pb_add (tp sg : string) : string :=
  match tp with
  | EmptyString => normalize_original sg
  | _ => normalize_original (tp ++ String (pb_sepc tp) EmptyString ++ sg)
  end.
Definition pb_ref_seg (tp : string) (r : ref) : string :=
  match r with
  | RKey k | RMember k => pb_sec k (pb_sepc tp)
  | RIdx i => pb_idx i
  end.
Fixpoint pb_append (tp : string) (l : loc) : string :=
  match l with
  | [] => tp
  | r :: rest => pb_append (pb_add tp (pb_ref_seg tp r)) rest
  end.
Definition build_orig (l : loc) : string := pb_append "" l.

(* ---------------------------------------------------------------------- *)
(* The guard.  Every clause names what escape_path_section cannot protect
   (findings C02 F26 / C07 F-C07-2 / C06 F5 are exactly the complement). *)

(* the characters the parser does NOT take as plain text while it reads a key
   outside brackets and quotes (besides the back-slash): the separator, an
   opening parenthesis / bracket, a closing bracket, a blank, both quotes *)
Definition pb_hard (sepc : ascii) : list ascii := [sepc; "("; "["; "]"; " "; "'"; """"]%char.

(* no back-slash immediately before one of [syms] *)
Fixpoint pb_no_bs_before (syms : list ascii) (s : string) : bool :=
  match s with
  | EmptyString => true
  | String c r =>
      (if Ascii.eqb c "\"%char
       then match r with String d _ => negb (mem_ascii d syms) | EmptyString => true end
       else true) && pb_no_bs_before syms r
  end.

Definition pb_first_not (bad : ascii) (s : string) : bool :=
  match s with EmptyString => true | String c _ => negb (Ascii.eqb c bad) end.

(* The text of a key that escape_path_section protects:
     - not empty                        (an empty key adds no segment at all)
     - no "*"                           (re-read as a wildcard; "*" has no escape)
     - does not start with "&"          (re-read as an anchor name; "&" has no escape)
     - no back-slash immediately before a back-slash (ensure_escaped takes the
       pair for one escaped back-slash) or before a character of [pb_hard]
       (ensure_escaped takes the pair for an already escaped symbol, so the
       symbol stays unprotected).  A back-slash before ) ^ $ % or at the end
       is harmless: those characters are plain text outside brackets. *)
Definition safe_key (sepc : ascii) (k : string) : bool :=
  nonempty k && negb (str_in "*"%char k) && pb_first_not "&"%char k
  && pb_no_bs_before ("\"%char :: pb_hard sepc) k.

(* One step from [parent]: the reference must be a key / member whose text is
   safe.  An integer key is written by its digits and found through the
   evaluator's int() fallback - unless the same mapping also has the digits
   as a STRING key, which is tried first.  Keys of other types (float, bool,
   null, date) and non-string set members are compared with the key TEXT and
   never match. *)
Definition pb_safe_ref (sepc : ascii) (parent : node) (r : ref) : bool :=
  match r with
  | RIdx _ => true
  | RKey (PStr k) => safe_key sepc k
  | RKey (PInt z) =>
      match parent with
      | NMap _ kvs => match assoc_key (PStr (str_of_Z z)) kvs with None => true | Some _ => false end
      | _ => false
      end
  | RMember (PStr k) => safe_key sepc k
  | _ => false
  end.

Fixpoint pb_safe_go (sepc : ascii) (n : node) (l : loc) : bool :=
  match l with
  | [] => true
  | r :: rest =>
      pb_safe_ref sepc n r
      && match child n r with Some c => pb_safe_go sepc c rest | None => false end
  end.

(* a character that str.strip() keeps *)
Fixpoint pb_has_ns (s : string) : bool :=
  match s with EmptyString => false | String c r => negb (is_space_py c) || pb_has_ns r end.

(* The first step in dot notation: a text starting with "/" IS forward-slash
   notation, and a text str.strip() empties (a single key made of tabs / line
   feeds) is the empty path. *)
Definition pb_first_ok (sp : sep) (l : loc) : bool :=
  match sp, l with
  | Dot, (RKey k | RMember k) :: _ => pb_first_not "/"%char (py_str k) && pb_has_ns (pb_sec k "."%char)
  | _, _ => true
  end.

(* Processor.get_nodes refuses a null document *)
Definition pb_doc_ok (d : node) : bool :=
  match d with NLeaf _ PNone => false | _ => true end.

Definition pb_safe (sp : sep) (d : node) (l : loc) : bool :=
  pb_doc_ok d && pb_safe_go (sep_char sp) d l && pb_first_ok sp l.

(* the same for the append form (always dot notation) and for the canonical
   text of the append form in either notation: the key must be safe for the
   separator it was escaped with and for the one it is shown with *)
Definition pb_safe_both (d : node) (l : loc) : bool :=
  pb_safe Dot d l && pb_safe_go "/"%char d l.
