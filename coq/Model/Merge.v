(* Model of yamlpath/merger/merger.py: _merge_dicts, _merge_simple_lists,
   _merge_arrays_of_hashes, _merge_lists, _merge_sets, _insert_dict,
   _insert_list, _insert_set, _insert_scalar and merge_with, as the code stands
   after the fix: commits listed in docs/C05.md.

   Documents are the rose trees of Lib/Doc.v.  Python mutates the left-hand
   containers in place and hands right-hand objects over by reference; the
   model threads the left-hand tree functionally.  This is the same thing as
   long as no CONTAINER object is reachable at two places of the documents
   (no alias of an anchored Hash / Array); scalars may be shared freely.
   Every function that Python calls for its return value AND for its effect on
   the left-hand object returns both ([mres]).

   Not modelled: YAML merge keys (`<<:`; _delete_mergeref_keys and
   Anchors.combine_merge_anchors are no-ops without them), comments and flow
   style, the YAMLPath texts built for log and exception messages (they are
   parsed lazily and can raise YAMLPathException for keys holding a backslash
   before a path-special character -- see docs/C05.md), ruamel's preservation
   of the scalar-string flavour in CommentedMap.__setitem__. *)
From Coq Require Import List Ascii String ZArith NArith Bool.
From YP Require Import Outcome PyStr PyVal Doc PathParser Searches MergeConfig.
Import ListNotations.
Open Scope string_scope.
Open Scope list_scope.

(* ---------- Python equality on loaded nodes ---------- *)

(* isinstance(n, TaggedScalar): a scalar carrying a YAML tag.  An anchored
   YAML boolean (ruamel ScalarBoolean) is encoded as an int leaf with the YAML
   bool tag (Lib/Doc.v is_sbool); it is no TaggedScalar. *)
Definition is_tagged_scalar (n : node) : bool :=
  match n with
  | NLeaf i _ => match tag i with Some _ => negb (is_sbool n) | None => false end
  | _ => false
  end.

Definition key_val (k : node) : pyval := match k with NLeaf _ v => v | _ => PNone end.

(* `a == b`.  TaggedScalar defines no __eq__: object identity.  CommentedMap:
   dict(self) == other (order-insensitive); CommentedSeq: list.__eq__;
   CommentedSet: Set.__eq__ (same size and subset).  Different kinds are
   unequal. *)
Fixpoint node_eq (a b : node) {struct a} : bool :=
  match a, b with
  | NLeaf ia va, NLeaf ib vb =>
      if is_tagged_scalar a || is_tagged_scalar b then N.eqb (oid ia) (oid ib) else py_eq va vb
  | NMap _ ka, NMap _ kb =>
      Nat.eqb (List.length ka) (List.length kb) &&
      (fix all_in (l : list (node * node)) : bool :=
         match l with
         | [] => true
         | (k, v) :: r =>
             (fix find (m : list (node * node)) : bool :=
                match m with
                | [] => false
                | (k', v') :: m' => if node_eq k k' then node_eq v v' else find m'
                end) kb && all_in r
         end) ka
  | NSeq _ ea, NSeq _ eb =>
      (fix eq_list (l m : list node) : bool :=
         match l, m with
         | [], [] => true
         | x :: l', y :: m' => node_eq x y && eq_list l' m'
         | _, _ => false
         end) ea eb
  | NSet _ ea, NSet _ eb =>
      Nat.eqb (List.length ea) (List.length eb) &&
      (fix all_in (l : list node) : bool :=
         match l with
         | [] => true
         | x :: r => existsb (fun y => node_eq x y) eb && all_in r
         end) ea
  | _, _ => false
  end.

(* `x in lst` for a Python list *)
Definition in_list (x : node) (l : list node) : bool := existsb (fun e => node_eq e x) l.

(* ---------- small helpers on trees ---------- *)

Definition fresh_info : info := mkinfo 0%N None true None.

Definition set_tag (n : node) (t : option string) : node :=
  let upd i := mkinfo (oid i) (anchor i) (has_anchor_attr i) t in
  match n with
  | NLeaf i v => NLeaf (upd i) v
  | NMap i kvs => NMap (upd i) kvs
  | NSeq i els => NSeq (upd i) els
  | NSet i els => NSet (upd i) els
  end.

Definition node_tag (n : node) : option string := tag (node_info n).

(* node.yaml_set_tag(t): containers and TaggedScalars have it; any other
   scalar raises AttributeError *)
Definition yaml_set_tag (n : node) (t : option string) : outcome node :=
  match n with
  | NLeaf _ _ => if is_tagged_scalar n then Ok (set_tag n t) else Raise (PyCrash AttributeError)
  | _ => Ok (set_tag n t)
  end.

(* lhs[key] = val for a key that is present: position and key object stay *)
Fixpoint set_val (k : pyval) (v : node) (kvs : list (node * node)) : list (node * node) :=
  match kvs with
  | [] => []
  | (kn, old) :: r =>
      match kn with
      | NLeaf _ kv => if py_eq kv k then (kn, v) :: r else (kn, old) :: set_val k v r
      | _ => (kn, old) :: set_val k v r       (* keys are scalars; as Doc.assoc_key *)
      end
  end.

(* ruamel ordereddict.insert(pos, key, value) for a key that is absent *)
Definition insert_at (pos : nat) (kv : node * node) (kvs : list (node * node)) : list (node * node) :=
  firstn pos kvs ++ kv :: skipn pos kvs.

(* the buffer write-out of _merge_dicts:153-172 *)
Fixpoint flush (buf : list (node * node)) (pos : nat) (kvs : list (node * node))
  : list (node * node) * nat :=
  match buf with
  | [] => (kvs, pos)
  | kv :: r => flush r (S pos) (insert_at pos kv kvs)
  end.

Fixpoint replace_nth (i : nat) (x : node) (l : list node) : list node :=
  match l, i with
  | [], _ => []
  | _ :: r, O => x :: r
  | y :: r, S j => y :: replace_nth j x r
  end.

(* Nodes.tagless_elements / the cmp_val of _merge_simple_lists and _merge_sets:
   a TaggedScalar is replaced by its (string) value *)
(* TaggedScalar.value is always the scalar's text (the encoder ships a
   TaggedScalar as POther of that text) *)
Definition tagged_text (v : pyval) : pyval := match v with POther s => PStr s | _ => v end.

Definition tagless (n : node) : node :=
  match n with
  | NLeaf i v => if is_tagged_scalar n then NLeaf fresh_info (tagged_text v) else n
  | _ => n
  end.

(* Python result + the left-hand object after the call *)
Record mres := mkres { ret : node; inplace : node; ret_is_lhs : bool }.
Definition same (n : node) : mres := mkres n n true.
(* Python returned another object [r]; the left-hand object is now [l] *)
Definition other (r l : node) : mres := mkres r l false.

Inductive shortcut := KeepLeft | TakeRight | GoOn.

Section WithConfig.
Variable lit : string -> outcome litres.
Variable cfg : mconfig.

(* Nodes.tagless_value(x): the typed scalar, or the container itself *)
Inductive idval := IdScalar (v : pyval) | IdNode (n : node).

Definition tagless_value (n : node) : outcome idval :=
  match n with
  | NLeaf _ v =>
      do t <- typed_value lit (if is_tagged_scalar n then tagged_text v else v); Ok (IdScalar t)
  | _ => Ok (IdNode n)
  end.

(* `==` of two tagless values.  A string whose literal_eval is a list/dict/tuple
   compared with a container is outside the modelled domain (false here). *)
Definition idval_eq (a b : idval) : bool :=
  match a, b with
  | IdScalar x, IdScalar y => py_eq x y
  | IdNode x, IdNode y => node_eq x y
  | _, _ => false
  end.

(* ---------- _merge_sets (merger.py:451-500) ---------- *)
Fixpoint sets_loop (rels : list node) (tl : list node) (lels : list node) : list node :=
  match rels with
  | [] => lels
  | ele :: r =>
      if in_list (tagless ele) tl then sets_loop r tl lels
      else (* lhs.add(ele): odict[ele] = None *)
        sets_loop r tl (if in_list ele lels then lels else lels ++ [ele])
  end.

Definition merge_sets (l r : node) (nc : coord) : outcome mres :=
  match l with
  | NSet li lels =>
      do mode <- set_merge_mode cfg nc;
      match mode with
      | SLeft => Ok (same l)
      | SRight => Ok (other r l)
      | SUnique =>
          match r with
          | NSet _ rels | NSeq _ rels => Ok (same (NSet li (sets_loop rels (map tagless lels) lels)))
          | _ => Raise (PyCrash TypeError)
          end
      end
  | _ => Raise MergeExc
  end.

(* ---------- _merge_simple_lists (merger.py:271-329) ---------- *)

(* e == cmp_val or (isinstance(e, TaggedScalar) and e.value == cmp_val) *)
Definition elem_matches (e cmp : node) : bool :=
  node_eq e cmp || (is_tagged_scalar e && node_eq (tagless e) cmp).

(* state: the list `lhs` is bound to (info + elements), the original object's
   elements, whether `lhs` still IS the original object, tagless_lhs *)
Record slst := mkslst { cur_i : info; cur : list node; orig : list node; is_orig : bool; tl : list node }.

Definition simple_step (unique : bool) (s : slst) (ele : node) : slst :=
  let app s := mkslst (cur_i s) (cur s ++ [ele]) (if is_orig s then orig s ++ [ele] else orig s)
                      (is_orig s) (tl s) in
  if unique then
    let cmp := tagless ele in
    if in_list cmp (tl s) then
      mkslst fresh_info (map (fun e => if elem_matches e cmp then ele else e) (cur s)) (orig s) false (tl s)
    else
      let s' := app s in mkslst (cur_i s') (cur s') (orig s') (is_orig s') (tl s ++ [cmp])
  else app s.

Definition merge_simple_lists (l r : node) (nc : coord) : outcome mres :=
  match l with
  | NSeq li lels =>
      do mode <- array_merge_mode cfg nc;
      match mode with
      | ALeft => Ok (same l)
      | ARight => Ok (other r l)
      | _ =>
          let rels := match r with NSeq _ e => e | _ => [] end in
          let s := fold_left (simple_step (match mode with AUnique => true | _ => false end)) rels
                             (mkslst li lels lels true (map tagless lels)) in
          Ok (mkres (NSeq (cur_i s) (cur s)) (NSeq li (orig s)) (is_orig s))
      end
  | _ => Raise MergeExc
  end.

(* ---------- the recursive core: _merge_dicts, _merge_lists,
              _merge_arrays_of_hashes ---------- *)

(* which lhs record does a DEEP Array-of-Hashes merge pick (merger.py:394-399) *)
Fixpoint find_record (id_key : pyval) (id_val : idval) (lels : list node) (i : nat)
  : outcome (option (nat * node)) :=
  match lels with
  | [] => Ok None
  | (NMap _ kvs as h) :: rest =>
      match assoc_key id_key kvs with
      | Some v =>
          do lv <- tagless_value v;
          if idval_eq lv id_val then Ok (Some (i, h)) else find_record id_key id_val rest (S i)
      | None => find_record id_key id_val rest (S i)
      end
  | _ :: rest => find_record id_key id_val rest (S i)
  end.

Definition first_key (n : node) : option pyval :=
  match n with NMap _ ((k, _) :: _) => Some (key_val k) | _ => None end.

(* one right-hand key of _merge_dicts (merger.py:150-256);
   state = (lhs items, buffer, buffer_pos) *)
Definition dstate := (list (node * node) * list (node * node) * nat)%type.

Definition short_of_hash (m : hash_opt) : shortcut :=
  match m with HLeft => KeepLeft | HRight => TakeRight | HDeep => GoOn end.
Definition short_of_set (m : set_opt) : shortcut :=
  match m with SLeft => KeepLeft | SRight => TakeRight | SUnique => GoOn end.
Definition short_of_aoh (m : aoh_opt) : shortcut :=
  match m with OLeft => KeepLeft | ORight => TakeRight | _ => GoOn end.

(* merge_mode = hash_merge_mode if Hash else set_merge_mode if Set else
   aoh_merge_mode -- the last also for plain Arrays and for Scalars *)
Definition dict_shortcut (val : node) (nc : coord) : outcome shortcut :=
  match val with
  | NMap _ _ => do m <- hash_merge_mode cfg nc; Ok (short_of_hash m)
  | NSet _ _ => do m <- set_merge_mode cfg nc; Ok (short_of_set m)
  | _ => do m <- aoh_merge_mode cfg nc; Ok (short_of_aoh m)
  end.

Definition dict_step (rec : node -> coord -> node -> outcome node) (rhs_oid : N)
           (st : dstate) (kv : node * node) : outcome dstate :=
  let '(kvs, buf, pos) := st in
  let (key, val) := kv in
  let k := key_val key in
  match assoc_key k kvs with
  | Some _ =>
      let (kvs1, pos1) := flush buf pos kvs in
      let nc := mkcoord (node_oid val) (Some rhs_oid) (Some k) in
      do sc <- dict_shortcut val nc;
      match sc with
      (* `continue`: the `buffer_pos += 1` at the end of the loop body is skipped *)
      | KeepLeft => Ok (kvs1, [], pos1)
      | TakeRight => Ok (set_val k val kvs1, [], pos1)
      | GoOn =>
          match assoc_key k kvs1 with
          | None => Raise (PyCrash KeyError)
          | Some lv =>
              match val with
              | NLeaf _ _ => Ok (set_val k val kvs1, [], S pos1)
              | NSet _ _ =>
                  do m <- merge_sets lv val nc;
                  do m' <- yaml_set_tag (ret m) (node_tag val);
                  Ok (set_val k m' kvs1, [], S pos1)
              | _ =>
                  do m <- rec val nc lv;
                  do m' <- yaml_set_tag m (node_tag val);
                  Ok (set_val k m' kvs1, [], S pos1)
              end
          end
      end
  | None => Ok (kvs, buf ++ [kv], S pos)
  end.

(* one right-hand element of _merge_arrays_of_hashes (merger.py:381-422) *)
Definition aoh_step (rec : node -> coord -> node -> outcome node) (mode : aoh_opt) (id_key : pyval)
           (lels : list node) (ele : node) : outcome (list node) :=
  match mode with
  | ODeep =>
      match ele with
      | NMap _ ekvs =>
          match assoc_key id_key ekvs with
          | None => Raise MergeExc
          | Some idn =>
              do id_val <- tagless_value idn;
              do found <- find_record id_key id_val lels 0;
              match found with
              | Some (i, lh) =>
                  do m <- rec ele (mkcoord (node_oid ele) None None) lh;
                  Ok (replace_nth i (set_tag m (node_tag ele)) lels)
              | None => Ok (lels ++ [ele])
              end
          end
      | _ => Ok (lels ++ [ele])
      end
  | OUnique => if in_list ele lels then Ok lels else Ok (lels ++ [ele])
  | _ => Ok (lels ++ [ele])
  end.

(* merge_rec r nc l:
     r a Hash  : _merge_dicts(l, r, ...)                      (returns l, mutated)
     r an Array: _merge_lists(l, r, ..., parent/parentref = nc)  (the RETURNED list)
   The recursion is structural in the right-hand document. *)
Fixpoint merge_rec (r : node) (nc : coord) (l : node) {struct r} : outcome node :=
  match r with
  | NMap ri rkvs =>
      match l with
      | NMap li lkvs =>
          do st <- (fix loop (items : list (node * node)) (st : dstate) : outcome dstate :=
                      match items with
                      | [] => Ok st
                      | kv :: rest =>
                          do st' <- dict_step (fun v c lv => merge_rec (snd kv) c lv) (oid ri) st kv;
                          loop rest st'
                      end) rkvs (lkvs, [], O);
          let '(kvs, buf, _) := st in
          Ok (NMap li (kvs ++ buf))
      | _ => Raise MergeExc
      end
  | NSeq ri rels =>
      match rels with
      | [] => if is_seq l then Ok l else Raise MergeExc
      | first :: _ =>
          if is_map first then
            match l with
            | NSeq li lels =>
                let id_key := aoh_merge_key cfg (mkcoord (node_oid first) (Some (oid ri)) (Some (PInt 0)))
                                            (first_key first) in
                do mode <- aoh_merge_mode cfg nc;
                match mode with
                | OLeft => Ok l
                | ORight => Ok r
                | _ =>
                    do els <- (fix loop (items : list node) (lels : list node) : outcome (list node) :=
                                 match items with
                                 | [] => Ok lels
                                 | ele :: rest =>
                                     do lels' <- aoh_step (fun v c lv => merge_rec ele c lv) mode id_key lels ele;
                                     loop rest lels'
                                 end) rels lels;
                    Ok (NSeq li els)
                end
            | _ => Raise MergeExc
            end
          else
            do m <- merge_simple_lists l r nc; Ok (ret m)
      end
  | NSet _ _ => do m <- merge_sets l r nc; Ok (ret m)
  | NLeaf _ _ => Ok r
  end.

(* _merge_lists seen from _insert_*: returned list and the left-hand object *)
Definition merge_lists_top (l r : node) (nc : coord) : outcome mres :=
  match r with
  | NSeq _ (first :: _) =>
      if is_map first then
        do m <- merge_rec r nc l;
        do mode <- aoh_merge_mode cfg nc;      (* the lookup merge_rec just made *)
        (* RIGHT: rhs returned, lhs untouched; LEFT: the lhs itself; else merged in place *)
        Ok (match mode with ORight => other m l | _ => same m end)
      else merge_simple_lists l r nc
  | _ => do m <- merge_rec r nc l; Ok (same m)
  end.

(* ---------- _insert_dict / _insert_list / _insert_set / _insert_scalar ---------- *)

Definition root_coord (n : node) : coord := mkcoord (node_oid n) None None.

(* lhs.yaml_set_tag(rhs.tag.value) acts on the left-hand object *)
Definition tag_sync (m : mres) (l r : node) : outcome mres :=
  do l' <- yaml_set_tag (inplace m) (node_tag r);
  Ok (mkres (if ret_is_lhs m then l' else ret m) l' (ret_is_lhs m)).

Definition insert_dict (l r : node) : outcome mres :=
  match l with
  | NSeq _ _ =>
      let wrapped := NSeq fresh_info [r] in
      do m <- merge_lists_top l wrapped (root_coord wrapped);
      tag_sync m l r
  | NSet _ _ => Raise MergeExc
  | NLeaf _ _ => Raise MergeExc
  | NMap _ _ =>
      do mode <- hash_merge_mode cfg (root_coord r);
      do m <- match mode with
              | HLeft => Ok (same l)
              | HRight => Ok (other r l)
              | HDeep => do x <- merge_rec r (root_coord r) l; Ok (same x)
              end;
      tag_sync m l r
  end.

Definition insert_list (l r : node) : outcome mres :=
  match l with
  | NSeq _ _ => do m <- merge_lists_top l r (root_coord r); tag_sync m l r
  | NSet _ _ =>
      let rels := match r with NSeq _ e => e | _ => [] end in
      if forallb is_leaf rels then
        (* mset: the elements as a fresh CommentedSet (duplicates collapse) *)
        let mset := NSet fresh_info (fold_left (fun acc e => if in_list e acc then acc else acc ++ [e]) rels []) in
        do m <- merge_sets l mset (root_coord r);
        tag_sync m l r
      else Raise MergeExc
  | _ => Raise MergeExc
  end.

Definition insert_set (l r : node) : outcome mres :=
  let rels := match r with NSet _ e => e | _ => [] end in
  match l with
  | NSeq _ _ =>
      let lst := NSeq fresh_info rels in
      do m <- merge_lists_top l lst (root_coord lst); tag_sync m l r
  | NMap _ _ =>
      let d := NMap fresh_info (map (fun e => (e, NLeaf (mkinfo 0%N None false None) PNone)) rels) in
      do x <- merge_rec d (root_coord d) l; tag_sync (same x) l r
  | _ => do m <- merge_sets l r (root_coord r); tag_sync m l r
  end.

(* _insert_scalar at the document root (the non-root `else` branch is
   Processor._apply_change on the target and belongs to C11) *)
Definition insert_scalar_root (l r : node) : outcome mres :=
  match l with
  | NSeq li lels => Ok (same (NSeq li (lels ++ [r])))
  | NSet _ _ =>
      do m <- merge_sets l (NSet fresh_info [r]) (root_coord r);
      Ok (same (inplace m))
  | NMap _ _ => Raise MergeExc
  | NLeaf _ _ => Ok (other r l)
  end.

Definition is_none (n : node) : bool := match n with NLeaf _ PNone => true | _ => false end.

(* the per-target dispatch of merge_with (merger.py:872-893) *)
Definition insert_any (l r : node) : outcome mres :=
  match r with
  | NMap _ _ => insert_dict l r
  | NSeq _ _ => insert_list l r
  | NSet _ _ => insert_set l r
  | NLeaf _ _ => insert_scalar_root l r
  end.

(* merge_with for the default insertion point "/" (mergeat absent or the root):
   the single target is the document itself and `self.data = merged_data`.
   Anchor conflicts (_resolve_anchor_conflicts) are applied by the caller
   (Anchors.v); this is the merge proper. *)
Definition merge_root (l r : node) : outcome node :=
  if is_none r then Ok l
  else if is_none l then
    (* self.data = Nodes.build_next_node("/", 0, rhs): the document becomes rhs;
       a Scalar rhs then replaces it once more through _insert_scalar *)
    Ok r
  else
    do m <- insert_any l r; Ok (ret m).

End WithConfig.
