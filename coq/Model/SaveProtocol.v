(* C17 -- the save protocols of yaml-set, yaml-merge and eyaml-rotate-keys over an
   abstract file system, with fault injection (one fault; a second one for the
   restore path of yaml-set).

   Code mirrored (line numbers of the repo worktree, branch save3):
     yamlpath/commands/yaml_set.py     310-323 render_json_text, save_to_json_file
                                       325-369 save_to_yaml_file (incl. the two
                                               restore paths: except AssertionError
                                               -> critical(3), except Exception ->
                                               re-raise)
                                       390-425 write_output_document
                                               (JSON text rendered before any file
                                               is touched)
     yamlpath/commands/yaml_merge.py   256-279 validateargs (--output / --overwrite / --backup)
                                       288-348 write_output_document (the output is
                                               rendered into a StringIO, then the
                                               backup, then open + write)
     yamlpath/commands/eyaml_rotate_keys.py 187-198 the save of one file

   The file system is abstract: four roles and four content classes.  [Orig]
   = the complete bytes the file had before the run, [Stale] = the bytes of a
   .bak left by an earlier run, [New] = the complete new document, [Partial] =
   anything else (empty, truncated, half written) -- the pessimistic stand-in
   for whatever an interrupted write leaves behind. *)
From Coq Require Import List Bool Arith.
Import ListNotations.

(* Everything lives in the module [Sv] so that the extracted OCaml names are
   namespaced (OCaml module Model.Sv) and cannot collide with other models. *)
Module Sv.

Inductive role := Target | Bak | Output | Tmp.
Inductive content := Orig | Stale | New | Partial.

Record fs := mkfs {
  f_target : option content;
  f_bak : option content;
  f_output : option content;
  f_tmp : option content
}.

Definition get (s : fs) (r : role) : option content :=
  match r with
  | Target => f_target s | Bak => f_bak s | Output => f_output s | Tmp => f_tmp s
  end.

Definition upd (s : fs) (r : role) (c : option content) : fs :=
  match r with
  | Target => mkfs c (f_bak s) (f_output s) (f_tmp s)
  | Bak => mkfs (f_target s) c (f_output s) (f_tmp s)
  | Output => mkfs (f_target s) (f_bak s) c (f_tmp s)
  | Tmp => mkfs (f_target s) (f_bak s) (f_output s) c
  end.

Definition role_eqb (a b : role) : bool :=
  match a, b with
  | Target, Target | Bak, Bak | Output, Output | Tmp, Tmp => true
  | _, _ => false
  end.

Definition content_eqb (a b : content) : bool :=
  match a, b with
  | Orig, Orig | Stale, Stale | New, New | Partial, Partial => true
  | _, _ => false
  end.

Definition is_some {A} (o : option A) : bool := match o with Some _ => true | None => false end.

Definition holds (s : fs) (r : role) (c : content) : bool :=
  match get s r with Some d => content_eqb d c | None => false end.

(* One I/O call of the command modules. *)
Inductive op :=
  | Exists (r : role)                 (* os.path.exists(path) *)
  | Remove (r : role)                 (* os.remove(path) *)
  | Copy2 (src dst : role)            (* shutil.copy2(src, dst) *)
  | MkTmp                             (* tempfile.TemporaryFile() *)
  | OpenRead (r : role)               (* open(path, 'rb') *)
  | CopyObj (src dst : role)          (* shutil.copyfileobj(src handle, dst handle) *)
  | OpenTrunc (r : role)              (* open(path, 'w' | 'wb'): creates or truncates *)
  | Dump (r : role) (ok : bool)       (* yaml.dump(data, handle of r) straight into the open file;
                                         ok = false: the dumper ITSELF raises (a value it cannot
                                         represent: TypeError, RecursionError, ...) *)
  | Render (ok : bool)                (* serialisation into memory: json.dumps(...), or dump /
                                         dump_all / json.dump into a StringIO; no file is touched;
                                         ok = false: the serialiser itself raises *)
  | WriteText (r : role).             (* handle.write(text) of the completely rendered text *)

(* Normal completion of one call; None = the call itself raises (missing file). *)
Definition exec (o : op) (s : fs) : option fs :=
  match o with
  | Exists _ => Some s
  | Remove r => if is_some (get s r) then Some (upd s r None) else None
  | Copy2 a b => match get s a with Some c => Some (upd s b (Some c)) | None => None end
  | MkTmp => Some (upd s Tmp (Some Partial))
  | OpenRead r => if is_some (get s r) then Some s else None
  | CopyObj a b => match get s a with Some c => Some (upd s b (Some c)) | None => None end
  | OpenTrunc r => Some (upd s r (Some Partial))
  | Dump r ok => if ok then Some (upd s r (Some New)) else None
  | Render ok => if ok then Some s else None
  | WriteText r => Some (upd s r (Some New))
  end.

(* A call that fails.  [Before]: it raises without effect.  [Mid]: it raises
   after the pessimistic half of its effect. *)
Inductive fmode := Before | Mid.
(* The class of the exception: OSError | AssertionError | another subclass of
   Exception (TypeError, ValueError, RecursionError, ...) | a BaseException that
   is not an Exception (KeyboardInterrupt: the run is interrupted inside the call). *)
Inductive fkind := FOs | FAssert | FOther | FInterrupt.

Definition fault_effect (m : fmode) (o : op) (s : fs) : fs :=
  match m with
  | Before => s
  | Mid =>
      match o with
      | Remove r => upd s r None
      | Copy2 a b => if is_some (get s a) then upd s b (Some Partial) else s
      | CopyObj a b => upd s b (Some Partial)
      | OpenTrunc r => upd s r (Some Partial)
      | Dump r _ => upd s r (Some Partial)
      | WriteText r => upd s r (Some Partial)
      | Render _ | Exists _ | MkTmp | OpenRead _ => s
      end
  end.

Record fault := mkfault { at_k : nat; f_mode : fmode; f_kind : fkind }.

(* How a sequence of calls ended. *)
Inductive stop :=
  | Completed
  | Failed (o : op)                   (* the call raised by itself (missing file) *)
  | Injected (o : op) (k : fkind).    (* the injected failure hit this call *)

Record run_result := mkrun { r_fs : fs; r_trace : list op; r_stop : stop }.

(* Run the calls in order; the k-th one (0-based) suffers the fault.  The trace
   lists every call attempted, the failing one included. *)
Fixpoint run_until_fault (f : option fault) (k : nat) (l : list op) (s : fs) : run_result :=
  match l with
  | [] => mkrun s [] Completed
  | o :: rest =>
      match f with
      | Some ft =>
          if Nat.eqb (at_k ft) k
          then mkrun (fault_effect (f_mode ft) o s) [o] (Injected o (f_kind ft))
          else match exec o s with
               | None => mkrun s [o] (Failed o)
               | Some s' => let r := run_until_fault f (S k) rest s' in
                            mkrun (r_fs r) (o :: r_trace r) (r_stop r)
               end
      | None =>
          match exec o s with
          | None => mkrun s [o] (Failed o)
          | Some s' => let r := run_until_fault f (S k) rest s' in
                       mkrun (r_fs r) (o :: r_trace r) (r_stop r)
          end
      end
  end.

(* ---------------------------------------------------------------------- *)
(* The save sequences.                                                     *)

(* `if exists(backup_file): remove(backup_file)`, then copy2(file, backup_file)
   (yaml_set.py:402-408, yaml_merge.py:338-345, eyaml_rotate_keys.py:189-194).
   Nothing before these calls changes the .bak, so the answer of exists() is
   the state the run started in. *)
Definition backup_ops (s : fs) : list op :=
  Exists Bak :: (if is_some (get s Bak) then [Remove Bak] else []) ++ [Copy2 Target Bak].

Definition opt_backup (backup : bool) (s : fs) : list op :=
  if backup then backup_ops s else [].

(* yaml-merge renders into a StringIO: dump / dump_all / json.dump once, or one
   print(json.dumps()) per document when there are several JSON documents
   (yaml_merge.py:306-333).  [ok] = false: the (first) serialisation raises. *)
Definition render_ops (json : bool) (ndocs : nat) (ok : bool) : list op :=
  if json && Nat.ltb 1 ndocs
  then Render ok :: repeat (Render true) (ndocs - 1)
  else [Render ok].

Inductive out_mode := ToStdout | ToOutput | ToOverwrite.

(* [ok]: the serialiser (ruamel's dumper / json) accepts the document to be
   written -- an input of the model (oracle); false = it raises by itself. *)
Inductive cfg :=
  | CSet (backup json ok : bool)                  (* yaml-set FILE *)
  | CSetStream                                    (* yaml-set - : document to STDOUT *)
  | CMerge (m : out_mode) (backup json : bool) (ndocs : nat) (ok : bool)
  | CRotate (backup changed : bool).

(* A plan: the straight-line calls, and what follows an exception raised by the
   guarded dump (only yaml-set's YAML save has handlers: `except AssertionError`
   and `except Exception`, both running [p_handler]). *)
Record plan := mkplan {
  p_validate : list op;        (* calls made by validateargs *)
  p_refuse : bool;             (* validateargs found an error: exit 1 *)
  p_main : list op;
  p_guarded : option nat;      (* index in p_main of the call inside try/except *)
  p_handler : list op          (* the restore path *)
}.

Definition set_yaml_ops (ok : bool) : list op :=
  [MkTmp; OpenRead Target; CopyObj Target Tmp; OpenTrunc Target; Dump Target ok].

(* yaml_dump.close(); tmphnd.seek(0); open(file, 'wb'); copyfileobj(tmphnd, outhnd);
   if args.backup: remove(backup_file)        (yaml_set.py 343-350 and 360-367) *)
Definition set_restore_ops (backup : bool) : list op :=
  [OpenTrunc Target; CopyObj Tmp Target] ++ (if backup then [Remove Bak] else []).

Definition plan_of (c : cfg) (s : fs) : plan :=
  match c with
  | CSet backup json ok =>
      let pre := opt_backup backup s in
      if json
      then (* write_output_document renders the JSON text first (json.dumps), then
              the backup, then save_to_json_file: open + write *)
           mkplan [] false (Render ok :: pre ++ [OpenTrunc Target; WriteText Target]) None []
      else mkplan [] false (pre ++ set_yaml_ops ok)
                  (Some (length pre + 4))
                  (set_restore_ops backup)
  | CSetStream => mkplan [] false [] None []
  | CMerge ToStdout backup json n ok =>
      (* --backup without --overwrite is refused by validateargs *)
      mkplan [] backup [] None []
  | CMerge ToOutput backup json n ok =>
      mkplan [Exists Output] (is_some (get s Output) || backup)
             (render_ops json n ok ++ [OpenTrunc Output; WriteText Output]) None []
  | CMerge ToOverwrite backup json n ok =>
      mkplan [Exists Target] false
             (render_ops json n ok ++ opt_backup backup s ++ [OpenTrunc Target; WriteText Target]) None []
  | CRotate backup changed =>
      if changed
      then mkplan [] false (opt_backup backup s ++ [OpenTrunc Target; Dump Target true]) None []
      else mkplan [] false [] None []
  end.

(* Exit status of the process as far as the save decides it. *)
Inductive status := SOk | SExit (n : nat) | SCrash.   (* SCrash: uncaught exception, status 1 *)

Definition status_code (st : status) : nat :=
  match st with SOk => 0 | SExit n => n | SCrash => 1 end.

(* The temporary file is anonymous and vanishes when its `with` block is left,
   however it is left. *)
Definition drop_tmp (s : fs) : fs := upd s Tmp None.

Record save_out := mkout { o_fs : fs; o_trace : list op; o_status : status }.

(* Which `except` clause of save_to_yaml_file catches an exception of the class. *)
Inductive clause := ByAssert | ByException | ByNobody.
Definition caught_by (k : fkind) : clause :=
  match k with
  | FAssert => ByAssert                 (* except AssertionError: restore, critical(..., 3) *)
  | FOs | FOther => ByException         (* except Exception: restore, re-raise *)
  | FInterrupt => ByNobody              (* KeyboardInterrupt is no Exception: no restore *)
  end.

(* The class of what a stopped run raised.  A call failing by itself raises an
   ordinary Exception (FileNotFoundError from remove/copy2/open, TypeError /
   RecursionError from a serialiser). *)
Definition raised (st : stop) : option fkind :=
  match st with
  | Completed => None
  | Failed _ => Some FOther
  | Injected _ k => Some k
  end.

(* Run a whole plan under a fault [f] and a second fault [f2] (fault positions
   count every call of the run from 0, the calls of validateargs and of the
   restore path included, as the harness does).  [f2] matters only to the
   restore path: every other failure ends the run.  When the guarded dump failed
   by itself, [f] has not fired and is still pending for the restore path. *)
Definition run_plan2 (p : plan) (f f2 : option fault) (s : fs) : save_out :=
  let v := run_until_fault f 0 (p_validate p) s in
  match r_stop v with
  | Completed =>
      if p_refuse p then mkout (r_fs v) (r_trace v) (SExit 1)
      else
        let nv := length (p_validate p) in
        let r := run_until_fault f nv (p_main p) (r_fs v) in
        let crash := mkout (drop_tmp (r_fs r)) (r_trace v ++ r_trace r) SCrash in
        match raised (r_stop r) with
        | None => mkout (drop_tmp (r_fs r)) (r_trace v ++ r_trace r) SOk
        | Some kd =>
            match p_guarded p with
            | Some g =>
                (* the failing call is the last one of the trace *)
                if Nat.eqb (length (r_trace r)) (S g)
                then
                  match caught_by kd with
                  | ByNobody => crash
                  | cl =>
                      let pending :=
                        match r_stop r with
                        | Injected _ _ => f2
                        | _ => match f with Some _ => f | None => f2 end
                        end in
                      let h := run_until_fault pending (nv + S g) (p_handler p) (r_fs r) in
                      mkout (drop_tmp (r_fs h)) (r_trace v ++ r_trace r ++ r_trace h)
                            (match r_stop h, cl with
                             | Completed, ByAssert => SExit 3     (* log.critical(..., 3) *)
                             | _, _ => SCrash                     (* `raise`, or the restore path's own failure *)
                             end)
                  end
                else crash
            | None => crash
            end
        end
  | _ => mkout (r_fs v) (r_trace v) SCrash
  end.

(* at most one fault *)
Definition run_plan (p : plan) (f : option fault) (s : fs) : save_out := run_plan2 p f None s.

Definition save2 (c : cfg) (f f2 : option fault) (s : fs) : save_out := run_plan2 (plan_of c s) f f2 s.

Definition save (c : cfg) (f : option fault) (s : fs) : save_out := save2 c f None s.

(* ---- close() as a call of its own ------------------------------------------------------
   yaml-merge (`with open(args.output, 'w') as out_file: out_file.write(text)`,
   yaml_merge.py 347-348) and eyaml-rotate-keys (`with open(yaml_file, 'w') as yaml_dump:
   yaml.dump(...)`, eyaml_rotate_keys.py 196-197) leave their `with` block - normally, or with
   the exception of a failed write / dump passing through - by the implicit close() of the
   handle.  That close() is one more call that can fail (the SECOND failure of a run whose write
   already failed, or the only one).  It has no handler around it either: the run ends with a
   traceback.  [Before]: close() raises, the bytes are what the write left; [Mid]: the flush got
   half way (pessimistic: Partial).  A run that stopped before the handle existed (the last
   call attempted is not a write / dump on a handle of a `with` block) closes nothing.
   yaml-set's handles are closed inside its own handlers (set_restore_ops) and are not covered. *)
Definition closing_handle (tr : list op) : option role :=
  match last tr (Exists Target) with
  | WriteText r => Some r
  | Dump r _ => Some r
  | _ => None
  end.

Definition close_out (m : option fmode) (o : save_out) : save_out :=
  match closing_handle (o_trace o), m with
  | Some r, Some Mid => mkout (upd (o_fs o) r (Some Partial)) (o_trace o) SCrash
  | Some r, Some Before => mkout (o_fs o) (o_trace o) SCrash
  | _, _ => o
  end.

(* save, then the close() of the `with` block under its own fault *)
Definition save_close (c : cfg) (f : option fault) (m : option fmode) (s : fs) : save_out :=
  close_out m (save c f s).

(* Start states: the target holds its original bytes (or does not exist, for a
   yaml-merge --overwrite to a new name), a .bak may be left from earlier, the
   --output name may be taken. *)
Definition init_fs (target_exists stale output_exists : bool) : fs :=
  mkfs (if target_exists then Some Orig else None)
       (if stale then Some Stale else None)
       (if output_exists then Some Orig else None)
       None.

(* the serialiser accepts the document *)
Definition cfg_dump_ok (c : cfg) : bool :=
  match c with
  | CSet _ _ ok => ok | CMerge _ _ _ _ ok => ok | CSetStream | CRotate _ _ => true
  end.

(* the position (counted over the whole run) of yaml-set's guarded dump *)
Definition set_dump_pos (backup : bool) (s : fs) : nat := length (opt_backup backup s) + 4.

Definition cfg_backup (c : cfg) : bool :=
  match c with
  | CSet b _ _ => b | CSetStream => false | CMerge ToOverwrite b _ _ _ => b | CMerge _ _ _ _ _ => false
  | CRotate b ch => b && ch
  end.

(* The number of fault positions of a plan (an upper bound on useful k). *)
Definition plan_len (p : plan) : nat :=
  length (p_validate p) + length (p_main p) + length (p_handler p).

(* The invariant of the property: one intact copy. *)
Definition one_copy (s : fs) : bool := holds s Target Orig || holds s Bak Orig.

(* Structural condition of the general lemma. *)
Definition damages (r : role) (o : op) : bool :=
  match o with
  | Remove x | OpenTrunc x | Dump x _ | WriteText x => role_eqb x r
  | Copy2 _ d | CopyObj _ d => role_eqb d r
  | MkTmp => role_eqb Tmp r
  | Exists _ | OpenRead _ | Render _ => false
  end.

Definition spares (r : role) (l : list op) : bool := forallb (fun o => negb (damages r o)) l.

End Sv.
