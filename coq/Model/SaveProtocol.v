(* C17 -- the save protocols of yaml-set, yaml-merge and eyaml-rotate-keys over an
   abstract file system, with single-fault injection.

   Code mirrored (line numbers of the repo worktree):
     yamlpath/commands/yaml_set.py     310-322 save_to_json_file
                                       324-354 save_to_yaml_file (incl. the
                                               AssertionError restore path)
                                       375-407 save_to_file, write_output_document
     yamlpath/commands/yaml_merge.py   254-263 validateargs (--output / --overwrite)
                                       286-359 write_output_document
     yamlpath/commands/eyaml_rotate_keys.py 187-198 the save of one file

   The file system is abstract: four roles and four content classes.  [Orig]
   = the complete bytes the file had before the run, [Stale] = the bytes of a
   .bak left by an earlier run, [New] = the complete new document, [Partial] =
   anything else (empty, truncated, half written) -- the pessimistic stand-in
   for whatever an interrupted write leaves behind. *)
From Coq Require Import List Bool Arith.
Import ListNotations.

(* Everything lives in the module [Sv] so that the extracted OCaml names are
   namespaced (OCaml module Model.Sv) and cannot collide with other models. *)
Module Sv.

Inductive role := Target | Bak | Output | Tmp.
Inductive content := Orig | Stale | New | Partial.

Record fs := mkfs {
  f_target : option content;
  f_bak : option content;
  f_output : option content;
  f_tmp : option content
}.

Definition get (s : fs) (r : role) : option content :=
  match r with
  | Target => f_target s | Bak => f_bak s | Output => f_output s | Tmp => f_tmp s
  end.

Definition upd (s : fs) (r : role) (c : option content) : fs :=
  match r with
  | Target => mkfs c (f_bak s) (f_output s) (f_tmp s)
  | Bak => mkfs (f_target s) c (f_output s) (f_tmp s)
  | Output => mkfs (f_target s) (f_bak s) c (f_tmp s)
  | Tmp => mkfs (f_target s) (f_bak s) (f_output s) c
  end.

Definition role_eqb (a b : role) : bool :=
  match a, b with
  | Target, Target | Bak, Bak | Output, Output | Tmp, Tmp => true
  | _, _ => false
  end.

Definition content_eqb (a b : content) : bool :=
  match a, b with
  | Orig, Orig | Stale, Stale | New, New | Partial, Partial => true
  | _, _ => false
  end.

Definition is_some {A} (o : option A) : bool := match o with Some _ => true | None => false end.

Definition holds (s : fs) (r : role) (c : content) : bool :=
  match get s r with Some d => content_eqb d c | None => false end.

(* One I/O call of the command modules. *)
Inductive op :=
  | Exists (r : role)                 (* os.path.exists(path) *)
  | Remove (r : role)                 (* os.remove(path) *)
  | Copy2 (src dst : role)            (* shutil.copy2(src, dst) *)
  | MkTmp                             (* tempfile.TemporaryFile() *)
  | OpenRead (r : role)               (* open(path, 'rb') *)
  | CopyObj (src dst : role)          (* shutil.copyfileobj(src handle, dst handle) *)
  | OpenTrunc (r : role)              (* open(path, 'w' | 'wb'): creates or truncates *)
  | Dump (r : role) (final : bool)    (* yaml.dump / dump_all / json.dump to the handle of r *)
  | Dumps (r : role) (final : bool).  (* print(json.dumps(doc), file=handle of r) *)

(* Normal completion of one call; None = the call itself raises (missing file). *)
Definition exec (o : op) (s : fs) : option fs :=
  match o with
  | Exists _ => Some s
  | Remove r => if is_some (get s r) then Some (upd s r None) else None
  | Copy2 a b => match get s a with Some c => Some (upd s b (Some c)) | None => None end
  | MkTmp => Some (upd s Tmp (Some Partial))
  | OpenRead r => if is_some (get s r) then Some s else None
  | CopyObj a b => match get s a with Some c => Some (upd s b (Some c)) | None => None end
  | OpenTrunc r => Some (upd s r (Some Partial))
  | Dump r fin | Dumps r fin => Some (upd s r (Some (if fin then New else Partial)))
  end.

(* A call that fails.  [Before]: it raises without effect.  [Mid]: it raises
   after the pessimistic half of its effect. *)
Inductive fmode := Before | Mid.
Inductive fkind := FOs | FAssert.     (* OSError | AssertionError *)

Definition fault_effect (m : fmode) (o : op) (s : fs) : fs :=
  match m with
  | Before => s
  | Mid =>
      match o with
      | Remove r => upd s r None
      | Copy2 a b => if is_some (get s a) then upd s b (Some Partial) else s
      | CopyObj a b => upd s b (Some Partial)
      | OpenTrunc r => upd s r (Some Partial)
      | Dump r _ => upd s r (Some Partial)
      | Dumps _ _ | Exists _ | MkTmp | OpenRead _ => s
      end
  end.

Record fault := mkfault { at_k : nat; f_mode : fmode; f_kind : fkind }.

(* How a sequence of calls ended. *)
Inductive stop :=
  | Completed
  | Failed (o : op)                   (* the call raised by itself (missing file) *)
  | Injected (o : op) (k : fkind).    (* the injected failure hit this call *)

Record run_result := mkrun { r_fs : fs; r_trace : list op; r_stop : stop }.

(* Run the calls in order; the k-th one (0-based) suffers the fault.  The trace
   lists every call attempted, the failing one included. *)
Fixpoint run_until_fault (f : option fault) (k : nat) (l : list op) (s : fs) : run_result :=
  match l with
  | [] => mkrun s [] Completed
  | o :: rest =>
      match f with
      | Some ft =>
          if Nat.eqb (at_k ft) k
          then mkrun (fault_effect (f_mode ft) o s) [o] (Injected o (f_kind ft))
          else match exec o s with
               | None => mkrun s [o] (Failed o)
               | Some s' => let r := run_until_fault f (S k) rest s' in
                            mkrun (r_fs r) (o :: r_trace r) (r_stop r)
               end
      | None =>
          match exec o s with
          | None => mkrun s [o] (Failed o)
          | Some s' => let r := run_until_fault f (S k) rest s' in
                       mkrun (r_fs r) (o :: r_trace r) (r_stop r)
          end
      end
  end.

(* ---------------------------------------------------------------------- *)
(* The save sequences.                                                     *)

(* `if exists(backup_file): remove(backup_file)`, then copy2(file, backup_file)
   (yaml_set.py:386-392, yaml_merge.py:291-298, eyaml_rotate_keys.py:189-194).
   Nothing before these calls changes the .bak, so the answer of exists() is
   the state the run started in. *)
Definition backup_ops (s : fs) : list op :=
  Exists Bak :: (if is_some (get s Bak) then [Remove Bak] else []) ++ [Copy2 Target Bak].

Definition opt_backup (backup : bool) (s : fs) : list op :=
  if backup then backup_ops s else [].

(* json.dump, or one print(json.dumps()) per document when there are several
   (yaml_merge.py:311-336). *)
Definition dump_ops (r : role) (json : bool) (ndocs : nat) : list op :=
  if json && Nat.ltb 1 ndocs
  then repeat (Dumps r false) (ndocs - 1) ++ [Dumps r true]
  else [Dump r true].

Inductive out_mode := ToStdout | ToOutput | ToOverwrite.

Inductive cfg :=
  | CSet (backup json : bool)                     (* yaml-set FILE *)
  | CSetStream                                    (* yaml-set - : document to STDOUT *)
  | CMerge (m : out_mode) (backup json : bool) (ndocs : nat)
  | CRotate (backup changed : bool).

(* A plan: the straight-line calls, and what follows an AssertionError raised
   by the guarded dump (only yaml-set's YAML save has such a handler). *)
Record plan := mkplan {
  p_validate : list op;        (* calls made by validateargs *)
  p_refuse : bool;             (* validateargs found an error: exit 1 *)
  p_main : list op;
  p_guarded : option nat;      (* index in p_main of the call inside try/except AssertionError *)
  p_handler : list op
}.

Definition set_yaml_ops : list op :=
  [MkTmp; OpenRead Target; CopyObj Target Tmp; OpenTrunc Target; Dump Target true].

Definition plan_of (c : cfg) (s : fs) : plan :=
  match c with
  | CSet backup json =>
      let pre := opt_backup backup s in
      if json
      then mkplan [] false (pre ++ [OpenTrunc Target; Dump Target true]) None []
      else mkplan [] false (pre ++ set_yaml_ops)
                  (Some (length pre + 4))
                  ([OpenTrunc Target; CopyObj Tmp Target] ++ (if backup then [Remove Bak] else []))
  | CSetStream => mkplan [] false [] None []
  | CMerge ToStdout backup json n =>
      (* --backup without --overwrite is refused by validateargs *)
      mkplan [] backup [] None []
  | CMerge ToOutput backup json n =>
      mkplan [Exists Output] (is_some (get s Output) || backup)
             (OpenTrunc Output :: dump_ops Output json n) None []
  | CMerge ToOverwrite backup json n =>
      mkplan [Exists Target] false
             (opt_backup backup s ++ OpenTrunc Target :: dump_ops Target json n) None []
  | CRotate backup changed =>
      if changed
      then mkplan [] false (opt_backup backup s ++ [OpenTrunc Target; Dump Target true]) None []
      else mkplan [] false [] None []
  end.

(* Exit status of the process as far as the save decides it. *)
Inductive status := SOk | SExit (n : nat) | SCrash.   (* SCrash: uncaught exception, status 1 *)

Definition status_code (st : status) : nat :=
  match st with SOk => 0 | SExit n => n | SCrash => 1 end.

(* The temporary file is anonymous and vanishes when its `with` block is left,
   however it is left. *)
Definition drop_tmp (s : fs) : fs := upd s Tmp None.

Record save_out := mkout { o_fs : fs; o_trace : list op; o_status : status }.

(* Run a whole plan under at most one fault (fault positions count the calls of
   validateargs too, as the harness does). *)
Definition run_plan (p : plan) (f : option fault) (s : fs) : save_out :=
  let v := run_until_fault f 0 (p_validate p) s in
  match r_stop v with
  | Completed =>
      if p_refuse p then mkout (r_fs v) (r_trace v) (SExit 1)
      else
        let nv := length (p_validate p) in
        let r := run_until_fault f nv (p_main p) (r_fs v) in
        match r_stop r with
        | Completed => mkout (drop_tmp (r_fs r)) (r_trace v ++ r_trace r) SOk
        | Failed _ => mkout (drop_tmp (r_fs r)) (r_trace v ++ r_trace r) SCrash
        | Injected _ FOs => mkout (drop_tmp (r_fs r)) (r_trace v ++ r_trace r) SCrash
        | Injected _ FAssert =>
            match f, p_guarded p with
            | Some ft, Some g =>
                if Nat.eqb (at_k ft) (nv + g)
                then
                  (* except AssertionError: restore from the temporary copy, drop
                     the backup, log.critical(..., 3) *)
                  let h := run_until_fault None 0 (p_handler p) (r_fs r) in
                  match r_stop h with
                  | Completed => mkout (drop_tmp (r_fs h)) (r_trace v ++ r_trace r ++ r_trace h) (SExit 3)
                  | _ => mkout (drop_tmp (r_fs h)) (r_trace v ++ r_trace r ++ r_trace h) SCrash
                  end
                else mkout (drop_tmp (r_fs r)) (r_trace v ++ r_trace r) SCrash
            | _, _ => mkout (drop_tmp (r_fs r)) (r_trace v ++ r_trace r) SCrash
            end
        end
  | _ => mkout (r_fs v) (r_trace v) SCrash
  end.

Definition save (c : cfg) (f : option fault) (s : fs) : save_out := run_plan (plan_of c s) f s.

(* Start states: the target holds its original bytes (or does not exist, for a
   yaml-merge --overwrite to a new name), a .bak may be left from earlier, the
   --output name may be taken. *)
Definition init_fs (target_exists stale output_exists : bool) : fs :=
  mkfs (if target_exists then Some Orig else None)
       (if stale then Some Stale else None)
       (if output_exists then Some Orig else None)
       None.

Definition cfg_backup (c : cfg) : bool :=
  match c with
  | CSet b _ => b | CSetStream => false | CMerge ToOverwrite b _ _ => b | CMerge _ _ _ _ => false
  | CRotate b ch => b && ch
  end.

(* The number of fault positions of a plan (an upper bound on useful k). *)
Definition plan_len (p : plan) : nat :=
  length (p_validate p) + length (p_main p) + length (p_handler p).

(* The invariant of the property: one intact copy. *)
Definition one_copy (s : fs) : bool := holds s Target Orig || holds s Bak Orig.

(* Structural condition of the general lemma. *)
Definition damages (r : role) (o : op) : bool :=
  match o with
  | Remove x | OpenTrunc x | Dump x _ | Dumps x _ => role_eqb x r
  | Copy2 _ d | CopyObj _ d => role_eqb d r
  | MkTmp => role_eqb Tmp r
  | Exists _ | OpenRead _ => false
  end.

Definition spares (r : role) (l : list op) : bool := forallb (fun o => negb (damages r o)) l.

End Sv.
