(* Model of the multi-document drivers of yamlpath/commands/yaml_merge.py:
   merge_condense_all (434-467), merge_across (469-498), merge_matrix (500-521,
   after fix: each left document receives its own copy of each right document),
   merge_docs (523-546).

   A Merger object is its document.  The pairwise step `lhs.merge_with(rhs)` is
   the Section variable [merge2]: it yields the left document after the call
   (merge_with mutates it, also when it then raises) and the exception, if any.
   For execution it is instantiated with C05's model (Merge.merge_root). *)
From Coq Require Import List ZArith Bool.
From YP Require Import Outcome MergeConfig.
Import ListNotations.

Section MultiDoc.
Variable doc : Type.
Variable merge2 : doc -> doc -> doc * option exn.

(* `except MergeException ... except YAMLPathException ...`; anything else
   propagates out of the driver *)
Inductive caught := CMerge | CPath.
Definition catch (e : exn) : option caught :=
  match e with MergeExc => Some CMerge | YPE _ => Some CPath | _ => None end.

(* exit states *)
Definition st_condense_lhs (c : caught) : nat := match c with CMerge => 11 | CPath => 12 end.
Definition st_condense_rhs (c : caught) : nat := match c with CMerge => 13 | CPath => 14 end.
Definition st_across (c : caught) : nat := match c with CMerge => 31 | CPath => 32 end.
Definition st_matrix (c : caught) : nat := match c with CMerge => 41 | CPath => 42 end.

(* fold every document of [ds] into [p]; an error is recorded and the loop goes on *)
Fixpoint condense_into (code : caught -> nat) (ds : list doc) (p : doc) (st : nat) : outcome (doc * nat) :=
  match ds with
  | [] => Ok (p, st)
  | d :: rest =>
      let (p', e) := merge2 p d in
      match e with
      | None => condense_into code rest p' st
      | Some x => match catch x with
                  | Some c => condense_into code rest p' (code c)
                  | None => Raise x
                  end
      end
  end.

Definition merge_condense_all (ls rs : list doc) : outcome (list doc * nat) :=
  match ls with
  | [] => Raise (PyCrash IndexError)                 (* lhs_docs[0] *)
  | l0 :: rest =>
      do (p1, st1) <- condense_into st_condense_lhs rest l0 0;
      do (p2, st2) <- condense_into st_condense_rhs rs p1 st1;
      Ok ([p2], st2)
  end.

(* i-th right into i-th left; surplus right documents appended; stop at the
   first error *)
Fixpoint merge_across (ls rs : list doc) : outcome (list doc * nat) :=
  match ls, rs with
  | _, [] => Ok (ls, 0)
  | [], _ => Ok (rs, 0)
  | l :: ls', r :: rs' =>
      let (l', e) := merge2 l r in
      match e with
      | None => do (t, st) <- merge_across ls' rs'; Ok (l' :: t, st)
      | Some x => match catch x with
                  | Some c => Ok (l' :: ls', st_across c)
                  | None => Raise x
                  end
      end
  end.

(* one left document against all right documents; `break` at the first error *)
Fixpoint matrix_row (rs : list doc) (l : doc) : outcome (doc * option nat) :=
  match rs with
  | [] => Ok (l, None)
  | r :: rest =>
      let (l', e) := merge2 l r in
      match e with
      | None => matrix_row rest l'
      | Some x => match catch x with
                  | Some c => Ok (l', Some (st_matrix c))
                  | None => Raise x
                  end
      end
  end.

(* the `break` leaves the outer loop running: later left documents are still
   merged, and return_state keeps the last error *)
Fixpoint merge_matrix_from (ls rs : list doc) (st : nat) : outcome (list doc * nat) :=
  match ls with
  | [] => Ok ([], st)
  | l :: rest =>
      do (l', e) <- matrix_row rs l;
      do (t, st') <- merge_matrix_from rest rs (match e with Some c => c | None => st end);
      Ok (l' :: t, st')
  end.
Definition merge_matrix (ls rs : list doc) : outcome (list doc * nat) := merge_matrix_from ls rs 0.

(* merge_docs (yaml_merge.py:523-546), the dispatcher main() calls once per
   right-hand FILE: the mode is read first (NameError for an unknown text),
   then the file is loaded into one Merger per document -- [rhs] is the loaded
   stream, every document of the file in file order, an empty document (`---`
   with nothing after it) being the document None; [None] = the file could
   not be loaded (exit state 3, nothing merged) -- and the WHOLE stream is
   handed to the driver of the mode. *)
Definition merge_docs (mode : outcome mdmode) (rhs : option (list doc)) (ls : list doc)
  : outcome (list doc * nat) :=
  do m <- mode;
  match rhs with
  | None => Ok (ls, 3)
  | Some rs =>
      match m with
      | MCondense => merge_condense_all ls rs
      | MAcross => merge_across ls rs
      | MMatrix => merge_matrix ls rs
      end
  end.

(* ---- the declarative side (Spec) ---- *)
Definition m2 (l r : doc) : doc := fst (merge2 l r).
Definition all_succeed : Prop := forall l r, snd (merge2 l r) = None.

Fixpoint across_spec (ls rs : list doc) : list doc :=
  match ls, rs with
  | l :: ls', r :: rs' => m2 l r :: across_spec ls' rs'
  | _, [] => ls
  | [], _ => rs
  end.

End MultiDoc.
