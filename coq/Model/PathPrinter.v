(* Model of the printers in yamlpath/yamlpath.py and yamlpath/path/*.py:
   ensure_escaped, escape_path_section, _stringify_yamlpath_segments,
   SearchTerms.__str__, SearchKeywordTerms.__str__, CollectorTerms.__str__. *)
From Coq Require Import List Ascii String ZArith Bool Arith.
From YP Require Import Outcome PyStr Generated PathParser.
Import ListNotations.
Open Scope string_scope.
Open Scope nat_scope.

Definition str1 (c : ascii) : string := String c EmptyString.

(* one round of ensure_escaped's loop, for a symbol string [sym] *)
Definition escape_symbol (value sym : string) : string :=
  let rt := String "\"%char sym in
  join rt (map (replace_all sym rt) (split_on rt value)).

Definition ensure_escaped (value : string) (symbols : list string) : string :=
  fold_left escape_symbol symbols value.

(* the symbol list of a printer with the separator substituted *)
Definition syms_with_sep (l : list (option ascii)) (sepc : ascii) : list string :=
  map (fun o => match o with Some c => str1 c | None => str1 sepc end) l.

Definition escape_path_section (section : string) (sepc : ascii) : string :=
  ensure_escaped section (syms_with_sep g_section_escape_syms sepc).

(* SearchTerms.__str__ (after the three "fix:" commits): a regular expression is
   written between the first candidate delimiter that does not occur in it
   (the old "/"-with-"\/" rendering remains the fallback); any other term gets
   its unescaped spaces, search operator symbols and -- since the repair of
   F21's printer half -- quote characters back-slashed. *)
Definition regex_delims : list ascii :=
  ["/"; "|"; "#"; "@"; ","; ";"; ":"; "_"; "-"; "+"]%char.

Fixpoint pick_delim (l : list ascii) (term : string) : option ascii :=
  match l with
  | [] => None
  | d :: r => if str_in d term then pick_delim r term else Some d
  end.

Definition term_escape_syms : list string :=
  [" "; "="; "^"; "$"; "%"; "!"; ">"; "<"; "~"; "'"; """"].

Definition search_str (inv : bool) (m : smethod) (attr term : string) : string :=
  let safe :=
    match m with
    | MRegex =>
        match pick_delim regex_delims term with
        | Some d => str1 d ++ term ++ str1 d
        | None => "/" ++ replace_all "/" "\/" term ++ "/"
        end
    | _ => ensure_escaped term term_escape_syms
    end in
  "[" ++ attr ++ (if inv then "!" else "") ++ method_str m ++ safe ++ "]".

Definition keyword_str (inv : bool) (k : keyword) (params : string) : string :=
  "[" ++ (if inv then "!" else "") ++ kw_str k ++ "(" ++ params ++ ")]".

Definition collector_str (op : cop) (expr : string) : string :=
  cop_str op ++ "(" ++ expr ++ ")".

(* str(segment_attrs) *)
Definition attrs_str (a : attrs) : string :=
  match a with
  | AStr s => s
  | AInt z => str_of_Z z
  | ANone => "None"
  | ASearch inv m attr term => search_str inv m attr term
  | AKeyword inv k p => keyword_str inv k p
  | ACollector op e => collector_str op e
  end.

Definition is_search_terms (a : attrs) : bool :=
  match a with ASearch _ _ _ _ => true | _ => false end.

(* separator argument of _stringify_yamlpath_segments: None = AUTO *)
Definition stringify_seg (sepc : ascii) (add_sep : bool) (sg : seg) : string :=
  let ps := str1 sepc in
  match sg with
  | (Some TKey, a) =>
      (if add_sep then ps else "") ++
      ensure_escaped (attrs_str a) (syms_with_sep g_key_escape_syms sepc)
  | (Some TIndex, a) => "[" ++ attrs_str a ++ "]"
  | (Some TMatchAll, _) => (if add_sep then ps else "") ++ "*"
  | (Some TAnchor, a) => if add_sep then "[&" ++ attrs_str a ++ "]" else "&" ++ attrs_str a
  | (Some TKeywordSearch, a) => attrs_str a
  | (Some TSearch, a) => if is_search_terms a then attrs_str a else ""
  | (Some TCollector, a) => attrs_str a
  | (Some TTraverse, _) => (if add_sep then ps else "") ++ "**"
  | (None, _) => ""
  end.

Fixpoint stringify_go (sepc : ascii) (add_sep : bool) (l : list seg) : string :=
  match l with
  | [] => ""
  | sg :: r => stringify_seg sepc add_sep sg ++ stringify_go sepc true r
  end.

Definition stringify (sp : option sep) (l : list seg) : string :=
  let sepc := sepc_of sp in
  (match sp with Some Slash => str1 sepc | _ => "" end) ++ stringify_go sepc false l.

(* str(YAMLPath(text)) with _separator = m: parse unescaped, print with the
   effective separator *)
Definition path_str (m : sepmode) (text : string) : outcome string :=
  let orig := normalize_original text in
  do sg <- parse m false text;
  Ok (stringify (effective_sep m orig) sg).

(* ---- YAMLPath objects: __eq__, append, __add__, pop, strip_path_prefix ----
   (yamlpath.py: __init__ 39-63, __str__ 65-72, __eq__ 83-107, __add__ 113-116,
   append 118-137, pop 139-172, original 179-214, separator 216-253,
   escaped/unescaped 291-327, strip_path_prefix 953-978.)
   An object is its five fields.  An empty deque is falsy, so an empty parse
   is never cached; the separator setter re-stringifies but keeps the parsed
   caches; every getter that infers the separator stores it.  Each method is a
   function from the object to (outcome of the call, the object afterwards):
   the mutations made before an exception is raised are kept. *)
Record ypath := mkyp {
  y_orig : string;            (* _original *)
  y_sep : option sep;         (* _separator; None = AUTO *)
  y_unesc : list seg;         (* _unescaped *)
  y_esc : list seg;           (* _escaped *)
  y_strd : string             (* _stringified *)
}.

(* _parse_path reading self.separator = es and self.original = orig *)
Definition parse_es (es : option sep) (strip : bool) (orig : string) : outcome (list seg) :=
  match orig with
  | EmptyString => Ok []
  | _ =>
      let pos := match es with
                 | Some Slash => if 1 <? String.length orig then 1 else 0
                 | _ => 0
                 end in
      match nth_char pos orig with
      | None => Raise (PyCrash IndexError)
      | Some c0 =>
          do s <- run strip (sepc_of es) (init_pst (Ascii.eqb c0 "&"%char)) orig;
          finish s
      end
  end.

(* the `original` setter *)
Definition y_set_original (v : string) (p : ypath) : ypath :=
  mkyp (normalize_original v) None [] [] "".

(* YAMLPath(text) / YAMLPath(other_path) (which copies other.original) *)
Definition y_new (text : string) : ypath :=
  y_set_original text (mkyp "" None [] [] "").

(* the `separator` getter *)
Definition y_separator (p : ypath) : option sep * ypath :=
  match y_sep p with
  | None => let s := infer_sep (y_orig p) in
            (s, mkyp (y_orig p) s (y_unesc p) (y_esc p) (y_strd p))
  | Some s => (Some s, p)
  end.

Definition seglist_nonempty (l : list seg) : bool :=
  match l with [] => false | _ => true end.

(* the `unescaped` / `escaped` getters *)
Definition y_unescaped (p : ypath) : outcome (list seg) * ypath :=
  if seglist_nonempty (y_unesc p) then (Ok (y_unesc p), p)
  else
    let '(es, p1) := y_separator p in
    match parse_es es false (y_orig p1) with
    | Ok l => (Ok l, mkyp (y_orig p1) (y_sep p1) l (y_esc p1) (y_strd p1))
    | Raise e => (Raise e, p1)
    | OutOfFuel => (OutOfFuel, p1)
    end.

Definition y_escaped (p : ypath) : outcome (list seg) * ypath :=
  if seglist_nonempty (y_esc p) then (Ok (y_esc p), p)
  else
    let '(es, p1) := y_separator p in
    match parse_es es true (y_orig p1) with
    | Ok l => (Ok l, mkyp (y_orig p1) (y_sep p1) (y_unesc p1) l (y_strd p1))
    | Raise e => (Raise e, p1)
    | OutOfFuel => (OutOfFuel, p1)
    end.

(* __str__ *)
Definition y_str (p : ypath) : outcome string * ypath :=
  if nonempty (y_strd p) then (Ok (y_strd p), p)
  else
    let '(r, p1) := y_unescaped p in
    match r with
    | Ok u =>
        let '(es, p2) := y_separator p1 in
        let s := stringify es u in
        (Ok s, mkyp (y_orig p2) (y_sep p2) (y_unesc p2) (y_esc p2) s)
    | Raise e => (Raise e, p1)
    | OutOfFuel => (OutOfFuel, p1)
    end.

Definition sepopt_eqb (a b : option sep) : bool :=
  match a, b with
  | None, None | Some Dot, Some Dot | Some Slash, Some Slash => true
  | _, _ => false
  end.

(* the `separator` setter *)
Definition y_set_separator (v : option sep) (p : ypath) : outcome unit * ypath :=
  if sepopt_eqb v (y_sep p) then (Ok tt, p)
  else
    let '(r, p1) := y_unescaped p in
    match r with
    | Ok u => (Ok tt, mkyp (y_orig p1) v (y_unesc p1) (y_esc p1) (stringify v u))
    | Raise e => (Raise e, p1)
    | OutOfFuel => (OutOfFuel, p1)
    end.

(* ---- __eq__ (after the "fix:" commit that repaired finding F23): the ESCAPED
   segments of two fresh copies are compared, each reduced by
   _comparable_segments to plain values: SearchTerms to the tuple (type,
   inverted, method, attribute, term), SearchKeywordTerms / CollectorTerms to
   (type, str(terms)), anything else stays (type, attrs).  Python compares
   the two lists of tuples element by element; tuples of different length, a
   str and an int, a str and None are never equal. ---- *)
Definition comparable_seg (sg : seg) : seg :=
  match sg with
  | (ty, AKeyword inv k p) => (ty, AStr (keyword_str inv k p))
  | (ty, ACollector op e) => (ty, AStr (collector_str op e))
  | _ => sg
  end.

Definition smethod_eqb (a b : smethod) : bool :=
  match a, b with
  | MContains, MContains | MEndsWith, MEndsWith | MEquals, MEquals | MStartsWith, MStartsWith
  | MGt, MGt | MLt, MLt | MGe, MGe | MLe, MLe | MRegex, MRegex => true
  | _, _ => false
  end.

Definition keyword_eqb (a b : keyword) : bool :=
  match a, b with
  | KDistinct, KDistinct | KHasChild, KHasChild | KName, KName | KMax, KMax | KMin, KMin
  | KParent, KParent | KUnique, KUnique => true
  | _, _ => false
  end.

Definition cop_eqb (a b : cop) : bool :=
  match a, b with
  | CNone, CNone | CAdd, CAdd | CSub, CSub | CAnd, CAnd => true
  | _, _ => false
  end.

Definition attrs_eqb (a b : attrs) : bool :=
  match a, b with
  | AStr s, AStr t => String.eqb s t
  | AInt x, AInt y => Z.eqb x y
  | ANone, ANone => true
  | ASearch i m a1 t1, ASearch j n a2 t2 =>
      Bool.eqb i j && smethod_eqb m n && String.eqb a1 a2 && String.eqb t1 t2
  | AKeyword i k p, AKeyword j l q => Bool.eqb i j && keyword_eqb k l && String.eqb p q
  | ACollector o e, ACollector p f => cop_eqb o p && String.eqb e f
  | _, _ => false
  end.

Definition opt_segtype_eqb (a b : option segtype) : bool :=
  match a, b with
  | Some t, Some u => segtype_eqb t u
  | None, None => true
  | _, _ => false
  end.

Definition seg_eqb (a b : seg) : bool :=
  opt_segtype_eqb (fst a) (fst b) && attrs_eqb (snd a) (snd b).

Fixpoint seglist_eqb (a b : list seg) : bool :=
  match a, b with
  | [], [] => true
  | x :: r, y :: t => seg_eqb x y && seglist_eqb r t
  | _, _ => false
  end.

(* __eq__ against a YAMLPath or str whose text is [other]; neither operand is
   modified (both are copied first: YAMLPath(self), YAMLPath(other)) *)
Definition y_eq (p : ypath) (other : string) : outcome bool :=
  do a <- fst (y_escaped (y_new (y_orig p)));
  do b <- fst (y_escaped (y_new other));
  Ok (seglist_eqb (map comparable_seg a) (map comparable_seg b)).

(* append(segment) *)
Definition y_append (segment : string) (p : ypath) : ypath :=
  let '(es, p1) := y_separator p in
  let sepc := match es with None => "/"%char | Some s => sep_char s end in
  if String.length (y_orig p1) <? 1 then y_set_original segment p1
  else y_set_original (y_orig p1 ++ str1 sepc ++ segment) p1.

(* __add__: a fresh copy, appended to *)
Definition y_add (p : ypath) (segment : string) : ypath :=
  y_append segment (y_new (y_orig p)).

Definition str_len := String.length.

(* pop() *)
Definition y_pop (p : ypath) : outcome seg * ypath :=
  let '(r, p1) := y_unescaped p in
  match r with
  | Ok segments =>
      match rev segments with
      | [] => let '(_, p2) := y_str p1 in (Raise (YPE Generic), p2)
      | popped :: _ =>
          let '(es, p2) := y_separator p1 in
          let removable := stringify es [popped] in
          let prefixed := if sepopt_eqb es (Some Slash) then removable   (* "fix:" commit *)
                          else str1 (sepc_of es) ++ removable in
          let now := y_orig p2 in
          let p3 :=
            if ends_with prefixed now
            then y_set_original (take (str_len now - str_len prefixed) now) p2
            else if ends_with removable now
            then y_set_original (take (str_len now - str_len removable) now) p2
            else if sepopt_eqb es (Some Slash) && ends_with (drop 1 removable) now
            then y_set_original (take (str_len now - str_len removable + 1) now) p2
            else (* after the "fix:" commit: rebuild from the remaining segments *)
              y_set_original (stringify es (removelast segments)) p2 in
          (Ok popped, p3)
      end
  | Raise e => (Raise e, p1)
  | OutOfFuel => (OutOfFuel, p1)
  end.

(* strip_path_prefix(path, prefix) for a prefix that is not None: the result
   (None = the very object `path` is returned) and both objects afterwards *)
Definition y_strip_prefix (path prefix : ypath) : outcome (option ypath) * ypath * ypath :=
  let '(r0, prefix1) := y_set_separator (Some Slash) prefix in
  match r0 with
  | Raise e => (Raise e, path, prefix1)
  | OutOfFuel => (OutOfFuel, path, prefix1)
  | Ok _ =>
      let '(r1, prefix2) := y_str prefix1 in
      match r1 with
      | Raise e => (Raise e, path, prefix2)
      | OutOfFuel => (OutOfFuel, path, prefix2)
      | Ok ps0 =>
          if String.eqb ps0 "/" then (Ok None, path, prefix2)
          else
            let '(r2, path1) := y_set_separator (Some Slash) path in
            match r2 with
            | Raise e => (Raise e, path1, prefix2)
            | OutOfFuel => (OutOfFuel, path1, prefix2)
            | Ok _ =>
                let '(r3, prefix3) := y_str prefix2 in
                match r3 with
                | Raise e => (Raise e, path1, prefix3)
                | OutOfFuel => (OutOfFuel, path1, prefix3)
                | Ok prefix_str =>
                    let '(r4, path2) := y_str path1 in
                    match r4 with
                    | Raise e => (Raise e, path2, prefix3)
                    | OutOfFuel => (OutOfFuel, path2, prefix3)
                    | Ok path_str0 =>
                        if starts_with prefix_str path_str0
                        then (Ok (Some (y_new (drop (str_len prefix_str) path_str0))), path2, prefix3)
                        else (Ok None, path2, prefix3)
                    end
                end
            end
      end
  end.
