(* Model of the printers in yamlpath/yamlpath.py and yamlpath/path/*.py:
   ensure_escaped, escape_path_section, _stringify_yamlpath_segments,
   SearchTerms.__str__, SearchKeywordTerms.__str__, CollectorTerms.__str__. *)
From Coq Require Import List Ascii String ZArith Bool Arith.
From YP Require Import Outcome PyStr Generated PathParser.
Import ListNotations.
Open Scope string_scope.
Open Scope nat_scope.

Definition str1 (c : ascii) : string := String c EmptyString.

(* one round of ensure_escaped's loop, for a symbol string [sym] *)
Definition escape_symbol (value sym : string) : string :=
  let rt := String "\"%char sym in
  join rt (map (replace_all sym rt) (split_on rt value)).

Definition ensure_escaped (value : string) (symbols : list string) : string :=
  fold_left escape_symbol symbols value.

(* the symbol list of a printer with the separator substituted *)
Definition syms_with_sep (l : list (option ascii)) (sepc : ascii) : list string :=
  map (fun o => match o with Some c => str1 c | None => str1 sepc end) l.

Definition escape_path_section (section : string) (sepc : ascii) : string :=
  ensure_escaped section (syms_with_sep g_section_escape_syms sepc).

Definition search_str (inv : bool) (m : smethod) (attr term : string) : string :=
  let safe :=
    match m with
    | MRegex => "/" ++ replace_all "/" "\/" term ++ "/"
    | _ => join "\ " (map (replace_all " " "\ ") (split_on "\ " term))
    end in
  "[" ++ attr ++ (if inv then "!" else "") ++ method_str m ++ safe ++ "]".

Definition keyword_str (inv : bool) (k : keyword) (params : string) : string :=
  "[" ++ (if inv then "!" else "") ++ kw_str k ++ "(" ++ params ++ ")]".

Definition collector_str (op : cop) (expr : string) : string :=
  cop_str op ++ "(" ++ expr ++ ")".

(* str(segment_attrs) *)
Definition attrs_str (a : attrs) : string :=
  match a with
  | AStr s => s
  | AInt z => str_of_Z z
  | ANone => "None"
  | ASearch inv m attr term => search_str inv m attr term
  | AKeyword inv k p => keyword_str inv k p
  | ACollector op e => collector_str op e
  end.

Definition is_search_terms (a : attrs) : bool :=
  match a with ASearch _ _ _ _ => true | _ => false end.

(* separator argument of _stringify_yamlpath_segments: None = AUTO *)
Definition stringify_seg (sepc : ascii) (add_sep : bool) (sg : seg) : string :=
  let ps := str1 sepc in
  match sg with
  | (Some TKey, a) =>
      (if add_sep then ps else "") ++
      ensure_escaped (attrs_str a) (syms_with_sep g_key_escape_syms sepc)
  | (Some TIndex, a) => "[" ++ attrs_str a ++ "]"
  | (Some TMatchAll, _) => (if add_sep then ps else "") ++ "*"
  | (Some TAnchor, a) => if add_sep then "[&" ++ attrs_str a ++ "]" else "&" ++ attrs_str a
  | (Some TKeywordSearch, a) => attrs_str a
  | (Some TSearch, a) => if is_search_terms a then attrs_str a else ""
  | (Some TCollector, a) => attrs_str a
  | (Some TTraverse, _) => (if add_sep then ps else "") ++ "**"
  | (None, _) => ""
  end.

Fixpoint stringify_go (sepc : ascii) (add_sep : bool) (l : list seg) : string :=
  match l with
  | [] => ""
  | sg :: r => stringify_seg sepc add_sep sg ++ stringify_go sepc true r
  end.

Definition stringify (sp : option sep) (l : list seg) : string :=
  let sepc := sepc_of sp in
  (match sp with Some Slash => str1 sepc | _ => "" end) ++ stringify_go sepc false l.

(* str(YAMLPath(text)) with _separator = m: parse unescaped, print with the
   effective separator *)
Definition path_str (m : sepmode) (text : string) : outcome string :=
  let orig := normalize_original text in
  do sg <- parse m false text;
  Ok (stringify (effective_sep m orig) sg).
