(* Model of yamlpath/commands/yaml_paths.py: search_for_paths, yield_children,
   record_anchors, get_search_term; yamlpath/common/searches.py: Searches.search_anchor;
   yamlpath/common/anchors.py: Anchors.get_node_anchor, Anchors.scan_for_anchors
   (the `all_anchors` dict main() hands to search_for_paths).

   The Python generators are modelled as functions returning the list of what
   they yield, in order, together with the threaded `seen_anchors` list (the
   Python list is mutated in place by search_anchor and shared by every
   recursive call).  An exception raised part-way loses the earlier yields:
   the outcome is the exception.

   Every reported path carries (ghost) the location of the node it was
   reported for and the reason; the Python code yields the path only.

   YAML merge keys: ruamel's CommentedMap holds the merged-in keys physically
   (items() yields them, after the map's own keys); `non_merged_items()` skips
   them; `.merge` lists the referenced maps.  The harness ships, per map
   object, the positions (in items() order) of merged-in keys and the `.merge`
   reference nodes: the [mtable].

   Not modelled: decrypt_eyaml (always false), logging. *)
From Coq Require Import List Ascii String ZArith NArith Bool Arith.
From YP Require Import Outcome PyStr PyVal Doc Generated PathParser PathPrinter Searches.
Import ListNotations.
Open Scope string_scope.
Open Scope nat_scope.

(* ---- SearchTerms ---- *)
Record terms := mkterms { t_inv : bool; t_method : smethod; t_attr : string; t_term : string }.

(* ---- options of search_for_paths (kwargs) ---- *)
Record opts := mkopts {
  o_values : bool;        (* search_values *)
  o_keys : bool;          (* search_keys *)
  o_anchors : bool;       (* search_anchors (--refnames) *)
  o_kalias : bool;        (* include_key_aliases *)
  o_valias : bool;        (* include_value_aliases *)
  o_expand : bool         (* expand_children *)
}.

(* ---- merge-key side table ---- *)
Record minfo := mkminfo {
  mi_merged : list nat;   (* positions, in items() order, of keys that came through `<<:` *)
  mi_refs : list node     (* the second components of CommentedMap.merge *)
}.
Definition mtable := list (N * minfo).

Fixpoint mt_find (o : N) (t : mtable) : option minfo :=
  match t with
  | [] => None
  | (k, m) :: r => if N.eqb k o then Some m else mt_find o r
  end.

Fixpoint mem_nat (n : nat) (l : list nat) : bool :=
  match l with [] => false | x :: r => if Nat.eqb n x then true else mem_nat n r end.

Definition is_merged (t : mtable) (o : N) (pos : nat) : bool :=
  match mt_find o t with Some m => mem_nat pos (mi_merged m) | None => false end.
Definition merge_refs (t : mtable) (o : N) : list node :=
  match mt_find o t with Some m => mi_refs m | None => [] end.

(* ---- AnchorMatches ---- *)
Inductive amatch := NoAnchor | UnsearchableAnchor | UnsearchableAlias | AliasExcluded
                  | AliasIncluded | AMatch | ANoMatch.

Definition is_hit (a : amatch) : bool :=
  match a with AMatch | AliasIncluded => true | _ => false end.
(* exclude_alias_matchers of yield_children *)
Definition is_excl (a : amatch) : bool :=
  match a with UnsearchableAlias | AliasExcluded => true | _ => false end.

(* Anchors.get_node_anchor *)
Definition get_node_anchor (n : node) : option string :=
  if has_anchor_attr (node_info n) then
    match anchor (node_info n) with
    | Some a => if nonempty a then Some a else None
    | None => None
    end
  else None.

(* why a path was reported *)
Inductive hkind :=
  | HKeyAnchor      (* key's anchor name matched (search_anchors) *)
  | HKey            (* key name matched *)
  | HValAnchor      (* value's / element's anchor name matched *)
  | HValue            (* scalar value / element matched *)
  | HMember         (* set member matched *)
  | HMemberAnchor   (* set member's anchor name matched *)
  | HYmk            (* merge-key reference whose anchor name matched *)
  | HChild (k : hkind).  (* expansion of a matched parent *)

Record hit := mkhit { h_path : string; h_loc : loc; h_kind : hkind }.

Fixpoint data_eqb_fuel (fuel : nat) (a b : node) : bool :=
  match fuel with
  | O => false
  | S f =>
      match a, b with
      | NLeaf _ v, NLeaf _ w => py_eq v w
      | NMap _ ka, NMap _ kb =>
          (List.length ka =? List.length kb) &&
          forallb (fun kv => match fst kv with
                             | NLeaf _ k => match assoc_key k kb with
                                            | Some v' => data_eqb_fuel f (snd kv) v'
                                            | None => false
                                            end
                             | _ => false
                             end) ka
      | NSeq _ la, NSeq _ lb =>
          (List.length la =? List.length lb) &&
          forallb (fun p => data_eqb_fuel f (fst p) (snd p)) (combine la lb)
      | NSet _ la, NSet _ lb =>
          (List.length la =? List.length lb) &&
          forallb (fun m => match m with
                            | NLeaf _ v => match find_member v lb with Some _ => true | None => false end
                            | _ => false
                            end) la
      | _, _ => false
      end
  end.
(* `anchor_node == ref_node` (dict / list / scalar equality; the fuel is the
   size of the left operand, which bounds the recursion depth) *)
Definition data_eqb (a b : node) : bool := data_eqb_fuel (node_size a) a b.

(* ---- Anchors.scan_for_anchors: an insertion-ordered dict name -> node ---- *)
Definition adict := list (string * node).
Fixpoint adict_set (k : string) (v : node) (d : adict) : adict :=
  match d with
  | [] => [(k, v)]
  | (a, b) :: r => if String.eqb a k then (a, v) :: r else (a, b) :: adict_set k v r
  end.

(* hasattr(x, "anchor") and x.anchor.value is not None *)
Definition scan_anchor_of (n : node) : option string :=
  if has_anchor_attr (node_info n) then anchor (node_info n) else None.
Definition scan_record (n : node) (d : adict) : adict :=
  match scan_anchor_of n with Some a => adict_set a n d | None => d end.

Fixpoint scan_for_anchors (n : node) (d : adict) {struct n} : adict :=
  match n with
  | NMap _ kvs =>
      (fix go (l : list (node * node)) (d : adict) : adict :=
         match l with
         | [] => d
         | (k, v) :: r =>
             let d1 := scan_record k d in
             let d2 := scan_record v d1 in
             let d3 := match v with
                       | NMap _ _ | NSeq _ _ => scan_for_anchors v d2
                       | _ => d2
                       end in
             go r d3
         end) kvs d
  | NSeq _ els =>
      (fix go (l : list node) (d : adict) : adict :=
         match l with
         | [] => d
         | e :: r => go r (scan_for_anchors e d)
         end) els d
  | _ => scan_record n d
  end.

Definition is_operator (c : ascii) : bool :=
  existsb (fun p => String.eqb (snd p) (String c EmptyString)) g_search_methods.

(* get_search_term: None = "logged an error and returned None" *)
Definition get_search_term (expr : string) : outcome (option terms) :=
  match expr with
  | EmptyString => Ok None
  | String c0 rest =>
      if negb (is_operator c0 || Ascii.eqb c0 "!"%char) then Ok None
      else if negb (1 <? String.length expr) then Ok None
      else
        match parse Auto true ("[*" ++ expr ++ "]") with
        | Raise (YPE _) => Ok None
        | Raise e => Raise e
        | OutOfFuel => OutOfFuel
        | Ok [] => Raise (PyCrash IndexError)
        | Ok ((_, ASearch inv m attr term) :: _) => Ok (Some (mkterms inv m attr term))
        | Ok (_ :: _) => Raise (PyCrash AttributeError)
        end
  end.

(* What Searches.search_matches receives when the caller hands over a document
   node (a value, an element, a key, a set member): ruamel's ScalarBoolean (an
   anchored YAML boolean; Doc.is_sbool) stays recognisable, anything else is its
   Python value.  Anchor NAMES are plain str objects: HVal (PStr name). *)
Definition leaf_pyval (n : node) : pyval :=
  match n with NLeaf _ v => v | _ => PNone end.
Definition node_hay (n : node) : hay :=
  match n with
  | NLeaf _ (PInt z) => if is_sbool n then HSBool (negb (Z.eqb z 0)) else HVal (PInt z)
  | _ => HVal (leaf_pyval n)
  end.

(* ---- record_anchors: the walk that only feeds seen_anchors ---- *)
(* the nested record_anchor(node) *)
Definition note_anchor (n : node) (seen : list string) : list string :=
  match get_node_anchor n with
  | Some a => if mem_string a seen then seen else (seen ++ [a])%list
  | None => seen
  end.

(* data.items() lists the merged-in entries too *)
Fixpoint record_anchors (n : node) (seen : list string) {struct n} : list string :=
  match n with
  | NMap _ kvs =>
      (fix go (l : list (node * node)) (seen : list string) : list string :=
         match l with
         | [] => seen
         | (k, v) :: r => go r (record_anchors v (note_anchor v (note_anchor k seen)))
         end) kvs seen
  | NSeq _ els =>
      (fix go (l : list node) (seen : list string) : list string :=
         match l with
         | [] => seen
         | e :: r => go r (record_anchors e (note_anchor e seen))
         end) els seen
  | NSet _ els => fold_left (fun s m => note_anchor m s) els seen
  | NLeaf _ _ => seen
  end.

(* `data is not None` for a document that is no container *)
Definition is_none_leaf (n : node) : bool :=
  match n with NLeaf _ PNone => true | _ => false end.

Section Search.
Variable lit : string -> outcome litres.
Variable re_search : string -> string -> outcome reres.
Variable mt : mtable.
Variable all_anchors : adict.
Variable tm : terms.
Variable sp : sep.
Variable o : opts.

Definition sepch : ascii := sep_char sp.
Definition strsep : string := String sepch EmptyString.
Definition is_slash : bool := match sp with Slash => true | Dot => false end.

Definition escp (s : string) : string := escape_path_section s sepch.

(* (matches and not invert) or (invert and not matches) *)
Definition term_matches (h : hay) : outcome bool :=
  do m <- search_matches_h lit re_search (t_method tm) (t_term tm) h;
  Ok (xorb m (t_inv tm)).

(* Searches.search_anchor; returns the classification and the new seen_anchors *)
Definition search_anchor (n : node) (seen : list string) (include_aliases : bool)
  : outcome (amatch * list string) :=
  match get_node_anchor n with
  | None => Ok (NoAnchor, seen)
  | Some name =>
      let is_alias := mem_string name seen in
      let seen' := if is_alias then seen else (seen ++ [name])%list in
      if negb (o_anchors o) then
        Ok (if is_alias then UnsearchableAlias else UnsearchableAnchor, seen')
      else if is_alias && negb include_aliases then Ok (AliasExcluded, seen')
      else
        do m <- term_matches (HVal (PStr name));
        Ok (if m then (if is_alias then AliasIncluded else AMatch) else ANoMatch, seen')
  end.

Definition anchor_text (n : node) : string :=
  match get_node_anchor n with Some a => a | None => "" end.

(* "if not build_path and pathsep is FSLASH: build_path = str(pathsep)" *)
Definition root_slash (bp : string) : string :=
  if negb (nonempty bp) && is_slash then strsep else bp.

(* the prefix used for children of a sequence *)
Definition seq_prefix (bp : string) : string := root_slash bp ++ "[".
(* the prefix used for children of a mapping / set *)
Definition map_prefix (bp : string) : string :=
  if nonempty bp then bp ++ strsep else if is_slash then strsep else bp.

Definition nat_str (n : nat) : string := str_of_Z (Z.of_nat n).

Definition elem_path (pre : string) (am : amatch) (idx : nat) (ele : node) : string :=
  match am with
  | NoAnchor => pre ++ nat_str idx ++ "]"
  | _ => pre ++ "&" ++ escp (anchor_text ele) ++ "]"
  end.

Definition key_text (k : node) : string :=
  match k with NLeaf _ v => py_str v | _ => "" end.
Definition key_val (k : node) : pyval :=
  match k with NLeaf _ v => v | _ => PNone end.
Definition key_ref (k : node) : ref := RKey (key_val k).
Definition member_ref (k : node) : ref := RMember (key_val k).

Definition is_seq_or_map (n : node) : bool := is_seq n || is_map n.
Definition is_container (n : node) : bool := is_seq n || is_map n || is_set n.

Definition res := (list hit * list string)%type.

(* A Python `for` loop over a container whose body yields paths and may
   `continue`: the body gets the item, its position and seen_anchors, and
   returns what it yielded plus the new seen_anchors. *)
Section Loop.
  Context {A : Type}.
  Variable body : A -> nat -> list string -> outcome res.
  Fixpoint loop (l : list A) (idx : nat) (seen : list string) : outcome res :=
    match l with
    | [] => Ok ([], seen)
    | x :: r =>
        do hs <- body x idx seen;
        do rs <- loop r (S idx) (snd hs);
        Ok ((fst hs ++ fst rs)%list, snd rs)
    end.
End Loop.

(* "own_keys is not None and key not in own_keys": the entry came through a
   merge key and neither alias option is on (own_keys = the keys of
   data.non_merged_items()).  The loop walks data.items(); such an entry has
   its key and value anchors classified like any other and is then skipped
   through record_anchors. *)
Definition skip_merged (oi : N) (pos : nat) : bool :=
  is_merged mt oi pos && negb (o_kalias o || o_valias o).

Definition is_unsearchable_alias (a : amatch) : bool :=
  match a with UnsearchableAlias => true | _ => false end.

(* ---- yield_children ---- *)
Fixpoint yield_children (n : node) (bp : string) (lc : loc) (kd : hkind) (seen : list string)
         {struct n} : outcome res :=
  match n with
  | NSeq _ els =>
      let pre := seq_prefix bp in
      loop (fun ele idx seen =>
              do am_s <- search_anchor ele seen (o_valias o);
              let am := fst am_s in
              let seen1 := snd am_s in
              let tmp := elem_path pre am idx ele in
              let lc' := (lc ++ [RIdx idx])%list in
              if negb (o_valias o) && is_excl am then Ok ([], seen1)
              else if is_container ele then yield_children ele tmp lc' kd seen1
              else Ok ([mkhit tmp lc' (HChild kd)], seen1))
           els 0 seen
  | NMap i kvs =>
      let pre := map_prefix bp in
      loop (fun kv pos seen =>
              let key := fst kv in
              let val := snd kv in
              let tmp := pre ++ escp (key_text key) in
              let lc' := (lc ++ [key_ref key])%list in
              do ka_s <- search_anchor key seen (o_kalias o);
              do va_s <- search_anchor val (snd ka_s) (o_valias o);
              let ka := fst ka_s in
              let va := fst va_s in
              let seen2 := snd va_s in
              if skip_merged (oid i) pos
                 || (negb (o_kalias o) && is_excl ka) || (negb (o_valias o) && is_excl va)
              then Ok ([], record_anchors val seen2)
              else if is_container val then yield_children val tmp lc' kd seen2
              else Ok ([mkhit tmp lc' (HChild kd)], seen2))
           kvs 0 seen
  | NSet _ els =>
      let pre := map_prefix bp in
      loop (fun key (_ : nat) seen =>
              let tmp := pre ++ escp (key_text key) in
              let lc' := (lc ++ [member_ref key])%list in
              do ka_s <- search_anchor key seen (o_kalias o);
              if negb (o_kalias o) && is_excl (fst ka_s) then Ok ([], snd ka_s)
              else Ok ([mkhit tmp lc' (HChild kd)], snd ka_s))
           els 0 seen
  | NLeaf _ _ => Ok ([mkhit (root_slash bp) lc (HChild kd)], seen)
  end.

(* "if expand_children: yield from yield_children(...)
    else: record_anchors(node, seen_anchors); yield tmp_path" *)
Definition report (nd : node) (tmp : string) (lc : loc) (kd : hkind) (seen : list string)
  : outcome res :=
  if o_expand o then yield_children nd tmp lc kd seen
  else Ok ([mkhit tmp lc kd], record_anchors nd seen).

(* the merge-key tail of the mapping branch *)
Definition ymk_hits (pre : string) (lc : loc) (oi : N) : outcome (list hit) :=
  if o_valias o && o_anchors o then
    foldM (fun (acc : list hit) (ref_node : node) =>
             foldM (fun (acc : list hit) (an : string * node) =>
                      if data_eqb (snd an) ref_node then
                        let tmp := pre ++ "[&" ++ escp (fst an) ++ "]" in
                        do m <- term_matches (HVal (PStr (fst an)));
                        Ok (if m then (acc ++ [mkhit tmp lc HYmk])%list else acc)
                      else Ok acc)
                   all_anchors acc)
          (merge_refs mt oi) []
  else Ok [].

(* the part shared by sequence elements and mapping values: what happens to a
   value whose anchor classification is [am] *)
Definition value_part (rec : node -> string -> loc -> list string -> outcome res)
           (am : amatch) (v : node) (tmp : string) (lc' : loc) (seen : list string) : outcome res :=
  match am with
  | AliasExcluded => Ok ([], seen)
  | AMatch | AliasIncluded => report v tmp lc' HValAnchor seen
  | _ =>
      if is_unsearchable_alias am && negb (o_valias o) then Ok ([], seen)
      else if is_container v then rec v tmp lc' seen
      else if o_values o then
        do m <- term_matches (node_hay v);
        Ok (if m then [mkhit tmp lc' HValue] else [], seen)
      else Ok ([], seen)
  end.

(* the last branch of search_for_paths, "elif data is not None and
   search_values": the document is a lone scalar (the recursion only ever
   enters containers), reported by the root path *)
Definition scalar_root (n : node) (bp : string) (lc : loc) (seen : list string) : outcome res :=
  if negb (is_none_leaf n) && o_values o then
    do m <- term_matches (node_hay n);
    Ok (if m then [mkhit (root_slash bp) lc HValue] else [], seen)
  else Ok ([], seen).

(* ---- search_for_paths ---- *)
Fixpoint search_for_paths (n : node) (bp : string) (lc : loc) (seen : list string)
         {struct n} : outcome res :=
  match n with
  | NSeq _ els =>
      let pre := seq_prefix bp in
      loop (fun ele idx seen =>
              do am_s <- search_anchor ele seen (o_valias o);
              let am := fst am_s in
              let seen1 := snd am_s in
              let tmp := elem_path pre am idx ele in
              let lc' := (lc ++ [RIdx idx])%list in
              value_part (fun v t l s => search_for_paths v t l s) am ele tmp lc' seen1)
           els 0 seen
  | NMap i kvs =>
      let pre := map_prefix bp in
      do body <-
        loop (fun kv pos seen =>
                let key := fst kv in
                let val := snd kv in
                let tmp := pre ++ escp (key_text key) in
                let lc' := (lc ++ [key_ref key])%list in
                do ka_s <- search_anchor key seen (o_kalias o);
                do va_s <- search_anchor val (snd ka_s) (o_valias o);
                let ka := fst ka_s in
                let va := fst va_s in
                let seen2 := snd va_s in
                if skip_merged (oid i) pos || (negb (o_kalias o) && is_excl ka)
                then Ok ([], record_anchors val seen2)
                else
                  (* the key part: Some result = `continue` was reached *)
                  do kres <-
                    (if o_keys o then
                       if is_hit ka then
                         do hs <- report val tmp lc' HKeyAnchor seen2; Ok (Some hs)
                       else
                         do m <- term_matches (node_hay key);
                         if m then do hs <- report val tmp lc' HKey seen2; Ok (Some hs)
                         else Ok None
                     else Ok None);
                  match kres with
                  | Some hs => Ok hs
                  | None => value_part (fun v t l s => search_for_paths v t l s) va val tmp lc' seen2
                  end)
             kvs 0 seen;
      do y <- ymk_hits pre lc (oid i);
      Ok ((fst body ++ y)%list, snd body)
  | NSet _ els =>
      let pre := map_prefix bp in
      loop (fun key (_ : nat) seen =>
              let tmp := pre ++ escp (key_text key) in
              let lc' := (lc ++ [member_ref key])%list in
              do ka_s <- search_anchor key seen (o_kalias o);
              let ka := fst ka_s in
              if negb (o_kalias o) && is_excl ka then Ok ([], snd ka_s)
              else if is_hit ka then Ok ([mkhit tmp lc' HMemberAnchor], snd ka_s)
              else
                do m <- term_matches (node_hay key);
                Ok (if m then [mkhit tmp lc' HMember] else [], snd ka_s))
           els 0 seen
  | NLeaf _ _ => scalar_root n bp lc seen
  end.

End Search.

(* the call made by process_yaml_file for one expression *)
Definition search_doc (lit : string -> outcome litres) (re_search : string -> string -> outcome reres)
           (mt : mtable) (tm : terms) (sp : sep) (o : opts) (d : node) : outcome (list hit) :=
  do r <- search_for_paths lit re_search mt (scan_for_anchors d []) tm sp o d "" [] [];
  Ok (fst r).
