(* C16 -- the command-line entry points as GLUE over abstract library results.

   Each tool's main() is a total function from
     (parsed options, facts about the environment the code tests: isatty(),
      isfile()/exists() of named files, what ruamel's load / load_all did on each
      source, and the LIBRARY-LEVEL results as abstract inputs: the outcome of
      the query, the diff report, the pairwise merges, the set/delete steps,
      the path searches)
   to
     (exit status or uncaught exception, stdout as a list of DATA lines,
      file effects).

   Mirrors, branch for branch:
     yamlpath/commands/yaml_get.py      validateargs 112-157, main 159-211
     yamlpath/commands/yaml_diff.py     validateargs 154-202, print_report 204-231,
                                        get_docs 233-256, get_doc 258-267, main 270-320
     yamlpath/commands/yaml_validate.py validateargs 81-102, process_file 104-126, main 128-161
     yamlpath/commands/yaml_merge.py    validateargs 219-284, write_output_document 286-359,
                                        get_doc_mergers 361-383, merge_condense_all 385-417,
                                        merge_across 419-447, merge_matrix 449-468,
                                        merge_docs 470-490, main 492-554
                                        (+ Merger.prepare_for_dump's format choice, merger.py 910-943)
     yamlpath/commands/yaml_set.py      validateargs 190-318, write_document_as_yaml 377-388,
                                        write_output_document 397-424, _try_load_input_file 426-434,
                                        _delete_nodes/_get_nodes/_alias_nodes/_ymk_nodes 436-497, main 500-664
     yamlpath/commands/yaml_paths.py    validateargs 213-265, print_results 729-784,
                                        process_yaml_file 786-874, main 876-944
     yamlpath/common/parsers.py         get_yaml_data 77-173, get_yaml_multidoc_data 175-286
                                        (which exceptions are trapped, the STDIN empty-document case)
     yamlpath/wrappers/consoleprinter.py info/verbose/warning/error/critical (which go to STDOUT,
                                        which honour --quiet, which terminate with which status)

   ORACLES (not modelled, inputs of the model): argparse (the options arrive
   parsed), ruamel load/dump, json.dumps/json.dump text, str() of a node,
   date isoformat texts, pathlib suffix, and every library call (Processor,
   Differ, Merger, search_for_paths).  Documents are abstract identifiers
   ([nat]): the glue never looks inside a document except through the facts
   listed in the records below.  DEBUG lines (log.debug) are not modelled. *)
From Coq Require Import List Ascii String ZArith Bool Arith.
From YP Require Import Outcome PyStr.
Import ListNotations.
Open Scope string_scope.
Open Scope list_scope.

(* ------------------------------------------------------------------ *)
(* Process results                                                      *)

(* family of an exception that escapes main() *)
Inductive ufam := UYpe | UMerge | UEyaml | UCrash (cls : string).
Inductive status := Exit (n : nat) | Uncaught (u : ufam).

(* result of a library call *)
Inductive lres (A : Type) := LOk (a : A) | LRaise (u : ufam).
Arguments LOk {A} a.
Arguments LRaise {A} u.

Inductive oline :=
  | OHint                                  (* "Please try --help for more information." -- ConsolePrinter.error prints it to STDOUT *)
  | OWarn                                  (* one "WARNING:  ..." message *)
  | OVerb                                  (* one log.verbose(...) progress message *)
  | OJson (obj : nat)                      (* print(json.dumps(jsonify_yaml_data(obj))) *)
  | OText (s : string)                     (* print(s) *)
  | OSep                                   (* log.info("") between diff entries *)
  | OEntry (i : nat)                       (* log.info(entry i of the diff report) *)
  | OValid (file : string) (idx : nat)     (* "<file>/<idx> is valid." *)
  | OInvalid (file : string) (idx : nat)   (* "<file>/<idx> is invalid due to:" + its messages *)
  | OPath (text : string) (j : option nat) (* one yaml-paths result line: its text, then (for a container value) the JSON of object j *)
  | ODump (json : bool) (docs : list nat)  (* the document(s) dumped to STDOUT *)
  | ODumpPartial.                          (* whatever the YAML dumper had written to STDOUT when it raised *)

Inductive effect :=
  | EBackup                                (* remove a stale <target>.bak, copy2(target, target.bak) *)
  | EWrite (json : bool) (docs : list nat)  (* open(target, 'w') and dump *)
  | ERestore.                              (* open(target, 'w'), a failing dump, then the original bytes copied back *)

Record crun := mkrun { r_status : status; r_out : list oline; r_fx : list effect }.

Definition hints (n : nat) : list oline := repeat OHint n.
Definition count_true (l : list bool) : nat := List.length (filter (fun b => b) l).

Definition nl : string := String (ch 10) EmptyString.
Definition backslash_n : string := String (ch 92) (String (ch 110) EmptyString).
Definition nul : string := String (ch 0) EmptyString.
Definition is_dash (s : string) : bool := String.eqb (strip_py s) "-".
Definition display_name (f : string) : string := if is_dash f then "STDIN" else f.
Definition str_of_nat (n : nat) : string := str_of_Z (Z.of_nat n).

(* ------------------------------------------------------------------ *)
(* ConsolePrinter (wrappers/consoleprinter.py)                          *)

Record noise := mknoise { n_quiet : bool; n_verbose : bool; n_debug : bool }.
Definition log_info (n : noise) (l : list oline) : list oline := if n_quiet n then [] else l.
Definition log_verbose (n : noise) (l : list oline) : list oline :=
  if negb (n_quiet n) && (n_verbose n || n_debug n) then l else [].
Definition log_warning (n : noise) : list oline := if n_quiet n then [] else [OWarn].
(* error(): message to STDERR, the hint to STDOUT unconditionally; critical(): STDERR only, then sys.exit *)

(* "When dumping the document to STDOUT, mute all non-errors" *)
Definition mute_unless_forced (n : noise) : noise :=
  if n_verbose n || n_debug n then n else mknoise true false false.

(* ------------------------------------------------------------------ *)
(* The loader (common/parsers.py)                                       *)

(* classes trapped by the except clauses of get_yaml_data / get_yaml_multidoc_data *)
Definition trapped_classes : list string :=
  ["KeyboardInterrupt"; "FileNotFoundError"; "ParserError"; "ComposerError"; "ConstructorError";
   "ScannerError"; "DuplicateKeyError"; "ReusedAnchorWarning"].
(* an exception is described by the class names of its MRO (isinstance = membership) *)
Definition is_trapped (mro : list string) : bool := existsb (fun c => mem_string c trapped_classes) mro.
Definition exc_class (mro : list string) : string := hd "" mro.

(* what parser.load did on a source *)
Inductive raw1 := R1Doc (d : option nat) | R1Fail (mro : list string).
Inductive loaded1 := L1Ok (d : option nat) | L1Failed | L1Uncaught (cls : string).
Definition get_yaml_data (r : raw1) : loaded1 :=
  match r with
  | R1Doc d => L1Ok d
  | R1Fail mro => if is_trapped mro then L1Failed else L1Uncaught (exc_class mro)
  end.

(* what parser.load_all did: the documents produced, then the end or an exception *)
Record rawload := mkraw { rl_docs : list nat; rl_fail : option (list string) }.
Inductive yielded := YDoc (d : nat) | YFail.
(* [estr] = the document "" that an empty STDIN stream is turned into *)
Definition multidoc_yields (estr : nat) (is_stdin : bool) (r : rawload) : list yielded * option string :=
  let ds := map YDoc (rl_docs r) in
  match rl_fail r with
  | None => (if is_stdin && (match rl_docs r with [] => true | _ => false end) then [YDoc estr] else ds, None)
  | Some mro => if is_trapped mro then (ds ++ [YFail], None) else (ds, Some (exc_class mro))
  end.

(* one command-line source: its name, os.path.isfile(name), and what loading it does *)
Record source := mksrc { s_name : string; s_isfile : bool; s_raw : rawload }.
Definition src_is_stdin (s : source) : bool := String.eqb (s_name s) "-".

(* "There can be only one -" *)
Definition pseudofile_count (files : list string) : nat := List.length (filter is_dash files).

(* ------------------------------------------------------------------ *)
(* yaml-get                                                             *)

Inductive pykind := KDict | KList | KCSet | KNone | KOther.
Inductive jres := JOk | JRecursion | JCrash (cls : string).
(* a result node after NodeCoords.unwrap_node_coords, as the facts main() tests *)
Record pyobj := mkobj {
  po_id : nat;
  po_kind : pykind;
  po_adate : bool;            (* isinstance(node, AnchoredDate) *)
  po_ats : bool;              (* isinstance(node, AnchoredTimeStamp) *)
  po_str : string;            (* str(node) *)
  po_iso_date : string;       (* node.date().isoformat() *)
  po_iso_ts : string;         (* Nodes.get_timestamp_with_tzinfo(node).isoformat() *)
  po_json : jres              (* how json.dumps(Parsers.jsonify_yaml_data(node)) ends *)
}.
Definition is_container (o : pyobj) : bool :=
  match po_kind o with KDict | KList | KCSet => true | _ => false end.
Definition escape_nl (s : string) : string := replace_all nl backslash_n s.

Definition get_text (o : pyobj) : string :=
  escape_nl (match po_kind o with
             | KNone => nul
             | _ => if po_adate o then po_iso_date o
                    else if po_ats o then po_iso_ts o
                    else po_str o
             end).

(* the print loop of main(): lines printed so far, and an abnormal end if any *)
Fixpoint get_print (nodes : list pyobj) : list oline * option status :=
  match nodes with
  | [] => ([], None)
  | o :: r =>
      if is_container o then
        match po_json o with
        | JOk => let '(ls, e) := get_print r in (OJson (po_id o) :: ls, e)
        | JRecursion => ([], Some (Exit 1))           (* except RecursionError: log.critical(..., 1) *)
        | JCrash c => ([], Some (Uncaught (UCrash c)))
        end
      else let '(ls, e) := get_print r in (OText (get_text o) :: ls, e)
  end.

Record get_args := mkget {
  ga_file : string;            (* args.yaml_file, "" when absent *)
  ga_nostdin : bool;
  ga_noise : noise;
  ga_priv : bool; ga_priv_ok : bool;   (* --privatekey set; isfile and readable *)
  ga_pub : bool; ga_pub_ok : bool
}.

Definition get_in_stream (a : get_args) (tty : bool) : bool :=
  is_dash (ga_file a) || (negb (nonempty (ga_file a)) && negb (ga_nostdin a) && negb tty).

Definition get_validate_errors (a : get_args) (tty : bool) : nat :=
  count_true [ negb (nonempty (ga_file a) || get_in_stream a tty);
               ga_priv a && negb (ga_priv_ok a);
               ga_pub a && negb (ga_pub_ok a);
               xorb (ga_pub a) (ga_priv a) ].

(* [query] = how iterating processor.get_eyaml_values(yaml_path, mustexist=True) ends;
   [qverb] = the number of logger.verbose messages the library emits while doing so *)
Definition get_main (a : get_args) (tty : bool) (load : raw1) (qverb : nat) (query : lres (list pyobj)) : crun :=
  let nerr := get_validate_errors a tty in
  if negb (Nat.eqb nerr 0) then mkrun (Exit 1) (hints nerr) []
  else
    (* "When dumping the document to STDOUT, mute all non-errors" (sic: when reading from STDIN) *)
    let n := if get_in_stream a tty then mute_unless_forced (ga_noise a) else ga_noise a in
    match get_yaml_data load with
    | L1Failed => mkrun (Exit 1) [OHint] []
    | L1Uncaught c => mkrun (Uncaught (UCrash c)) [] []
    | L1Ok _ =>
        let vb := log_verbose n (repeat OVerb qverb) in
        match query with
        | LRaise UYpe => mkrun (Exit 1) vb []
        | LRaise UEyaml => mkrun (Exit 2) vb []
        | LRaise u => mkrun (Uncaught u) vb []
        | LOk nodes =>
            match nodes with
            | [] => mkrun (Exit 1) vb []      (* fix: nothing matched (empty document) is a failure *)
            | _ =>
                let '(ls, e) := get_print nodes in
                mkrun (match e with Some s => s | None => Exit 0 end) (vb ++ ls) []
            end
        end
    end.

(* ------------------------------------------------------------------ *)
(* yaml-diff                                                            *)

Inductive daction := DAdd | DChange | DDelete | DSame.
Definition is_different (a : daction) : bool := match a with DSame => false | _ => true end.

Record diff_args := mkdiff {
  da_lhs : string; da_rhs : string;
  da_noise : noise;
  da_same : bool; da_onlysame : bool;
  da_config : bool; da_config_ok : bool;
  da_priv : bool; da_priv_ok : bool; da_pub : bool; da_pub_ok : bool;
  da_left : option Z; da_right : option Z
}.

Definition diff_validate_errors (a : diff_args) : nat :=
  count_true [ Nat.ltb 1 (pseudofile_count [da_lhs a; da_rhs a]);
               n_quiet (da_noise a) && (da_same a || da_onlysame a);
               da_config a && negb (da_config_ok a);
               da_priv a && negb (da_priv_ok a);
               da_pub a && negb (da_pub_ok a) ].

(* print_report: which entries are printed (with separators), and changes_found *)
Definition diff_selected (a : diff_args) (act : daction) : bool :=
  (is_different act && negb (da_onlysame a)) || (da_onlysame a && negb (is_different act)) || da_same a.

(* an entry of the report: its action, and how str(entry) ends (None = it renders) *)
Definition dentry := (daction * option ufam)%type.
Fixpoint diff_report (a : diff_args) (entries : list dentry) (i : nat) (print_sep : bool)
  : list oline * option ufam :=
  match entries with
  | [] => ([], None)
  | (act, pr) :: r =>
      if n_quiet (da_noise a) then diff_report a r (S i) print_sep
      else if diff_selected a act
           then match pr with
                | Some u => ((if print_sep then [OSep] else []), Some u)   (* log.info(entry) raises in __str__ *)
                | None => let '(ls, u) := diff_report a r (S i) true in
                          ((if print_sep then [OSep] else []) ++ OEntry i :: ls, u)
                end
           else diff_report a r (S i) print_sep
  end.
Definition changes_found (entries : list daction) : bool := existsb is_different entries.

(* get_docs: documents of one source, or the failure *)
Inductive docs_res := DocsOk (n : nat) | DocsFailed (nhints : nat) | DocsUncaught (cls : string).
Fixpoint all_docs (ys : list yielded) : option nat :=   (* Some count when no YFail *)
  match ys with
  | [] => Some 0
  | YDoc _ :: r => option_map S (all_docs r)
  | YFail :: _ => None
  end.
Definition diff_get_docs (estr : nat) (s : source) : docs_res :=
  if negb (src_is_stdin s) && negb (s_isfile s) then DocsFailed 1
  else let '(ys, unc) := multidoc_yields estr (src_is_stdin s) (s_raw s) in
       match all_docs ys, unc with
       | None, _ => DocsFailed 1          (* the loader logged one error; docs.clear() *)
       | Some _, Some c => DocsUncaught c
       | Some n, None => DocsOk n
       end.

(* get_doc: docs[index] with Python indexing after the "too high" test *)
Inductive pick := PickAt (i : nat) | PickCritical | PickIndexError.
Definition diff_get_doc (count : nat) (index : Z) : pick :=
  if (Z.of_nat count - 1 <? index)%Z then PickCritical
  else if (0 <=? index)%Z then PickAt (Z.to_nat index)
  else if (- index <=? Z.of_nat count)%Z then PickAt (Z.to_nat (Z.of_nat count + index))
  else PickIndexError.

Record diff_run := mkdrun { dr_run : crun; dr_picked : option (nat * nat) }.

(* [report] = the outcome of Differ(lhs).compare_to(rhs) + get_report() for the picked pair *)
Definition diff_main (estr : nat) (a : diff_args) (lhs rhs : source) (report : lres (list dentry)) : diff_run :=
  let stop s o := mkdrun (mkrun s o []) None in
  let nerr := diff_validate_errors a in
  if negb (Nat.eqb nerr 0) then stop (Exit 1) (hints nerr)
  else
    let l := diff_get_docs estr lhs in
    (* both sources are read before either result is examined *)
    match l with
    | DocsUncaught c => stop (Uncaught (UCrash c)) []
    | _ =>
      let r := diff_get_docs estr rhs in
      match r with
      | DocsUncaught c =>
          stop (Uncaught (UCrash c)) (match l with DocsFailed h => hints h | _ => [] end)
      | _ =>
        match l, r with
        | DocsOk nl_, DocsOk nr =>
            if Nat.ltb 1 nl_ && (match da_left a with None => true | Some _ => false end)
            then stop (Exit 1) []
            else
              match diff_get_doc nl_ (match da_left a with Some z => z | None => 0%Z end) with
              | PickCritical => stop (Exit 1) []
              | PickIndexError => stop (Uncaught (UCrash "IndexError")) []
              | PickAt li =>
                  if Nat.ltb 1 nr && (match da_right a with None => true | Some _ => false end)
                  then stop (Exit 1) []
                  else
                    match diff_get_doc nr (match da_right a with Some z => z | None => 0%Z end) with
                    | PickCritical => stop (Exit 1) []
                    | PickIndexError => stop (Uncaught (UCrash "IndexError")) []
                    | PickAt ri =>
                        match report with
                        | LRaise UEyaml => mkdrun (mkrun (Exit 1) [] []) (Some (li, ri))
                        | LRaise u => mkdrun (mkrun (Uncaught u) [] []) (Some (li, ri))
                        | LOk entries =>
                            let '(ls, u) := diff_report a entries 0 false in
                            mkdrun (mkrun (match u with
                                           | Some x => Uncaught x
                                           | None => Exit (if changes_found (map fst entries) then 1 else 0)
                                           end) ls [])
                                   (Some (li, ri))
                        end
                    end
              end
        | _, _ =>
            stop (Exit 1) ((match l with DocsFailed h => hints h | _ => [] end) ++
                           (match r with DocsFailed h => hints h | _ => [] end))
        end
      end
    end.

(* ------------------------------------------------------------------ *)
(* yaml-validate                                                        *)

Record val_args := mkval { va_files : list string; va_nostdin : bool; va_noise : noise }.

Definition val_validate_errors (nfiles : nat) (files : list string) (nostdin tty : bool) : nat :=
  count_true [ Nat.eqb nfiles 0 && (tty || nostdin); Nat.ltb 1 (pseudofile_count files) ].

(* process_file: (exit_state, lines) ; an exception escaping the loader aborts main *)
Fixpoint val_docs (n : noise) (name : string) (ys : list yielded) (idx : nat) : nat * list oline :=
  match ys with
  | [] => (0, [])
  | y :: r =>
      let '(st, ls) := val_docs n name r (S idx) in
      match y with
      | YDoc _ => (st, log_verbose n [OValid name idx] ++ ls)
      | YFail => (2, log_info n [OInvalid name idx] ++ ls)
      end
  end.
(* exit_state is assigned 2 at every failing document and never reset: any YFail gives 2 *)

Definition val_process_file (estr : nat) (n : noise) (s : source) : nat * list oline * option string :=
  let '(ys, unc) := multidoc_yields estr (src_is_stdin s) (s_raw s) in
  let '(st, ls) := val_docs n (display_name (s_name s)) ys 0 in
  (st, ls, unc).

Fixpoint val_loop (estr : nat) (n : noise) (srcs : list source) (exit_state : nat) (consumed : bool)
  : nat * bool * list oline * option string :=
  match srcs with
  | [] => (exit_state, consumed, [], None)
  | s :: r =>
      let consumed' := consumed || is_dash (s_name s) in
      let '(st, ls, unc) := val_process_file estr n s in
      match unc with
      | Some c => (exit_state, consumed', ls, Some c)
      | None =>
          let exit' := if Nat.eqb st 0 then exit_state else st in
          let '(e2, c2, ls2, u2) := val_loop estr n r exit' consumed' in
          (e2, c2, ls ++ ls2, u2)
      end
  end.

Definition val_main (estr : nat) (a : val_args) (tty : bool) (srcs : list source) (stdin_src : source) : crun :=
  let nerr := val_validate_errors (List.length srcs) (map s_name srcs) (va_nostdin a) tty in
  if negb (Nat.eqb nerr 0) then mkrun (Exit 1) (hints nerr) []
  else
    let '(st, consumed, ls, unc) := val_loop estr (va_noise a) srcs 0 false in
    match unc with
    | Some c => mkrun (Uncaught (UCrash c)) ls []
    | None =>
        if Nat.eqb st 0 && negb consumed && negb (va_nostdin a) && negb tty
        then let '(st2, ls2, unc2) := val_process_file estr (va_noise a) stdin_src in
             match unc2 with
             | Some c => mkrun (Uncaught (UCrash c)) (ls ++ ls2) []
             | None => mkrun (Exit st2) (ls ++ ls2) []
             end
        else mkrun (Exit st) ls []
    end.

(* ------------------------------------------------------------------ *)
(* yaml-merge                                                           *)

Inductive mdmode := CondenseAll | MergeAcross | MatrixMerge.
Inductive docfmt := FAuto | FYaml | FJson.

Record merge_args := mkmerge {
  ma_nostdin : bool;
  ma_noise : noise;
  ma_config : bool; ma_config_ok : bool;
  ma_output : string; ma_output_exists : bool;          (* --output, os.path.exists *)
  ma_overwrite : string; ma_overwrite_exists : bool;    (* --overwrite *)
  ma_backup : bool;
  ma_format : docfmt;
  ma_mode : mdmode;
  ma_out_ext : string;     (* Path(final output name).suffix.lower(), "" when there is none *)
  ma_config_err : option string   (* the class MergerConfig(log, args) raises on the --config file, if any *)
}.

(* Oracles about documents (states are abstract ids):
   merge2 l r = how Merger(l).merge_with(r) ends and the state it leaves in l;
   flow d     = "not hasattr(d, 'fa') or d.fa.flow_style()";
   jview d    = the document after the JSON round trip of prepare_for_dump *)
Section Merge.
  Variable merge2 : nat -> nat -> option ufam * nat.
  Variable flow : nat -> bool.
  Variable jview : nat -> nat.

  Definition merge_validate (a : merge_args) (nfiles : nat) (files : list string) (tty : bool)
    : nat * list oline * noise :=
    let e1 := Nat.eqb nfiles 0 && (tty || ma_nostdin a) in
    let e2 := Nat.ltb 1 (pseudofile_count files) in
    let e3 := ma_config a && negb (ma_config_ok a) in
    let has_out := nonempty (ma_output a) in
    let has_ow := nonempty (ma_overwrite a) in
    let e4 := has_out && ma_output_exists a in
    let warn := negb has_out && has_ow && ma_overwrite_exists a in
    let n' := if has_out || has_ow then ma_noise a else mute_unless_forced (ma_noise a) in
    let e5 := ma_backup a && negb has_ow in
    (* lines in source order: e1 e2 e3 hints, then e4 hint or the warning, then e5 *)
    (count_true [e1; e2; e3; e4; e5],
     hints (count_true [e1; e2; e3]) ++ (if e4 then [OHint] else []) ++
       (if warn then log_warning (ma_noise a) else []) ++ (if e5 then [OHint] else []),
     n').

  (* one merge_with call inside a try/except MergeException / YAMLPathException *)
  Inductive step_res := StepOk (d : nat) | StepErr (merge_exc : bool) (d : nat) | StepUncaught (u : ufam).
  Definition merge_step (l r : nat) : step_res :=
    match merge2 l r with
    | (None, d) => StepOk d
    | (Some UMerge, d) => StepErr true d
    | (Some UYpe, d) => StepErr false d
    | (Some u, _) => StepUncaught u
    end.

  (* fold of merges into one document; errors are recorded (last one wins) and the loop goes on *)
  Fixpoint condense_into (prime : nat) (rs : list nat) (st : nat) (code_m code_y : nat) (nh : nat)
    : lres (nat * nat * nat) :=
    match rs with
    | [] => LOk (prime, st, nh)
    | r :: rest =>
        match merge_step prime r with
        | StepOk d => condense_into d rest st code_m code_y nh
        | StepErr true d => condense_into d rest code_m code_m code_y (S nh)
        | StepErr false d => condense_into d rest code_y code_m code_y (S nh)
        | StepUncaught u => LRaise u
        end
    end.

  (* every merge function returns (return_state, new lhs list, number of log.error calls) *)
  Definition merge_condense_all (lhs rhs : list nat) : lres (nat * list nat * nat) :=
    match lhs with
    | [] => LRaise (UCrash "IndexError")      (* lhs_docs[0] *)
    | prime :: more =>
        match condense_into prime more 0 11 12 0 with
        | LRaise u => LRaise u
        | LOk (p1, st1, nh1) =>
            match condense_into p1 rhs st1 13 14 nh1 with
            | LRaise u => LRaise u
            | LOk (p2, st2, nh2) => LOk (st2, [p2], nh2)
            end
        end
    end.

  Fixpoint merge_across (lhs rhs : list nat) : lres (nat * list nat * nat) :=
    match lhs, rhs with
    | _, [] => LOk (0, lhs, 0)                 (* i > rhs_limit: break *)
    | [], _ => LOk (0, rhs, 0)                 (* i > lhs_limit: append the remaining rhs documents *)
    | l :: ls, r :: rs =>
        match merge_step l r with
        | StepOk d =>
            match merge_across ls rs with
            | LOk (st, out, nh) => LOk (st, d :: out, nh)
            | LRaise u => LRaise u
            end
        | StepErr true d => LOk (31, d :: ls, 1)
        | StepErr false d => LOk (32, d :: ls, 1)
        | StepUncaught u => LRaise u
        end
    end.

  (* inner loop of merge_matrix: break at the first error *)
  Fixpoint matrix_row (l : nat) (rs : list nat) : lres (nat * nat * nat) :=
    match rs with
    | [] => LOk (0, l, 0)
    | r :: rest =>
        match merge_step l r with
        | StepOk d => matrix_row d rest
        | StepErr true d => LOk (41, d, 1)
        | StepErr false d => LOk (42, d, 1)
        | StepUncaught u => LRaise u
        end
    end.
  (* outer loop goes on after an inner break; return_state keeps the last error *)
  Fixpoint merge_matrix (lhs rhs : list nat) (st nh : nat) : lres (nat * list nat * nat) :=
    match lhs with
    | [] => LOk (st, [], nh)
    | l :: ls =>
        match matrix_row l rhs with
        | LRaise u => LRaise u
        | LOk (st1, d, nh1) =>
            match merge_matrix ls rhs (if Nat.eqb st1 0 then st else st1) (nh + nh1) with
            | LRaise u => LRaise u
            | LOk (st2, out, nh2) => LOk (st2, d :: out, nh2)
            end
        end
    end.

  (* get_doc_mergers *)
  Inductive mergers_res := MgOk (ds : list nat) | MgFailed (nhints : nat) | MgUncaught (cls : string).
  Fixpoint yielded_docs (ys : list yielded) : option (list nat) :=
    match ys with
    | [] => Some []
    | YDoc d :: r => option_map (cons d) (yielded_docs r)
    | YFail :: _ => None
    end.
  Definition get_doc_mergers (estr : nat) (s : source) : mergers_res :=
    if negb (src_is_stdin s) && negb (s_isfile s) then MgFailed 1
    else let '(ys, unc) := multidoc_yields estr (src_is_stdin s) (s_raw s) in
         match yielded_docs ys, unc with
         | None, _ => MgFailed 1
         | Some _, Some c => MgUncaught c
         | Some ds, None => MgOk ds
         end.

  Definition merge_docs (estr : nat) (mode : mdmode) (lhs : list nat) (s : source)
    : lres (nat * list nat * nat) :=
    match get_doc_mergers estr s with
    | MgFailed h => LOk (3, lhs, h)
    | MgUncaught c => LRaise (UCrash c)
    | MgOk rhs =>
        match mode with
        | CondenseAll => merge_condense_all lhs rhs
        | MergeAcross => merge_across lhs rhs
        | MatrixMerge => merge_matrix lhs rhs 0 0
        end
    end.

  (* the loop over YAML_FILEs: (exit_state, mergers, merge_count, consumed_stdin, hints) *)
  Fixpoint merge_loop (estr : nat) (mode : mdmode) (srcs : list source) (mergers : list nat)
           (count : nat) (consumed : bool) (nh : nat) : lres (nat * list nat * nat * bool * nat) :=
    match srcs with
    | [] => LOk (0, mergers, count, consumed, nh)
    | s :: r =>
        let consumed' := consumed || is_dash (s_name s) in
        match mergers with
        | [] =>
            match get_doc_mergers estr s with
            | MgFailed h => LOk (4, [], count, consumed', nh + h)
            | MgUncaught c => LRaise (UCrash c)
            | MgOk ds => merge_loop estr mode r ds count consumed' nh
            end
        | _ =>
            match merge_docs estr mode mergers s with
            | LRaise u => LRaise u
            | LOk (st, m', h) =>
                if Nat.eqb st 0 then merge_loop estr mode r m' (S count) consumed' (nh + h)
                else LOk (st, m', count, consumed', nh + h)
            end
        end
    end.

  (* Merger.prepare_for_dump: is this document rendered through JSON? *)
  Definition doc_is_json (a : merge_args) (d : nat) : bool :=
    match ma_format a with
    | FJson => true
    | FYaml => false
    | FAuto =>
        if mem_string (ma_out_ext a) [".json"; ".yaml"; ".yml"] then String.eqb (ma_out_ext a) ".json"
        else flow d
    end.
  Definition prepared (a : merge_args) (d : nat) : nat := if doc_is_json a d then jview d else d.

  (* write_output_document *)
  Definition merge_write (a : merge_args) (n : noise) (to_file : bool) (docs : list nat) : crun :=
    let vb := if ma_backup a then log_verbose n [OVerb] else [] in   (* "Saving a backup of ..." *)
    match docs with
    | [] =>
        (* docs[0]: IndexError, after the backup was made *)
        if ma_backup a && negb (ma_overwrite_exists a)
        then mkrun (Uncaught (UCrash "FileNotFoundError")) vb []
        else mkrun (Uncaught (UCrash "IndexError")) vb (if ma_backup a then [EBackup] else [])
    | d0 :: _ =>
        if ma_backup a && negb (ma_overwrite_exists a)
        then mkrun (Uncaught (UCrash "FileNotFoundError")) vb []   (* copy2 of a missing file *)
        else
          let fx := if ma_backup a then [EBackup] else [] in
          (* the first document is prepared twice: the format is decided on its state
             before the first call, the dump shows the state after the second *)
          let is_json := doc_is_json a d0 in
          let dumps := match docs with
                       | [] => []
                       | d :: rest => prepared a (prepared a d) :: map (prepared a) rest
                       end in
          if to_file then mkrun (Exit 0) vb (fx ++ [EWrite is_json dumps])
          else mkrun (Exit 0) (vb ++ [ODump is_json dumps]) fx
    end.

  (* [ma_config_err a] = how MergerConfig(log, args) - configparser reading the --config file - ends *)
  Definition cli_merge_main (estr : nat) (a : merge_args) (tty : bool) (srcs : list source) (stdin_src : source) : crun :=
    let '(nerr, vlines, n') := merge_validate a (List.length srcs) (map s_name srcs) tty in
    if negb (Nat.eqb nerr 0) then mkrun (Exit 1) vlines []
    else match ma_config_err a with Some c => mkrun (Uncaught (UCrash c)) vlines [] | None =>
      let to_file := nonempty (ma_overwrite a) || nonempty (ma_output a) in
      let crash u nh := mkrun (Uncaught u) (vlines ++ hints nh) [] in
      match merge_loop estr (ma_mode a) srcs [] 0 false 0 with
      | LRaise u => crash u 0
      | LOk (st, mergers, count, consumed, nh) =>
          (* Check for a waiting STDIN document *)
          let after_stdin :=
            if Nat.eqb st 0 && negb consumed && negb (ma_nostdin a) && negb tty
            then match mergers with
                 | [] =>
                     (* fix: with no document yet, STDIN supplies the LHS documents *)
                     match get_doc_mergers estr stdin_src with
                     | MgFailed h => LOk (4, [], count, nh + h)
                     | MgUncaught c => LRaise (UCrash c)
                     | MgOk ds => LOk (0, ds, count, nh)
                     end
                 | _ =>
                     match merge_docs estr (ma_mode a) mergers stdin_src with
                     | LRaise u => LRaise u
                     | LOk (st2, m2, h) => LOk (st2, m2, S count, nh + h)
                     end
                 end
            else LOk (st, mergers, count, nh) in
          match after_stdin with
          | LRaise u => crash u nh
          | LOk (st2, m2, count2, nh2) =>
              (* When no merges have occurred, check for a single-doc merge request *)
              let single :=
                if Nat.eqb st2 0 && Nat.eqb count2 0 &&
                   (match ma_mode a with CondenseAll => true | _ => false end)
                then match merge_condense_all m2 [] with
                     | LRaise u => LRaise u
                     | LOk (st3, m3, h) => LOk (st3, m3, nh2 + h)
                     end
                else LOk (st2, m2, nh2) in
              match single with
              | LRaise u => crash u nh2
              | LOk (st3, m3, nh3) =>
                  if Nat.eqb st3 0
                  then let w := merge_write a n' to_file m3 in
                       mkrun (r_status w) (vlines ++ hints nh3 ++ r_out w) (r_fx w)
                  else mkrun (Exit st3) (vlines ++ hints nh3) []
              end
          end
      end
    end.
End Merge.

(* ------------------------------------------------------------------ *)
(* yaml-set                                                             *)

Record set_args := mkset {
  sa_file : string;                (* args.yaml_file, "" when absent *)
  sa_nostdin : bool;
  sa_noise : noise;
  sa_value : option string;        (* --value (Some "" is a value) *)
  sa_aliasof : bool; sa_mergekey : bool; sa_valfile : bool; sa_stdin : bool;
  sa_random : option Z; sa_null : bool; sa_delete : bool;
  sa_anchor : string;              (* --anchor as given *)
  sa_tag : bool;
  sa_check : bool;                 (* args.check truthy *)
  sa_saveto : bool; sa_saveto_same : bool;   (* --saveto set; args.saveto == args.change *)
  sa_mustexist : bool;
  sa_backup : bool;
  sa_eyamlcrypt : bool;
  sa_priv : bool; sa_priv_ok : bool; sa_pub : bool; sa_pub_ok : bool;
  sa_random_from_len : nat;
  sa_is_json_ext : bool            (* Path(args.yaml_file).suffix.lower() == ".json" *)
}.

(* .replace(" ", "").replace("&", "").replace("*", "") *)
Definition clean_anchor (s : string) : string :=
  replace_all "*" "" (replace_all "&" "" (replace_all " " "" s)).

Definition set_in_stream (a : set_args) (tty : bool) : bool :=
  is_dash (sa_file a) || (negb (nonempty (sa_file a)) && negb (sa_nostdin a) && negb tty).

Definition is_some {A} (o : option A) : bool := match o with Some _ => true | None => false end.
(* truthiness of args.random (an int or None) *)
Definition z_truthy (o : option Z) : bool := match o with Some z => negb (Z.eqb z 0) | None => false end.
Definition value_given (a : set_args) : bool :=   (* args.value or args.value == "" *)
  is_some (sa_value a).

Definition set_validate_errors (a : set_args) (tty : bool) : nat :=
  let stream := set_in_stream a tty in
  let anchor := nonempty (clean_anchor (sa_anchor a)) in
  count_true [ negb (nonempty (sa_file a) || stream);
               negb (value_given a || sa_aliasof a || sa_mergekey a || sa_valfile a || sa_stdin a
                     || z_truthy (sa_random a) || sa_null a || sa_delete a
                     || nonempty (sa_anchor a) || sa_tag a);
               sa_stdin a && stream;
               anchor && negb (sa_aliasof a || sa_mergekey a);
               sa_backup a && stream;
               sa_saveto a && sa_saveto_same a;
               sa_priv a && negb (sa_priv_ok a);
               sa_pub a && negb (sa_pub_ok a);
               Nat.ltb (sa_random_from_len a) 2 ].

(* a gathered node, as the facts the --check loop tests *)
Record setnode := mksn {
  sn_is_eyaml : bool;              (* processor.is_eyaml_value(node) *)
  sn_decrypt : lres bool;          (* decrypt_eyaml(node), then args.check == value *)
  sn_check_eq : bool               (* args.check == node *)
}.

Inductive check_res := CheckPass | CheckStop (s : status) (nhints : nat).
Fixpoint set_check (a : set_args) (nodes : list setnode) : check_res :=
  match nodes with
  | [] => CheckPass
  | n :: r =>
      if sn_is_eyaml n then
        if xorb (sa_pub a) (sa_priv a) then CheckStop (Exit 1) 1     (* log.error + sys.exit(1) *)
        else match sn_decrypt n with
             | LRaise UEyaml => CheckStop (Exit 1) 0
             | LRaise u => CheckStop (Uncaught u) 0
             | LOk true => set_check a r
             | LOk false => CheckStop (Exit 20) 0
             end
      else if sn_check_eq n then set_check a r else CheckStop (Exit 20) 0
  end.

(* which change is applied (the if/elif chain at the end of main) *)
Inductive change_kind := ChDelete | ChAlias | ChMergeKey | ChEyaml | ChSetValue | ChTag | ChNothing.
Definition has_new_value (a : set_args) : bool :=
  value_given a || sa_stdin a || sa_valfile a || sa_null a || is_some (sa_random a).
Definition set_change_kind (a : set_args) : change_kind :=
  if sa_delete a then ChDelete
  else if sa_aliasof a then ChAlias
  else if sa_mergekey a then ChMergeKey
  else if sa_eyamlcrypt a then ChEyaml
  else if has_new_value a then ChSetValue
  else if sa_tag a then ChTag
  else ChNothing.

(* how the change call ends; for a delete the message test is part of the fact *)
Inductive change_res :=
  | ChOk (d : nat)
  | ChYpe (delete_entire_doc : bool) (d : nat)   (* YAMLPathException; d = the state it leaves *)
  | ChEyamlExc
  | ChCrash (u : ufam).

Definition set_after_change (k : change_kind) (c : change_res) : lres nat + status :=
  match c with
  | ChOk d => inl (LOk d)
  | ChYpe entire d =>
      match k with
      | ChDelete => if entire then inr (Exit 1) else inl (LOk d)   (* any other message is swallowed *)
      | ChAlias | ChMergeKey | ChSetValue => inr (Exit 1)
      | _ => inr (Uncaught UYpe)
      end
  | ChEyamlExc => match k with ChEyaml => inr (Exit 2) | _ => inr (Uncaught UEyaml) end
  | ChCrash u => inr (Uncaught u)
  end.

(* write_output_document (+ save_to_file); [file] = args.yaml_file after defaulting to "-";
   [dump_err] = how ruamel's dump of the document ends (None = it produces the text, Some cls = it
   raises cls, e.g. TypeError for a tagged non-string scalar).  Only the YAML dumper is given a way
   to fail: json.dump(jsonify_yaml_data(..)) has no known failing input and stays a total oracle;
   [jd] = the document that JSON text reloads to (jsonify drops tags, turns dates into text);
   [yd] = the document the YAML text reloads to (d itself whenever ruamel's emitter is faithful). *)
Definition set_write (a : set_args) (n : noise) (file : string) (flow_root : bool) (dump_err : option string)
           (yd jd : nat) (d : nat) : crun :=
  let as_yaml := negb flow_root && negb (sa_is_json_ext a) in
  let vb := if sa_backup a then log_verbose n [OVerb] else [] in       (* "Saving a backup of ..." *)
  let fx := if sa_backup a then [EBackup] else [] in
  let err := if as_yaml then dump_err else None in
  if is_dash file
  then match err with
       | None => mkrun (Exit 0) (vb ++ [ODump (negb as_yaml) [if as_yaml then yd else jd]]) fx
       | Some c => mkrun (Uncaught (UCrash c)) (vb ++ [ODumpPartial]) fx   (* yaml.dump(yaml_data, sys.stdout) raises half way *)
       end
  else match err with
       | None => mkrun (Exit 0) (vb ++ log_verbose n [OVerb]) (fx ++ [EWrite (negb as_yaml) [if as_yaml then yd else jd]])
                                                                       (* "Writing changed data as ..." *)
       | Some c =>
           (* fix: save_to_yaml_file's `except Exception`: the original bytes are copied back, the
              backup made a moment ago is removed again (a stale .bak is lost with it), re-raise *)
           mkrun (Uncaught (UCrash c)) (vb ++ log_verbose n [OVerb]) [ERestore]
       end.

(* Inputs: [load] the document (None = empty file); [built] = Nodes.build_next_node for an
   empty document; [gather] = processor.get_nodes(change_path, mustexist=True);
   [saveto d] and [change d] = the library steps applied to state d;
   [flow d] = docroot_is_flow of the state; [dump_fail d] = how the YAML dump of the state ends;
   [jsonview d] = the state after jsonify_yaml_data and the JSON round trip;
   [yamlview d] = what the YAML text of the state loads back to *)
Section SetTool.
  Variable built : lres nat.
  Variable saveto : nat -> lres nat.
  Variable change : nat -> change_res.
  Variable flow : nat -> bool.
  Variable dump_fail : nat -> option string.
  Variable jsonview : nat -> nat.
  Variable yamlview : nat -> nat.
  Variable change_verb : nat -> nat.      (* logger.verbose messages the change call emits on state d *)

  Definition set_must_exist (a : set_args) : bool := sa_mustexist a || sa_delete a || sa_saveto a.

  (* "Applying changes": the if/elif chain, then write_output_document; [out] = the lines so far *)
  Definition set_finish (a : set_args) (n : noise) (file : string) (out : list oline) (d : nat) : crun :=
    let w := set_write a n file (flow d) (dump_fail d) (yamlview d) (jsonview d) d in
    mkrun (r_status w) (out ++ r_out w) (r_fx w).
  Definition set_change_tail (a : set_args) (n : noise) (file : string) (out2 : list oline) (d1 : nat) : crun :=
    let k := set_change_kind a in
    match k with
    | ChNothing => set_finish a n file out2 d1
    | _ =>
        (* the library's own logger.verbose messages ("Encrypting value(s) ...") come out
           while the call runs, however it ends *)
        let out3 := out2 ++ log_verbose n (repeat OVerb (change_verb d1)) in
        match set_after_change k (change d1) with
        | inr s => mkrun s out3 []
        | inl (LRaise u) => mkrun (Uncaught u) out3 []
        | inl (LOk d2) => set_finish a n file out3 d2
        end
    end.

  (* the tail of main() once the nodes are gathered *)
  Definition set_apply (a : set_args) (n : noise) (file : string) (d0 : nat) (ns : list setnode) : crun :=
    match (if sa_check a then set_check a ns else CheckPass) with
    | CheckStop s h => mkrun s (hints h) []
    | CheckPass =>
        let saved : (nat * list oline) + crun :=
          if sa_saveto a then
            if Nat.ltb 1 (List.length ns) then inr (mkrun (Exit 1) [] [])
            else
              let vb := log_verbose n [OVerb] in                       (* "Saving the old value to ..." *)
              match ns with
              | [] => inr (mkrun (Uncaught (UCrash "IndexError")) vb [])   (* change_node_coordinates[0] *)
              | _ => match saveto d0 with
                     | LOk d1 => inl (d1, vb)
                     | LRaise UYpe => inr (mkrun (Exit 1) vb [])
                     | LRaise u => inr (mkrun (Uncaught u) vb [])
                     end
              end
          else inl (d0, []) in
        match saved with
        | inr r => r
        | inl (d1, out1) =>
            set_change_tail a n file (out1 ++ log_verbose n [OVerb]) d1   (* "Applying changes to ..." *)
        end
    end.

  (* [valfile_err] = how open(args.file) + read() ends: None = the text, Some cls = it raises cls *)
  Definition cli_set_main (a : set_args) (tty : bool) (valfile_err : option string) (load : raw1)
             (gather : lres (list setnode)) : crun :=
    let nerr := set_validate_errors a tty in
    if negb (Nat.eqb nerr 0) then mkrun (Exit 1) (hints nerr) []
    else
      let n := if set_in_stream a tty then mute_unless_forced (sa_noise a) else sa_noise a in
      (* the replacement value from --file is read before the document *)
      match (if negb (value_given a) && negb (sa_stdin a) && sa_valfile a then valfile_err else None) with
      | Some c => mkrun (Uncaught (UCrash c)) [] []
      | None =>
        (* the document: the named file, else a waiting STDIN *)
        let consumed_by_value := negb (value_given a) && sa_stdin a in
        let reads_doc := nonempty (sa_file a)
                         || (negb consumed_by_value && negb (sa_nostdin a) && negb tty) in
        let file := if nonempty (sa_file a) then sa_file a else "-" in
        if negb reads_doc then mkrun (Uncaught (UCrash "UnboundLocalError")) [] []
        else
        match get_yaml_data load with
        | L1Failed => mkrun (Exit 1) [OHint] []
        | L1Uncaught c => mkrun (Uncaught (UCrash c)) [] []
        | L1Ok od =>
            match (match od with Some d => LOk d | None => built end) with
            | LRaise u => mkrun (Uncaught u) [] []
            | LOk d0 =>
                (* _get_nodes: a failure is ignored unless the path must exist *)
                match gather with
                | LOk ns => set_apply a n file d0 ns
                | LRaise UYpe => if set_must_exist a then mkrun (Exit 1) [] [] else set_apply a n file d0 []
                | LRaise u => mkrun (Uncaught u) [] []
                end
            end
        end
      end.
End SetTool.

(* ------------------------------------------------------------------ *)
(* yaml-paths                                                           *)

Record paths_args := mkpaths {
  pa_search : list string;
  pa_except : list string;
  pa_nofile : bool; pa_noexpression : bool; pa_noyamlpath : bool; pa_values : bool;
  pa_noescape : bool;
  pa_fslash : bool;                (* args.pathsep is PathSeparators.FSLASH *)
  pa_nostdin : bool;
  pa_priv : bool; pa_priv_ok : bool; pa_pub : bool; pa_pub_ok : bool
}.

(* one search result: str(result), str() of each of its escaped segments, and the value looked up for --values *)
Inductive valres := VNoNode | VNode (o : pyobj) | VRaise (u : ufam).
Record pathrec := mkpr { pr_str : string; pr_segs : list string; pr_value : valres }.
(* --noescape: path_prefix + join_mark.join(str(segment) ...) *)
Definition noescape_text (slash : bool) (segs : list string) : string :=
  ((if slash then "/" else "") ++ join (if slash then "/" else ".") segs)%string.

Definition paths_validate_errors (a : paths_args) (nfiles : nat) (files : list string) (tty : bool) : nat :=
  count_true [ Nat.eqb nfiles 0 && (tty || pa_nostdin a);
               Nat.ltb 1 (pseudofile_count files);
               pa_priv a && negb (pa_priv_ok a);
               pa_pub a && negb (pa_pub_ok a);
               xorb (pa_pub a) (pa_priv a) ].

(* print_results *)
Definition paths_line (a : paths_args) (file : string) (docidx : nat) (e : string * pathrec)
  : oline + ufam :=
  let '(expr, p) := e in
  let print_file := negb (pa_nofile a) in
  let print_expr := Nat.ltb 1 (List.length (pa_search a)) && negb (pa_noexpression a) in
  let print_path := negb (pa_noyamlpath a) in
  let print_value := pa_values a in
  let buf0 := if print_file || (print_expr && (print_path || print_value)) then ": " else "" in
  let buf1 := if print_path && print_value then ": " else "" in
  let prefix :=
    ((if print_file then display_name file ++ "/" ++ str_of_nat docidx else "") ++
     (if print_expr then "[" ++ expr ++ "]" else "") ++ buf0 ++
     (if print_path then (if pa_noescape a then noescape_text (pa_fslash a) (pr_segs p) else pr_str p) else "") ++
     buf1)%string in
  if print_value then
    match pr_value p with
    | VNoNode => inl (OPath prefix None)
    | VNode o =>
        if is_container o then
          match po_json o with
          | JOk => inl (OPath prefix (Some (po_id o)))
          | JRecursion => inr (UCrash "RecursionError")
          | JCrash c => inr (UCrash c)
          end
        else inl (OPath (prefix ++ escape_nl (po_str o))%string None)
    | VRaise u => inr u
    end
  else inl (OPath prefix None).

Fixpoint paths_print (a : paths_args) (file : string) (docidx : nat) (es : list (string * pathrec))
  : list oline * option ufam :=
  match es with
  | [] => ([], None)
  | e :: r =>
      match paths_line a file docidx e with
      | inr u => ([], Some u)
      | inl l => let '(ls, u) := paths_print a file docidx r in (l :: ls, u)
      end
  end.

(* "Record only unique results" *)
Fixpoint has_path (s : string) (es : list (string * pathrec)) : bool :=
  match es with
  | [] => false
  | (_, p) :: r => String.eqb s (pr_str p) || has_path s r
  end.
Fixpoint add_unique (expr : string) (rs : list pathrec) (acc : list (string * pathrec)) : list (string * pathrec) :=
  match rs with
  | [] => acc
  | p :: r => add_unique expr r (if has_path (pr_str p) acc then acc else acc ++ [(expr, p)])
  end.
(* yaml_paths.remove(first entry with this text) *)
Fixpoint remove_path (s : string) (es : list (string * pathrec)) : list (string * pathrec) :=
  match es with
  | [] => []
  | (x, p) :: r => if String.eqb s (pr_str p) then r else (x, p) :: remove_path s r
  end.

(* per document: for every search expression (None = get_search_term failed) the results *)
Definition expr_results := list (string * option (lres (list pathrec))).

(* the search loop: (entries, saw a bad expression, hints so far, an escaping exception) *)
Fixpoint paths_collect (xs : expr_results) (acc : list (string * pathrec)) (bad : bool) (nh : nat)
  : list (string * pathrec) * bool * nat * option ufam :=
  match xs with
  | [] => (acc, bad, nh, None)
  | (expr, None) :: r => paths_collect r acc true (S nh)
  | (expr, Some (LRaise u)) :: r => (acc, bad, nh, Some u)
  | (expr, Some (LOk rs)) :: r => paths_collect r (add_unique expr rs acc) bad nh
  end.
Fixpoint paths_except (xs : expr_results) (acc : list (string * pathrec)) (bad : bool) (nh : nat)
  : list (string * pathrec) * bool * nat * option ufam :=
  match xs with
  | [] => (acc, bad, nh, None)
  | (expr, None) :: r => paths_except r acc true (S nh)
  | (expr, Some (LRaise u)) :: r => (acc, bad, nh, Some u)
  | (expr, Some (LOk rs)) :: r =>
      paths_except r (fold_left (fun es p => remove_path (pr_str p) es) rs acc) bad nh
  end.

(* one yielded document of a file *)
Inductive pdoc := PFailDoc | PDoc (searches excepts : expr_results).

(* process_yaml_file: exit_state is overwritten in event order (3 at a failed document, 1 at a bad expression) *)
Fixpoint paths_docs (a : paths_args) (file : string) (ds : list pdoc) (idx : nat) (st : nat)
  : nat * list oline * option ufam :=
  match ds with
  | [] => (st, [], None)
  | PFailDoc :: r =>
      let '(st', ls, u) := paths_docs a file r (S idx) 3 in (st', OHint :: ls, u)
  | PDoc ss xs :: r =>
      let '(es, bad, nh, u1) := paths_collect ss [] false 0 in
      let st1 := if bad then 1 else st in
      match u1 with
      | Some u => (st1, hints nh, Some u)
      | None =>
          match es with
          | [] => let '(st', ls, u) := paths_docs a file r (S idx) st1 in (st', hints nh ++ ls, u)
          | _ =>
              let '(es2, bad2, nh2, u2) := paths_except xs es false 0 in
              let st2 := if bad2 then 1 else st1 in
              match u2 with
              | Some u => (st2, hints nh ++ hints nh2, Some u)
              | None =>
                  let '(pl, pu) := paths_print a file idx es2 in
                  match pu with
                  | Some u => (st2, hints nh ++ hints nh2 ++ pl, Some u)
                  | None =>
                      let '(st', ls, u) := paths_docs a file r (S idx) st2 in
                      (st', hints nh ++ hints nh2 ++ pl ++ ls, u)
                  end
              end
          end
      end
  end.

(* [searches d] = for document d, what get_search_term + search_for_paths give for every
   --search and every --except expression *)
Section PathsTool.
  Variable searches : nat -> expr_results * expr_results.

  Definition pdoc_of (y : yielded) : pdoc :=
    match y with
    | YFail => PFailDoc
    | YDoc d => let '(ss, xs) := searches d in PDoc ss xs
    end.

  Definition paths_process_file (estr : nat) (a : paths_args) (s : source) : nat * list oline * option ufam :=
    let '(ys, unc) := multidoc_yields estr (src_is_stdin s) (s_raw s) in
    let '(st, ls, u) := paths_docs a (s_name s) (map pdoc_of ys) 0 0 in
    match u with
    | Some _ => (st, ls, u)
    | None => (st, ls, option_map UCrash unc)
    end.

  Fixpoint paths_loop (estr : nat) (a : paths_args) (fs : list source) (exit_state : nat) (consumed : bool)
    : nat * bool * list oline * option ufam :=
    match fs with
    | [] => (exit_state, consumed, [], None)
    | f :: r =>
        let consumed' := consumed || is_dash (s_name f) in
        let '(st, ls, u) := paths_process_file estr a f in
        match u with
        | Some _ => (exit_state, consumed', ls, u)
        | None =>
            let '(e2, c2, ls2, u2) := paths_loop estr a r (if Nat.eqb st 0 then exit_state else st) consumed' in
            (e2, c2, ls ++ ls2, u2)
        end
    end.

  Definition paths_main (estr : nat) (a : paths_args) (tty : bool) (fs : list source) (stdin_f : source) : crun :=
    let nerr := paths_validate_errors a (List.length fs) (map s_name fs) tty in
    if negb (Nat.eqb nerr 0) then mkrun (Exit 1) (hints nerr) []
    else
      let '(st, consumed, ls, u) := paths_loop estr a fs 0 false in
      match u with
      | Some x => mkrun (Uncaught x) ls []
      | None =>
          if Nat.eqb st 0 && negb consumed && negb (pa_nostdin a) && negb tty
          then let '(st2, ls2, u2) := paths_process_file estr a stdin_f in
               match u2 with
               | Some x => mkrun (Uncaught x) (ls ++ ls2) []
               | None => mkrun (Exit st2) (ls ++ ls2) []
               end
          else mkrun (Exit st) ls []
      end.
End PathsTool.
