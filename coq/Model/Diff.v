(* Model of yamlpath/differ/differ.py (Differ), the lookups of
   yamlpath/differ/differconfig.py (DifferConfig.array_diff_mode, aoh_diff_mode,
   aoh_diff_key, _get_config_for) and the reporting part of
   yamlpath/commands/yaml_diff.py (print_report, exit status), as the code
   stands AFTER the `fix:` commits of branch `diff` (see docs/C06.md).

   Mirrored branch for branch.  Conventions:
   * self._diffs is threaded through every function as [acc], NEWEST FIRST
     (the head is the entry appended last), so Python's
     `reversed(list(enumerate(self._diffs)))` scan is a scan from the head.
   * A DiffEntry is (action, path text, lhs, rhs).  The path text is built
     exactly as the code builds it (YAMLPath.__add__/append on `original`,
     YAMLPath.escape_path_section with the parent path's separator,
     "[{}]".format(idx)).  [e_loc] is a GHOST field: the structural location
     (list of child references) built in parallel; no modelled branch reads it.
     The theorems speak about e_loc; the correspondence check compares e_path.
   * Python None (the lhs of an ADD, the rhs of a DELETE, the padding in the
     tuples of synchronize_xxx functions) is [none_node]; a YAML null element is also
     Python None, which is exactly why the unrepaired code confused them.
   * `==` between two loaded nodes is [node_eq] (see there); values are compared
     by Differ._same_data = [val_eq].
   * The per-path tables DifferConfig.rules / DifferConfig.keys are INPUT: the
     harness hands over the tables the real DifferConfig.prepare() resolved
     (node, parent, parentref, text); the lookups over them are modelled.
   * YAMLPath.__eq__ (used by the pop-a-DELETE step) needs the path parser; it
     is the Section variable [path_eq] (instantiated by [path_eq_real], built
     from the PathParser/PathPrinter models, for execution).
   * DiffEntry's sort index (line/column numbers of the loader) and the sort in
     get_report are not modelled: get_report yields a permutation of _diffs,
     and every observation of C06 is insensitive to the order of entries. *)
From Coq Require Import List Ascii String ZArith NArith Bool Arith.
From YP Require Import Outcome PyStr PyVal Doc Generated PathParser PathPrinter.
Import ListNotations.
Open Scope string_scope.
Open Scope list_scope.

Inductive action := ASame | AChange | ADelete | AAdd.

Record entry := mkentry {
  e_action : action;
  e_path : string;      (* YAMLPath.original of the entry's path *)
  e_loc : loc;          (* ghost: structural location *)
  e_lhs : node;
  e_rhs : node
}.

Definition none_info : info := mkinfo 0 None false None.
Definition none_node : node := NLeaf none_info PNone.
Definition is_none (n : node) : bool := match n with NLeaf _ PNone => true | _ => false end.

Definition action_eqb (a b : action) : bool :=
  match a, b with
  | ASame, ASame | AChange, AChange | ADelete, ADelete | AAdd, AAdd => true
  | _, _ => false
  end.

(* ------------------------------------------------------------------ *)
(* Python `==` between two loaded nodes.
   - scalars: py_eq, except ruamel's TaggedScalar (a leaf carrying a tag),
     which defines no __eq__: object identity;
   - CommentedMap defines __eq__ as `bool(dict(self) == other)`: plain dict
     equality, key order and tag ignored (same size, every key of the left is
     a key of the right with an equal value).  NB its `!=` is inherited from
     OrderedDict and IS order-sensitive; the repaired code no longer uses it;
   - CommentedSeq: list equality (tag ignored);
   - CommentedSet (collections.abc.Set): same size and every member of the
     left is a member of the right;
   - different kinds: False. *)
Definition is_tagged (i : info) : bool := match tag i with Some _ => true | None => false end.

Definition leaf_eq (i : info) (v : pyval) (j : info) (w : pyval) : bool :=
  if is_tagged i || is_tagged j then N.eqb (oid i) (oid j) else py_eq v w.

Fixpoint node_eq (a b : node) {struct a} : bool :=
  match a, b with
  | NLeaf i v, NLeaf j w => leaf_eq i v j w
  | NMap _ kvs, NMap _ kvs' =>
      Nat.eqb (List.length kvs) (List.length kvs') &&
      (fix go (l : list (node * node)) : bool :=
         match l with
         | [] => true
         | kv :: r =>
             (fix look (l' : list (node * node)) : bool :=
                match l' with
                | [] => false
                | kv' :: r' =>
                    if node_eq (fst kv) (fst kv') then node_eq (snd kv) (snd kv') else look r'
                end) kvs' && go r
         end) kvs
  | NSeq _ els, NSeq _ els' =>
      (fix go (l l' : list node) {struct l} : bool :=
         match l, l' with
         | [], [] => true
         | x :: r, y :: r' => node_eq x y && go r r'
         | _, _ => false
         end) els els'
  | NSet _ els, NSet _ els' =>
      Nat.eqb (List.length els) (List.length els') &&
      (fix go (l : list node) : bool :=
         match l with
         | [] => true
         | x :: r => existsb (fun y => node_eq x y) els' && go r
         end) els
  | _, _ => false
  end.

(* `key in mapping` / `mapping[key]`, `member in set` *)
Definition map_get (k : node) (kvs : list (node * node)) : option node :=
  match find (fun kv => node_eq (fst kv) k) kvs with
  | Some kv => Some (snd kv)
  | None => None
  end.
Definition map_has (k : node) (kvs : list (node * node)) : bool :=
  match map_get k kvs with Some _ => true | None => false end.
Definition set_has (k : node) (els : list node) : bool := existsb (fun e => node_eq e k) els.
(* `for ele in s: if ele == key: found = ele; break` *)
Definition set_find (k : node) (els : list node) : node :=
  match find (fun e => node_eq e k) els with Some e => e | None => none_node end.

Definition key_val (k : node) : pyval := match k with NLeaf _ v => v | _ => PNone end.

(* Differ._same_data: the comparison of two VALUES (the repaired code no longer
   uses == for that): same YAML tag (`node.tag.value if hasattr(node, "tag")
   else None` on both sides) and
   - two TaggedScalars: their .value texts;
   - two CommentedMaps: same size, every key of the left is `in` the right
     (Python key lookup: [map_get]) with the same data under it;
   - two CommentedSeqs: same length, element-wise;
   - anything else: Python == ([node_eq]: plain scalars, sets, kind clashes). *)
Definition opt_str_eqb (a b : option string) : bool :=
  match a, b with
  | None, None => true
  | Some x, Some y => String.eqb x y
  | _, _ => false
  end.

Fixpoint val_eq (a b : node) {struct a} : bool :=
  opt_str_eqb (tag (node_info a)) (tag (node_info b)) &&
  match a, b with
  | NLeaf i v, NLeaf j w => if is_tagged i && is_tagged j then py_eq v w else leaf_eq i v j w
  | NMap _ kvs, NMap _ kvs' =>
      Nat.eqb (List.length kvs) (List.length kvs') &&
      (fix go (l : list (node * node)) : bool :=
         match l with
         | [] => true
         | kv :: r =>
             match map_get (fst kv) kvs' with
             | Some v' => val_eq (snd kv) v'
             | None => false
             end && go r
         end) kvs
  | NSeq _ els, NSeq _ els' =>
      Nat.eqb (List.length els) (List.length els') &&
      (fix go (l l' : list node) {struct l} : bool :=
         match l, l' with
         | x :: r, y :: r' => val_eq x y && go r r'
         | _, _ => true
         end) els els'
  | _, _ => node_eq a b
  end.

(* ------------------------------------------------------------------ *)
(* YAMLPath construction: `original` setter, separator inference, append,
   __add__, escape_path_section. *)
Definition path_sepc (orig : string) : ascii := sepc_of (infer_sep orig).

(* YAMLPath(path) + segment  ==  YAMLPath(path).append(segment) *)
Definition path_add (orig seg : string) : string :=
  match orig with
  | EmptyString => normalize_original seg
  | _ => normalize_original (orig ++ String (path_sepc orig) EmptyString ++ seg)%string
  end.

(* path + YAMLPath.escape_path_section(key, path.separator) *)
Definition path_add_key (orig : string) (k : node) : string :=
  path_add orig (escape_path_section (py_str (key_val k)) (path_sepc orig)).

(* path + "[{}]".format(idx);  idx may be None in the tuples of the synchronize functions *)
Definition idx_text (i : option nat) : string :=
  match i with Some n => str_of_Z (Z.of_nat n) | None => "None" end.
Definition path_add_idx (orig : string) (i : option nat) : string :=
  path_add orig ("[" ++ idx_text i ++ "]")%string.
Definition idx_ref (i : option nat) : ref := RIdx (match i with Some n => n | None => 0 end).

(* YAMLPath.__eq__ (since the repair of C08's finding F23): both sides
   re-parsed (escaped, inferred separator) and their segments compared as plain
   values (PathPrinter.y_eq); YAMLPathException propagates. *)
Definition path_eq_real (a b : string) : outcome bool := y_eq (y_new a) b.

(* ------------------------------------------------------------------ *)
(* DifferConfig *)
Inductive arr_opt := ArrPosition | ArrValue.
Inductive aoh_opt := AohDeep | AohDpos | AohKey | AohPosition | AohValue.

(* one item of DifferConfig.rules / .keys as resolved by prepare():
   NodeCoords(node, parent, parentref) -> text *)
Record rule := mkrule { r_node : node; r_parent : option node; r_ref : pyval; r_text : string }.

Record dcfg := mkdcfg {
  d_has_config : bool;                 (* self.config is not None *)
  c_rules : list rule;
  c_keys : list rule;
  arg_arrays : option string;        (* args.arrays when the attribute exists *)
  arg_aoh : option string;
  def_arrays : option string;        (* config["defaults"]["arrays"] when present *)
  def_aoh : option string
}.

Definition coords : Type := (node * option node * pyval)%type.

Definition opt_node_eq (a b : option node) : bool :=
  match a, b with
  | None, None => true
  | Some x, Some y => node_eq x y
  | _, _ => false
  end.

(* _get_config_for *)
Definition get_config_for (c : dcfg) (section : list rule) (nc : coords) : string :=
  if negb (d_has_config c) then ""
  else
    let '(n, p, r) := nc in
    match find (fun ru => node_eq (r_node ru) n && opt_node_eq (r_parent ru) p && py_eq (r_ref ru) r) section with
    | Some ru => r_text ru
    | None => ""
    end.

(* ArrayDiffOpts.from_str / AoHDiffOpts.from_str.  An unknown name raises
   NameError in Python; the shared exn type has no NameError, so the model
   answers PyCrash ValueError and such strings are outside the compared
   domain (the CLI restricts --arrays/--aoh to the valid choices). *)
Definition arr_from_str (s : string) : outcome arr_opt :=
  let u := upper_str s in
  if String.eqb u "POSITION" then Ok ArrPosition
  else if String.eqb u "VALUE" then Ok ArrValue
  else Raise (PyCrash ValueError).
Definition aoh_from_str (s : string) : outcome aoh_opt :=
  let u := upper_str s in
  if String.eqb u "DEEP" then Ok AohDeep
  else if String.eqb u "DPOS" then Ok AohDpos
  else if String.eqb u "KEY" then Ok AohKey
  else if String.eqb u "POSITION" then Ok AohPosition
  else if String.eqb u "VALUE" then Ok AohValue
  else Raise (PyCrash ValueError).

(* diff_rule.upper() in ArrayDiffOpts.get_names() *)
Definition is_arr_name (s : string) : bool :=
  let u := upper_str s in String.eqb u "POSITION" || String.eqb u "VALUE".

Definition opt_truthy (o : option string) : option string :=
  match o with Some s => if nonempty s then Some s else None | None => None end.

(* Precedence: config[rules] > CLI > config[defaults] > POSITION *)
Definition array_diff_mode (c : dcfg) (nc : coords) : outcome arr_opt :=
  let r := get_config_for c (c_rules c) nc in
  if nonempty r && is_arr_name r then arr_from_str r
  else match opt_truthy (arg_arrays c) with
       | Some s => arr_from_str s
       | None =>
           match (if d_has_config c then def_arrays c else None) with
           | Some s => arr_from_str s
           | None => Ok ArrPosition
           end
       end.

Definition aoh_diff_mode (c : dcfg) (nc : coords) : outcome aoh_opt :=
  let r := get_config_for c (c_rules c) nc in
  if nonempty r then aoh_from_str r
  else match opt_truthy (arg_aoh c) with
       | Some s => aoh_from_str s
       | None =>
           match (if d_has_config c then def_aoh c else None) with
           | Some s => aoh_from_str s
           | None => Ok AohPosition
           end
       end.

Definition str_leaf (s : string) : node := NLeaf none_info (PStr s).

(* aoh_diff_key: (identity key, is_user_key).  The key is a string from the
   configuration or the record's first key object. *)
Definition aoh_diff_key (c : dcfg) (nc : coords) : node * bool :=
  let '(n, p, _) := nc in
  let k0 := get_config_for c (c_keys c) nc in
  let k1 := if nonempty k0 then k0
            else match find (fun ru => opt_node_eq p (Some (r_node ru))) (c_keys c) with
                 | Some ru => r_text ru
                 | None => ""
                 end in
  if nonempty k1 then (str_leaf k1, true)
  else match n with
       | NMap _ (kv :: _) => (fst kv, false)
       | _ => (str_leaf k1, true)
       end.

(* ------------------------------------------------------------------ *)
(* synchronize_lists_by_value / synchronize_lods_by_key *)
Definition spair : Type := (option nat * node * option nat * node)%type.

Fixpoint enumerate_from {A} (i : nat) (l : list A) : list (nat * A) :=
  match l with
  | [] => []
  | x :: r => (i, x) :: enumerate_from (S i) r
  end.
Definition enumerate {A} (l : list A) : list (nat * A) := enumerate_from 0 l.

(* the first element satisfying f, and the list without it (find + pop) *)
Fixpoint extract_first {A} (f : A -> bool) (l : list A) : option (A * list A) :=
  match l with
  | [] => None
  | x :: r =>
      if f x then Some (x, r)
      else match extract_first f r with
           | Some (y, r') => Some (y, x :: r')
           | None => None
           end
  end.

Definition leftover (red : list (nat * node)) : list spair :=
  map (fun p => (None, none_node, Some (fst p), snd p)) red.

Fixpoint sync_value_go (lhs : list (nat * node)) (red : list (nat * node)) : list spair :=
  match lhs with
  | [] => leftover red
  | (li, le) :: rest =>
      match extract_first (fun p => val_eq (snd p) le) red with
      | Some ((ri, re), red') => (Some li, le, Some ri, re) :: sync_value_go rest red'
      | None => (Some li, le, None, none_node) :: sync_value_go rest red
      end
  end.
Definition sync_value (lels rels : list node) : list spair :=
  sync_value_go (enumerate lels) (enumerate rels).

Definition node_map_items (n : node) : option (list (node * node)) :=
  match n with NMap _ kvs => Some kvs | _ => None end.

(* can rhs record (ri, re) be matched with lhs record le?  [r] is the rhs list node *)
Definition key_match (c : dcfg) (r : node) (key_attr : node) (le : node) (p : nat * node) : bool :=
  let '(ri, re) := p in
  let '(alt, is_user) := aoh_diff_key c (re, Some r, PInt (Z.of_nat ri)) in
  let use_key := if is_user && py_truthy (key_val alt) then alt else key_attr in
  match node_map_items re, node_map_items le with
  | Some rkvs, Some lkvs =>
      match map_get use_key rkvs, map_get use_key lkvs with
      | Some rv, Some lv => val_eq rv lv
      | _, _ => false
      end
  | _, _ => false
  end.

Fixpoint sync_key_go (c : dcfg) (r : node) (key_attr : node)
         (lhs : list (nat * node)) (red : list (nat * node)) : list spair :=
  match lhs with
  | [] => leftover red
  | (li, le) :: rest =>
      let has_key := match node_map_items le with
                     | Some lkvs => map_has key_attr lkvs
                     | None => false
                     end in
      if negb has_key then (Some li, le, None, none_node) :: sync_key_go c r key_attr rest red
      else
        match extract_first (key_match c r key_attr le) red with
        | Some ((ri, re), red') => (Some li, le, Some ri, re) :: sync_key_go c r key_attr rest red'
        | None => (Some li, le, None, none_node) :: sync_key_go c r key_attr rest red
        end
  end.

Definition sync_key (c : dcfg) (r : node) (lels rels : list node) : list spair :=
  let key_attr :=
    match rels with
    | (NMap _ _ as r0) :: _ => fst (aoh_diff_key c (r0, Some r, PInt 0))
    | _ => str_leaf ""
    end in
  sync_key_go c r key_attr (enumerate lels) (enumerate rels).

(* ------------------------------------------------------------------ *)
Section Diff.
  Variable path_eq : string -> string -> outcome bool.
  Variable cfg : dcfg.

  (* the recursive call: path, ghost loc, lhs, rhs, rhs_parent, parentref, _diffs *)
  Definition rec_t : Type :=
    string -> loc -> node -> node -> option node -> pyval -> list entry -> outcome (list entry).

  Definition del_entry (path : string) (l : loc) (v : node) : entry := mkentry ADelete path l v none_node.
  Definition add_entry (path : string) (l : loc) (v : node) : entry := mkentry AAdd path l none_node v.
  Definition cmp_entry (path : string) (l : loc) (a b : node) : entry :=
    mkentry (if val_eq a b then ASame else AChange) path l a b.

  (* _purge_document.  [root] = the keyword is_root: only at the document root
     does None mean "no document"; a null that has a parent is deleted / added
     like any other scalar *)
  Definition purge (path : string) (ploc : loc) (data : node) (root : bool) (acc : list entry) : list entry :=
    match data with
    | NMap _ kvs =>
        rev (map (fun kv => del_entry (path_add_key path (fst kv)) (ploc ++ [RKey (key_val (fst kv))]) (snd kv)) kvs) ++ acc
    | NSeq _ els =>
        rev (map (fun ie => del_entry (path_add_idx path (Some (fst ie))) (ploc ++ [RIdx (fst ie)]) (snd ie)) (enumerate els)) ++ acc
    | NSet _ els =>
        rev (map (fun e => del_entry (path_add_key path e) (ploc ++ [RMember (key_val e)]) e) els) ++ acc
    | NLeaf _ _ => if is_none data && root then acc else del_entry path ploc data :: acc
    end.

  (* _add_everything *)
  Definition add_everything (path : string) (ploc : loc) (data : node) (root : bool) (acc : list entry) : list entry :=
    match data with
    | NMap _ kvs =>
        rev (map (fun kv => add_entry (path_add_key path (fst kv)) (ploc ++ [RKey (key_val (fst kv))]) (snd kv)) kvs) ++ acc
    | NSeq _ els =>
        rev (map (fun ie => add_entry (path_add_idx path (Some (fst ie))) (ploc ++ [RIdx (fst ie)]) (snd ie)) (enumerate els)) ++ acc
    | NSet _ els =>
        rev (map (fun e => add_entry (path_add_key path e) (ploc ++ [RMember (key_val e)]) e) els) ++ acc
    | NLeaf _ _ => if is_none data && root then acc else add_entry path ploc data :: acc
    end.

  (* _diff_scalars (ignore_eyaml_values=True, the constructor default used by
     the harness; the EYAML decryption branch is not modelled) *)
  Definition diff_scalars (path : string) (ploc : loc) (l r : node) (acc : list entry) : list entry :=
    cmp_entry path ploc l r :: acc.

  (* _diff_dicts.  Python iterates the two key-set differences in set order
     (unspecified); the model uses document order and the correspondence
     compares entries as a multiset. *)
  Definition diff_dicts (rec : rec_t) (path : string) (ploc : loc) (l r : node)
             (lkvs rkvs : list (node * node)) (acc : list entry) : outcome (list entry) :=
    if negb (opt_str_eqb (tag (node_info l)) (tag (node_info r))) then
      Ok (add_entry path ploc r :: del_entry path ploc l :: acc)
    else
      do acc1 <- foldM (fun a kv =>
                          let k := fst kv in
                          match map_get k lkvs with
                          | Some lv =>
                              if map_has k rkvs then
                                rec (path_add_key path k) (ploc ++ [RKey (key_val k)]) lv (snd kv)
                                    (Some r) (key_val k) a
                              else Ok a
                          | None => Ok a
                          end) rkvs acc;
      let dels := filter (fun kv => negb (map_has (fst kv) rkvs)) lkvs in
      let adds := filter (fun kv => negb (map_has (fst kv) lkvs)) rkvs in
      Ok (rev (map (fun kv => add_entry (path_add_key path (fst kv)) (ploc ++ [RKey (key_val (fst kv))]) (snd kv)) adds)
          ++ rev (map (fun kv => del_entry (path_add_key path (fst kv)) (ploc ++ [RKey (key_val (fst kv))]) (snd kv)) dels)
          ++ acc1).

  (* _diff_sets *)
  Definition diff_sets (rec : rec_t) (path : string) (ploc : loc) (l r : node)
             (lels rels : list node) (acc : list entry) : outcome (list entry) :=
    do acc1 <- foldM (fun a k =>
                        if set_has k lels && set_has k rels then
                          rec (path_add_key path k) (ploc ++ [RMember (key_val k)])
                              (set_find k lels) (set_find k rels) (Some r) (key_val k) a
                        else Ok a) rels acc;
    let dels := filter (fun k => negb (set_has k rels)) lels in
    let adds := filter (fun k => negb (set_has k lels)) rels in
    Ok (rev (map (fun k => add_entry (path_add_key path k) (ploc ++ [RMember (key_val k)]) k) adds)
        ++ rev (map (fun k => del_entry (path_add_key path k) (ploc ++ [RMember (key_val k)]) k) dels)
        ++ acc1).

  (* the scan-and-pop of _diff_synced_lists: newest DELETE entry whose path
     equals next_path; the entry and _diffs without it *)
  Fixpoint find_delete (np : string) (a : list entry) : outcome (option (entry * list entry)) :=
    match a with
    | [] => Ok None
    | e :: r =>
        do hit <- match e_action e with
                  | ADelete => path_eq (e_path e) np
                  | _ => Ok false
                  end;
        if hit then Ok (Some (e, r))
        else do res <- find_delete np r;
             Ok (match res with Some (d, r') => Some (d, e :: r') | None => None end)
    end.

  (* _diff_synced_lists *)
  Definition diff_synced (rec : rec_t) (path : string) (ploc : loc) (r : node)
             (lels rels : list node) (acc : list entry) : outcome (list entry) :=
    foldM (fun a (p : spair) =>
             let '(lidx, lele, ridx, rele) := p in
             match lidx with
             | None =>
                 let np := path_add_idx path ridx in
                 let nl := ploc ++ [idx_ref ridx] in
                 do found <- find_delete np a;
                 match found with
                 | Some (d, a') => Ok (mkentry AChange np nl (e_lhs d) rele :: a')
                 | None => Ok (mkentry AAdd np nl none_node rele :: a)
                 end
             | Some li =>
                 match ridx with
                 | None => Ok (del_entry (path_add_idx path lidx) (ploc ++ [RIdx li]) lele :: a)
                 | Some ri =>
                     rec (path_add_idx path lidx) (ploc ++ [RIdx li]) lele rele (Some r) (PInt (Z.of_nat ri)) a
                 end
             end) (sync_value lels rels) acc.

  (* the zip_longest loop of _diff_arrays_of_scalars (a private marker object
     is the fill value).  parentref is the element's own index (`idx - 1` after
     `idx += 1`); the lhs_/rhs_iteration keywords (sort hints, not modelled) still
     use the incremented idx. *)
  Fixpoint zip_go (rec : rec_t) (deep : bool) (path : string) (ploc : loc) (r : node)
           (idx : nat) (lels rels : list node) (acc : list entry) {struct lels} : outcome (list entry) :=
    match lels with
    | [] =>
        Ok (rev (map (fun ie => add_entry (path_add_idx path (Some (fst ie))) (ploc ++ [RIdx (fst ie)]) (snd ie))
                     (enumerate_from idx rels)) ++ acc)
    | le :: lr =>
        match rels with
        | [] =>
            zip_go rec deep path ploc r (S idx) lr []
                   (del_entry (path_add_idx path (Some idx)) (ploc ++ [RIdx idx]) le :: acc)
        | re :: rr =>
            do a <- (if deep then
                       rec (path_add_idx path (Some idx)) (ploc ++ [RIdx idx]) le re (Some r)
                           (PInt (Z.of_nat idx)) acc
                     else Ok (cmp_entry (path_add_idx path (Some idx)) (ploc ++ [RIdx idx]) le re :: acc));
            zip_go rec deep path ploc r (S idx) lr rr a
        end
    end.

  (* _diff_arrays_of_scalars *)
  Definition diff_arrays (rec : rec_t) (deep : bool) (path : string) (ploc : loc) (r : node)
             (lels rels : list node) (nc : coords) (acc : list entry) : outcome (list entry) :=
    do mode <- array_diff_mode cfg nc;
    match mode with
    | ArrValue => diff_synced rec path ploc r lels rels acc
    | ArrPosition => zip_go rec deep path ploc r 0 lels rels acc
    end.

  (* _diff_arrays_of_hashes *)
  Definition diff_aoh (rec : rec_t) (path : string) (ploc : loc) (r : node)
             (lels rels : list node) (nc : coords) (acc : list entry) : outcome (list entry) :=
    do mode <- aoh_diff_mode cfg nc;
    match mode with
    | AohPosition => diff_arrays rec false path ploc r lels rels nc acc
    | AohDpos => diff_arrays rec true path ploc r lels rels nc acc
    | AohValue => diff_synced rec path ploc r lels rels acc
    | AohKey | AohDeep =>
        let deep := match mode with AohDeep => true | _ => false end in
        foldM (fun a (p : spair) =>
                 let '(lidx, lele, ridx, rele) := p in
                 match lidx with
                 | None => Ok (add_entry (path_add_idx path ridx) (ploc ++ [idx_ref ridx]) rele :: a)
                 | Some li =>
                     match ridx with
                     | None => Ok (del_entry (path_add_idx path lidx) (ploc ++ [RIdx li]) lele :: a)
                     | Some ri =>
                         if deep then
                           rec (path_add_idx path ridx) (ploc ++ [RIdx ri]) lele rele (Some r)
                               (PInt (Z.of_nat ri)) a
                         else Ok (cmp_entry (path_add_idx path lidx) (ploc ++ [RIdx li]) lele rele :: a)
                     end
                 end) (sync_key cfg r lels rels) acc
    end.

  (* _diff_lists *)
  Definition diff_lists (rec : rec_t) (path : string) (ploc : loc) (l r : node)
             (lels rels : list node) (parent : option node) (pref : pyval) (acc : list entry)
    : outcome (list entry) :=
    if negb (opt_str_eqb (tag (node_info l)) (tag (node_info r))) then
      Ok (add_entry path ploc r :: del_entry path ploc l :: acc)
    else
    let nc : coords := (r, parent, pref) in
    match rels with
    | NMap _ _ :: _ => diff_aoh rec path ploc r lels rels nc acc
    | _ => diff_arrays rec true path ploc r lels rels nc acc
    end.

  (* _diff_between *)
  Definition diff_body (rec : rec_t) (path : string) (ploc : loc) (l r : node)
             (parent : option node) (pref : pyval) (acc : list entry) : outcome (list entry) :=
    match l, r with
    | NMap _ lkvs, NMap _ rkvs => diff_dicts rec path ploc l r lkvs rkvs acc
    | NSeq _ lels, NSeq _ rels => diff_lists rec path ploc l r lels rels parent pref acc
    | NSet _ lels, NSet _ rels => diff_sets rec path ploc l r lels rels acc
    | NLeaf _ _, NLeaf _ _ => Ok (diff_scalars path ploc l r acc)
    | _, _ =>
        (* is_root = not ("lhs_parent" in kwargs or "rhs_parent" in kwargs): every
           caller but compare_to passes both parents *)
        let root := match parent with None => true | Some _ => false end in
        let a1 := add_everything path ploc r root (purge path ploc l root acc) in
        if Nat.eqb (List.length a1) (List.length acc)
        then Ok (mkentry AChange path ploc l r :: a1)
        else Ok a1
    end.

  Fixpoint diff_between (fuel : nat) : rec_t :=
    fun path ploc l r parent pref acc =>
      match fuel with
      | O => OutOfFuel
      | S f => diff_body (diff_between f) path ploc l r parent pref acc
      end.

  (* compare_to + the content of get_report (in append order) *)
  Definition compare_to (l r : node) : outcome (list entry) :=
    do acc <- diff_between (S (node_size l)) "" [] l r None PNone [];
    Ok (rev acc).
End Diff.

(* ------------------------------------------------------------------ *)
(* yaml_diff.py print_report: which entries are printed, and the exit state *)
Definition is_different (e : entry) : bool := negb (action_eqb (e_action e) ASame).

Definition changes_found (report : list entry) : bool := existsb is_different report.

Definition printed_entries (quiet onlysame same : bool) (report : list entry) : list entry :=
  if quiet then []
  else filter (fun e =>
                 (is_different e && negb onlysame) || (onlysame && negb (is_different e)) || same) report.

Definition exit_state (report : list entry) : nat := if changes_found report then 1 else 0.
