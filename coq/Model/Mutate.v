(* Model of the WRITE side of yamlpath/processor.py (after the fix: commits of
   branch `mutate`):

     _delete_nodes / delete_gathered_nodes / delete_nodes      (this file, part 1)
     set_value / _apply_change / _update_node + recurse        (this file, part 2)
     Nodes.make_new_node / wrap_type                           (this file, part 2)

   The READ side is not modelled here: the functions take the MATCHED
   COORDINATES (what Processor._get_required_nodes yielded: parent object,
   parentref, and the collector nesting) as input.

   The code holds a reference to the parent OBJECT and mutates it in place, so
   the model addresses a parent by its object identity (oid) in the current
   document, never by a location computed earlier: [app_obj o f d] applies [f]
   to the container object [o] wherever the current document holds it, and is
   the identity when the object is no longer part of the document (the code
   then mutates a detached object, which the document does not see).

   No proofs in this file. *)
From Coq Require Import List Ascii String ZArith NArith QArith Bool.
From YP Require Import Outcome PyStr PyVal Doc Searches.
Import ListNotations.
Open Scope string_scope.
Open Scope list_scope.

(* result of one step: a value or a raised exception (no fuel anywhere here) *)
Inductive res (A : Type) := ROk (a : A) | RErr (e : exn).
Arguments ROk {A} a.
Arguments RErr {A} e.

Definition rbind {A B} (r : res A) (f : A -> res B) : res B :=
  match r with ROk a => f a | RErr e => RErr e end.

Section RMapM.
  Context {A B : Type} (f : A -> res B).
  Fixpoint rmapM (l : list A) : res (list B) :=
    match l with
    | [] => ROk []
    | x :: r => rbind (f x) (fun y => rbind (rmapM r) (fun ys => ROk (y :: ys)))
    end.
End RMapM.

(* ---- coordinates as the read side yields them ---- *)
Record pcoord := mkpc {
  pc_parent : option N;     (* NodeCoords.parent: None, or the oid of the parent object *)
  pc_ref : pyval            (* NodeCoords.parentref: dict key / list index / set member (None -> PNone) *)
}.

Inductive coord :=
  | CNode (p : pcoord) (name_kw : bool)             (* .node is a document node; name_kw: path_segment is [name()] *)
  | CList (cs : list coord) (p : pcoord) (name_kw : bool)   (* .node is a list of NodeCoords (Collector, Array slice); [] = the
                                                               Array slice that selects nothing (Processor._is_empty_slice,
                                                               fix f20b613): no action, no place to delete *)
  | CWrap (c : coord) (p : pcoord) (name_kw : bool).        (* .node is itself a NodeCoords *)

(* ---- generic list helpers ---- *)
Fixpoint remove_nth {A} (n : nat) (l : list A) : list A :=
  match l, n with
  | [], _ => []
  | _ :: r, O => r
  | x :: r, S k => x :: remove_nth k r
  end.

Fixpoint find_idx {A} (P : A -> bool) (l : list A) : option nat :=
  match l with
  | [] => None
  | x :: r => if P x then Some O else match find_idx P r with Some i => Some (S i) | None => None end
  end.

(* key == k  (keys are leaves) *)
Definition key_is (k : pyval) (kv : node * node) : bool :=
  match fst kv with NLeaf _ v => py_eq v k | _ => false end.
Definition member_is (k : pyval) (m : node) : bool :=
  match m with NLeaf _ v => py_eq v k | _ => false end.

(* a Python object usable as a list index: int and bool *)
Definition as_index (v : pyval) : option Z :=
  match v with PInt z => Some z | PBool b => Some (Z_of_bool b) | _ => None end.

(* ---- object-addressed application ---- *)
Definition coid (n : node) : option N :=
  match n with NLeaf _ _ => None | NMap i _ | NSeq i _ | NSet i _ => Some (oid i) end.

Definition is_obj (o : N) (n : node) : bool :=
  match coid n with Some x => N.eqb x o | None => false end.

(* apply [f] to the container object [o] wherever the document holds it *)
Fixpoint app_obj (o : N) (f : node -> res node) (d : node) : res node :=
  if is_obj o d then f d else
  match d with
  | NLeaf _ _ => ROk d
  | NMap i kvs =>
      rbind (rmapM (fun kv => rbind (app_obj o f (snd kv)) (fun v => ROk (fst kv, v))) kvs)
            (fun kvs' => ROk (NMap i kvs'))
  | NSeq i els => rbind (rmapM (app_obj o f) els) (fun els' => ROk (NSeq i els'))
  | NSet _ _ => ROk d
  end.

(* first container object with identity o *)
Fixpoint find_obj (o : N) (d : node) : option node :=
  if is_obj o d then Some d else
  match d with
  | NMap _ kvs => fold_right (fun kv acc => match find_obj o (snd kv) with Some x => Some x | None => acc end) None kvs
  | NSeq _ els => fold_right (fun x acc => match find_obj o x with Some r => Some r | None => acc end) None els
  | _ => None
  end.

(* ================= part 1: _delete_nodes (processor.py:745-862) ==========
   after fixes 17f9ea8 and 1c243db: the gathered NodeCoords are flattened (_leaf_node_coords),
   a coordinate whose parent is no container (the document root) makes the
   whole call refuse before anything is deleted,
   every place (parent object, parentref) is kept once with a negative list
   index resolved against the intact list, and the places are processed in
   reverse gather order except that list elements go first, highest position
   first (a stable sort on the position, -1 for everything that is not an
   int-indexed list element). *)

(* which child does `parentref` name in this (current) parent object, as the
   three container branches test it:
     dict:  `parentref in parent`            -> position of the key
     list:  `0 <= parentref < len(parent)`, then `del parent[parentref]`
     set:   `parent.discard(parentref)` = `del odict[value]` (KeyError if absent) *)
Definition del_index (r : pyval) (n : node) : res (option nat) :=
  match n with
  | NLeaf _ _ => ROk None
  | NMap _ kvs => ROk (find_idx (key_is r) kvs)
  | NSeq _ els =>
      match as_index r with
      | None => RErr (PyCrash TypeError)            (* `0 <= 'x'` *)
      | Some z =>
          if ((0 <=? z) && (z <? Z.of_nat (List.length els)))%Z then ROk (Some (Z.to_nat z)) else ROk None
      end
  | NSet _ els =>
      match find_idx (member_is r) els with
      | Some i => ROk (Some i)
      | None => RErr (PyCrash KeyError)
      end
  end.

Definition remove_child (i : nat) (n : node) : node :=
  match n with
  | NLeaf _ _ => n
  | NMap inf kvs => NMap inf (remove_nth i kvs)
  | NSeq inf els => NSeq inf (remove_nth i els)
  | NSet inf els => NSet inf (remove_nth i els)
  end.

Definition del_in (r : pyval) (n : node) : res node :=
  rbind (del_index r n) (fun oi => match oi with Some i => ROk (remove_child i n) | None => ROk n end).

(* one place of the deletion loop: the branches on type(parent); the loop has
   no `else:` (a parent that is no container never gets this far, see
   [has_root_coord]) *)
Definition del_step (p : pcoord) (d : node) : res node :=
  match pc_parent p with
  | None => ROk d
  | Some o => app_obj o (del_in (pc_ref p)) d
  end.

(* `if not isinstance(parent, (dict, list, CommentedSet, set)): raise NoDocumentYAMLPathException`
   while the places are being collected, i.e. before anything is deleted *)
Definition has_root_coord (ps : list pcoord) : bool :=
  existsb (fun p => match pc_parent p with None => true | Some _ => false end) ps.

(* Processor._leaf_node_coords: the innermost NodeCoords in GATHER order *)
Fixpoint leaf_coords1 (c : coord) : list pcoord :=
  match c with
  | CNode p _ => [p]
  | CList cs _ _ => flat_map leaf_coords1 cs
  | CWrap c _ _ => leaf_coords1 c
  end.
Definition leaf_coords (cs : list coord) : list pcoord := flat_map leaf_coords1 cs.

(* (position, place) of one leaf coordinate in the intact document [d]:
     position = -1
     if isinstance(parent, list) and isinstance(parentref, int):
         if parentref < 0: parentref += len(parent)
         position = parentref *)
Definition del_place (d : node) (p : pcoord) : Z * pcoord :=
  match pc_parent p with
  | Some o =>
      match find_obj o d, as_index (pc_ref p) with
      | Some (NSeq _ els), Some z =>
          if (z <? 0)%Z
          then let z' := (z + Z.of_nat (List.length els))%Z in (z', mkpc (Some o) (PInt z'))
          else (z, p)
      | _, _ => ((-1)%Z, p)
      end
  | None => ((-1)%Z, p)
  end.

(* `(id(parent), parentref)` as a member of the set seen_places: same parent object, parentref == *)
Definition del_same_place (a b : pcoord) : bool :=
  match pc_parent a, pc_parent b with
  | Some x, Some y => N.eqb x y
  | None, None => true
  | _, _ => false
  end && py_eq (pc_ref a) (pc_ref b).

(* `if place not in seen_places: seen_places.add(place); places.append(...)` *)
Fixpoint uniq_places (seen : list pcoord) (l : list (Z * pcoord)) : list (Z * pcoord) :=
  match l with
  | [] => []
  | x :: r => if existsb (del_same_place (snd x)) seen then uniq_places seen r
              else x :: uniq_places (snd x :: seen) r
  end.

(* `places.sort(key=position, reverse=True)`: Python's sort is stable, also
   under reverse=True, so it is THE stable arrangement by descending position;
   written here as an insertion sort *)
Fixpoint ins_place (x : Z * pcoord) (l : list (Z * pcoord)) : list (Z * pcoord) :=
  match l with
  | [] => [x]
  | y :: r => if (fst x <? fst y)%Z then y :: ins_place x r else x :: y :: r
  end.
Definition sort_places (l : list (Z * pcoord)) : list (Z * pcoord) := fold_right ins_place [] l.

(* the places in the order in which the loop deletes them *)
Definition del_plan (d : node) (cs : list coord) : list pcoord :=
  map snd (sort_places (rev (uniq_places [] (map (del_place d) (leaf_coords cs))))).

(* final state of the document, and the exception if one was raised: the code
   mutates in place, so what was deleted before the raise stays deleted *)
Inductive final := MDone (d : node) | Failed (d : node) (e : exn).

Fixpoint run_del (ps : list pcoord) (d : node) : final :=
  match ps with
  | [] => MDone d
  | p :: r => match del_step p d with
              | ROk d' => run_del r d'
              | RErr e => Failed d e
              end
  end.

(* Processor.delete_nodes / delete_gathered_nodes on already gathered coordinates *)
Definition delete_nodes (cs : list coord) (d : node) : final :=
  if has_root_coord (leaf_coords cs) then Failed d (YPE NoDocument) else run_del (del_plan d cs) d.

(* ---- the YAML-merge-key test of the dict branch (processor.py 832-857) ----
   Before `del parent[parentref]` the dict branch scans the WHOLE document for
   anchors (Anchors.scan_for_anchors(ancestry[0][0])) and, when parentref is
   the anchor name of a MAPPING (is_ymk_anchor) and the parent itself has
   merge keys (`hasattr(parent, "merge") and len(parent.merge) > 0`), removes a
   `<<: *anchor` reference instead of a key.  The removal itself is NOT
   modelled (outcome PyCrash NotImplemented); what is modelled is exactly when
   the code leaves the ordinary path.  [mg] = identities of the CommentedMap
   objects whose .merge list is non-empty (Doc.node does not represent merge
   keys; the harness ships them beside the document). *)
Definition anc_of (n : node) : list (string * node) :=
  match anchor (node_info n) with
  | Some a => if has_anchor_attr (node_info n) then [(a, n)] else []
  | None => []
  end.

(* Anchors.scan_for_anchors(dom, anchors): the (name, node) assignments in the
   order the scan makes them (a later one overwrites an earlier one).  A
   mapping records its keys and values and descends into map / seq values; a
   sequence only descends (so an anchored mapping that is a sequence ELEMENT
   is never recorded, and neither is the root's own anchor); anything else
   records itself. *)
Fixpoint scan_anchors (d : node) : list (string * node) :=
  match d with
  | NMap _ kvs =>
      flat_map (fun kv => anc_of (fst kv) ++ anc_of (snd kv) ++
                          match snd kv with
                          | NMap _ _ | NSeq _ _ => scan_anchors (snd kv)
                          | _ => []
                          end) kvs
  | NSeq _ els => flat_map scan_anchors els
  | _ => anc_of d
  end.

(* all_anchors[name] after the scan: the LAST assignment *)
Fixpoint last_anchor (name : string) (l : list (string * node)) (acc : option node) : option node :=
  match l with
  | [] => acc
  | (a, n) :: r => last_anchor name r (if String.eqb a name then Some n else acc)
  end.

(* `compare_node is not None and isinstance(compare_node, dict)` *)
Definition is_ymk_anchor (r : pyval) (d : node) : bool :=
  match r with
  | PStr s => match last_anchor s (scan_anchors d) None with Some n => is_map n | None => false end
  | _ => false
  end.

Definition del_step_mg (mg : list N) (p : pcoord) (d : node) : res node :=
  match pc_parent p with
  | None => ROk d
  | Some o =>
      if existsb (N.eqb o) mg && is_ymk_anchor (pc_ref p) d
      then RErr (PyCrash NotImplemented)          (* the merge-key removal branch: outside the model *)
      else app_obj o (del_in (pc_ref p)) d         (* `elif parentref in parent: del parent[parentref]`, lists, sets *)
  end.

Fixpoint run_del_mg (mg : list N) (ps : list pcoord) (d : node) : final :=
  match ps with
  | [] => MDone d
  | p :: r => match del_step_mg mg p d with
              | ROk d' => run_del_mg mg r d'
              | RErr e => Failed d e
              end
  end.

(* Processor.delete_nodes on a document some of whose mappings carry merge keys;
   [delete_nodes] above is the case mg = [] (C04merge.delete_nodes_mg_nil) *)
Definition delete_nodes_mg (mg : list N) (cs : list coord) (d : node) : final :=
  if has_root_coord (leaf_coords cs) then Failed d (YPE NoDocument) else run_del_mg mg (del_plan d cs) d.

(* ================= part 2: set_value / _apply_change / _update_node =======
   processor.py 169-343 and 2700-2860 after the fix: commits 2481ae4 (sets),
   aaea88e (aliases in sequences), f917898 (addressed position + true aliases
   only), 7612ed9 (a key alias is not renamed onto an existing key); yamlpath/common/nodes.py Nodes.make_new_node / wrap_type 42-253,
   405-441 with the value formats as an enum (DATE / TIMESTAMP not modelled). *)

Inductive vformat := FBare | FBoolean | FDefault | FDquote | FFloat | FFolded | FInt | FLiteral | FSquote.

(* float(text): an oracle (Section variable), like ast.literal_eval *)
Inductive flres := FVal (v : pyval) | FFail.

Definition of_outcome {A} (o : outcome A) : res A :=
  match o with Ok a => ROk a | Raise e => RErr e | OutOfFuel => RErr OracleMiss end.

(* what make_new_node builds before the anchor is attached *)
Record newnode := mknn {
  nn_val : pyval;
  nn_wrapped : bool;    (* a ruamel wrapper class (has .anchor, accepts anchor=); false: a bare Python object *)
  nn_sbool : bool       (* the wrapper class is ScalarBoolean (an int subclass): Doc.is_sbool convention *)
}.
Definition nn_tag (nn : newnode) : option string := if nn_sbool nn then Some sbool_tag else None.

Fixpoint mem_str (s : string) (l : list string) : bool :=
  match l with [] => false | x :: r => String.eqb s x || mem_str s r end.

Definition bool_allowed : list string := ["true"; "false"; "yes"; "no"; "y"; "n"; "t"; "f"; "1"; "0"].
Definition bool_truthy : list string := ["true"; "yes"; "y"; "t"; "1"].

Definition first_char_is (c : ascii) (s : string) : bool :=
  match s with String a _ => Ascii.eqb a c | EmptyString => false end.

Section MakeNode.
Variable lit : string -> outcome litres.
Variable fl : string -> outcome flres.

Definition conv_str (value : pyval) : res newnode := ROk (mknn (PStr (py_str value)) true false).

Definition conv_bool (value : pyval) : res newnode :=
  match value with
  | PBool b => ROk (mknn (PInt (Z_of_bool b)) true true)       (* ScalarBoolean(value) *)
  | _ =>
      let s := lower_str (py_str value) in
      if mem_str s bool_allowed
      then ROk (mknn (PInt (if mem_str s bool_truthy then 1%Z else 0%Z)) true true)
      else RErr (PyCrash ValueError)
  end.

Definition conv_float (value : pyval) : res newnode :=
  let via (t : string) :=
    rbind (of_outcome (fl t)) (fun r => match r with FVal v => ROk (mknn v true false) | FFail => RErr (PyCrash ValueError) end) in
  match value with
  | PFloat _ _ => ROk (mknn value true false)
  | PStr s => via s
  | PInt z => via (str_of_Z z)
  | PBool b => via (if b then "1" else "0")
  | PNone | POther _ => RErr (PyCrash ValueError)      (* float(None): TypeError, translated like ValueError *)
  end.

Definition conv_int (value : pyval) : res newnode :=
  match value with
  | PStr s => match py_int s with Some z => ROk (mknn (PInt z) true false) | None => RErr (PyCrash ValueError) end
  | PInt z => ROk (mknn (PInt z) true false)
  | PBool b => ROk (mknn (PInt (Z_of_bool b)) true false)
  | PFloat q _ => ROk (mknn (PInt (Z.quot (Qnum q) (Zpos (Qden q)))) true false)
  | PNone | POther _ => RErr (PyCrash ValueError)      (* int(None): TypeError, translated like ValueError *)
  end.

(* the `else:` branch: wrap_type, node_is_leaf, from_node, then the format it found *)
Definition conv_default (value : pyval) : res newnode :=
  rbind (of_outcome (typed_value lit value)) (fun ast =>
  match ast with
  | PStr _ => conv_str value
  | PInt _ =>
      match value with
      | PStr s => match py_int s with Some _ => conv_int value | None => conv_str value end   (* ScalarInt("0x10") raises ValueError *)
      | _ => conv_int value
      end
  | PFloat _ _ => conv_float value
  | PBool _ => conv_bool value
  | PNone => ROk (mknn value false false)                 (* NoneType / str: the bare value itself *)
  | POther t =>
      if first_char_is "["%char t || first_char_is "{"%char t
      then conv_str value                          (* list / dict literal: not a leaf, or CommentedMap(str) fails *)
      else ROk (mknn value false false)                   (* tuple, bytes, ...: the bare value itself *)
  end).

Definition conv (fmt : vformat) (value : pyval) : res newnode :=
  match fmt with
  | FBare | FDquote | FSquote | FFolded | FLiteral => conv_str value
  | FBoolean => conv_bool value
  | FFloat => conv_float value
  | FInt => conv_int value
  | FDefault => conv_default value
  end.

Definition nonempty_anchor (i : info) : option string :=
  if has_anchor_attr i then
    match anchor i with Some a => if nonempty a then Some a else None | None => None end
  else None.

(* Nodes.make_new_node(source_node, value, value_format): [src] = None when the
   source node is Python's None; [fresh] is the identity of the new object,
   [vo] the identity of the caller's value object (used when no new object is
   made) *)
Definition make_new_node (src : option info) (value : pyval) (fmt : vformat) (fresh vo : N) : res node :=
  rbind (conv fmt value) (fun nn =>
  match (match src with Some i => nonempty_anchor i | None => None end) with
  | Some a =>
      if nn_wrapped nn then ROk (NLeaf (mkinfo fresh (Some a) true (nn_tag nn)) (nn_val nn))
      else match nn_val nn with
           | PNone => ROk (NLeaf (mkinfo vo None false None) PNone)   (* new_type is NoneType: stays None (fix 2nd nodes.py commit) *)
           | _ => RErr (PyCrash TypeError)        (* str(value, anchor=...) *)
           end
  | None =>
      if nn_wrapped nn then ROk (NLeaf (mkinfo fresh None true (nn_tag nn)) (nn_val nn))
      else ROk (NLeaf (mkinfo vo None false None) (nn_val nn))
  end).

End MakeNode.

(* ---- ruamel's CommentedMap.__setitem__ / ordereddict.insert on association lists ---- *)
Definition key_eqb (k0 k : node) : bool :=
  match k0, k with NLeaf _ a, NLeaf _ b => py_eq a b | _, _ => false end.

Fixpoint od_set (k v : node) (kvs : list (node * node)) : list (node * node) :=
  match kvs with
  | [] => [(k, v)]
  | (k0, v0) :: r => if key_eqb k0 k then (k0, v) :: r else (k0, v0) :: od_set k v r
  end.

Definition od_insert (pos : nat) (k v : node) (kvs : list (node * node)) : list (node * node) :=
  if Nat.leb (List.length kvs) pos then od_set k v kvs
  else snd (fold_left (fun (st : nat * list (node * node)) kv =>
                         (S (fst st),
                          od_set (fst kv) (snd kv) (if Nat.eqb (fst st) pos then od_set k v (snd st) else snd st)))
                      kvs (O, [])).

Section MapI.
  Context {A B : Type} (f : nat -> A -> B).
  Fixpoint mapi_from (k : nat) (l : list A) : list B :=
    match l with [] => [] | x :: r => f k x :: mapi_from (S k) r end.
End MapI.

(* ---- recurse(data, parent, parentref, reference_node, replacement_node) ---- *)
Section Recurse.
Variables (poid : N) (pref : pyval) (roid : N) (repl : node).

Definition is_ref (x : node) : bool := N.eqb (node_oid x) roid.       (* x is reference_node *)
Definition hattr (x : node) : bool := has_anchor_attr (node_info x).   (* hasattr(x, "anchor") *)

(* keys: `for i, k in [... if key is reference_node and hasattr(key, "anchor")]:
            data.insert(i, replacement_node, data.pop(k))` *)
Definition rename_keys (kvs : list (node * node)) : list (node * node) :=
  match find_idx (fun kv => is_ref (fst kv) && hattr (fst kv)) kvs with
  | None => kvs
  | Some i => match nth_error kvs i with
              | Some kv => od_insert i repl (snd kv) (remove_nth i kvs)
              | None => kvs
              end
  end.

Definition set_update (this_is_parent : bool) (els : list node) : list node :=
  match find (fun e => is_ref e && (this_is_parent || hattr e)) els with
  | None => els
  | Some e =>
      let v := match e with NLeaf _ v => v | _ => PNone end in
      let els1 := match find_idx (member_is v) els with Some i => remove_nth i els | None => els end in
      let rv := match repl with NLeaf _ v => v | _ => PNone end in
      if existsb (member_is rv) els1 then els1 else els1 ++ [repl]
  end.

(* The recursion into the values is independent of the keys, so it is written
   first (pass A); the key replacement and the key-dependent test
   `k == parentref` follow in the code's order (rename, then pass B). *)
Fixpoint recurse (data : node) : node :=
  match data with
  | NLeaf _ _ => data
  | NMap i kvs =>
      let kvsA := map (fun kv => (fst kv, if is_ref (snd kv) then snd kv else recurse (snd kv))) kvs in
      let kvsR := rename_keys kvsA in
      NMap i (map (fun kv =>
                     if is_ref (snd kv) && (hattr (snd kv) || (N.eqb (oid i) poid && key_is pref kv))
                     then (fst kv, repl) else kv) kvsR)
  | NSeq i els =>
      NSeq i (mapi_from (fun idx x =>
                           if is_ref x && (hattr x || (N.eqb (oid i) poid && py_eq (PInt (Z.of_nat idx)) pref))
                           then repl else recurse x) O els)
  | NSet i els => NSet i (set_update (N.eqb (oid i) poid) els)
  end.
End Recurse.

(* renames_onto_existing_key(data) (fix 7612ed9): some mapping holds a key that
   IS the reference node and would be renamed (`key is change_node and
   hasattr(key, "anchor")`) beside another key `== new_node`; the walk is
   recurse()'s (no descent into a value that is the reference node) *)
Fixpoint key_conflict (roid : N) (repl : node) (data : node) : bool :=
  match data with
  | NLeaf _ _ => false
  | NMap _ kvs =>
      existsb (fun kv => is_ref roid (fst kv) && hattr (fst kv) &&
                         existsb (fun kv' => negb (is_ref roid (fst kv')) && key_eqb (fst kv') repl) kvs) kvs
      || existsb (fun kv => negb (is_ref roid (snd kv)) && key_conflict roid repl (snd kv)) kvs
  | NSeq _ els => existsb (key_conflict roid repl) els
  | NSet _ _ => false
  end.

(* `if isinstance(parent, list) and isinstance(parentref, int) and parentref < 0: parentref += len(parent)` *)
Definition norm_ref (pn : node) (r : pyval) : pyval :=
  match pn, as_index r with
  | NSeq _ els, Some z => if (z <? 0)%Z then PInt (z + Z.of_nat (List.length els)) else r
  | _, _ => r
  end.

(* change_node: the member == parentref of a set (None when absent), else parent[parentref] *)
Definition get_change (pn : node) (r : pyval) : res (option node) :=
  match pn with
  | NSet _ els => ROk (find (member_is r) els)
  | NMap _ kvs => match find (key_is r) kvs with Some kv => ROk (Some (snd kv)) | None => RErr (PyCrash KeyError) end
  | NSeq _ els =>
      match as_index r with
      | None => RErr (PyCrash TypeError)
      | Some z =>
          let len := Z.of_nat (List.length els) in
          let z' := if (z <? 0)%Z then (z + len)%Z else z in
          if ((0 <=? z') && (z' <? len))%Z then
            match nth_error els (Z.to_nat z') with Some x => ROk (Some x) | None => RErr (PyCrash IndexError) end
          else RErr (PyCrash IndexError)
      end
  | NLeaf _ _ => RErr (PyCrash TypeError)
  end.

Definition state := (node * N)%type.     (* document, next unused object identity *)

Section SetValue.
Variable lit : string -> outcome litres.
Variable fl : string -> outcome flres.

(* Processor._update_node(parent, parentref, value, value_format) *)
Definition update_node (p : pcoord) (value : pyval) (fmt : vformat) (vo : N) (st : state) : res state :=
  let (d, next) := st in
  match pc_parent p with
  | None => ROk st                                      (* `if parent is None: return` *)
  | Some o =>
      match find_obj o d with
      | None => ROk st                                  (* parent object no longer in the document (not modelled further) *)
      | Some pn =>
          let r := norm_ref pn (pc_ref p) in
          rbind (get_change pn r) (fun chg =>
          rbind (make_new_node lit fl (option_map node_info chg) value fmt next vo) (fun new =>
          match chg with
          | None => ROk (d, N.succ next)               (* reference_node is None: nothing in a loaded document is replaced *)
          | Some c =>
              if key_conflict (node_oid c) new d
              then RErr (YPE DuplicateKey)             (* refused before anything is changed (fix 7612ed9) *)
              else ROk (recurse o r (node_oid c) new d, N.succ next)
          end))
      end
  end.

(* the [name()] branch of _apply_change: rename a key *)
Definition rename_key (p : pcoord) (value : pyval) (vo : N) (d : node) : res node :=
  match pc_parent p with
  | None => RErr (YPE Generic)
  | Some o =>
      app_obj o (fun pn =>
        match pn with
        | NMap i kvs =>
            if existsb (key_is value) kvs then RErr (YPE DuplicateKey)
            else match find_idx (key_is (pc_ref p)) kvs with
                 | Some idx =>
                     match nth_error kvs idx with
                     | Some kv => ROk (NMap i (od_insert idx (NLeaf (mkinfo vo None false None) value) (snd kv)
                                                         (remove_nth idx kvs)))
                     | None => ROk pn
                     end
                 | None => ROk pn
                 end
        | _ => RErr (YPE Generic)
        end) d
  end.

(* one leaf action of _apply_change *)
Record action := mkact { a_pc : pcoord; a_name : bool; a_fmt : vformat }.

(* _apply_change's unwrapping: a wrapped NodeCoords is applied first (with the
   keyword arguments already popped: DEFAULT format) and then the outer
   coordinate as well; a Collector list is expanded (DEFAULT format) and the
   outer coordinate is NOT applied *)
Fixpoint set_actions (fmt : vformat) (c : coord) : list action :=
  match c with
  | CNode p nk => [mkact p nk fmt]
  | CList cs _ _ => flat_map (set_actions FDefault) cs
  | CWrap c p nk => set_actions FDefault c ++ [mkact p nk fmt]
  end.

Definition apply_action (value : pyval) (vo : N) (a : action) (st : state) : res state :=
  if a_name a then rbind (rename_key (a_pc a) value vo (fst st)) (fun d' => ROk (d', snd st))
  else match update_node (a_pc a) value (a_fmt a) vo st with
       | RErr (PyCrash ValueError) => RErr (YPE TypeMismatch)     (* except ValueError -> TypeMismatchYAMLPathException *)
       | r => r
       end.

Inductive sfinal := SDone (st : state) | SFailed (st : state) (e : exn).

Fixpoint run_actions (value : pyval) (vo : N) (acts : list action) (st : state) : sfinal :=
  match acts with
  | [] => SDone st
  | a :: r => match apply_action value vo a st with
              | ROk st' => run_actions value vo r st'
              | RErr e => SFailed st e
              end
  end.

(* Processor.set_value on the coordinates handed to _apply_change; [vo] = identity
   of the caller's value object when the document already holds that object *)
Definition set_value (cs : list coord) (value : pyval) (fmt : vformat) (vo : option N) (st : state) : sfinal :=
  let (d, next) := st in
  let '(vo', next') := match vo with Some o => (o, next) | None => (next, N.succ next) end in
  run_actions value vo' (flat_map (set_actions fmt) cs) (d, next').

End SetValue.

Fixpoint max_oid (d : node) : N :=
  match d with
  | NLeaf i _ => oid i
  | NMap i kvs => fold_right (fun kv acc => N.max (N.max (max_oid (fst kv)) (max_oid (snd kv))) acc) (oid i) kvs
  | NSeq i els => fold_right (fun x acc => N.max (max_oid x) acc) (oid i) els
  | NSet i els => fold_right (fun x acc => N.max (max_oid x) acc) (oid i) els
  end.
Definition init_state (d : node) : state := (d, N.succ (max_oid d)).
