(* Model of the WRITE side of yamlpath/processor.py (after the fix: commits of
   branch `mutate`):

     _delete_nodes / delete_gathered_nodes / delete_nodes      (this file, part 1)
     set_value / _apply_change / _update_node + recurse        (this file, part 2)
     Nodes.make_new_node / wrap_type                           (this file, part 2)

   The READ side is not modelled here: the functions take the MATCHED
   COORDINATES (what Processor._get_required_nodes yielded: parent object,
   parentref, and the collector nesting) as input.

   The code holds a reference to the parent OBJECT and mutates it in place, so
   the model addresses a parent by its object identity (oid) in the current
   document, never by a location computed earlier: [app_obj o f d] applies [f]
   to the container object [o] wherever the current document holds it, and is
   the identity when the object is no longer part of the document (the code
   then mutates a detached object, which the document does not see).

   No proofs in this file. *)
From Coq Require Import List Ascii String ZArith NArith QArith Bool.
From YP Require Import Outcome PyStr PyVal Doc Searches.
Import ListNotations.
Open Scope string_scope.
Open Scope list_scope.

(* result of one step: a value or a raised exception (no fuel anywhere here) *)
Inductive res (A : Type) := ROk (a : A) | RErr (e : exn).
Arguments ROk {A} a.
Arguments RErr {A} e.

Definition rbind {A B} (r : res A) (f : A -> res B) : res B :=
  match r with ROk a => f a | RErr e => RErr e end.

Section RMapM.
  Context {A B : Type} (f : A -> res B).
  Fixpoint rmapM (l : list A) : res (list B) :=
    match l with
    | [] => ROk []
    | x :: r => rbind (f x) (fun y => rbind (rmapM r) (fun ys => ROk (y :: ys)))
    end.
End RMapM.

(* ---- coordinates as the read side yields them ---- *)
Record pcoord := mkpc {
  pc_parent : option N;     (* NodeCoords.parent: None, or the oid of the parent object *)
  pc_ref : pyval            (* NodeCoords.parentref: dict key / list index / set member (None -> PNone) *)
}.

Inductive coord :=
  | CNode (p : pcoord) (name_kw : bool)             (* .node is a document node; name_kw: path_segment is [name()] *)
  | CList (cs : list coord) (p : pcoord) (name_kw : bool)   (* .node is a NON-EMPTY list of NodeCoords (Collector) *)
  | CWrap (c : coord) (p : pcoord) (name_kw : bool).        (* .node is itself a NodeCoords *)

(* ---- generic list helpers ---- *)
Fixpoint remove_nth {A} (n : nat) (l : list A) : list A :=
  match l, n with
  | [], _ => []
  | _ :: r, O => r
  | x :: r, S k => x :: remove_nth k r
  end.

Fixpoint find_idx {A} (P : A -> bool) (l : list A) : option nat :=
  match l with
  | [] => None
  | x :: r => if P x then Some O else match find_idx P r with Some i => Some (S i) | None => None end
  end.

(* key == k  (keys are leaves) *)
Definition key_is (k : pyval) (kv : node * node) : bool :=
  match fst kv with NLeaf _ v => py_eq v k | _ => false end.
Definition member_is (k : pyval) (m : node) : bool :=
  match m with NLeaf _ v => py_eq v k | _ => false end.

(* a Python object usable as a list index: int and bool *)
Definition as_index (v : pyval) : option Z :=
  match v with PInt z => Some z | PBool b => Some (Z_of_bool b) | _ => None end.

(* ---- object-addressed application ---- *)
Definition coid (n : node) : option N :=
  match n with NLeaf _ _ => None | NMap i _ | NSeq i _ | NSet i _ => Some (oid i) end.

Definition is_obj (o : N) (n : node) : bool :=
  match coid n with Some x => N.eqb x o | None => false end.

(* apply [f] to the container object [o] wherever the document holds it *)
Fixpoint app_obj (o : N) (f : node -> res node) (d : node) : res node :=
  if is_obj o d then f d else
  match d with
  | NLeaf _ _ => ROk d
  | NMap i kvs =>
      rbind (rmapM (fun kv => rbind (app_obj o f (snd kv)) (fun v => ROk (fst kv, v))) kvs)
            (fun kvs' => ROk (NMap i kvs'))
  | NSeq i els => rbind (rmapM (app_obj o f) els) (fun els' => ROk (NSeq i els'))
  | NSet _ _ => ROk d
  end.

(* ================= part 1: _delete_nodes (processor.py:740-812) ========== *)

(* which child does `parentref` name in this (current) parent object, as the
   three container branches test it:
     dict:  `parentref in parent`            -> position of the key
     list:  `len(parent) > parentref`, then `del parent[parentref]`
            (a negative index counts from the end; one beyond -len raises)
     set:   `parent.discard(parentref)` = `del odict[value]` (KeyError if absent) *)
Definition del_index (r : pyval) (n : node) : res (option nat) :=
  match n with
  | NLeaf _ _ => ROk None
  | NMap _ kvs => ROk (find_idx (key_is r) kvs)
  | NSeq _ els =>
      match as_index r with
      | None => RErr (PyCrash TypeError)
      | Some z =>
          let len := Z.of_nat (List.length els) in
          if (z <? len)%Z then
            if (0 <=? z)%Z then ROk (Some (Z.to_nat z))
            else if (0 <=? z + len)%Z then ROk (Some (Z.to_nat (z + len)))
            else RErr (PyCrash IndexError)
          else ROk None
      end
  | NSet _ els =>
      match find_idx (member_is r) els with
      | Some i => ROk (Some i)
      | None => RErr (PyCrash KeyError)
      end
  end.

Definition remove_child (i : nat) (n : node) : node :=
  match n with
  | NLeaf _ _ => n
  | NMap inf kvs => NMap inf (remove_nth i kvs)
  | NSeq inf els => NSeq inf (remove_nth i els)
  | NSet inf els => NSet inf (remove_nth i els)
  end.

Definition del_in (r : pyval) (n : node) : res node :=
  rbind (del_index r n) (fun oi => match oi with Some i => ROk (remove_child i n) | None => ROk n end).

(* one leaf coordinate of the deletion loop: the branches on type(parent) *)
Definition del_step (p : pcoord) (d : node) : res node :=
  match pc_parent p with
  | None => RErr (YPE NoDocument)          (* the `else:` branch: refusing to delete the document *)
  | Some o => app_obj o (del_in (pc_ref p)) d
  end.

(* `for delete_nc in reversed(delete_nodes)` with the recursion into Collector
   results: the order in which leaf coordinates are processed *)
Fixpoint del_order1 (c : coord) : list pcoord :=
  match c with
  | CNode p _ => [p]
  | CList cs _ _ => fold_right (fun c acc => acc ++ del_order1 c) [] cs    (* = concat (map del_order1 (rev cs)) *)
  | CWrap c _ _ => del_order1 c
  end.
Definition del_order (cs : list coord) : list pcoord :=
  fold_right (fun c acc => acc ++ del_order1 c) [] cs.

(* final state of the document, and the exception if one was raised: the code
   mutates in place, so what was deleted before the raise stays deleted *)
Inductive final := Done (d : node) | Failed (d : node) (e : exn).

Fixpoint run_del (ps : list pcoord) (d : node) : final :=
  match ps with
  | [] => Done d
  | p :: r => match del_step p d with
              | ROk d' => run_del r d'
              | RErr e => Failed d e
              end
  end.

(* Processor.delete_nodes / delete_gathered_nodes on already gathered coordinates *)
Definition delete_nodes (cs : list coord) (d : node) : final := run_del (del_order cs) d.
