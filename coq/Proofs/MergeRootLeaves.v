(* C10 / C05: the ROOT DISPATCH of merge_with creates no anchored Scalar and changes
   none.  MergeLeaves.v proves it of the recursive core merge_rec; here the same
   parametric statement for _insert_dict / _insert_list / _insert_set / _insert_scalar
   (fresh wrapper lists `[rhs]`, the Hash built from a Set, the Set built from a list,
   lhs.yaml_set_tag(rhs.tag) on the merged container) and for merge_root. *)
From Coq Require Import List Ascii String ZArith QArith NArith Bool Lia.
From YP Require Import Outcome PyStr PyVal Doc PathParser Searches MergeConfig Merge SpecC05 SpecC05Union SpecC10
  MergeBasics MergeHash MergeNoCrash MergeUnion MergeUnique MergeLeaves.
Import ListNotations.
Open Scope string_scope.
Open Scope list_scope.

Section RootLeaves.
Variable F : node -> Prop.
Hypothesis Hfresh : F mg_null.
Variable lit : string -> outcome litres.
Variable cfg : mconfig.

Notation lk := (lok F).

Lemma lok_leaf : forall i v, F (NLeaf i v) -> lk (NLeaf i v).
Proof. intros i v H p Hp _. simpl in Hp. destruct Hp as [<-|[]]. exact H. Qed.

Lemma lok_null : lk mg_null.
Proof. apply lok_leaf. exact Hfresh. Qed.

Lemma rec_lk : forall r nc l m, lk r -> lk l -> merge_rec lit cfg r nc l = Ok m -> lk m.
Proof. intros r nc l m Hr Hl H. exact (merge_rec_lok F lit cfg r nc l m Hr Hl H). Qed.

Lemma lists_top_lok : forall l r nc m,
  lk l -> lk r -> merge_lists_top lit cfg l r nc = Ok m -> lk (ret m) /\ lk (inplace m).
Proof.
  intros l r nc m Hl Hr H. unfold merge_lists_top in H.
  assert (D : forall m0, (do x <- merge_rec lit cfg r nc l; Ok (same x)) = Ok m0 -> lk (ret m0) /\ lk (inplace m0)).
  { intros m0 H0. destruct (merge_rec lit cfg r nc l) as [x| |] eqn:E; simpl in H0; try discriminate.
    inversion H0; subst. simpl. pose proof (rec_lk r nc l x Hr Hl E). auto. }
  destruct r as [ri rv|ri rk|ri els|ri els]; try (apply D; exact H).
  destruct els as [|first rest]; try (apply D; exact H).
  destruct (is_map first).
  - destruct (merge_rec lit cfg (NSeq ri (first :: rest)) nc l) as [x| |] eqn:E; simpl in H; try discriminate.
    destruct (aoh_merge_mode cfg nc) as [mode| |]; simpl in H; try discriminate.
    pose proof (rec_lk _ nc l x Hr Hl E) as Hx.
    destruct mode; inversion H; subst; simpl; auto.
  - exact (merge_simple_lists_ok F cfg _ _ _ _ Hl Hr H).
Qed.

Lemma lists_top_shape : forall l r nc m,
  is_leaf l = false -> is_leaf r = false -> merge_lists_top lit cfg l r nc = Ok m -> is_leaf (inplace m) = false.
Proof.
  intros l r nc m Hl Hr H. unfold merge_lists_top in H.
  assert (D : forall m, (do x <- merge_rec lit cfg r nc l; Ok (same x)) = Ok m -> is_leaf (inplace m) = false).
  { intros m0 H0. destruct (merge_rec lit cfg r nc l) as [x| |] eqn:E; simpl in H0; try discriminate.
    inversion H0; subst. simpl. exact (merge_rec_shape lit cfg r nc l x E Hr). }
  destruct r as [ri rv|ri rk|ri els|ri els]; try (apply D; exact H).
  destruct els as [|first rest]; try (apply D; exact H).
  destruct (is_map first).
  - destruct (merge_rec lit cfg (NSeq ri (first :: rest)) nc l) as [x| |] eqn:E; simpl in H; try discriminate.
    destruct (aoh_merge_mode cfg nc) as [mode| |]; simpl in H; try discriminate.
    pose proof (merge_rec_shape lit cfg _ nc l x E eq_refl) as Hx.
    destruct mode; inversion H; subst; simpl; auto.
  - apply merge_simple_lists_shape in H; [tauto|reflexivity].
Qed.

Lemma tag_sync_lok : forall m l r m',
  lk (ret m) -> lk (inplace m) -> is_leaf (inplace m) = false ->
  tag_sync m l r = Ok m' -> lk (ret m') /\ lk (inplace m').
Proof.
  intros m l r m' Hr Hi Hs H. unfold tag_sync in H. rewrite yaml_set_tag_container in H by exact Hs.
  simpl in H. inversion H; subst; clear H. cbn [ret inplace].
  assert (X : lk (set_tag (inplace m) (node_tag r))) by (apply lok_set_tag; assumption).
  split; [|exact X]. destruct (ret_is_lhs m); assumption.
Qed.

Lemma insert_dict_lok : forall l r m,
  is_map r = true -> lk l -> lk r -> insert_dict lit cfg l r = Ok m -> lk (ret m).
Proof.
  intros l r m Hm Hl Hr H. unfold insert_dict in H. destruct l as [li lv|li lk0|li lels|li lels]; try discriminate.
  - destruct (hash_merge_mode cfg (root_coord r)) as [mode| |]; simpl in H; try discriminate.
    assert (Hnl : is_leaf (NMap li lk0) = false) by reflexivity.
    destruct mode.
    + destruct (merge_rec lit cfg r (root_coord r) (NMap li lk0)) as [x| |] eqn:E; simpl in H; try discriminate.
      assert (Hx : lk x) by (refine (rec_lk _ _ _ _ _ _ E); assumption).
      assert (Sx : is_leaf x = false).
      { eapply merge_rec_shape; [exact E|]. destruct r; try discriminate; reflexivity. }
      eapply tag_sync_lok in H; simpl; eauto. tauto.
    + eapply tag_sync_lok in H; simpl; eauto. tauto.
    + eapply tag_sync_lok in H; simpl; eauto. tauto.
  - set (w := NSeq fresh_info [r]) in *.
    assert (Hw : lk w) by (apply lok_seq; constructor; [exact Hr|constructor]).
    destruct (merge_lists_top lit cfg (NSeq li lels) w (root_coord w)) as [x| |] eqn:E; simpl in H; try discriminate.
    destruct (lists_top_lok _ _ _ _ Hl Hw E) as [A B].
    assert (S : is_leaf (inplace x) = false) by (eapply lists_top_shape; [| |exact E]; reflexivity).
    eapply tag_sync_lok in H; eauto. tauto.
Qed.

Lemma dedup_lok : forall rels acc, Forall lk rels -> Forall lk acc ->
  Forall lk (fold_left (fun acc e => if in_list e acc then acc else acc ++ [e]) rels acc).
Proof.
  induction rels as [|e r IH]; intros acc Hr Ha; simpl; [exact Ha|].
  inversion Hr; subst. apply IH; [assumption|].
  destruct (in_list e acc); [exact Ha|]. apply Forall_app. split; [exact Ha|]. now constructor.
Qed.

Lemma insert_list_lok : forall l r m,
  is_seq r = true -> lk l -> lk r -> insert_list lit cfg l r = Ok m -> lk (ret m).
Proof.
  intros l r m Hm Hl Hr H. unfold insert_list in H. destruct l as [li lv|li lk0|li lels|li lels]; try discriminate.
  - destruct (merge_lists_top lit cfg (NSeq li lels) r (root_coord r)) as [x| |] eqn:E; simpl in H; try discriminate.
    destruct (lists_top_lok _ _ _ _ Hl Hr E) as [A B].
    assert (S : is_leaf (inplace x) = false).
    { eapply lists_top_shape; [| |exact E]; [reflexivity|destruct r; try discriminate; reflexivity]. }
    eapply tag_sync_lok in H; eauto. tauto.
  - destruct (forallb is_leaf _); [|discriminate].
    match type of H with context [merge_sets cfg _ ?ms _] => set (mset := ms) in * end.
    assert (Hms : lk mset).
    { apply lok_set. apply dedup_lok; [|constructor]. destruct r; try constructor. now apply lok_seq in Hr. }
    destruct (merge_sets cfg (NSet li lels) mset (root_coord r)) as [x| |] eqn:E; simpl in H; try discriminate.
    destruct (merge_sets_ok F cfg _ _ _ _ Hl Hms E) as [A B].
    assert (S : is_leaf (inplace x) = false) by (apply merge_sets_shape in E; [tauto|reflexivity]).
    eapply tag_sync_lok in H; eauto. tauto.
Qed.

Lemma insert_set_lok : forall l r m,
  is_set r = true -> lk l -> lk r -> insert_set lit cfg l r = Ok m -> lk (ret m).
Proof.
  intros l r m Hm Hl Hr H. unfold insert_set in H.
  assert (Hrels : Forall lk (match r with NSet _ e => e | _ => [] end)).
  { destruct r; try constructor. now apply lok_set in Hr. }
  assert (Hrl : is_leaf r = false) by (destruct r; try discriminate; reflexivity).
  destruct l as [li lv|li lk0|li lels|li lels].
  - simpl in H. discriminate.
  - match type of H with context [merge_rec lit cfg ?dd _ _] => set (d := dd) in * end.
    assert (Hd : lk d).
    { apply lok_map. apply Forall_forall. intros kv Hin. apply in_map_iff in Hin. destruct Hin as [e [<- He]].
      rewrite Forall_forall in Hrels. split; [exact (Hrels e He)|exact lok_null]. }
    destruct (merge_rec lit cfg d (root_coord d) (NMap li lk0)) as [x| |] eqn:E; simpl in H; try discriminate.
    assert (Hx : lk x) by (refine (rec_lk _ _ _ _ _ _ E); assumption).
    assert (Sx : is_leaf x = false) by (eapply merge_rec_shape; [exact E|reflexivity]).
    eapply tag_sync_lok in H; simpl; eauto. tauto.
  - match type of H with context [merge_lists_top lit cfg _ ?ll _] => set (lst := ll) in * end.
    assert (Hlst : lk lst) by (apply lok_seq; exact Hrels).
    destruct (merge_lists_top lit cfg (NSeq li lels) lst (root_coord lst)) as [x| |] eqn:E; simpl in H; try discriminate.
    destruct (lists_top_lok _ _ _ _ Hl Hlst E) as [A B].
    assert (S : is_leaf (inplace x) = false) by (eapply lists_top_shape; [| |exact E]; reflexivity).
    eapply tag_sync_lok in H; eauto. tauto.
  - destruct (merge_sets cfg (NSet li lels) r (root_coord r)) as [x| |] eqn:E; simpl in H; try discriminate.
    destruct (merge_sets_ok F cfg _ _ _ _ Hl Hr E) as [A B].
    assert (S : is_leaf (inplace x) = false) by (apply merge_sets_shape in E; [tauto|exact Hrl]).
    eapply tag_sync_lok in H; eauto. tauto.
Qed.

Lemma insert_scalar_root_lok : forall l r m,
  lk l -> lk r -> insert_scalar_root cfg l r = Ok m -> lk (ret m).
Proof.
  intros l r m Hl Hr H. unfold insert_scalar_root in H. destruct l as [li lv|li lk0|li lels|li lels]; try discriminate.
  - inversion H; subst. exact Hr.
  - inversion H; subst. simpl. apply lok_seq. apply Forall_app. split; [now apply lok_seq in Hl|]. now constructor.
  - destruct (merge_sets cfg (NSet li lels) (NSet fresh_info [r]) (root_coord r)) as [x| |] eqn:E; simpl in H; try discriminate.
    inversion H; subst. simpl.
    assert (Hs : lk (NSet fresh_info [r])) by (apply lok_set; constructor; [exact Hr|constructor]).
    destruct (merge_sets_ok F cfg _ _ _ _ Hl Hs E) as [A B]. exact B.
Qed.

Lemma insert_any_lok : forall l r m, lk l -> lk r -> insert_any lit cfg l r = Ok m -> lk (ret m).
Proof.
  intros l r m Hl Hr H. destruct r as [i v|i kvs|i els|i els].
  - exact (insert_scalar_root_lok l _ m Hl Hr H).
  - exact (insert_dict_lok l (NMap i kvs) m eq_refl Hl Hr H).
  - exact (insert_list_lok l (NSeq i els) m eq_refl Hl Hr H).
  - exact (insert_set_lok l (NSet i els) m eq_refl Hl Hr H).
Qed.

Theorem merge_root_lok : forall l r m, lk l -> lk r -> merge_root lit cfg l r = Ok m -> lk m.
Proof.
  intros l r m Hl Hr H. unfold merge_root in H.
  destruct (is_none r); [inversion H; subst; exact Hl|].
  destruct (is_none l); [inversion H; subst; exact Hr|].
  destruct (insert_any lit cfg l r) as [x| |] eqn:E; simpl in H; try discriminate.
  inversion H; subst. exact (insert_any_lok l r x Hl Hr E).
Qed.

End RootLeaves.

(* every Scalar of the document merge_with's merge proper RETURNS is a Scalar of one of the two
   documents handed to it -- same object, anchor, tag, value -- or the unnamed null _insert_set creates *)
Theorem merge_root_keeps_scalars : forall lit cfg l r m,
  merge_root lit cfg l r = Ok m ->
  forall p, In p (an_all m) -> is_leaf p = true -> In p (an_all l) \/ In p (an_all r) \/ p = mg_null.
Proof.
  intros lit cfg l r m H.
  apply (merge_root_lok (fun p => In p (an_all l) \/ In p (an_all r) \/ p = mg_null) (or_intror (or_intror eq_refl))
           lit cfg l r m); auto.
  all: intros q Hq Hlq; auto.
Qed.

Theorem merge_root_lift_reads : forall lit cfg l r m a x,
  (forall p, In p (an_all l) -> is_leaf p = true -> c10_name p = Some a -> p = x) ->
  (forall p, In p (an_all r) -> is_leaf p = true -> c10_name p = Some a -> p = x) ->
  merge_root lit cfg l r = Ok m ->
  forall p, In p (an_all m) -> is_leaf p = true -> c10_name p = Some a -> p = x.
Proof.
  intros lit cfg l r m a x Hl Hr H p Hp Hleaf Hn.
  destruct (merge_root_keeps_scalars lit cfg l r m H p Hp Hleaf) as [X|[X|X]]; auto.
  subst p. discriminate.
Qed.

Theorem merge_root_lift_unique : forall lit cfg l r m,
  (forall n k a, In n (an_all l ++ an_all r) -> In k (an_all l ++ an_all r) ->
     is_leaf n = true -> is_leaf k = true -> c10_name n = Some a -> c10_name k = Some a -> n = k) ->
  merge_root lit cfg l r = Ok m ->
  forall n k a, In n (an_all m) -> In k (an_all m) -> is_leaf n = true -> is_leaf k = true ->
    c10_name n = Some a -> c10_name k = Some a -> n = k.
Proof.
  intros lit cfg l r m HU H n k a Hn Hk Ln Lk Nn Nk.
  assert (S : forall p, In p (an_all m) -> is_leaf p = true -> c10_name p = Some a -> In p (an_all l ++ an_all r)).
  { intros p Hp Lp Np. destruct (merge_root_keeps_scalars lit cfg l r m H p Hp Lp) as [X|[X|X]].
    - apply in_or_app. now left.
    - apply in_or_app. now right.
    - subst p. discriminate. }
  apply (HU n k a); auto.
Qed.
