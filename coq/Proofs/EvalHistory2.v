(* C03: PATH histories with the document invariants derived.  ce_doc_ok is asked
   of the FIRST document only; it survives every completed step of a history
   whose trace is inside C03's guard hist_ok2 (C03history2.op_refines2), the one
   thing that cannot be derived being that the fresh identities of a creation stay
   below the range the evaluator model reserves for its own shallow copies
   (Eval.copy_base = 2^32: a bound of the MODEL, checked on the counter the walk
   returns).  Hence the per-step guards of C03_history_end_to_end lose their
   ce_doc_ok / wf_attr / wf_docb clauses. *)
From Coq Require Import List Ascii String ZArith NArith Bool Lia Arith.
From YP Require Import Outcome PyStr PyVal Doc PathParser Searches Eval Mutate Create History Compose
  SpecC01 EvalSem EvalSemLib EvalSemPath EvalSemTop EvalLocAll
  C03spec C03hist C04spec C03e2e C03set C03history C04delete C04plan EvalDelete EvalSet EvalHistory
  C03inv C03invCreate C03guard C03rename C03history2.
Import ListNotations.

Lemma ce_doc_ok_iff : forall d, ce_doc_ok d = true <-> (doc_inv d = true /\ ce_small d = true).
Proof.
  intros d. unfold ce_doc_ok, doc_inv. rewrite !andb_true_iff. tauto.
Qed.

Section Hist2.
Variable lit : string -> outcome litres.
Variable re_search : string -> string -> outcome reres.
Variable nstr : node -> string.
Variable vstr : list rval -> string.
Variable kw_handler : bool -> keyword -> string -> rval -> ctx -> gen rval.
Variable creator : list pseg -> nat -> rval -> ctx -> gen rval.
Variable fl : string -> outcome flres.

Notation SEM := (sem_doc lit re_search nstr false).
Notation GUARD := (sem_doc lit re_search nstr true).
Notation RUN_OP := (ce_run_op lit re_search nstr vstr kw_handler creator fl).
Notation RUN_OPS := (ce_run_ops lit re_search nstr vstr kw_handler creator fl).
Notation OPT_OK := (opt_ok lit re_search nstr vstr kw_handler creator).
Notation TRACE := (ce_trace lit re_search nstr vstr kw_handler creator fl).
Notation HOP_TRACE := (ce_hop_trace lit re_search nstr vstr kw_handler creator).

(* the read-side guard of one step WITHOUT the document invariants *)
Definition ce_read_guard2 (segs : list pseg) (d : node) : bool :=
  c01_frag (PPath segs) && negb (is_null_node d) && specified (GUARD (PPath segs) d) &&
  slices_last segs && negb (ce_name_kw (PPath segs)) && ce_plain (SEM (PPath segs) d).

Definition ce_step_guard2 (op : ce_hop) (d : node) : bool :=
  match op with
  | CeSet must (PPath segs) _ _ _ =>
      ce_read_guard2 segs d &&
      (must || (OPT_OK (fuel_for (PPath segs)) segs 0 (RNode d) root_ctx &&
                match SEM (PPath segs) d with [] => false | _ => true end))
  | CeDelete (PPath segs) => ce_read_guard2 segs d
  | CeCreate segs v f vo =>
      (* the identities the creation hands out stay below the evaluator model's private range *)
      match create_walk lit segs v vo d with
      | (_, ROk (_, _, next1)) => N.leb next1 copy_base
      | (_, RErr _) => true
      end
  | _ => false
  end.

Fixpoint ce_hist_guard2 (ops : list ce_hop) (d : node) : bool :=
  match ops with
  | [] => true
  | op :: r => ce_step_guard2 op d && match RUN_OP op d with CsDone d' => ce_hist_guard2 r d' | _ => true end
  end.

Lemma step_guard2_guard : forall op d,
  ce_doc_ok d = true -> ce_step_guard2 op d = true ->
  ce_step_guard lit re_search nstr vstr kw_handler creator op d = true.
Proof.
  intros op d Hok H. destruct op as [must [segs|e] v f vo|segs v f vo|[segs|e]]; simpl in *; auto.
  - apply andb_true_iff in H. destruct H as [H1 H2]. unfold ce_read_guard. unfold ce_read_guard2 in H1.
    rewrite H1, Hok, H2. reflexivity.
  - unfold ce_read_guard. unfold ce_read_guard2 in H. rewrite H, Hok. reflexivity.
Qed.

(* a completed step of a guarded history keeps ce_doc_ok *)
Lemma step_keeps_ok : forall op d d' h,
  ce_doc_ok d = true -> HOP_TRACE op d = Some h -> run_op lit fl h d = MDone d' ->
  op_ok2 lit fl h d = true -> ce_step_guard2 op d = true -> ce_doc_ok d' = true.
Proof.
  intros op d d' h Hok Ht Hr Hop Hg. apply ce_doc_ok_iff in Hok. destruct Hok as [Hinv Hsm].
  destruct (op_refines2 lit fl h d d' Hinv Hop Hr) as [_ [Hinv' Hb]].
  apply ce_doc_ok_iff. split; auto.
  unfold ce_small in *. rewrite forallb_forall in *. intros x Hx.
  destruct (Hb x Hx) as [Hx1|Hx1]; [apply Hsm; exact Hx1|].
  apply N.ltb_lt.
  destruct op as [must p v f vo|segs v f vo|p]; simpl in Ht.
  - destruct (snd (ce_gather lit re_search nstr vstr kw_handler creator must p d)); try discriminate.
    destruct (ce_coords (ce_name_kw p) (fst (ce_gather lit re_search nstr vstr kw_handler creator must p d)));
      inversion Ht; subst h. unfold op_id_bound in Hx1. lia.
  - inversion Ht; subst h. unfold op_id_bound in Hx1. unfold ce_step_guard2 in Hg.
    destruct (create_walk lit segs v vo d) as [vo' [[[d1 pc] n1]|e]]; [|lia].
    apply N.leb_le in Hg. lia.
  - destruct (snd (ce_required_raw lit re_search nstr vstr kw_handler creator p d)); try discriminate.
    destruct (ce_coords false (fst (ce_required_raw lit re_search nstr vstr kw_handler creator p d)));
      inversion Ht; subst h. unfold op_id_bound in Hx1. lia.
Qed.

(* what the coordinates of every step are, the invariants asked of the first document only *)
Theorem hist_sem2 : forall ops d hops,
  ce_doc_ok d = true -> TRACE ops d = Some hops ->
  hist_ok2 lit fl hops d = true -> ce_hist_guard2 ops d = true ->
  ce_hist_sem lit re_search nstr vstr kw_handler creator fl ops d.
Proof.
  induction ops as [|op r IH]; intros d hops Hok Ht Hh Hg; simpl in *; [exact I|].
  apply andb_prop in Hg. destruct Hg as [Hg Hgr].
  destruct (RUN_OP op d) as [d1| |] eqn:Eo; auto.
  destruct (run_op_trace lit re_search nstr vstr kw_handler creator fl _ _ _ Eo) as [h [Eh Er]].
  rewrite Eh, Er in Ht.
  destruct (TRACE r d1) as [hops'|] eqn:Et; [|discriminate]. simpl in Ht. inversion Ht; subst hops. clear Ht.
  simpl in Hh. rewrite Er in Hh. apply andb_prop in Hh. destruct Hh as [Hop Hh].
  split.
  - eapply step_sem; [apply step_guard2_guard; eassumption|exact Eo].
  - apply (IH d1 hops'); auto. eapply step_keeps_ok; eauto.
Qed.

(* THE HISTORY THEOREM, end to end, second form *)
Theorem history_e2e2 ops d k d' :
  ce_doc_ok d = true ->
  RUN_OPS ops d k = ChDone d' ->
  exists hops,
    TRACE ops d = Some hops /\ List.length hops = List.length ops /\
    run_ops lit fl hops d k = HDone d' /\
    (hist_ok2 lit fl hops d = true ->
       psteps (abs_ops2 lit fl hops d) (erase d) (erase d') /\ doc_inv d' = true /\
       (ce_hist_guard2 ops d = true -> ce_hist_sem lit re_search nstr vstr kw_handler creator fl ops d)).
Proof.
  intros Hok H. destruct (run_ops_trace lit re_search nstr vstr kw_handler creator fl _ _ _ _ H) as [hops [Et [El Er]]].
  exists hops. repeat split; auto.
  - apply ce_doc_ok_iff in Hok. destruct Hok as [Hinv _].
    apply (history_refines2 lit fl hops d k d' Hinv H0 Er).
  - apply ce_doc_ok_iff in Hok. destruct Hok as [Hinv _].
    apply (history_refines2 lit fl hops d k d' Hinv H0 Er).
  - intros Hg. eapply hist_sem2; eauto.
Qed.

End Hist2.
