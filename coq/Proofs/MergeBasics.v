(* C05: precedence, rule identity, impossible merges, array / set / AoH modes. *)
From Coq Require Import List Ascii String ZArith NArith Bool Lia.
From YP Require Import Outcome PyStr PyVal Doc PathParser Searches MergeConfig Merge SpecC05.
Import ListNotations.
Open Scope string_scope.
Open Scope list_scope.

(* ---------- precedence ---------- *)
Lemma mode_text_is_policy_text : forall cfg nc cli ini dflt,
  mode_text cfg nc cli ini dflt = fst (policy_text (get_rule_for cfg nc) cli ini dflt).
Proof.
  intros. unfold mode_text, policy_text, cli_or_default.
  destruct (nonempty (get_rule_for cfg nc)); [reflexivity|].
  destruct cli as [c|]; [destruct (nonempty c)|]; destruct ini; reflexivity.
Qed.

Lemma hash_mode_precedence : forall cfg nc,
  hash_merge_mode cfg nc =
  hash_of_str (fst (policy_text (get_rule_for cfg nc) (cli_hashes cfg) (ini_of cfg (ini_hashes cfg)) "DEEP")).
Proof. intros. unfold hash_merge_mode. now rewrite mode_text_is_policy_text. Qed.
Lemma array_mode_precedence : forall cfg nc,
  array_merge_mode cfg nc =
  array_of_str (fst (policy_text (get_rule_for cfg nc) (cli_arrays cfg) (ini_of cfg (ini_arrays cfg)) "ALL")).
Proof. intros. unfold array_merge_mode. now rewrite mode_text_is_policy_text. Qed.
Lemma aoh_mode_precedence : forall cfg nc,
  aoh_merge_mode cfg nc =
  aoh_of_str (fst (policy_text (get_rule_for cfg nc) (cli_aoh cfg) (ini_of cfg (ini_aoh cfg)) "ALL")).
Proof. intros. unfold aoh_merge_mode. now rewrite mode_text_is_policy_text. Qed.
Lemma set_mode_precedence : forall cfg nc,
  set_merge_mode cfg nc =
  set_of_str (fst (policy_text (get_rule_for cfg nc) (cli_sets cfg) (ini_of cfg (ini_sets cfg)) "UNIQUE")).
Proof. intros. unfold set_merge_mode. now rewrite mode_text_is_policy_text. Qed.

Definition precedence_statement : Prop :=
  forall cfg nc,
    hash_merge_mode cfg nc =
      hash_of_str (fst (policy_text (get_rule_for cfg nc) (cli_hashes cfg) (ini_of cfg (ini_hashes cfg)) "DEEP")) /\
    array_merge_mode cfg nc =
      array_of_str (fst (policy_text (get_rule_for cfg nc) (cli_arrays cfg) (ini_of cfg (ini_arrays cfg)) "ALL")) /\
    aoh_merge_mode cfg nc =
      aoh_of_str (fst (policy_text (get_rule_for cfg nc) (cli_aoh cfg) (ini_of cfg (ini_aoh cfg)) "ALL")) /\
    set_merge_mode cfg nc =
      set_of_str (fst (policy_text (get_rule_for cfg nc) (cli_sets cfg) (ini_of cfg (ini_sets cfg)) "UNIQUE")).
Lemma precedence : precedence_statement.
Proof.
  intros cfg nc. repeat split; [apply hash_mode_precedence|apply array_mode_precedence|
                                apply aoh_mode_precedence|apply set_mode_precedence].
Qed.

(* ---------- a rule governs only the node it was resolved to ---------- *)
Lemma coord_match_same_place : forall a b, coord_match a b = true -> same_place a b.
Proof.
  intros [an ap ar] [bn bp br]. unfold coord_match, same_place; simpl.
  rewrite !andb_true_iff. intros [[H1 H2] H3].
  apply N.eqb_eq in H1. split; [exact H1|]. split.
  - destruct ap, bp; simpl in H2; try discriminate; auto. apply N.eqb_eq in H2. now subst.
  - destruct ar, br; simpl in H3; try discriminate; auto.
Qed.

Lemma first_match_sound : forall nc section,
  first_match nc section <> "" ->
  exists r, In r section /\ same_place (r_at r) nc /\ first_match nc section = r_val r.
Proof.
  induction section as [|r rest IH]; simpl; intros H; [congruence|].
  destruct (coord_match (r_at r) nc) eqn:E.
  - exists r. split; [now left|]. split; [now apply coord_match_same_place|reflexivity].
  - destruct (IH H) as [r' [Hin [Hs Hv]]]. exists r'. auto.
Qed.

Lemma rule_identity : forall cfg nc,
  get_rule_for cfg nc <> "" ->
  exists r, In r (m_rules cfg) /\ same_place (r_at r) nc /\ get_rule_for cfg nc = r_val r.
Proof.
  intros cfg nc. unfold get_rule_for, get_config_for. destruct (has_config cfg); [|congruence].
  apply first_match_sound.
Qed.

(* ---------- impossible merges ---------- *)
Section Cfg.
Variable lit : string -> outcome litres.
Variable cfg : mconfig.

Lemma impossible_target : forall l r,
  is_none l = false -> is_none r = false ->
  impossible_at_target (kind_of l) (kind_of r) = true ->
  merge_root lit cfg l r = Raise MergeExc.
Proof.
  intros l r Hl Hr H. unfold merge_root. rewrite Hr, Hl.
  destruct l, r; simpl in H; try discriminate; reflexivity.
Qed.

Lemma impossible_below : forall r nc l,
  impossible_nested (kind_of l) (kind_of r) = true ->
  merge_rec lit cfg r nc l = Raise MergeExc.
Proof.
  intros r nc l H.
  destruct r as [ri rv|ri rkvs|ri rels|ri rels]; destruct l; simpl in H; try discriminate; try reflexivity.
  all: try (destruct rels as [|f rest]; simpl; [reflexivity|destruct (is_map f); reflexivity]).
Qed.

(* ---------- arrays ---------- *)
Lemma fold_all_append : forall rels li lels o t,
  fold_left (simple_step false) rels (mkslst li lels o true t) =
  mkslst li (lels ++ rels) (o ++ rels) true t.
Proof.
  induction rels as [|e rest IH]; intros; simpl.
  - now rewrite !app_nil_r.
  - rewrite IH. now rewrite <- !app_assoc.
Qed.

Lemma array_all_is_concat : forall li lels ri rels nc,
  array_merge_mode cfg nc = Ok AAll ->
  merge_simple_lists cfg (NSeq li lels) (NSeq ri rels) nc =
  Ok (same (NSeq li (array_all lels rels))).
Proof.
  intros. unfold merge_simple_lists. rewrite H; simpl. rewrite fold_all_append. reflexivity.
Qed.

Lemma array_left_keeps : forall l r nc,
  is_seq l = true -> array_merge_mode cfg nc = Ok ALeft ->
  merge_simple_lists cfg l r nc = Ok (same l).
Proof. intros l r nc Hl H. destruct l; try discriminate. unfold merge_simple_lists. now rewrite H. Qed.

Lemma array_right_replaces : forall l r nc,
  is_seq l = true -> array_merge_mode cfg nc = Ok ARight ->
  exists m, merge_simple_lists cfg l r nc = Ok m /\ ret m = r.
Proof.
  intros l r nc Hl H. destruct l; try discriminate. unfold merge_simple_lists. rewrite H; simpl. eauto.
Qed.

End Cfg.
