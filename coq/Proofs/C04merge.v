(* C04: without merge keys in the document the merge-key test of the dict branch never fires. *)
From Coq Require Import List ZArith NArith Bool.
From YP Require Import Outcome PyStr PyVal Doc Searches Mutate.
Import ListNotations.

Lemma del_step_mg_nil : forall p d, del_step_mg [] p d = del_step p d.
Proof. intros p d. unfold del_step_mg, del_step. destruct (pc_parent p); reflexivity. Qed.

Lemma run_del_mg_nil : forall ps d, run_del_mg [] ps d = run_del ps d.
Proof.
  induction ps as [|p r IH]; intros d; simpl; auto.
  rewrite del_step_mg_nil. destruct (del_step p d); auto.
Qed.

Theorem delete_nodes_mg_nil : forall cs d, delete_nodes_mg [] cs d = delete_nodes cs d.
Proof. intros. unfold delete_nodes_mg, delete_nodes. destruct (has_root_coord (leaf_coords cs)); [reflexivity|apply run_del_mg_nil]. Qed.

(* more generally: as long as no processed coordinate names, in a parent that has merge keys, the anchor of a
   mapping, the run is the ordinary one *)
Fixpoint no_ymk_hit (mg : list N) (ps : list pcoord) (d : node) : bool :=
  match ps with
  | [] => true
  | p :: r =>
      match pc_parent p with
      | None => no_ymk_hit mg r d
      | Some o =>
          negb (existsb (N.eqb o) mg && is_ymk_anchor (pc_ref p) d) &&
          match del_step p d with ROk d' => no_ymk_hit mg r d' | RErr _ => true end
      end
  end.

Theorem run_del_mg_no_hit : forall mg ps d, no_ymk_hit mg ps d = true -> run_del_mg mg ps d = run_del ps d.
Proof.
  intros mg ps. induction ps as [|p r IH]; intros d H; simpl in *; auto.
  unfold del_step_mg, del_step in *. destruct (pc_parent p) as [o|]; [|apply IH; exact H].
  apply andb_true_iff in H. destruct H as [H1 H2]. apply negb_true_iff in H1. rewrite H1.
  destruct (app_obj o (del_in (pc_ref p)) d); auto.
Qed.
