(* C10: the pair of documents the conflict resolution hands to the merge
   proper holds one anchored node per name (C10_unique_names), and under
   'rename' both values are kept: the right-hand definition and every alias of
   it carry the new name, the left-hand side is untouched (C10_rename). *)
From Coq Require Import List Ascii String ZArith NArith Bool Lia.
From YP Require Import Outcome PyStr PyVal Doc PathParser Searches MergeConfig Merge Anchors SpecC10
  AnchorsFuel AnchorsStr AnchorsProofs AnchorsPolicy AnchorsScan.
Import ListNotations.
Open Scope string_scope.
Open Scope list_scope.

(* every place named c is x *)
Definition reads (c : string) (x : node) (d : node) : Prop :=
  forall p, In p (places d) -> c10_name p = Some c -> p = x.

(* at most one node named c in the pair *)
Definition agree (c : string) (l r : node) : Prop :=
  forall n m, In n (places l ++ places r) -> In m (places l ++ places r) ->
    c10_name n = Some c -> c10_name m = Some c -> n = m.

Lemma hit_iff : forall a n, hit a n = true <-> c10_name n = Some a.
Proof.
  intros a n. unfold hit. destruct (c10_name n) as [b|]; split; intros H; try discriminate.
  - apply String.eqb_eq in H. now subst.
  - inversion H; subst. apply String.eqb_refl.
Qed.

Lemma hit_false_iff : forall a n, hit a n = false <-> c10_name n <> Some a.
Proof.
  intros a n. split; intros H.
  - intros E. apply hit_iff in E. congruence.
  - destruct (hit a n) eqn:E; [|reflexivity]. apply hit_iff in E. contradiction.
Qed.

Lemma filter_none {A} (f : A -> bool) : forall l, Forall (fun x => f x = false) l -> filter f l = [].
Proof. induction 1; simpl; [reflexivity|]. now rewrite H. Qed.

Lemma nodup_app_r {A} : forall (a b : list A), NoDup (a ++ b) -> NoDup b.
Proof. induction a as [|x a IH]; intros b H; [exact H|]. inversion H; subst. now apply IH. Qed.

Lemma uses_is_filter : forall a d, uses a d = filter (hit a) (places d).
Proof. reflexivity. Qed.

Lemma places_leaves : forall d p, an_scalars_only d = true -> In p (places d) -> is_leaf p = true.
Proof.
  induction d as [i v|i kvs IH|i els IH|i els IH] using node_ind'; intros p Hs Hp; try (simpl in Hp; contradiction).
  - rewrite places_map in Hp. simpl in Hs. apply andb_true_iff in Hs. destruct Hs as [_ Hs]. rewrite forallb_forall in Hs.
    apply in_flat_map in Hp. destruct Hp as [[k v] [Hin Hp]]. specialize (Hs (k, v) Hin). cbn [fst snd] in *.
    apply andb_true_iff in Hs. destruct Hs as [Hk Hv].
    destruct Hp as [<-|Hp]; [exact Hk|].
    rewrite Forall_forall in IH. destruct (IH (k, v) Hin) as [_ IHv]. cbn [snd] in IHv.
    destruct v; simpl in Hp; try contradiction.
    + destruct Hp as [<-|[]]. reflexivity.
    + apply IHv; assumption.
    + apply IHv; assumption.
  - rewrite places_seq in Hp. simpl in Hs. apply andb_true_iff in Hs. destruct Hs as [_ Hs]. rewrite forallb_forall in Hs.
    apply in_flat_map in Hp. destruct Hp as [e [Hin Hp]]. specialize (Hs e Hin).
    rewrite Forall_forall in IH. specialize (IH e Hin).
    destruct e; simpl in Hp; try contradiction.
    + destruct Hp as [<-|[]]. reflexivity.
    + apply IH; assumption.
    + apply IH; assumption.
Qed.

(* ---------- substitution and the places ---------- *)
Lemma subst_places_from : forall b repl d p,
  is_leaf repl = true -> In p (places (subst_named b repl d)) -> In p (places d) \/ p = repl.
Proof.
  intros b repl d p Hl Hp.
  assert (F : Forall (fun n => In n (places d) \/ n = repl) (places (subst_named b repl d))).
  { apply subst_places; [exact Hl|now right|]. apply Forall_forall. intros x Hx. now left. }
  rewrite Forall_forall in F. now apply F.
Qed.

Lemma subst_reads_self : forall b repl d,
  is_leaf repl = true -> keys_plain d = true -> reads b repl (subst_named b repl d).
Proof.
  intros b repl d Hl Hk p Hp Hn. eapply subst_named_reads; eauto. now apply hit_iff.
Qed.

Lemma subst_reads_other : forall b repl d c x,
  is_leaf repl = true -> c10_name repl = Some b -> c <> b ->
  reads c x d -> reads c x (subst_named b repl d).
Proof.
  intros b repl d c x Hl Hb Hne H p Hp Hn.
  destruct (subst_places_from b repl d p Hl Hp) as [Hin| ->]; [now apply H|]. congruence.
Qed.

(* ---------- renaming and the places ---------- *)
Section RenameList.
Variables (a nn : string) (ids : list N).
Hypothesis Hne : nn <> a.
Notation rho := (rename_objs ids nn).

(* the places of a heap-faithful document: leaves, renamed iff they carry a *)
Definition good_place (p : node) : Prop := is_leaf p = true /\ an_in_ids ids p = hit a p.

Lemma rho_good_in : forall p, good_place p -> hit a p = true -> rho p = an_with_name nn p /\ c10_name (rho p) = Some nn.
Proof.
  intros p [Hl Hi] Hh. rewrite Hh in Hi. split; [now apply rho_in|].
  rewrite (rho_in ids nn p Hl Hi). apply hit_iff in Hh. destruct p; try discriminate.
  unfold c10_name in *. simpl in *. destruct (has_anchor_attr i); [reflexivity|discriminate].
Qed.

Lemma rho_good_out : forall p, good_place p -> hit a p = false -> rho p = p.
Proof. intros p [Hl Hi] Hh. rewrite Hh in Hi. now apply rho_out. Qed.

Lemma filter_rho_new : forall ps,
  Forall good_place ps -> Forall (fun p => hit nn p = false) ps ->
  filter (hit nn) (map rho ps) = map (an_with_name nn) (filter (hit a) ps).
Proof.
  induction ps as [|p r IH]; intros HG HN; [reflexivity|].
  inversion HG; subst. inversion HN; subst. cbn [map filter].
  destruct (hit a p) eqn:Ha.
  - destruct (rho_good_in p H1 Ha) as [E1 E2]. apply hit_iff in E2. rewrite E2. cbn [map]. rewrite <- E1.
    f_equal. now apply IH.
  - rewrite (rho_good_out p H1 Ha), H3. now apply IH.
Qed.

Lemma filter_rho_other : forall c ps,
  c <> nn -> c <> a -> Forall good_place ps -> filter (hit c) (map rho ps) = filter (hit c) ps.
Proof.
  intros c ps Hc1 Hc2. induction ps as [|p r IH]; intros HG; [reflexivity|].
  inversion HG; subst. cbn [map filter]. rewrite (IH H2).
  destruct (hit a p) eqn:Ha.
  - destruct (rho_good_in p H1 Ha) as [_ E2].
    assert (E3 : hit c (rho p) = false) by (apply hit_false_iff; congruence).
    assert (E4 : hit c p = false) by (apply hit_false_iff; apply hit_iff in Ha; congruence).
    now rewrite E3, E4.
  - now rewrite (rho_good_out p H1 Ha).
Qed.

Lemma filter_rho_old : forall ps, Forall good_place ps -> filter (hit a) (map rho ps) = [].
Proof.
  induction ps as [|p r IH]; intros HG; [reflexivity|].
  inversion HG; subst. cbn [map filter]. rewrite (IH H2).
  destruct (hit a p) eqn:Ha.
  - destruct (rho_good_in p H1 Ha) as [_ E2].
    assert (E3 : hit a (rho p) = false) by (apply hit_false_iff; congruence). now rewrite E3.
  - now rewrite (rho_good_out p H1 Ha), Ha.
Qed.
End RenameList.

Lemma rename_good_places : forall a r,
  an_heap_ok r -> (forall p, In p (places r) -> is_leaf p = true) ->
  Forall (good_place a (rename_reach a r)) (places r).
Proof.
  intros a r Hh Hl. apply Forall_forall. intros p Hp. split; [now apply Hl|].
  destruct (hit a p) eqn:Ha.
  - unfold an_in_ids. apply existsb_exists. exists (node_oid p). split; [|apply N.eqb_refl].
    apply reach_places; [exact Hp|]. now rewrite <- hit_an_has.
  - destruct (an_in_ids (rename_reach a r) p) eqn:Ei; [|reflexivity]. exfalso.
    unfold an_in_ids in Ei. apply existsb_exists in Ei. destruct Ei as [o [Ho Eo]]. apply N.eqb_eq in Eo. subst o.
    destruct (reach_all a r _ Ho) as [q [Hq [Hhq Eq]]].
    assert (p = q) by (apply Hh; [now apply places_all|exact Hq|congruence]). subst q.
    rewrite <- hit_an_has in Hhq. congruence.
Qed.

(* ---------- the loop ---------- *)
Section Loop.
Variable cfg : mconfig.
Variables l0 r0 : node.
Let lanc := an_scan_anchors l0 [].
Let ranc := an_scan_anchors r0 [].
Let known := known_names lanc ranc.
Hypothesis Hokl : an_doc_ok l0 = true.
Hypothesis Hokr : an_doc_ok r0 = true.
Hypothesis Hul : one_node_per_name l0.
Hypothesis Hur : one_node_per_name r0.

Lemma doc_ok_parts : forall d, an_doc_ok d = true ->
  is_leaf d = false /\ keys_plain d = true /\ an_scalars_only d = true.
Proof.
  intros d H. unfold an_doc_ok in H. apply andb_true_iff in H. destruct H as [H H3].
  apply andb_true_iff in H. destruct H as [H1 H2]. apply negb_true_iff in H1. auto.
Qed.

Lemma known_in : forall c, In c known <-> In c (ad_keys lanc) \/ In c (ad_keys ranc).
Proof. intros c. unfold known, known_names. rewrite nodup_In, in_app_iff. reflexivity. Qed.

Lemma lanc_node : forall c x, ad_get c lanc = Some x ->
  In x (places l0) /\ c10_name x = Some c /\ is_leaf x = true.
Proof.
  intros c x H. destruct (scan_get_place l0 c x Hokl H) as [H1 H2]. repeat split; auto.
  destruct (doc_ok_parts _ Hokl) as [_ [_ Hs]]. eapply places_leaves; eauto.
Qed.
Lemma ranc_node : forall c x, ad_get c ranc = Some x ->
  In x (places r0) /\ c10_name x = Some c /\ is_leaf x = true.
Proof.
  intros c x H. destruct (scan_get_place r0 c x Hokr H) as [H1 H2]. repeat split; auto.
  destruct (doc_ok_parts _ Hokr) as [_ [_ Hs]]. eapply places_leaves; eauto.
Qed.

Definition J1 (Q : list string) (l r : node) : Prop := forall c, ~ In c Q -> agree c l r.
Definition Qc (Q : list string) (l r : node) : Prop :=
  forall c la ra, In c Q -> ad_get c lanc = Some la -> ad_get c ranc = Some ra -> reads c la l /\ reads c ra r.

Lemma common_in : forall c, In c (common_names lanc ranc) ->
  exists la ra, ad_get c lanc = Some la /\ ad_get c ranc = Some ra.
Proof.
  intros c H. destruct (in_common_names _ _ _ H) as [la Hl]. unfold common_names in H. apply filter_In in H.
  destruct H as [H _]. destruct (ad_get_keys _ _ H) as [ra Hr]. eauto.
Qed.

Lemma common_nodup : NoDup (common_names lanc ranc).
Proof. unfold common_names. apply NoDup_filter. apply scan_keys_nodup. Qed.

Lemma common_known : forall c, In c (common_names lanc ranc) -> In c known.
Proof. intros c H. apply known_in. right. unfold common_names in H. apply filter_In in H. tauto. Qed.

Lemma init_J1 : J1 (common_names lanc ranc) l0 r0.
Proof.
  intros c Hc n m Hn Hm Nn Nm.
  assert (Side : forall p, In p (places l0 ++ places r0) -> c10_name p = Some c ->
                 (In p (places l0) /\ In c (ad_keys lanc)) \/ (In p (places r0) /\ In c (ad_keys ranc))).
  { intros p Hp Np. apply in_app_or in Hp. destruct Hp as [Hp|Hp]; [left|right]; split; auto;
      eapply scan_keys_place; eauto. }
  destruct (Side n Hn Nn) as [[Hn1 Hn2]|[Hn1 Hn2]]; destruct (Side m Hm Nm) as [[Hm1 Hm2]|[Hm1 Hm2]].
  - eapply Hul; eauto.
  - exfalso. apply Hc. unfold common_names. apply filter_In. split; [exact Hm2|].
    destruct (ad_get_keys _ _ Hn2) as [x Hx]. fold lanc. now rewrite Hx.
  - exfalso. apply Hc. unfold common_names. apply filter_In. split; [exact Hn2|].
    destruct (ad_get_keys _ _ Hm2) as [x Hx]. fold lanc. now rewrite Hx.
  - eapply Hur; eauto.
Qed.

Lemma init_Qc : Qc (common_names lanc ranc) l0 r0.
Proof.
  intros c la ra _ Hl Hr. destruct (lanc_node c la Hl) as [L1 [L2 _]]. destruct (ranc_node c ra Hr) as [R1 [R2 _]].
  split; intros p Hp Np; [eapply Hul|eapply Hur]; eauto.
Qed.

(* the left document adopts the right node of the name b *)
Lemma step_subst_l : forall b Q l r lb rb,
  NoDup (b :: Q) -> keys_plain l = true ->
  ad_get b lanc = Some lb -> ad_get b ranc = Some rb ->
  J1 (b :: Q) l r -> Qc (b :: Q) l r ->
  J1 Q (subst_named b rb l) r /\ Qc Q (subst_named b rb l) r.
Proof.
  intros b Q l r lb rb ND Hk Hlb Hrb HJ HQ.
  destruct (ranc_node b rb Hrb) as [_ [Nrb Lrb]]. inversion ND as [|? ? Hnb ND']; subst.
  destruct (HQ b lb rb (or_introl eq_refl) Hlb Hrb) as [_ Rr].
  split.
  - intros c Hc. destruct (string_dec c b) as [->|Hne].
    + intros n m Hn Hm Nn Nm.
      assert (E : forall p, In p (places (subst_named b rb l) ++ places r) -> c10_name p = Some b -> p = rb).
      { intros p Hp Np. apply in_app_or in Hp. destruct Hp as [Hp|Hp]; [|now apply Rr].
        eapply subst_reads_self; eauto. }
      rewrite (E n Hn Nn), (E m Hm Nm). reflexivity.
    + assert (Hc' : ~ In c (b :: Q)) by (intros [E|E]; [now subst|contradiction]).
      intros n m Hn Hm Nn Nm. apply (HJ c Hc'); auto.
      * apply in_app_or in Hn. apply in_or_app. destruct Hn as [Hn|Hn]; [left|now right].
        destruct (subst_places_from b rb l n Lrb Hn) as [H| ->]; [exact H|congruence].
      * apply in_app_or in Hm. apply in_or_app. destruct Hm as [Hm|Hm]; [left|now right].
        destruct (subst_places_from b rb l m Lrb Hm) as [H| ->]; [exact H|congruence].
  - intros c la ra Hc Hl Hr. destruct (HQ c la ra (or_intror Hc) Hl Hr) as [A B]. split; [|exact B].
    apply subst_reads_other; auto. intros ->. contradiction.
Qed.

(* the right document adopts the left node of the name b *)
Lemma step_subst_r : forall b Q l r lb rb,
  NoDup (b :: Q) -> keys_plain r = true ->
  ad_get b lanc = Some lb -> ad_get b ranc = Some rb ->
  J1 (b :: Q) l r -> Qc (b :: Q) l r ->
  J1 Q l (subst_named b lb r) /\ Qc Q l (subst_named b lb r).
Proof.
  intros b Q l r lb rb ND Hk Hlb Hrb HJ HQ.
  destruct (lanc_node b lb Hlb) as [_ [Nlb Llb]]. inversion ND as [|? ? Hnb ND']; subst.
  destruct (HQ b lb rb (or_introl eq_refl) Hlb Hrb) as [Rl _].
  split.
  - intros c Hc. destruct (string_dec c b) as [->|Hne].
    + intros n m Hn Hm Nn Nm.
      assert (E : forall p, In p (places l ++ places (subst_named b lb r)) -> c10_name p = Some b -> p = lb).
      { intros p Hp Np. apply in_app_or in Hp. destruct Hp as [Hp|Hp]; [now apply Rl|].
        eapply subst_reads_self; eauto. }
      rewrite (E n Hn Nn), (E m Hm Nm). reflexivity.
    + assert (Hc' : ~ In c (b :: Q)) by (intros [E|E]; [now subst|contradiction]).
      intros n m Hn Hm Nn Nm. apply (HJ c Hc'); auto.
      * apply in_app_or in Hn. apply in_or_app. destruct Hn as [Hn|Hn]; [now left|right].
        destruct (subst_places_from b lb r n Llb Hn) as [H| ->]; [exact H|congruence].
      * apply in_app_or in Hm. apply in_or_app. destruct Hm as [Hm|Hm]; [now left|right].
        destruct (subst_places_from b lb r m Llb Hm) as [H| ->]; [exact H|congruence].
  - intros c la ra Hc Hl Hr. destruct (HQ c la ra (or_intror Hc) Hl Hr) as [A B]. split; [exact A|].
    apply subst_reads_other; auto. intros ->. contradiction.
Qed.

(* ----- stop / left / right: substitutions only ----- *)
Lemma loop_subst : forall m, anchor_merge_mode cfg = Ok m -> m <> KRename ->
  forall Q l r st',
    NoDup Q -> (forall c, In c Q -> In c (common_names lanc ranc)) ->
    keys_plain l = true -> keys_plain r = true -> J1 Q l r -> Qc Q l r ->
    foldM (resolve_step cfg lanc ranc) Q (l, r) = Ok st' ->
    J1 [] (fst st') (snd st').
Proof.
  intros m Hm Hnr Q. induction Q as [|b Q IH]; intros l r st' ND HC Hkl Hkr HJ HQ E.
  - simpl in E. inversion E; subst. exact HJ.
  - rewrite foldM_cons in E.
    destruct (resolve_step cfg lanc ranc (l, r) b) as [[l1 r1]| |] eqn:Es; simpl in E; try discriminate.
    destruct (common_in b (HC b (or_introl eq_refl))) as [lb [rb [Hlb Hrb]]].
    unfold resolve_step in Es. fold lanc ranc in Es. rewrite Hlb, Hrb, Hm in Es. cbn [bind] in Es.
    destruct (lanc_node b lb Hlb) as [_ [Nlb Llb]]. destruct (ranc_node b rb Hrb) as [_ [Nrb Lrb]].
    inversion ND as [|? ? Hnb ND']; subst.
    assert (HC' : forall c, In c Q -> In c (common_names lanc ranc)) by (intros; apply HC; now right).
    assert (SL : replace_anchor rb l = Ok l1 -> r1 = r ->
                 J1 [] (fst st') (snd st')).
    { intros Er ->. rewrite (replace_anchor_subst rb b l Nrb Hkl) in Er. inversion Er; subst l1.
      destruct (step_subst_l b Q l r lb rb ND Hkl Hlb Hrb HJ HQ) as [HJ' HQ'].
      apply (IH (subst_named b rb l) r st'); auto. now apply subst_keys_plain. }
    destruct (anchors_match lb rb).
    + destruct (replace_anchor rb l) eqn:Er; simpl in Es; try discriminate. inversion Es; subst. now apply SL.
    + destruct m; try congruence; try discriminate.
      * rewrite (replace_anchor_subst lb b r Nlb Hkr) in Es. simpl in Es. inversion Es; subst l1 r1.
        destruct (step_subst_r b Q l r lb rb ND Hkr Hlb Hrb HJ HQ) as [HJ' HQ'].
        apply (IH l (subst_named b lb r) st'); auto. now apply subst_keys_plain.
      * destruct (replace_anchor rb l) eqn:Er; simpl in Es; try discriminate. inversion Es; subst. now apply SL.
Qed.

(* ----- rename ----- *)
Hypothesis Hheap : an_heap_ok r0.

Definition fresh_name (P : list string) (c : string) : Prop :=
  In c known \/ exists b, In b P /\ calc_unique_anchor b known = Ok c.

(* what C10_rename says of one conflicting name a *)
Definition renamed (a : string) (la : node) (l r : node) : Prop :=
  reads a la l /\
  exists nn, calc_unique_anchor a known = Ok nn /\ ~ In nn known /\
             uses a r = [] /\ uses nn r = map (an_with_name nn) (uses a r0) /\ uses nn l = [].

Record invB (P Q : list string) (l r : node) : Prop := mkinvB {
  b_kl : keys_plain l = true;
  b_heap : an_heap_ok r;
  b_leaf : forall p, In p (places r) -> is_leaf p = true;
  b_nl : forall p c, In p (places l) -> c10_name p = Some c -> In c known;
  b_nr : forall p c, In p (places r) -> c10_name p = Some c -> fresh_name P c;
  b_j : J1 Q l r;
  b_q : Qc Q l r;
  b_f : forall a la ra, ad_get a lanc = Some la -> ad_get a ranc = Some ra -> anchors_match la ra = false ->
          (In a Q -> uses a r = uses a r0) /\ (In a P -> renamed a la l r)
}.

Lemma not_known_fresh : forall c, ~ In c known -> mem_string c known = false.
Proof. intros c H. destruct (mem_string c known) eqn:E; [|reflexivity]. apply mem_string_In in E. contradiction. Qed.

Lemma uses_nil_iff : forall c d, uses c d = [] <-> (forall p, In p (places d) -> c10_name p <> Some c).
Proof.
  intros c d. rewrite uses_is_filter. split.
  - intros H p Hp Np. assert (In p (filter (hit c) (places d))) by (apply filter_In; split; [exact Hp|now apply hit_iff]).
    rewrite H in H0. contradiction.
  - intros H. apply filter_none. apply Forall_forall. intros p Hp. apply hit_false_iff. now apply H.
Qed.

Lemma loop_rename : anchor_merge_mode cfg = Ok KRename ->
  forall Q P l r st',
    NoDup (P ++ Q) -> (forall c, In c (P ++ Q) -> In c (common_names lanc ranc)) ->
    invB P Q l r ->
    foldM (resolve_step cfg lanc ranc) Q (l, r) = Ok st' ->
    invB (P ++ Q) [] (fst st') (snd st').
Proof.
  intros Hmode Q. induction Q as [|b Q IH]; intros P l r st' ND HC I E.
  - simpl in E. inversion E; subst. now rewrite app_nil_r.
  - rewrite foldM_cons in E.
    destruct (resolve_step cfg lanc ranc (l, r) b) as [[l1 r1]| |] eqn:Es; simpl in E; try discriminate.
    assert (Hbc : In b (common_names lanc ranc)) by (apply HC; apply in_or_app; right; now left).
    destruct (common_in b Hbc) as [lb [rb [Hlb Hrb]]].
    unfold resolve_step in Es. fold lanc ranc in Es. rewrite Hlb, Hrb, Hmode in Es. cbn [bind] in Es.
    destruct (lanc_node b lb Hlb) as [_ [Nlb Llb]]. destruct (ranc_node b rb Hrb) as [_ [Nrb Lrb]].
    assert (NDQ : NoDup (b :: Q)) by (apply nodup_app_r in ND; exact ND).
    assert (HbP : ~ In b P).
    { intros Hin. apply NoDup_remove_2 in ND. apply ND. apply in_or_app. now left. }
    assert (HbQ : ~ In b Q) by (inversion NDQ; assumption).
    replace (P ++ b :: Q) with ((P ++ [b]) ++ Q) in * by (rewrite <- app_assoc; reflexivity).
    destruct I as [Ikl Ih Il Inl Inr IJ IQ IF].
    destruct (anchors_match lb rb) eqn:Em.
    + (* equal values: the left document adopts the right node *)
      rewrite (replace_anchor_subst rb b l Nrb Ikl) in Es. simpl in Es. inversion Es; clear Es; try subst l1; try subst r1.
      destruct (step_subst_l b Q l r lb rb NDQ Ikl Hlb Hrb IJ IQ) as [HJ' HQ'].
      apply (IH (P ++ [b]) (subst_named b rb l) r st' ND HC); [|exact E].
      constructor; auto.
      * now apply subst_keys_plain.
      * intros p c Hp Np. destruct (subst_places_from b rb l p Lrb Hp) as [H| ->]; [eapply Inl; eauto|].
        assert (c = b) by congruence. subst c. now apply common_known.
      * intros p c Hp Np. destruct (Inr p c Hp Np) as [H|[x [Hx Ex]]]; [now left|right].
        exists x. split; [apply in_or_app; now left|exact Ex].
      * intros a la ra Hla Hra Hc. destruct (IF a la ra Hla Hra Hc) as [F1 F2]. split.
        -- intros Ha. apply F1. now right.
        -- intros Ha. apply in_app_or in Ha. destruct Ha as [Ha|[<-|[]]].
           ++ destruct (F2 Ha) as [R1 [nn [N1 [N2 [N3 [N4 N5]]]]]]. split.
              ** apply subst_reads_other; auto. intros ->. contradiction.
              ** exists nn. repeat split; auto. apply uses_nil_iff. intros p Hp Np.
                 destruct (subst_places_from b rb l p Lrb Hp) as [H| ->].
                 --- rewrite uses_nil_iff in N5. now apply (N5 p H).
                 --- apply N2. assert (nn = b) by congruence. subst nn. now apply common_known.
           ++ rewrite Hlb in Hla. rewrite Hrb in Hra. inversion Hla; inversion Hra; subst. congruence.
    + (* a conflict: the right-hand anchor gets a new name *)
      fold known in Es.
      destruct (calc_unique_anchor b known) as [nb| |] eqn:Ec; simpl in Es; try discriminate.
      inversion Es; clear Es; try subst l1; try subst r1.
      assert (Hkb : In b known) by now apply common_known.
      assert (Hnb : ~ In nb known).
      { intros Hin. apply calc_unique_fresh in Ec. apply In_mem_string in Hin. congruence. }
      assert (Hneq : nb <> b) by (intros ->; contradiction).
      pose proof (rename_good_places b r Ih Il) as HG.
      assert (Hplaces : places (rename_anchor b nb r) = map (rename_objs (rename_reach b r) nb) (places r))
        by (unfold rename_anchor; apply rho_places).
      assert (Hnone : Forall (fun p => hit nb p = false) (places r)).
      { apply Forall_forall. intros p Hp. apply hit_false_iff. intros Np.
        destruct (Inr p nb Hp Np) as [H|[x [Hx Ex]]]; [contradiction|].
        assert (x = b); [|subst x; contradiction].
        apply (calc_unique_inj x b known nb); auto. apply common_known. apply HC. apply in_or_app. left. apply in_or_app. now left. }
      assert (Uother : forall c, c <> nb -> c <> b -> uses c (rename_anchor b nb r) = uses c r).
      { intros c H1 H2. rewrite !uses_is_filter, Hplaces. now apply (filter_rho_other b nb (rename_reach b r)). }
      assert (Uold : uses b (rename_anchor b nb r) = []).
      { rewrite uses_is_filter, Hplaces. now apply (filter_rho_old b nb (rename_reach b r)). }
      assert (Unew : uses nb (rename_anchor b nb r) = map (an_with_name nb) (uses b r)).
      { rewrite !uses_is_filter, Hplaces. now apply (filter_rho_new b nb (rename_reach b r)). }
      assert (Hin' : forall p c, In p (places (rename_anchor b nb r)) -> c10_name p = Some c ->
                     (c = nb) \/ (c <> nb /\ c <> b /\ In p (places r))).
      { intros p c Hp Np. destruct (string_dec c nb) as [->|H1]; [now left|right].
        destruct (string_dec c b) as [->|H2].
        - exfalso. assert (In p (uses b (rename_anchor b nb r))) by (apply filter_In; split; [exact Hp|now apply hit_iff]).
          rewrite Uold in H. contradiction.
        - repeat split; auto.
          assert (In p (uses c (rename_anchor b nb r))) by (apply filter_In; split; [exact Hp|now apply hit_iff]).
          rewrite (Uother c H1 H2) in H. apply filter_In in H. tauto. }
      apply (IH (P ++ [b]) l (rename_anchor b nb r) st' ND HC); [|exact E].
      constructor; auto.
      * unfold rename_anchor. now apply rho_heap_ok.
      * intros p Hp. rewrite Hplaces in Hp. apply in_map_iff in Hp. destruct Hp as [p0 [<- Hp0]].
        specialize (Il p0 Hp0). destruct p0; try discriminate. reflexivity.
      * intros p c Hp Np. destruct (Hin' p c Hp Np) as [->|[_ [_ Hp0]]].
        -- right. exists b. split; [apply in_or_app; right; now left|exact Ec].
        -- destruct (Inr p c Hp0 Np) as [H|[x [Hx Ex]]]; [now left|right].
           exists x. split; [apply in_or_app; now left|exact Ex].
      * (* J1 *)
        intros c Hc n m Hn Hm Nn Nm.
        destruct (string_dec c nb) as [->|H1].
        -- (* the new name: only the renamed right node carries it *)
           assert (EE : forall p, In p (places l ++ places (rename_anchor b nb r)) -> c10_name p = Some nb ->
                       p = an_with_name nb rb).
           { intros p Hp Np. apply in_app_or in Hp. destruct Hp as [Hp|Hp].
             - exfalso. apply Hnb. eapply Inl; eauto.
             - assert (In p (uses nb (rename_anchor b nb r))) by (apply filter_In; split; [exact Hp|now apply hit_iff]).
               rewrite Unew in H. apply in_map_iff in H. destruct H as [p0 [<- Hp0]]. apply filter_In in Hp0.
               destruct Hp0 as [Hp0 Hh]. apply hit_iff in Hh.
               destruct (IQ b lb rb (or_introl eq_refl) Hlb Hrb) as [_ Rr]. now rewrite (Rr p0 Hp0 Hh). }
           rewrite (EE n Hn Nn), (EE m Hm Nm). reflexivity.
        -- destruct (string_dec c b) as [->|H2].
           ++ (* the old name: left places only *)
              destruct (IQ b lb rb (or_introl eq_refl) Hlb Hrb) as [Rl _].
              assert (EE : forall p, In p (places l ++ places (rename_anchor b nb r)) -> c10_name p = Some b -> p = lb).
              { intros p Hp Np. apply in_app_or in Hp. destruct Hp as [Hp|Hp]; [now apply Rl|].
                destruct (Hin' p b Hp Np) as [H|[_ [H _]]]; congruence. }
              rewrite (EE n Hn Nn), (EE m Hm Nm). reflexivity.
           ++ assert (Hc' : ~ In c (b :: Q)) by (intros [H|H]; [now subst|contradiction]).
              apply (IJ c Hc'); auto.
              ** apply in_app_or in Hn. apply in_or_app. destruct Hn as [Hn|Hn]; [now left|right].
                 destruct (Hin' n c Hn Nn) as [H|[_ [_ H]]]; [contradiction|exact H].
              ** apply in_app_or in Hm. apply in_or_app. destruct Hm as [Hm|Hm]; [now left|right].
                 destruct (Hin' m c Hm Nm) as [H|[_ [_ H]]]; [contradiction|exact H].
      * (* Qc *)
        intros c la ra Hc Hl Hr. destruct (IQ c la ra (or_intror Hc) Hl Hr) as [A B]. split; [exact A|].
        intros p Hp Np. destruct (Hin' p c Hp Np) as [->|[_ [_ H]]]; [|now apply B].
        exfalso. apply Hnb. apply common_known. apply HC. apply in_or_app. right. exact Hc.
      * (* what C10_rename tracks *)
        intros a la ra Hla Hra Hc. destruct (IF a la ra Hla Hra Hc) as [F1 F2].
        assert (Hka : In a known).
        { apply known_in. left. eapply ad_get_in_keys; eauto. }
        split.
        -- intros Ha. rewrite Uother; [apply F1; now right| |].
           ++ intros ->. contradiction.
           ++ intros ->. contradiction.
        -- intros Ha. apply in_app_or in Ha. destruct Ha as [Ha|[<-|[]]].
           ++ destruct (F2 Ha) as [R1 [nn [N1 [N2 [N3 [N4 N5]]]]]]. split; [exact R1|].
              assert (Hab : a <> b) by (intros ->; contradiction).
              exists nn. repeat split; auto.
              ** rewrite Uother; auto. intros ->. contradiction.
              ** rewrite Uother; auto.
                 --- intros ->. apply Hab. apply (calc_unique_inj a b known nb); auto.
                 --- intros ->. contradiction.
           ++ rewrite Hlb in Hla. rewrite Hrb in Hra. inversion Hla; inversion Hra; subst la ra.
              destruct (IQ b lb rb (or_introl eq_refl) Hlb Hrb) as [Rl _]. split; [exact Rl|].
              exists nb. repeat split; auto.
              ** rewrite Unew. rewrite (proj1 (IF b lb rb Hlb Hrb Hc) (or_introl eq_refl)). reflexivity.
              ** apply uses_nil_iff. intros p Hp Np. apply Hnb. eapply Inl; eauto.
Qed.

Lemma init_invB : invB [] (common_names lanc ranc) l0 r0.
Proof.
  destruct (doc_ok_parts _ Hokl) as [_ [Kl _]]. destruct (doc_ok_parts _ Hokr) as [_ [_ Sr]].
  constructor; auto.
  - intros p Hp. eapply places_leaves; eauto.
  - intros p c Hp Np. apply known_in. left. eapply scan_keys_place; eauto.
  - intros p c Hp Np. left. apply known_in. right. eapply scan_keys_place; eauto.
  - apply init_J1.
  - apply init_Qc.
  - intros a la ra _ _ _. split; [reflexivity|intros []].
Qed.

End Loop.

(* ---------- the theorems ---------- *)
Lemma loop_needs_mode : forall cfg l r st',
  (forall m, anchor_merge_mode cfg <> Ok m) ->
  resolve_conflicts cfg l r = Ok st' ->
  st' = (l, r) /\ common_names (an_scan_anchors l []) (an_scan_anchors r []) = [].
Proof.
  intros cfg l r st' Hm E. unfold resolve_conflicts in E.
  destruct (common_names (an_scan_anchors l []) (an_scan_anchors r [])) as [|c0 rest] eqn:Ec.
  - simpl in E. inversion E. auto.
  - exfalso. destruct (common_in l r c0) as [la [ra [Hl Hr]]]; [rewrite Ec; now left|].
    rewrite foldM_cons in E. unfold resolve_step in E at 1. rewrite Hl, Hr in E.
    destruct (anchor_merge_mode cfg) as [m| |] eqn:Em; [exact (Hm m eq_refl)|discriminate|discriminate].
Qed.

Theorem resolve_unique_names : forall cfg l r l' r',
  an_doc_ok l = true -> an_doc_ok r = true ->
  one_node_per_name l -> one_node_per_name r -> an_heap_ok r ->
  resolve_conflicts cfg l r = Ok (l', r') ->
  an_pair_unique l' r'.
Proof.
  intros cfg l r l' r' Hokl Hokr Hul Hur Hh E.
  assert (G : J1 [] l' r').
  { destruct (anchor_merge_mode cfg) as [m| |] eqn:Em.
    - assert (S : m <> KRename -> J1 [] l' r').
      { intros Hne. unfold resolve_conflicts in E.
        apply (loop_subst cfg l r Hokl Hokr m Em Hne (common_names (an_scan_anchors l []) (an_scan_anchors r [])) l r (l', r')); auto.
        - apply common_nodup.
        - apply (doc_ok_parts _ Hokl).
        - apply (doc_ok_parts _ Hokr).
        - now apply init_J1.
        - now apply init_Qc. }
      destruct m; try (apply S; discriminate).
      unfold resolve_conflicts in E.
      pose proof (loop_rename cfg l r Hokl Hokr Em _ [] l r (l', r') (common_nodup l r) (fun c H => H)
                    (init_invB l r Hokl Hokr Hul Hur Hh) E) as H.
      exact (b_j _ _ _ _ _ _ H).
    - apply loop_needs_mode in E; [|intros m; rewrite Em; discriminate]. destruct E as [E Ec]. inversion E; subst l' r'.
      pose proof (init_J1 l r Hul Hur) as H. now rewrite Ec in H.
    - apply loop_needs_mode in E; [|intros m; rewrite Em; discriminate]. destruct E as [E Ec]. inversion E; subst l' r'.
      pose proof (init_J1 l r Hul Hur) as H. now rewrite Ec in H. }
  intros n m a Hn Hm Nn Nm. apply (G a (fun x => x) n m); auto.
Qed.

Theorem resolve_rename : forall cfg l r l' r' a la ra,
  anchor_merge_mode cfg = Ok KRename ->
  an_doc_ok l = true -> an_doc_ok r = true ->
  one_node_per_name l -> one_node_per_name r -> an_heap_ok r ->
  ad_get a (an_scan_anchors l []) = Some la -> ad_get a (an_scan_anchors r []) = Some ra ->
  anchors_match la ra = false ->
  resolve_conflicts cfg l r = Ok (l', r') ->
  all_read a la l' /\
  exists nn, calc_unique_anchor a (known_names (an_scan_anchors l []) (an_scan_anchors r [])) = Ok nn /\
             ~ In nn (known_names (an_scan_anchors l []) (an_scan_anchors r [])) /\
             uses a r' = [] /\
             uses nn r' = map (an_with_name nn) (uses a r) /\
             uses nn l' = [].
Proof.
  intros cfg l r l' r' a la ra Hm Hokl Hokr Hul Hur Hh Hla Hra Hc E. unfold resolve_conflicts in E.
  pose proof (loop_rename cfg l r Hokl Hokr Hm _ [] l r (l', r') (common_nodup l r) (fun c H => H)
                (init_invB l r Hokl Hokr Hul Hur Hh) E) as H.
  destruct (b_f _ _ _ _ _ _ H a la ra Hla Hra Hc) as [_ F]. simpl in F.
  destruct F as [R1 R2]; [eapply common_names_in; eauto|].
  split; [|exact R2]. apply all_read_iff. intros n Hn Hh'. apply R1; auto. now apply hit_iff.
Qed.
