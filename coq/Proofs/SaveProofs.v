(* Lemmas and proofs for C17 (save protocols and main() ordering). *)
From Coq Require Import List Bool Arith Lia.
From YP Require Import SaveProtocol SaveCli C17Spec.
Import ListNotations.
Import Sv Sc.

(* ---- the abstract file system ---------------------------------------------- *)

Lemma get_upd_same : forall s r c, get (upd s r c) r = c.
Proof. intros s [] c; reflexivity. Qed.

Lemma get_upd_other : forall s r r' c, role_eqb r r' = false -> get (upd s r c) r' = get s r'.
Proof. intros s [] [] c H; try discriminate H; reflexivity. Qed.

Lemma role_eqb_refl : forall r, role_eqb r r = true.
Proof. intros []; reflexivity. Qed.

Lemma upd_tmp_none_id : forall s, f_tmp s = None -> upd s Tmp None = s.
Proof. intros [t b o tm] H; simpl in *; subst; reflexivity. Qed.

Lemma holds_iff : forall s r c, holds s r c = true <-> get s r = Some c.
Proof.
  intros s r c; unfold holds; destruct (get s r) as [d|]; split; intro H; try discriminate.
  - destruct d, c; simpl in H; try discriminate; reflexivity.
  - inversion H; subst; destruct c; reflexivity.
Qed.

Lemma one_copy_iff : forall s, one_copy s = true <-> one_intact_copy s.
Proof.
  intros s; unfold one_copy, one_intact_copy; rewrite orb_true_iff, !holds_iff; tauto.
Qed.

(* ---- a call that spares a role leaves it alone, however it ends --------------- *)

Lemma exec_spares : forall r o s s', damages r o = false -> exec o s = Some s' -> get s' r = get s r.
Proof.
  intros r o s s' Hd He; destruct o; simpl in *;
    try (inversion He; subst; reflexivity);
    try (destruct (is_some _); inversion He; subst; try reflexivity; apply get_upd_other; assumption);
    try (destruct (get s _); inversion He; subst; apply get_upd_other; assumption);
    try (inversion He; subst; apply get_upd_other; assumption);
    try (inversion He; subst; destruct r; try discriminate Hd; reflexivity).
Qed.

Lemma fault_spares : forall r m o s, damages r o = false -> get (fault_effect m o s) r = get s r.
Proof.
  intros r m o s Hd; destruct m; [reflexivity|]; destruct o; simpl in *; try reflexivity;
    try (apply get_upd_other; assumption).
  destruct (is_some _); [apply get_upd_other; assumption | reflexivity].
Qed.

Lemma run_spares : forall r l f k s,
  spares r l = true -> get (r_fs (run_until_fault f k l s)) r = get s r.
Proof.
  intros r l; induction l as [|o l IH]; intros f k s Hs; [reflexivity|].
  simpl in Hs; apply andb_true_iff in Hs; destruct Hs as [Ho Hl]; apply negb_true_iff in Ho.
  assert (Hstep : forall s', exec o s = Some s' ->
            get (r_fs (run_until_fault f (S k) l s')) r = get s r).
  { intros s' He; rewrite IH by assumption; eapply exec_spares; eassumption. }
  simpl; destruct f as [ft|].
  - destruct (Nat.eqb (at_k ft) k); simpl; [apply fault_spares; assumption|].
    destruct (exec o s) as [s'|] eqn:He; simpl; [apply Hstep; reflexivity | reflexivity].
  - destruct (exec o s) as [s'|] eqn:He; simpl; [apply Hstep; reflexivity | reflexivity].
Qed.

(* ---- the general lemma ----------------------------------------------------------- *)
(* A plan in which Copy2 Target Bak completes before the first call that can
   damage the target, and no later call writes to the backup, keeps one intact
   copy under any single fault (at any position, before or mid effect, of any
   kind) and under any natural failure. *)
Lemma backup_first_safe_run : forall pre post f k s,
  spares Target pre = true -> spares Bak post = true ->
  get s Target = Some Orig ->
  one_intact_copy (r_fs (run_until_fault f k (pre ++ Copy2 Target Bak :: post) s)).
Proof.
  induction pre as [|o pre IH]; intros post f k s Hpre Hpost Ht.
  - (* the copy itself *)
    destruct s as [t b o tm]; simpl in Ht; subst t.
    assert (Hdone : one_intact_copy
              (r_fs (run_until_fault f (S k) post (mkfs (Some Orig) (Some Orig) o tm)))).
    { right; rewrite run_spares by assumption; reflexivity. }
    simpl; destruct f as [ft|]; simpl.
    + destruct (Nat.eqb (at_k ft) k); simpl; [|exact Hdone].
      left; destruct (f_mode ft); reflexivity.
    + exact Hdone.
  - simpl in Hpre; apply andb_true_iff in Hpre; destruct Hpre as [Ho Hp]; apply negb_true_iff in Ho.
    assert (Hstep : forall s', exec o s = Some s' ->
              one_intact_copy (r_fs (run_until_fault f (S k) (pre ++ Copy2 Target Bak :: post) s'))).
    { intros s' He; apply IH; try assumption.
      rewrite (exec_spares Target o s s') by assumption; assumption. }
    simpl; destruct f as [ft|].
    + destruct (Nat.eqb (at_k ft) k); simpl.
      * left; rewrite fault_spares by assumption; assumption.
      * destruct (exec o s) as [s'|] eqn:He; simpl; [apply Hstep; reflexivity | left; assumption].
    + destruct (exec o s) as [s'|] eqn:He; simpl; [apply Hstep; reflexivity | left; assumption].
Qed.

Lemma backup_first_safe : forall l f k s,
  backup_first l -> get s Target = Some Orig ->
  one_intact_copy (r_fs (run_until_fault f k l s)).
Proof.
  intros l f k s (pre & post & -> & Hp & Hq) Ht; apply backup_first_safe_run; assumption.
Qed.

(* the backup prelude has the required shape *)
Lemma backup_ops_shape : forall s rest,
  backup_ops s ++ rest =
  (Exists Bak :: (if is_some (get s Bak) then [Remove Bak] else [])) ++ Copy2 Target Bak :: rest.
Proof.
  intros s rest; unfold backup_ops; destruct (is_some (get s Bak)); reflexivity.
Qed.

Lemma backup_prelude_spares_target : forall s,
  spares Target (Exists Bak :: (if is_some (get s Bak) then [Remove Bak] else [])) = true.
Proof. intros s; destruct (is_some (get s Bak)); reflexivity. Qed.

Lemma spares_app : forall r l1 l2, spares r (l1 ++ l2) = spares r l1 && spares r l2.
Proof. intros; unfold spares; apply forallb_app. Qed.

Lemma spares_repeat : forall r o n, damages r o = false -> spares r (repeat o n) = true.
Proof. intros r o n H; induction n; simpl; [reflexivity | rewrite H; assumption]. Qed.

Lemma dump_ops_spare_bak : forall json n, spares Bak (dump_ops Target json n) = true.
Proof.
  intros json n; unfold dump_ops; destruct (json && Nat.ltb 1 n); [|reflexivity].
  rewrite spares_app, spares_repeat by reflexivity; reflexivity.
Qed.

Lemma backup_then_write_is_backup_first : forall s post,
  spares Bak post = true -> backup_first (backup_ops s ++ post).
Proof.
  intros s post H; eexists; eexists; split; [apply backup_ops_shape|].
  split; [apply backup_prelude_spares_target | assumption].
Qed.

(* ---- run_plan, for plans without an exception handler -------------------------------- *)

Lemma drop_tmp_get : forall s r, role_eqb Tmp r = false -> get (drop_tmp s) r = get s r.
Proof. intros; unfold drop_tmp; apply get_upd_other; assumption. Qed.

Lemma one_intact_drop_tmp : forall s, one_intact_copy s -> one_intact_copy (drop_tmp s).
Proof. intros s [H|H]; [left|right]; rewrite drop_tmp_get by reflexivity; assumption. Qed.

Lemma run_only_looks : forall l f k s,
  forallb only_looks l = true ->
  r_fs (run_until_fault f k l s) = s /\ forallb only_looks (r_trace (run_until_fault f k l s)) = true.
Proof.
  induction l as [|o l IH]; intros f k s H; [split; reflexivity|].
  simpl in H; apply andb_true_iff in H; destruct H as [Ho Hl].
  destruct o; try discriminate Ho.
  simpl; destruct f as [ft|].
  - destruct (Nat.eqb (at_k ft) k); simpl.
    + destruct (f_mode ft); split; reflexivity.
    + destruct (IH (Some ft) (S k) s Hl) as [A B]; split; [exact A | simpl; exact B].
  - destruct (IH None (S k) s Hl) as [A B]; split; [exact A | exact B].
Qed.

(* the file system a handler-free plan ends in *)
Lemma run_plan_fs_nohandler : forall p f s,
  p_guarded p = None -> forallb only_looks (p_validate p) = true -> start_ok s ->
  o_fs (run_plan p f s) = s \/
  (p_refuse p = false /\
   o_fs (run_plan p f s) = drop_tmp (r_fs (run_until_fault f (length (p_validate p)) (p_main p) s))).
Proof.
  intros p f s Hg Hv Hs; unfold run_plan.
  destruct (run_only_looks (p_validate p) f 0 s Hv) as [Hfs _].
  destruct (r_stop (run_until_fault f 0 (p_validate p) s)) eqn:Hst; simpl.
  - destruct (p_refuse p); simpl; [left; exact Hfs|].
    right; split; [reflexivity|]; rewrite Hfs.
    destruct (r_stop (run_until_fault f (length (p_validate p)) (p_main p) s)) as [| |o [|]]; simpl; try reflexivity.
    rewrite Hg; destruct f; reflexivity.
  - left; exact Hfs.
  - left; exact Hfs.
Qed.

(* ---- C17_one_copy_survives ------------------------------------------------------------- *)

(* yaml-set: finite up to the fault position; positions beyond the plan never fire *)
Ltac lr := vm_compute; first [left; reflexivity | right; reflexivity].
Ltac crush_k k := do 13 (destruct k as [|k]; [lr|]); lr.

Lemma set_one_copy : forall json f s,
  get s Target = Some Orig -> one_intact_copy (o_fs (save (CSet true json) f s)).
Proof.
  intros json f [t b o tm] Ht; simpl in Ht; subst t.
  destruct f as [[k m kd]|].
  - destruct json, b as [c|], m, kd; unfold one_intact_copy; crush_k k.
  - destruct json, b as [c|]; lr.
Qed.

Lemma noh_one_copy : forall p f s,
  p_guarded p = None -> forallb only_looks (p_validate p) = true ->
  backup_first (p_main p) -> get s Target = Some Orig ->
  one_intact_copy (o_fs (run_plan p f s)).
Proof.
  intros p f s Hg Hv Hb Ht; unfold run_plan.
  destruct (run_only_looks (p_validate p) f 0 s Hv) as [Hfs _].
  assert (Hmain : forall k, one_intact_copy (drop_tmp (r_fs (run_until_fault f k (p_main p) s)))).
  { intro k; apply one_intact_drop_tmp, backup_first_safe; assumption. }
  destruct (r_stop (run_until_fault f 0 (p_validate p) s)) eqn:Hst; simpl.
  - destruct (p_refuse p); simpl; [rewrite Hfs; left; exact Ht|].
    rewrite Hfs.
    destruct (r_stop (run_until_fault f (length (p_validate p)) (p_main p) s)) as [| |o [|]]; simpl; try apply Hmain.
    rewrite Hg; destruct f; apply Hmain.
  - rewrite Hfs; left; exact Ht.
  - rewrite Hfs; left; exact Ht.
Qed.

Lemma one_copy_survives : forall c f s,
  cfg_backup c = true -> get s Target = Some Orig -> one_intact_copy (o_fs (save c f s)).
Proof.
  intros c f s Hb Ht; destruct c as [backup json| |m backup json n|backup changed]; simpl in Hb.
  - subst backup; apply set_one_copy; assumption.
  - discriminate.
  - destruct m; try discriminate; subst backup.
    unfold save; apply noh_one_copy; try reflexivity; try assumption.
    simpl; apply backup_then_write_is_backup_first.
    simpl; apply dump_ops_spare_bak.
  - apply andb_true_iff in Hb; destruct Hb; subst.
    unfold save; apply noh_one_copy; try reflexivity; try assumption.
    simpl; apply backup_then_write_is_backup_first; reflexivity.
Qed.

(* ---- C17_bak_is_preimage ---------------------------------------------------------------- *)

Lemma run_nofault_app : forall l1 l2 k s,
  r_stop (run_until_fault None k l1 s) = Completed ->
  r_fs (run_until_fault None k (l1 ++ l2) s) =
    r_fs (run_until_fault None (k + length l1) l2 (r_fs (run_until_fault None k l1 s)))
  /\ r_stop (run_until_fault None k (l1 ++ l2) s) =
    r_stop (run_until_fault None (k + length l1) l2 (r_fs (run_until_fault None k l1 s))).
Proof.
  induction l1 as [|o l1 IH]; intros l2 k s H; simpl.
  - rewrite Nat.add_0_r; split; reflexivity.
  - simpl in H; destruct (exec o s) as [s'|]; simpl in *; [|discriminate].
    replace (k + S (length l1)) with (S k + length l1) by lia. apply IH; assumption.
Qed.

Lemma run_dump_ops : forall json n k s,
  let r := run_until_fault None k (dump_ops Target json n) s in
  r_stop r = Completed /\ r_fs r = upd s Target (Some New).
Proof.
  intros json n k s; unfold dump_ops; destruct (json && Nat.ltb 1 n).
  - generalize (n - 1) as j; intro j; revert k s; induction j as [|j IH]; intros k [t b o tm]; simpl.
    + split; reflexivity.
    + destruct (IH (S k) (mkfs (Some Partial) b o tm)) as [A B]; split; [exact A|].
      simpl in B; rewrite B; reflexivity.
  - simpl; split; reflexivity.
Qed.

Lemma run_plan_nofault_ok : forall p s,
  p_refuse p = false -> forallb only_looks (p_validate p) = true ->
  r_stop (run_until_fault None (length (p_validate p)) (p_main p) s) = Completed ->
  o_status (run_plan p None s) = SOk /\
  o_fs (run_plan p None s) = drop_tmp (r_fs (run_until_fault None (length (p_validate p)) (p_main p) s)).
Proof.
  intros p s Hr Hv Hm; unfold run_plan.
  destruct (run_only_looks (p_validate p) None 0 s Hv) as [Hfs _].
  assert (Hc : r_stop (run_until_fault None 0 (p_validate p) s) = Completed).
  { clear Hfs Hm; generalize 0 as k; induction (p_validate p) as [|o l IH]; intro k; [reflexivity|].
    simpl in Hv; apply andb_true_iff in Hv; destruct Hv as [Ho Hl]; destruct o; try discriminate Ho.
    simpl; apply IH; assumption. }
  rewrite Hc, Hr, Hfs, Hm; split; reflexivity.
Qed.

Lemma main_shape : forall (pre : list op) x post, pre ++ x :: post = (pre ++ [x]) ++ post.
Proof. intros; rewrite <- app_assoc; reflexivity. Qed.

Lemma bak_is_preimage_holds : forall c s,
  cfg_backup c = true -> get s Target = Some Orig ->
  o_status (save c None s) = SOk /\ bak_is_preimage (o_fs (save c None s)).
Proof.
  intros c [t b o tm] Hb Ht; simpl in Ht; subst t.
  destruct c as [backup json| |m backup json n|backup changed]; simpl in Hb.
  - subst backup; destruct json, b as [c|]; vm_compute; auto.
  - discriminate.
  - destruct m; try discriminate; subst backup.
    set (s0 := mkfs (Some Orig) b o tm).
    assert (Hpre : r_stop (run_until_fault None 1 (backup_ops s0 ++ [OpenTrunc Target]) s0) = Completed
                   /\ r_fs (run_until_fault None 1 (backup_ops s0 ++ [OpenTrunc Target]) s0)
                      = mkfs (Some Partial) (Some Orig) o tm).
    { unfold s0; destruct b; vm_compute; split; reflexivity. }
    destruct Hpre as [Hst Hfs].
    destruct (run_nofault_app _ (dump_ops Target json n) 1 s0 Hst) as [A B].
    destruct (run_dump_ops json n (1 + length (backup_ops s0 ++ [OpenTrunc Target]))
                (r_fs (run_until_fault None 1 (backup_ops s0 ++ [OpenTrunc Target]) s0))) as [C D].
    rewrite C in B; rewrite D, Hfs in A.
    destruct (run_plan_nofault_ok (plan_of (CMerge ToOverwrite true json n) s0) s0) as [E F];
      [reflexivity | reflexivity | | ].
    + change (r_stop (run_until_fault None 1 (backup_ops s0 ++ OpenTrunc Target :: dump_ops Target json n) s0)
              = Completed).
      rewrite main_shape; exact B.
    + unfold save; split; [exact E|]. rewrite F.
      change (bak_is_preimage (drop_tmp (r_fs
                (run_until_fault None 1 (backup_ops s0 ++ OpenTrunc Target :: dump_ops Target json n) s0)))).
      rewrite main_shape, A; split; reflexivity.
  - apply andb_true_iff in Hb; destruct Hb; subst.
    destruct b as [c|]; vm_compute; auto.
Qed.

(* ---- C17_output_never_replaces ------------------------------------------------------------ *)

Lemma merge_validate_only_looks : forall i s, forallb only_looks (p_validate (plan_of (merge_cfg i) s)) = true.
Proof. intros i s; unfold merge_cfg; destruct (m_mode i); reflexivity. Qed.

Lemma run_plan_refused : forall p f s,
  p_refuse p = true -> forallb only_looks (p_validate p) = true ->
  o_fs (run_plan p f s) = s /\ o_status (run_plan p f s) <> SOk
  /\ forallb only_looks (o_trace (run_plan p f s)) = true.
Proof.
  intros p f s Hr Hv; unfold run_plan.
  destruct (run_only_looks (p_validate p) f 0 s Hv) as [Hfs Htr].
  destruct (r_stop (run_until_fault f 0 (p_validate p) s)); rewrite ?Hr; simpl;
    (split; [exact Hfs | split; [discriminate | exact Htr]]).
Qed.

Lemma output_never_replaces : forall i f s,
  m_mode i = ToOutput -> get s Output <> None ->
  let o := merge_main i f s in
  o_fs o = s /\ failed (o_status o) /\ forallb only_looks (o_trace o) = true.
Proof.
  intros i f s Hm Hex; unfold merge_main.
  destruct (m_usage_ok i); [simpl negb; cbv iota zeta | simpl; split; [reflexivity | split; [discriminate | reflexivity]]].
  set (p := plan_of (merge_cfg i) s).
  assert (Hr : p_refuse p = true).
  { unfold p, merge_cfg; rewrite Hm; simpl in *. destruct (f_output s); [reflexivity | contradiction]. }
  set (pv := mkplan (p_validate p) (p_refuse p || negb (m_args_ok i)) [] None []).
  assert (Hv : forallb only_looks (p_validate pv) = true) by apply merge_validate_only_looks.
  assert (Hrv : p_refuse pv = true) by (simpl; rewrite Hr; reflexivity).
  destruct (run_plan_refused pv f s Hrv Hv) as (A & B & C).
  destruct (o_status (run_plan pv f s)) eqn:Hst; [contradiction B; reflexivity | |];
    (split; [exact A | split; [rewrite Hst; discriminate | exact C]]).
Qed.

(* at the level of the save sequence alone, whatever main() does around it *)
Lemma output_kept_by_save : forall backup json n f s,
  get s Output <> None -> output_kept s (o_fs (save (CMerge ToOutput backup json n) f s)).
Proof.
  intros backup json n f s Hex; unfold save.
  destruct (run_plan_refused (plan_of (CMerge ToOutput backup json n) s) f s) as (A & _ & _);
    [simpl in *; destruct (f_output s); [reflexivity | contradiction] | reflexivity |].
  unfold output_kept; rewrite A; reflexivity.
Qed.

(* ---- C17_prewrite_unchanged ------------------------------------------------------------------ *)

Lemma set_prewrite : forall i f s st,
  set_pre i = Some st -> set_main i f s = mkout s [] st.
Proof. intros i f s st H; unfold set_main; rewrite H; reflexivity. Qed.

(* without an injected fault, the save of yaml-set always succeeds once the
   file could be loaded: so a non-zero status can only come from a pre-write step *)
Lemma set_save_nofault_ok : forall c s,
  (c = CSetStream \/ exists b j, c = CSet b j) -> get s Target <> None ->
  o_status (save c None s) = SOk.
Proof.
  intros c [t b o tm] [->|(bk & j & ->)] Ht; [reflexivity|].
  simpl in Ht; destruct t as [ct|]; [|contradiction].
  destruct bk, j, b; reflexivity.
Qed.

Lemma set_failure_is_prewrite : forall i s,
  get s Target <> None ->
  failed (o_status (set_main i None s)) ->
  untouched s (o_fs (set_main i None s)) /\ o_trace (set_main i None s) = [].
Proof.
  intros i s Ht Hf; unfold set_main in *.
  destruct (set_pre i) as [st|]; [split; reflexivity|].
  exfalso; apply Hf; apply set_save_nofault_ok; [|assumption].
  unfold set_cfg; destruct (s_stream i); [left; reflexivity | right; eauto].
Qed.

Lemma run_plan_validate_only : forall pv f s,
  p_main pv = [] -> forallb only_looks (p_validate pv) = true -> start_ok s ->
  untouched s (o_fs (run_plan pv f s)) /\ forallb only_looks (o_trace (run_plan pv f s)) = true.
Proof.
  intros [v r m g h] f s Hm Hv Hs; simpl in Hm, Hv; subst m; unfold run_plan; simpl.
  destruct (run_only_looks v f 0 s Hv) as [A B].
  destruct (r_stop (run_until_fault f 0 v s)); simpl; try (split; assumption).
  destruct r; simpl; [split; assumption|].
  rewrite A, app_nil_r; split; [apply upd_tmp_none_id; exact Hs | exact B].
Qed.

Lemma merge_prewrite : forall i f s st,
  start_ok s -> merge_pre i = Some st ->
  let o := merge_main i f s in
  untouched s (o_fs o) /\ failed (o_status o) /\ forallb only_looks (o_trace o) = true.
Proof.
  intros i f s st Hs Hp; unfold merge_main.
  destruct (m_usage_ok i); [simpl negb; cbv iota zeta | simpl; split; [reflexivity | split; [discriminate | reflexivity]]].
  set (p := plan_of (merge_cfg i) s).
  set (pv := mkplan (p_validate p) (p_refuse p || negb (m_args_ok i)) [] None []).
  assert (Hv : forallb only_looks (p_validate pv) = true) by apply merge_validate_only_looks.
  assert (Hpv : untouched s (o_fs (run_plan pv f s)) /\ forallb only_looks (o_trace (run_plan pv f s)) = true).
  { apply run_plan_validate_only; [reflexivity | exact Hv | exact Hs]. }
  destruct Hpv as [A B].
  destruct (o_status (run_plan pv f s)) eqn:Hst.
  - rewrite Hp; simpl; split; [exact A | split; [|exact B]].
    (* the pre-write verdict is never "ok" *)
    unfold merge_pre in Hp; destruct (merge_exit_state i) as [[|n]|]; try destruct (m_prepare i);
      inversion Hp; discriminate.
  - split; [exact A | split; [rewrite Hst; discriminate | exact B]].
  - split; [exact A | split; [rewrite Hst; discriminate | exact B]].
Qed.

(* without an injected fault a failing yaml-merge changed nothing, provided a
   requested backup has something to copy *)
Lemma dump_ops_complete : forall r json n k s,
  r_stop (run_until_fault None k (dump_ops r json n) s) = Completed.
Proof.
  intros r json n k s; unfold dump_ops; destruct (json && Nat.ltb 1 n); [|reflexivity].
  generalize (n - 1) as j; intro j; revert k s; induction j as [|j IH]; intros k s; simpl;
    [reflexivity | apply IH].
Qed.

Lemma merge_write_nofault_completes : forall m backup json n s,
  (m = ToOverwrite -> backup = true -> get s Target <> None) ->
  let p := plan_of (CMerge m backup json n) s in
  r_stop (run_until_fault None (length (p_validate p)) (p_main p) s) = Completed.
Proof.
  intros m backup json n [t b o tm] Hbk; destruct m; simpl p_validate; simpl p_main; simpl length.
  - reflexivity.
  - change (OpenTrunc Output :: dump_ops Output json n) with ([OpenTrunc Output] ++ dump_ops Output json n).
    destruct (run_nofault_app [OpenTrunc Output] (dump_ops Output json n) 1 (mkfs t b o tm) eq_refl) as [_ B].
    rewrite B; apply dump_ops_complete.
  - rewrite main_shape.
    assert (Hst : r_stop (run_until_fault None 1 (opt_backup backup (mkfs t b o tm) ++ [OpenTrunc Target])
                            (mkfs t b o tm)) = Completed).
    { destruct backup; [|reflexivity].
      specialize (Hbk eq_refl eq_refl); simpl in Hbk; destruct t; [|contradiction].
      destruct b; reflexivity. }
    destruct (run_nofault_app _ (dump_ops Target json n) 1 _ Hst) as [_ B].
    rewrite B; apply dump_ops_complete.
Qed.

Lemma merge_failure_is_prewrite : forall i s,
  start_ok s ->
  (m_mode i = ToOverwrite -> m_backup i = true -> get s Target <> None) ->
  failed (o_status (merge_main i None s)) ->
  untouched s (o_fs (merge_main i None s)) /\ forallb only_looks (o_trace (merge_main i None s)) = true.
Proof.
  intros i s Hs Hbk Hf.
  destruct (merge_pre i) as [st|] eqn:Hp.
  { destruct (merge_prewrite i None s st Hs Hp) as (A & _ & C); split; assumption. }
  unfold merge_main in *.
  destruct (m_usage_ok i); [simpl negb in *; cbv iota zeta in * | simpl; split; reflexivity].
  set (p := plan_of (merge_cfg i) s) in *.
  set (pv := mkplan (p_validate p) (p_refuse p || negb (m_args_ok i)) [] None []) in *.
  assert (Hv : forallb only_looks (p_validate pv) = true) by apply merge_validate_only_looks.
  assert (Hpv : untouched s (o_fs (run_plan pv None s)) /\ forallb only_looks (o_trace (run_plan pv None s)) = true).
  { apply run_plan_validate_only; [reflexivity | exact Hv | exact Hs]. }
  destruct (o_status (run_plan pv None s)) eqn:Hst; [|exact Hpv|exact Hpv].
  rewrite Hp in *.
  exfalso; apply Hf; clear Hf.
  assert (Hnr : p_refuse p = false).
  { destruct (p_refuse p) eqn:E; [|reflexivity].
    destruct (run_plan_refused pv None s) as (_ & B & _);
      [reflexivity | exact Hv |].
    contradiction B. }
  destruct (run_plan_nofault_ok p s Hnr) as [E _]; [apply merge_validate_only_looks | | exact E].
  apply merge_write_nofault_completes; exact Hbk.
Qed.

(* ---- witnesses and the finite cross-check ------------------------------------------------ *)

Lemma merge_backup_of_nothing_witness :
  exists (i : merge_in) (s : fs),
    start_ok s /\ failed (o_status (merge_main i None s)) /\ o_fs (merge_main i None s) <> s.
Proof.
  exists (mkmerge true true ToOverwrite true false [mkmfile true 1 (MCode 0); mkmfile true 1 (MCode 0)]
                  None true (MCode 0) ROk 1), (init_fs false true false).
  split; [reflexivity|]; split; vm_compute; discriminate.
Qed.

Lemma no_backup_no_promise_witness :
  exists (c : cfg) (f : fault) (s : fs),
    cfg_backup c = false /\ get s Target = Some Orig /\ ~ one_intact_copy (o_fs (save c (Some f) s)).
Proof.
  exists (CSet false false), (mkfault 4 Mid FOs), (init_fs true false false).
  split; [reflexivity|]; split; [reflexivity|].
  vm_compute; intros [H|H]; discriminate H.
Qed.

Definition all_bool := [true; false].
Definition all_faults (n : nat) : list (option fault) :=
  None :: flat_map (fun k => flat_map (fun m => map (fun kd => Some (mkfault k m kd)) [FOs; FAssert]) [Before; Mid]) (seq 0 n).
Definition finite_domain_check : bool :=
  forallb (fun json => forallb (fun stale => forallb (fun f =>
     one_copy (o_fs (save (CSet true json) f (init_fs true stale false)))
     && one_copy (o_fs (save (CRotate true true) f (init_fs true stale false)))
     && forallb (fun n => forallb (fun j =>
           one_copy (o_fs (save (CMerge ToOverwrite true j n) f (init_fs true stale false)))) all_bool) [0; 1; 2; 3])
     (all_faults 16)) all_bool) all_bool.
Lemma finite_domain_check_true : finite_domain_check = true.
Proof. vm_compute. reflexivity. Qed.
