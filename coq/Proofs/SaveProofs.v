(* Lemmas and proofs for C17 (save protocols and main() ordering). *)
From Coq Require Import List Bool Arith Lia.
From YP Require Import SaveProtocol SaveCli C17Spec.
Import ListNotations.
Import Sv Sc.

(* ---- the abstract file system ---------------------------------------------- *)

Lemma get_upd_same : forall s r c, get (upd s r c) r = c.
Proof. intros s [] c; reflexivity. Qed.

Lemma get_upd_other : forall s r r' c, role_eqb r r' = false -> get (upd s r c) r' = get s r'.
Proof. intros s [] [] c H; try discriminate H; reflexivity. Qed.

Lemma role_eqb_refl : forall r, role_eqb r r = true.
Proof. intros []; reflexivity. Qed.

Lemma upd_tmp_none_id : forall s, f_tmp s = None -> upd s Tmp None = s.
Proof. intros [t b o tm] H; simpl in *; subst; reflexivity. Qed.

Lemma holds_iff : forall s r c, holds s r c = true <-> get s r = Some c.
Proof.
  intros s r c; unfold holds; destruct (get s r) as [d|]; split; intro H; try discriminate.
  - destruct d, c; simpl in H; try discriminate; reflexivity.
  - inversion H; subst; destruct c; reflexivity.
Qed.

Lemma one_copy_iff : forall s, one_copy s = true <-> one_intact_copy s.
Proof.
  intros s; unfold one_copy, one_intact_copy; rewrite orb_true_iff, !holds_iff; tauto.
Qed.

(* ---- a call that spares a role leaves it alone, however it ends --------------- *)

Lemma exec_spares : forall r o s s', damages r o = false -> exec o s = Some s' -> get s' r = get s r.
Proof.
  intros r o s s' Hd He; destruct o as [x|x|a b| |x|a b|x|x ok|ok|x]; simpl in *;
    try (inversion He; subst; reflexivity);
    try (destruct ok; inversion He; subst; try reflexivity; apply get_upd_other; assumption);
    try (destruct (is_some _); inversion He; subst; try reflexivity; apply get_upd_other; assumption);
    try (destruct (get s _); inversion He; subst; apply get_upd_other; assumption);
    try (inversion He; subst; apply get_upd_other; assumption);
    try (inversion He; subst; destruct r; try discriminate Hd; reflexivity).
Qed.

Lemma fault_spares : forall r m o s, damages r o = false -> get (fault_effect m o s) r = get s r.
Proof.
  intros r m o s Hd; destruct m; [reflexivity|]; destruct o; simpl in *; try reflexivity;
    try (apply get_upd_other; assumption).
  destruct (is_some _); [apply get_upd_other; assumption | reflexivity].
Qed.

Lemma run_spares : forall r l f k s,
  spares r l = true -> get (r_fs (run_until_fault f k l s)) r = get s r.
Proof.
  intros r l; induction l as [|o l IH]; intros f k s Hs; [reflexivity|].
  simpl in Hs; apply andb_true_iff in Hs; destruct Hs as [Ho Hl]; apply negb_true_iff in Ho.
  assert (Hstep : forall s', exec o s = Some s' ->
            get (r_fs (run_until_fault f (S k) l s')) r = get s r).
  { intros s' He; rewrite IH by assumption; eapply exec_spares; eassumption. }
  simpl; destruct f as [ft|].
  - destruct (Nat.eqb (at_k ft) k); simpl; [apply fault_spares; assumption|].
    destruct (exec o s) as [s'|] eqn:He; simpl; [apply Hstep; reflexivity | reflexivity].
  - destruct (exec o s) as [s'|] eqn:He; simpl; [apply Hstep; reflexivity | reflexivity].
Qed.

(* ---- the general lemma ----------------------------------------------------------- *)
(* A plan in which Copy2 Target Bak completes before the first call that can
   damage the target, and no later call writes to the backup, keeps one intact
   copy under any single fault (at any position, before or mid effect, of any
   kind) and under any natural failure. *)
Lemma backup_first_safe_run : forall pre post f k s,
  spares Target pre = true -> spares Bak post = true ->
  get s Target = Some Orig ->
  one_intact_copy (r_fs (run_until_fault f k (pre ++ Copy2 Target Bak :: post) s)).
Proof.
  induction pre as [|o pre IH]; intros post f k s Hpre Hpost Ht.
  - (* the copy itself *)
    destruct s as [t b o tm]; simpl in Ht; subst t.
    assert (Hdone : one_intact_copy
              (r_fs (run_until_fault f (S k) post (mkfs (Some Orig) (Some Orig) o tm)))).
    { right; rewrite run_spares by assumption; reflexivity. }
    simpl; destruct f as [ft|]; simpl.
    + destruct (Nat.eqb (at_k ft) k); simpl; [|exact Hdone].
      left; destruct (f_mode ft); reflexivity.
    + exact Hdone.
  - simpl in Hpre; apply andb_true_iff in Hpre; destruct Hpre as [Ho Hp]; apply negb_true_iff in Ho.
    assert (Hstep : forall s', exec o s = Some s' ->
              one_intact_copy (r_fs (run_until_fault f (S k) (pre ++ Copy2 Target Bak :: post) s'))).
    { intros s' He; apply IH; try assumption.
      rewrite (exec_spares Target o s s') by assumption; assumption. }
    simpl; destruct f as [ft|].
    + destruct (Nat.eqb (at_k ft) k); simpl.
      * left; rewrite fault_spares by assumption; assumption.
      * destruct (exec o s) as [s'|] eqn:He; simpl; [apply Hstep; reflexivity | left; assumption].
    + destruct (exec o s) as [s'|] eqn:He; simpl; [apply Hstep; reflexivity | left; assumption].
Qed.

Lemma backup_first_safe : forall l f k s,
  backup_first l -> get s Target = Some Orig ->
  one_intact_copy (r_fs (run_until_fault f k l s)).
Proof.
  intros l f k s (pre & post & -> & Hp & Hq) Ht; apply backup_first_safe_run; assumption.
Qed.

(* the backup prelude has the required shape *)
Lemma backup_ops_shape : forall s rest,
  backup_ops s ++ rest =
  (Exists Bak :: (if is_some (get s Bak) then [Remove Bak] else [])) ++ Copy2 Target Bak :: rest.
Proof.
  intros s rest; unfold backup_ops; destruct (is_some (get s Bak)); reflexivity.
Qed.

Lemma backup_prelude_spares_target : forall s,
  spares Target (Exists Bak :: (if is_some (get s Bak) then [Remove Bak] else [])) = true.
Proof. intros s; destruct (is_some (get s Bak)); reflexivity. Qed.

Lemma spares_app : forall r l1 l2, spares r (l1 ++ l2) = spares r l1 && spares r l2.
Proof. intros; unfold spares; apply forallb_app. Qed.

Lemma spares_repeat : forall r o n, damages r o = false -> spares r (repeat o n) = true.
Proof. intros r o n H; induction n; simpl; [reflexivity | rewrite H; assumption]. Qed.

(* serialisation into memory damages no file *)
Lemma render_ops_spare : forall r json n ok, spares r (render_ops json n ok) = true.
Proof.
  intros r json n ok; unfold render_ops; destruct (json && Nat.ltb 1 n); [|reflexivity].
  change (Render ok :: repeat (Render true) (n - 1)) with ([Render ok] ++ repeat (Render true) (n - 1)).
  rewrite spares_app, spares_repeat by reflexivity; reflexivity.
Qed.

Lemma backup_then_write_is_backup_first : forall s post,
  spares Bak post = true -> backup_first (backup_ops s ++ post).
Proof.
  intros s post H; eexists; eexists; split; [apply backup_ops_shape|].
  split; [apply backup_prelude_spares_target | assumption].
Qed.

Lemma backup_first_prefix : forall pre0 l,
  spares Target pre0 = true -> backup_first l -> backup_first (pre0 ++ l).
Proof.
  intros pre0 l H (pre & post & -> & Hp & Hq).
  exists (pre0 ++ pre), post; split; [rewrite <- app_assoc; reflexivity|].
  split; [rewrite spares_app, H, Hp; reflexivity | assumption].
Qed.

(* ---- run_plan, for plans without an exception handler -------------------------------- *)

Lemma drop_tmp_get : forall s r, role_eqb Tmp r = false -> get (drop_tmp s) r = get s r.
Proof. intros; unfold drop_tmp; apply get_upd_other; assumption. Qed.

Lemma one_intact_drop_tmp : forall s, one_intact_copy s -> one_intact_copy (drop_tmp s).
Proof. intros s [H|H]; [left|right]; rewrite drop_tmp_get by reflexivity; assumption. Qed.

Lemma run_only_looks : forall l f k s,
  forallb only_looks l = true ->
  r_fs (run_until_fault f k l s) = s /\ forallb only_looks (r_trace (run_until_fault f k l s)) = true.
Proof.
  induction l as [|o l IH]; intros f k s H; [split; reflexivity|].
  simpl in H; apply andb_true_iff in H; destruct H as [Ho Hl].
  assert (He : exec o s = Some s \/ exec o s = None).
  { destruct o as [x|x|a b| |x|a b|x|x ok|ok|x]; try discriminate Ho; [left; reflexivity|].
    destruct ok; [left | right]; reflexivity. }
  assert (Hf : forall m, fault_effect m o s = s).
  { intros m; destruct o; try discriminate Ho; destruct m; reflexivity. }
  simpl; destruct f as [ft|].
  - destruct (Nat.eqb (at_k ft) k); simpl.
    + rewrite Hf; split; [reflexivity | rewrite Ho; reflexivity].
    + destruct He as [He|He]; rewrite He; simpl.
      * destruct (IH (Some ft) (S k) s Hl) as [A B]; split; [exact A | rewrite Ho; exact B].
      * split; [reflexivity | rewrite Ho; reflexivity].
  - destruct He as [He|He]; rewrite He; simpl.
    + destruct (IH None (S k) s Hl) as [A B]; split; [exact A | rewrite Ho; exact B].
    + split; [reflexivity | rewrite Ho; reflexivity].
Qed.

(* ---- C17_one_copy_survives ------------------------------------------------------------- *)

(* yaml-set: finite up to the fault positions; positions beyond the plan never
   fire.  The second fault matters only where the restore path runs: elsewhere
   the computation does not look at it. *)
Ltac lr := vm_compute; first [left; reflexivity | right; reflexivity].
Ltac crush_k k := do 13 (destruct k as [|k]; [lr|]); lr.
Ltac crush_f2 f2 :=
  first [ lr
        | let k2 := fresh "k2" in let m2 := fresh "m2" in let kd2 := fresh "kd2" in
          destruct f2 as [[k2 m2 kd2]|]; [destruct m2, kd2; crush_k k2 | lr] ].
Ltac crush_k2 k f2 := do 13 (destruct k as [|k]; [crush_f2 f2|]); crush_f2 f2.

Lemma set_one_copy2 : forall json ok f f2 s,
  get s Target = Some Orig -> one_intact_copy (o_fs (save2 (CSet true json ok) f f2 s)).
Proof.
  intros json ok f f2 [t b o tm] Ht; simpl in Ht; subst t.
  destruct f as [[k m kd]|].
  - destruct json, ok, b as [c|], m, kd; unfold one_intact_copy; crush_k2 k f2.
  - destruct json, ok, b as [c|]; unfold one_intact_copy; crush_f2 f2.
Qed.

Lemma noh_one_copy : forall p f f2 s,
  p_guarded p = None -> forallb only_looks (p_validate p) = true ->
  backup_first (p_main p) -> get s Target = Some Orig ->
  one_intact_copy (o_fs (run_plan2 p f f2 s)).
Proof.
  intros p f f2 s Hg Hv Hb Ht; unfold run_plan2.
  destruct (run_only_looks (p_validate p) f 0 s Hv) as [Hfs _].
  assert (Hmain : forall k, one_intact_copy (drop_tmp (r_fs (run_until_fault f k (p_main p) s)))).
  { intro k; apply one_intact_drop_tmp, backup_first_safe; assumption. }
  destruct (r_stop (run_until_fault f 0 (p_validate p) s)) eqn:Hst; simpl.
  - destruct (p_refuse p); simpl; [rewrite Hfs; left; exact Ht|].
    rewrite Hfs, Hg.
    destruct (raised (r_stop (run_until_fault f (length (p_validate p)) (p_main p) s))); simpl; apply Hmain.
  - rewrite Hfs; left; exact Ht.
  - rewrite Hfs; left; exact Ht.
Qed.

Lemma one_copy_survives2 : forall c f f2 s,
  cfg_backup c = true -> get s Target = Some Orig -> one_intact_copy (o_fs (save2 c f f2 s)).
Proof.
  intros c f f2 s Hb Ht; destruct c as [backup json ok| |m backup json n ok|backup changed]; simpl in Hb.
  - subst backup; apply set_one_copy2; assumption.
  - discriminate.
  - destruct m; try discriminate; subst backup.
    unfold save2; apply noh_one_copy; try reflexivity; try assumption.
    simpl; apply backup_first_prefix; [apply render_ops_spare|].
    apply backup_then_write_is_backup_first; reflexivity.
  - apply andb_true_iff in Hb; destruct Hb; subst.
    unfold save2; apply noh_one_copy; try reflexivity; try assumption.
    simpl; apply backup_then_write_is_backup_first; reflexivity.
Qed.

Lemma one_copy_survives : forall c f s,
  cfg_backup c = true -> get s Target = Some Orig -> one_intact_copy (o_fs (save c f s)).
Proof. intros; unfold save; apply one_copy_survives2; assumption. Qed.

(* ---- C17_bak_is_preimage ---------------------------------------------------------------- *)

Lemma run_nofault_app : forall l1 l2 k s,
  r_stop (run_until_fault None k l1 s) = Completed ->
  r_fs (run_until_fault None k (l1 ++ l2) s) =
    r_fs (run_until_fault None (k + length l1) l2 (r_fs (run_until_fault None k l1 s)))
  /\ r_stop (run_until_fault None k (l1 ++ l2) s) =
    r_stop (run_until_fault None (k + length l1) l2 (r_fs (run_until_fault None k l1 s))).
Proof.
  induction l1 as [|o l1 IH]; intros l2 k s H; simpl.
  - rewrite Nat.add_0_r; split; reflexivity.
  - simpl in H; destruct (exec o s) as [s'|]; simpl in *; [|discriminate].
    replace (k + S (length l1)) with (S k + length l1) by lia. apply IH; assumption.
Qed.

Lemma run_render_ops : forall json n k s,
  let r := run_until_fault None k (render_ops json n true) s in
  r_stop r = Completed /\ r_fs r = s /\ forallb only_looks (r_trace r) = true.
Proof.
  intros json n k s; unfold render_ops; destruct (json && Nat.ltb 1 n).
  - simpl. generalize (n - 1) as j; intro j; generalize (S k); induction j as [|j IH]; intro k'; simpl.
    + repeat split.
    + destruct (IH (S k')) as (A & B & C); repeat split; assumption.
  - simpl; repeat split.
Qed.

(* a serialiser that raises by itself stops the run at once *)
Lemma run_render_fails : forall json n rest k s,
  run_until_fault None k (render_ops json n false ++ rest) s = mkrun s [Render false] (Failed (Render false)).
Proof. intros json n rest k s; unfold render_ops; destruct (json && Nat.ltb 1 n); reflexivity. Qed.

Lemma run_plan_nofault_ok : forall p f2 s,
  p_refuse p = false -> forallb only_looks (p_validate p) = true ->
  r_stop (run_until_fault None 0 (p_validate p) s) = Completed ->
  r_stop (run_until_fault None (length (p_validate p)) (p_main p) s) = Completed ->
  o_status (run_plan2 p None f2 s) = SOk /\
  o_fs (run_plan2 p None f2 s) = drop_tmp (r_fs (run_until_fault None (length (p_validate p)) (p_main p) s)).
Proof.
  intros p f2 s Hr Hv Hc Hm; unfold run_plan2.
  destruct (run_only_looks (p_validate p) None 0 s Hv) as [Hfs _].
  rewrite Hc, Hr, Hfs, Hm; split; reflexivity.
Qed.

Lemma main_shape : forall (pre : list op) x post, pre ++ x :: post = (pre ++ [x]) ++ post.
Proof. intros; rewrite <- app_assoc; reflexivity. Qed.

Lemma bak_is_preimage_holds : forall c s,
  cfg_backup c = true -> cfg_dump_ok c = true -> get s Target = Some Orig ->
  o_status (save c None s) = SOk /\ bak_is_preimage (o_fs (save c None s)).
Proof.
  intros c [t b o tm] Hb Hok Ht; simpl in Ht; subst t.
  destruct c as [backup json ok| |m backup json n ok|backup changed]; simpl in Hb, Hok.
  - subst backup ok; destruct json, b as [c|]; vm_compute; auto.
  - discriminate.
  - destruct m; try discriminate; subst backup ok.
    set (s0 := mkfs (Some Orig) b o tm).
    set (rest := backup_ops s0 ++ [OpenTrunc Target; WriteText Target]).
    destruct (run_render_ops json n 1 s0) as (Hst & Hfs & _).
    destruct (run_nofault_app _ rest 1 s0 Hst) as [A B]; rewrite Hfs in A, B.
    assert (Hrest : forall k, r_stop (run_until_fault None k rest s0) = Completed
                   /\ r_fs (run_until_fault None k rest s0) = mkfs (Some New) (Some Orig) o tm).
    { intro k; unfold rest, s0; destruct b; vm_compute; split; reflexivity. }
    destruct (Hrest (1 + length (render_ops json n true))) as [C D].
    destruct (run_plan_nofault_ok (plan_of (CMerge ToOverwrite true json n true) s0) None s0) as [E F];
      [reflexivity | reflexivity | reflexivity | | ].
    + change (r_stop (run_until_fault None 1 (render_ops json n true ++ rest) s0) = Completed).
      rewrite B; exact C.
    + unfold save, save2; split; [exact E|]. rewrite F.
      change (bak_is_preimage (drop_tmp (r_fs (run_until_fault None 1 (render_ops json n true ++ rest) s0)))).
      rewrite A, D; split; reflexivity.
  - apply andb_true_iff in Hb; destruct Hb; subst.
    destruct b as [c|]; vm_compute; auto.
Qed.

(* ---- C17_output_never_replaces ------------------------------------------------------------ *)

Lemma merge_validate_only_looks : forall i s, forallb only_looks (p_validate (plan_of (merge_cfg i) s)) = true.
Proof. intros i s; unfold merge_cfg; destruct (m_mode i); reflexivity. Qed.

Lemma run_plan_refused : forall p f s,
  p_refuse p = true -> forallb only_looks (p_validate p) = true ->
  o_fs (run_plan p f s) = s /\ o_status (run_plan p f s) <> SOk
  /\ forallb only_looks (o_trace (run_plan p f s)) = true.
Proof.
  intros p f s Hr Hv; unfold run_plan, run_plan2.
  destruct (run_only_looks (p_validate p) f 0 s Hv) as [Hfs Htr].
  destruct (r_stop (run_until_fault f 0 (p_validate p) s)); rewrite ?Hr; simpl;
    (split; [exact Hfs | split; [discriminate | exact Htr]]).
Qed.

Lemma output_never_replaces : forall i f s,
  m_mode i = ToOutput -> get s Output <> None ->
  let o := merge_main i f s in
  o_fs o = s /\ failed (o_status o) /\ forallb only_looks (o_trace o) = true.
Proof.
  intros i f s Hm Hex; unfold merge_main.
  destruct (m_usage_ok i); [simpl negb; cbv iota zeta | simpl; split; [reflexivity | split; [discriminate | reflexivity]]].
  set (p := plan_of (merge_cfg i) s).
  assert (Hr : p_refuse p = true).
  { unfold p, merge_cfg; rewrite Hm; simpl in *. destruct (f_output s); [reflexivity | contradiction]. }
  set (pv := mkplan (p_validate p) (p_refuse p || negb (m_args_ok i)) [] None []).
  assert (Hv : forallb only_looks (p_validate pv) = true) by apply merge_validate_only_looks.
  assert (Hrv : p_refuse pv = true) by (simpl; rewrite Hr; reflexivity).
  destruct (run_plan_refused pv f s Hrv Hv) as (A & B & C).
  destruct (o_status (run_plan pv f s)) eqn:Hst; [contradiction B; reflexivity | |];
    (split; [exact A | split; [rewrite Hst; discriminate | exact C]]).
Qed.

(* at the level of the save sequence alone, whatever main() does around it *)
Lemma output_kept_by_save : forall backup json n ok f s,
  get s Output <> None -> output_kept s (o_fs (save (CMerge ToOutput backup json n ok) f s)).
Proof.
  intros backup json n ok f s Hex; unfold save, save2; change (run_plan2 ?p f None s) with (run_plan p f s).
  destruct (run_plan_refused (plan_of (CMerge ToOutput backup json n ok) s) f s) as (A & _ & _);
    [simpl in *; destruct (f_output s); [reflexivity | contradiction] | reflexivity |].
  unfold output_kept; rewrite A; reflexivity.
Qed.

(* ---- C17_prewrite_unchanged ------------------------------------------------------------------ *)

Lemma set_prewrite : forall i f s st,
  set_pre i = Some st -> set_main i f s = mkout s [] st.
Proof. intros i f s st H; unfold set_main, set_main2; rewrite H; reflexivity. Qed.

(* without an injected fault, the save of yaml-set always succeeds once the
   file could be loaded and the serialiser accepts the document: so a non-zero
   status can only come from a pre-write step *)
Lemma set_save_nofault_ok : forall c s,
  (c = CSetStream \/ exists b j, c = CSet b j true) -> get s Target <> None ->
  o_status (save c None s) = SOk.
Proof.
  intros c [t b o tm] [->|(bk & j & ->)] Ht; [reflexivity|].
  simpl in Ht; destruct t as [ct|]; [|contradiction].
  destruct bk, j, b; reflexivity.
Qed.

Lemma set_failure_is_prewrite : forall i s,
  s_dump_ok i = true -> get s Target <> None ->
  failed (o_status (set_main i None s)) ->
  untouched s (o_fs (set_main i None s)) /\ o_trace (set_main i None s) = [].
Proof.
  intros i s Hok Ht Hf; unfold set_main, set_main2 in *.
  destruct (set_pre i) as [st|]; [split; reflexivity|].
  rewrite Hok, andb_false_r in *.
  exfalso; apply Hf; apply set_save_nofault_ok; [|assumption].
  unfold set_cfg; rewrite Hok; destruct (s_stream i); [left; reflexivity | right; eauto].
Qed.

(* the pre-write verdict of yaml-set is never "ok" *)
Lemma check_loop_not_ok : forall l, check_loop l <> Some SOk.
Proof. induction l as [|[] l IH]; simpl; try discriminate; exact IH. Qed.

Lemma first_some_in : forall (A : Type) (l : list (option A)) x, first_some l = Some x -> In (Some x) l.
Proof.
  intros A l x; induction l as [|a l IH]; simpl; [discriminate|].
  destruct a as [a|]; intro H; [left; exact H | right; apply IH; exact H].
Qed.

Lemma set_pre_not_ok : forall i, set_pre i <> Some SOk.
Proof.
  intros i H; unfold set_pre in H; apply first_some_in in H; simpl in H.
  destruct H as [H|[H|[H|[H|[H|[H|[H|[H|[]]]]]]]]].
  - destruct (s_usage_ok i); discriminate.
  - destruct (s_args_ok i); discriminate.
  - destruct (s_value_file i) as [[|]|]; discriminate.
  - destruct (s_loaded i); discriminate.
  - destruct (s_get i); try destruct (s_must_exist i); discriminate.
  - destruct (s_check i) as [l|]; [|discriminate]. exact (check_loop_not_ok _ H).
  - destruct (s_saveto i) as [r|]; [|discriminate].
    destruct (Nat.ltb 1 _); [discriminate|]; destruct (Nat.eqb _ 0); [discriminate|]; destruct r; discriminate.
  - unfold apply_phase in H; destruct (s_action i), (s_apply i); try discriminate; destruct (s_whole_doc i); discriminate.
Qed.

(* EVERY non-zero end of yaml-set in which no I/O call fails -- a pre-write
   step, or a document the serialiser refuses -- leaves the target and the
   output name as they were; no backup file has appeared (the restore path
   removes the one just made; a stale one goes with it). *)
Lemma set_failure_keeps_target : forall i s,
  get s Target = Some Orig -> start_ok s ->
  failed (o_status (set_main i None s)) ->
  target_kept_nothing_appeared s (o_fs (set_main i None s)).
Proof.
  intros i [t b o tm] Ht Hs Hf; simpl in Ht; unfold start_ok in Hs; simpl in Hs; subst t tm.
  unfold set_main, set_main2 in *.
  destruct (set_pre i) as [st|]; [repeat split; left; reflexivity|].
  destruct (s_stream i) eqn:Hstr, (s_dump_ok i) eqn:Hok; simpl andb in *; cbv iota in *.
  - exfalso; apply Hf; unfold set_cfg; rewrite Hstr; reflexivity.
  - repeat split; left; reflexivity.
  - exfalso; apply Hf; unfold set_cfg; rewrite Hstr, Hok.
    destruct (s_backup i), (s_json i), b; reflexivity.
  - unfold set_cfg in *; rewrite Hstr, Hok in *.
    destruct (s_backup i), (s_json i), b as [c|]; vm_compute; repeat split; auto.
Qed.

(* a document JSON cannot represent: found by json.dumps before any file is
   touched, whatever fault is armed *)
Lemma set_unserialisable_json_untouched : forall i f f2 s,
  s_dump_ok i = false -> s_json i = true -> start_ok s ->
  let o := set_main2 i f f2 s in
  untouched s (o_fs o) /\ failed (o_status o) /\ forallb only_looks (o_trace o) = true.
Proof.
  intros i f f2 [t b o tm] Hok Hj Hs; unfold start_ok in Hs; simpl in Hs; subst tm.
  unfold set_main2; destruct (set_pre i) as [st|] eqn:Hp.
  { simpl; repeat split; intro E; subst st; exact (set_pre_not_ok i Hp). }
  rewrite Hok; destruct (s_stream i) eqn:Hstr; simpl andb; cbv iota.
  { simpl; repeat split; discriminate. }
  unfold set_cfg; rewrite Hstr, Hok, Hj.
  destruct f as [[k m kd]|].
  - destruct (s_backup i), b as [c|], k as [|k], m; vm_compute; repeat split; try discriminate; reflexivity.
  - destruct (s_backup i), b as [c|]; vm_compute; repeat split; try discriminate; reflexivity.
Qed.

Lemma run_plan_validate_only : forall pv f s,
  p_main pv = [] -> forallb only_looks (p_validate pv) = true -> start_ok s ->
  untouched s (o_fs (run_plan pv f s)) /\ forallb only_looks (o_trace (run_plan pv f s)) = true.
Proof.
  intros [v r m g h] f s Hm Hv Hs; simpl in Hm, Hv; subst m; unfold run_plan, run_plan2; simpl.
  destruct (run_only_looks v f 0 s Hv) as [A B].
  destruct (r_stop (run_until_fault f 0 v s)); simpl; try (split; assumption).
  destruct r; simpl; [split; assumption|].
  rewrite A, app_nil_r; split; [apply upd_tmp_none_id; exact Hs | exact B].
Qed.

Lemma merge_prewrite : forall i f s st,
  start_ok s -> merge_pre i = Some st ->
  let o := merge_main i f s in
  untouched s (o_fs o) /\ failed (o_status o) /\ forallb only_looks (o_trace o) = true.
Proof.
  intros i f s st Hs Hp; unfold merge_main.
  destruct (m_usage_ok i); [simpl negb; cbv iota zeta | simpl; split; [reflexivity | split; [discriminate | reflexivity]]].
  set (p := plan_of (merge_cfg i) s).
  set (pv := mkplan (p_validate p) (p_refuse p || negb (m_args_ok i)) [] None []).
  assert (Hv : forallb only_looks (p_validate pv) = true) by apply merge_validate_only_looks.
  assert (Hpv : untouched s (o_fs (run_plan pv f s)) /\ forallb only_looks (o_trace (run_plan pv f s)) = true).
  { apply run_plan_validate_only; [reflexivity | exact Hv | exact Hs]. }
  destruct Hpv as [A B].
  destruct (o_status (run_plan pv f s)) eqn:Hst.
  - rewrite Hp; simpl; split; [exact A | split; [|exact B]].
    (* the pre-write verdict is never "ok" *)
    unfold merge_pre in Hp; destruct (merge_exit_state i) as [[|n]|]; try destruct (m_prepare i);
      inversion Hp; discriminate.
  - split; [exact A | split; [rewrite Hst; discriminate | exact B]].
  - split; [exact A | split; [rewrite Hst; discriminate | exact B]].
Qed.

(* without an injected fault a failing yaml-merge changed nothing, provided a
   requested backup has something to copy *)
Lemma merge_write_nofault_completes : forall m backup json n s,
  (m = ToOverwrite -> backup = true -> get s Target <> None) ->
  let p := plan_of (CMerge m backup json n true) s in
  r_stop (run_until_fault None (length (p_validate p)) (p_main p) s) = Completed.
Proof.
  intros m backup json n [t b o tm] Hbk; destruct m; simpl p_validate; simpl p_main; simpl length.
  - reflexivity.
  - destruct (run_render_ops json n 1 (mkfs t b o tm)) as (Hst & Hfs & _).
    destruct (run_nofault_app _ [OpenTrunc Output; WriteText Output] 1 _ Hst) as [_ B].
    rewrite B, Hfs; reflexivity.
  - destruct (run_render_ops json n 1 (mkfs t b o tm)) as (Hst & Hfs & _).
    destruct (run_nofault_app _ (opt_backup backup (mkfs t b o tm) ++ [OpenTrunc Target; WriteText Target]) 1 _ Hst)
      as [_ B].
    rewrite B, Hfs.
    destruct backup; [|reflexivity].
    specialize (Hbk eq_refl eq_refl); simpl in Hbk; destruct t; [|contradiction].
    destruct b; reflexivity.
Qed.

(* a result the serialiser refuses: the run stops at the first rendering call,
   before the backup and before the output file is opened *)
Lemma merge_render_fails_untouched : forall m backup json n f2 s,
  start_ok s -> is_stdout m = false ->
  let o := run_plan2 (plan_of (CMerge m backup json n false) s) None f2 s in
  untouched s (o_fs o) /\ failed (o_status o) /\ forallb only_looks (o_trace o) = true.
Proof.
  intros m backup json n f2 [t b o tm] Hs Hm; unfold start_ok in Hs; simpl in Hs; subst tm.
  destruct m; [discriminate Hm | |]; unfold run_plan2; simpl p_validate; simpl p_refuse; simpl p_main;
    simpl p_guarded; simpl length; simpl run_until_fault; cbv iota beta.
  - destruct (is_some o || backup); simpl; [repeat split; discriminate|].
    rewrite run_render_fails; simpl; repeat split; discriminate.
  - rewrite run_render_fails; simpl; repeat split; discriminate.
Qed.

Lemma merge_failure_is_prewrite : forall i s,
  start_ok s ->
  (m_mode i = ToOverwrite -> m_backup i = true -> get s Target <> None) ->
  failed (o_status (merge_main i None s)) ->
  untouched s (o_fs (merge_main i None s)) /\ forallb only_looks (o_trace (merge_main i None s)) = true.
Proof.
  intros i s Hs Hbk Hf.
  destruct (merge_pre i) as [st|] eqn:Hp.
  { destruct (merge_prewrite i None s st Hs Hp) as (A & _ & C); split; assumption. }
  unfold merge_main in *.
  destruct (m_usage_ok i); [simpl negb in *; cbv iota zeta in * | simpl; split; reflexivity].
  set (p := plan_of (merge_cfg i) s) in *.
  set (pv := mkplan (p_validate p) (p_refuse p || negb (m_args_ok i)) [] None []) in *.
  assert (Hv : forallb only_looks (p_validate pv) = true) by apply merge_validate_only_looks.
  assert (Hpv : untouched s (o_fs (run_plan pv None s)) /\ forallb only_looks (o_trace (run_plan pv None s)) = true).
  { apply run_plan_validate_only; [reflexivity | exact Hv | exact Hs]. }
  destruct (o_status (run_plan pv None s)) eqn:Hst; [|exact Hpv|exact Hpv].
  rewrite Hp in *.
  destruct (is_stdout (m_mode i)) eqn:Hso, (m_dump_ok i) eqn:Hok; simpl andb in *; cbv iota in *;
    try exact Hpv.
  - (* stdout, serialiser fine *)
    exfalso; apply Hf; clear Hf Hpv Hv.
    subst pv p; unfold merge_cfg, run_plan, run_plan2 in *.
    destruct (m_mode i); try discriminate Hso; simpl in *.
    destruct (m_backup i); [discriminate Hst | reflexivity].
  - (* a file, serialiser fine: the write completes *)
    exfalso; apply Hf; clear Hf.
    assert (Hnr : p_refuse p = false).
    { destruct (p_refuse p) eqn:E; [|reflexivity].
      destruct (run_plan_refused pv None s) as (_ & B & _);
        [reflexivity | exact Hv |].
      contradiction B. }
    destruct (run_plan_nofault_ok p None s Hnr) as [E _];
      [apply merge_validate_only_looks | | | exact E].
    + unfold p, merge_cfg; destruct (m_mode i); reflexivity.
    + unfold p, merge_cfg; rewrite Hok; apply merge_write_nofault_completes; exact Hbk.
  - (* a file, the serialiser refuses the result *)
    unfold p, merge_cfg, run_plan; rewrite Hok.
    destruct (merge_render_fails_untouched (m_mode i) (m_backup i) (m_json i) (m_outdocs i) None s Hs Hso)
      as (A & _ & C); split; assumption.
Qed.

(* ... whatever fault is armed *)
Lemma merge_unserialisable_untouched : forall i s,
  start_ok s -> m_dump_ok i = false ->
  let o := merge_main i None s in
  untouched s (o_fs o) /\ failed (o_status o) /\ forallb only_looks (o_trace o) = true.
Proof.
  intros i s Hs Hok.
  destruct (merge_pre i) as [st|] eqn:Hp; [exact (merge_prewrite i None s st Hs Hp)|].
  unfold merge_main.
  destruct (m_usage_ok i); [simpl negb; cbv iota zeta | simpl; split; [reflexivity | split; [discriminate | reflexivity]]].
  set (p := plan_of (merge_cfg i) s).
  set (pv := mkplan (p_validate p) (p_refuse p || negb (m_args_ok i)) [] None []).
  assert (Hv : forallb only_looks (p_validate pv) = true) by apply merge_validate_only_looks.
  assert (Hpv : untouched s (o_fs (run_plan pv None s)) /\ forallb only_looks (o_trace (run_plan pv None s)) = true).
  { apply run_plan_validate_only; [reflexivity | exact Hv | exact Hs]. }
  destruct Hpv as [A B].
  destruct (o_status (run_plan pv None s)) eqn:Hst;
    [| split; [exact A | split; [rewrite Hst; discriminate | exact B]]
     | split; [exact A | split; [rewrite Hst; discriminate | exact B]]].
  rewrite Hp, Hok; destruct (is_stdout (m_mode i)) eqn:Hso; simpl andb; cbv iota.
  - simpl; split; [exact A | split; [discriminate | exact B]].
  - unfold p, merge_cfg, run_plan; rewrite Hok.
    apply merge_render_fails_untouched; assumption.
Qed.

(* ---- the restore path of yaml-set's YAML save ------------------------------------------- *)

(* the dump step fails -- by itself, or by an injected failure of any mode and any
   Exception class -- and no call of the restore path fails: the target holds
   the complete original bytes again, the needless backup is gone, the run ends
   non-zero.  For every start state, with or without --backup. *)
Lemma dump_failure_restores : forall backup ok f s,
  get s Target = Some Orig -> dump_step_fails backup ok f s ->
  let o := save (CSet backup false ok) f s in
  get (o_fs o) Target = Some Orig /\ failed (o_status o)
  /\ get (o_fs o) Output = get s Output
  /\ get (o_fs o) Bak = (if backup then None else get s Bak)
  /\ get (o_fs o) Tmp = None.
Proof.
  intros backup ok f [t b o tm] Ht H; simpl in Ht; subst t.
  destruct H as [[-> ->] | ([k m kd] & -> & Hk & Hex)].
  - destruct backup, b as [c|]; vm_compute; repeat split; discriminate.
  - unfold is_exception in Hex; simpl in Hk, Hex.
    destruct backup, b as [c|]; vm_compute in Hk; subst k;
      destruct ok, m, kd; try (exfalso; apply Hex; reflexivity);
      vm_compute; repeat split; discriminate.
Qed.

(* the status of such a run: 3 through log.critical for an AssertionError, the
   traceback's 1 for everything else *)
Lemma dump_failure_status : forall backup ok f s,
  get s Target = Some Orig -> dump_step_fails backup ok f s ->
  o_status (save (CSet backup false ok) f s) =
    match f with
    | Some ft => match f_kind ft with FAssert => SExit 3 | _ => SCrash end
    | None => SCrash
    end.
Proof.
  intros backup ok f [t b o tm] Ht H; simpl in Ht; subst t.
  destruct H as [[-> ->] | ([k m kd] & -> & Hk & Hex)].
  - destruct backup, b as [c|]; reflexivity.
  - unfold is_exception in Hex; simpl in Hk, Hex.
    destruct backup, b as [c|]; vm_compute in Hk; subst k;
      destruct ok, m, kd; try (exfalso; apply Hex; reflexivity); reflexivity.
Qed.

(* without --backup, ONE failing call loses the file only when it is the
   truncating open itself (raising after it truncated), or the dump interrupted
   by something `except Exception` does not catch *)
Lemma no_backup_single_fault_losses : forall f s,
  get s Target = Some Orig ->
  failed (o_status (save (CSet false false true) f s)) ->
  ~ one_intact_copy (o_fs (save (CSet false false true) f s)) ->
  exists ft, f = Some ft /\
    ((at_k ft = 3 /\ f_mode ft = Mid) \/ (at_k ft = 4 /\ f_kind ft = FInterrupt)).
Proof.
  intros f [t b o tm] Ht Hf Hn; simpl in Ht; subst t.
  destruct f as [[k m kd]|]; [|exfalso; apply Hf; reflexivity].
  do 7 (destruct k as [|k];
        [ destruct m, kd;
          first [ exfalso; apply Hn; left; reflexivity
                | exfalso; apply Hf; reflexivity
                | eexists; split; [reflexivity|]; simpl; solve [auto] ] |]).
  exfalso; apply Hf; reflexivity.
Qed.

(* ---- witnesses and the finite cross-check ------------------------------------------------ *)

Lemma merge_backup_of_nothing_witness :
  exists (i : merge_in) (s : fs),
    start_ok s /\ failed (o_status (merge_main i None s)) /\ o_fs (merge_main i None s) <> s.
Proof.
  exists (mkmerge true true ToOverwrite true false [mkmfile true 1 (MCode 0); mkmfile true 1 (MCode 0)]
                  None true (MCode 0) ROk 1 true), (init_fs false true false).
  split; [reflexivity|]; split; vm_compute; discriminate.
Qed.

(* yaml-set without --backup: the truncating open itself fails after truncating
   (it is outside the try block): the file is lost by one failing call *)
Lemma no_backup_no_promise_witness :
  exists (c : cfg) (f : fault) (s : fs),
    cfg_backup c = false /\ get s Target = Some Orig /\ ~ one_intact_copy (o_fs (save c (Some f) s)).
Proof.
  exists (CSet false false true), (mkfault 3 Mid FOs), (init_fs true false false).
  split; [reflexivity|]; split; [reflexivity|].
  vm_compute; intros [H|H]; discriminate H.
Qed.

(* a failed dump alone no longer loses it (dump_failure_restores); a second
   failure inside the restore path does -- whether the first one was injected
   or the dumper's own *)
Lemma no_backup_second_fault_witness :
  exists (f f2 : fault) (s : fs),
    get s Target = Some Orig /\ dump_step_fails false true (Some f) s
    /\ ~ one_intact_copy (o_fs (save2 (CSet false false true) (Some f) (Some f2) s))
    /\ ~ one_intact_copy (o_fs (save (CSet false false false) (Some f2) s)).
Proof.
  exists (mkfault 4 Mid FOther), (mkfault 6 Mid FOs), (init_fs true false false).
  split; [reflexivity|]; split.
  { right; eexists; split; [reflexivity|]; split; [reflexivity | discriminate]. }
  split; vm_compute; intros [H|H]; discriminate H.
Qed.

Definition all_bool := [true; false].
Definition all_kinds := [FOs; FAssert; FOther; FInterrupt].
Definition all_faults (n : nat) : list (option fault) :=
  None :: flat_map (fun k => flat_map (fun m => map (fun kd => Some (mkfault k m kd)) all_kinds) [Before; Mid]) (seq 0 n).
Definition finite_domain_check : bool :=
  forallb (fun json => forallb (fun ok => forallb (fun stale => forallb (fun f =>
     forallb (fun f2 => one_copy (o_fs (save2 (CSet true json ok) f f2 (init_fs true stale false)))) (all_faults 16)
     && one_copy (o_fs (save (CRotate true true) f (init_fs true stale false)))
     && forallb (fun n => forallb (fun j =>
           one_copy (o_fs (save (CMerge ToOverwrite true j n ok) f (init_fs true stale false)))) all_bool) [0; 1; 2; 3])
     (all_faults 16)) all_bool) all_bool) all_bool.
Lemma finite_domain_check_true : finite_domain_check = true.
Proof. vm_compute. reflexivity. Qed.
