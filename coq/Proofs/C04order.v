(* C04: the guard no_dup_no_disorder follows from "the gathered coordinates
   locate distinct nodes, in document order within each parent". *)
From Coq Require Import List ZArith NArith Bool Lia Arith.
From YP Require Import Outcome PyStr PyVal Doc Searches Mutate C04spec C04lists C04delete.
Import ListNotations.


(* ---- a well-formed document holds every container identity at most once ---- *)
Lemma objs_in_coids : forall o d n, In n (objs o d) -> In o (coids d).
Proof.
  intros o d. induction d using node_ind'; intros n Hn; simpl in Hn.
  - contradiction.
  - apply in_app_or in Hn. destruct Hn as [Hn|Hn].
    + destruct (N.eqb (oid i) o) eqn:E; [|contradiction]. apply N.eqb_eq in E. simpl. auto.
    + apply in_flat_map in Hn. destruct Hn as [kv [Hkv Hn]]. simpl. right.
      apply in_flat_map. exists kv. split; auto.
      rewrite Forall_forall in H. eapply (proj2 (H kv Hkv)); eauto.
  - apply in_app_or in Hn. destruct Hn as [Hn|Hn].
    + destruct (N.eqb (oid i) o) eqn:E; [|contradiction]. apply N.eqb_eq in E. simpl. auto.
    + apply in_flat_map in Hn. destruct Hn as [c [Hc Hn]]. simpl. right.
      apply in_flat_map. exists c. split; auto.
      rewrite Forall_forall in H. eapply (H c Hc); eauto.
  - destruct (N.eqb (oid i) o) eqn:E; [|contradiction]. apply N.eqb_eq in E. simpl. auto.
Qed.

Lemma NoDup_app_disj : forall A (l1 l2 : list A) x, NoDup (l1 ++ l2) -> In x l1 -> In x l2 -> False.
Proof.
  induction l1 as [|y r IH]; intros l2 x H H1 H2; simpl in *; [contradiction|].
  inversion H; subst. destruct H1 as [->|H1].
  - apply H4. apply in_or_app. auto.
  - eapply IH; eauto.
Qed.

Lemma objs_flat_le1 : forall A (f : A -> node) o l,
  Forall (fun x => NoDup (coids (f x)) -> (length (objs o (f x)) <= 1)%nat) l ->
  NoDup (flat_map (fun x => coids (f x)) l) ->
  (length (flat_map (fun x => objs o (f x)) l) <= 1)%nat.
Proof.
  intros A f o l. induction l as [|x r IH]; intros HF Hnd; simpl; [lia|].
  inversion HF; subst. simpl in Hnd.
  pose proof (NoDup_app_l _ _ _ Hnd) as Hx. pose proof (NoDup_app_r _ _ _ Hnd) as Hr.
  specialize (H1 Hx). specialize (IH H2 Hr).
  rewrite app_length.
  destruct (objs o (f x)) as [|n0 t0] eqn:E0; simpl in *; [lia|].
  destruct (flat_map (fun x0 => objs o (f x0)) r) as [|n1 t1] eqn:E1; simpl in *; [lia|].
  exfalso. eapply (NoDup_app_disj _ _ _ o Hnd).
  - eapply objs_in_coids. rewrite E0. left; reflexivity.
  - assert (Hin : In n1 (flat_map (fun x0 => objs o (f x0)) r)) by (rewrite E1; left; reflexivity).
    apply in_flat_map in Hin. destruct Hin as [y [Hy Hn1]].
    apply in_flat_map. exists y. split; auto. eapply objs_in_coids; eauto.
Qed.

Lemma objs_le1 : forall o d, wf_doc d -> (length (objs o d) <= 1)%nat.
Proof.
  unfold wf_doc. intros o d. induction d using node_ind'; intros Hwf; simpl.
  - lia.
  - simpl in Hwf. inversion Hwf; subst.
    assert (Hrest : (length (flat_map (fun kv => objs o (snd kv)) kvs) <= 1)%nat).
    { apply (objs_flat_le1 _ (fun kv : node * node => snd kv)); auto.
      rewrite Forall_forall in *. intros kv Hkv. apply (proj2 (H kv Hkv)). }
    rewrite app_length. destruct (N.eqb (oid i) o) eqn:E; simpl; [|exact Hrest].
    apply N.eqb_eq in E. subst o.
    destruct (flat_map (fun kv => objs (oid i) (snd kv)) kvs) as [|n1 t1] eqn:E1; simpl; [lia|].
    exfalso. apply H2.
    assert (Hin : In n1 (flat_map (fun kv => objs (oid i) (snd kv)) kvs)) by (rewrite E1; left; reflexivity).
    apply in_flat_map in Hin. destruct Hin as [y [Hy Hn1]].
    apply in_flat_map. exists y. split; auto. eapply objs_in_coids; eauto.
  - simpl in Hwf. inversion Hwf; subst.
    assert (Hrest : (length (flat_map (objs o) els) <= 1)%nat).
    { apply (objs_flat_le1 _ (fun x : node => x)); auto. }
    rewrite app_length. destruct (N.eqb (oid i) o) eqn:E; simpl; [|exact Hrest].
    apply N.eqb_eq in E. subst o.
    destruct (flat_map (objs (oid i)) els) as [|n1 t1] eqn:E1; simpl; [lia|].
    exfalso. apply H2.
    assert (Hin : In n1 (flat_map (objs (oid i)) els)) by (rewrite E1; left; reflexivity).
    apply in_flat_map in Hin. destruct Hin as [y [Hy Hn1]].
    apply in_flat_map. exists y. split; auto. eapply objs_in_coids; eauto.
  - destruct (N.eqb (oid i) o); simpl; lia.
Qed.

(* ---- ordered_from over an appended list ---- *)
Lemma ordered_from_app : forall d l1 l2 T,
  ordered_from d T (l1 ++ l2) = ordered_from d T l1 && ordered_from d (acc_targets d T l1) l2.
Proof.
  intros d l1. induction l1 as [|[po r] rest IH]; intros l2 T; simpl; [reflexivity|].
  rewrite IH. rewrite andb_assoc. reflexivity.
Qed.

(* membership in the targets of a list of coordinates *)
Lemma inT_targets : forall d ps o k,
  inT (targets d ps) o k = true ->
  exists q, In q ps /\ target_of d (fst q) (snd q) = Some (o, k).
Proof.
  intros d ps. induction ps as [|[po r] rest IH]; intros o k H; simpl in H.
  - discriminate.
  - destruct (target_of d po r) as [[o1 i1]|] eqn:E.
    + unfold inT in H. simpl in H. apply orb_true_iff in H. destruct H as [H|H].
      * apply andb_true_iff in H. destruct H as [H1 H2].
        apply N.eqb_eq in H1. apply Nat.eqb_eq in H2. simpl in *. subst.
        exists (po, r). split; [left; reflexivity|exact E].
      * destruct (IH o k H) as [q [Hq1 Hq2]]. exists q. split; [right|]; auto.
    + destruct (IH o k H) as [q [Hq1 Hq2]]. exists q. split; [right|]; auto.
Qed.

(* the step guard from the pairwise order *)
Lemma step_ok_from_order : forall d po r o i rest,
  wf_doc d ->
  target_of d po r = Some (o, i) ->
  forallb (later_ok d o i (neg_index d po r)) rest = true ->
  step_ok d (acc_targets d [] (rev rest)) po r = true.
Proof.
  intros d po r o i rest Hwf Ht Hall.
  assert (Hfree : forall k, inT (acc_targets d [] (rev rest)) o k = true -> (i < k)%nat /\ neg_index d po r = false).
  { intros k Hk. rewrite acc_targets_inT in Hk. simpl in Hk. rewrite orb_false_r in Hk.
    destruct (inT_targets _ _ _ _ Hk) as [q [Hq1 Hq2]].
    apply in_rev in Hq1. rewrite forallb_forall in Hall. specialize (Hall q Hq1).
    unfold later_ok in Hall. rewrite Hq2 in Hall. rewrite N.eqb_refl in Hall. simpl in Hall.
    apply andb_true_iff in Hall. destruct Hall as [A B]. apply Nat.ltb_lt in A.
    apply negb_true_iff in B. auto. }
  assert (Hnot : forall k, (k <= i)%nat -> negb (inT (acc_targets d [] (rev rest)) o k) = true).
  { intros k Hk. apply negb_true_iff. destruct (inT _ o k) eqn:E; auto.
    destruct (Hfree k E). lia. }
  unfold target_of in Ht. destruct po as [o0|]; [|discriminate].
  unfold step_ok.
  pose proof (objs_le1 o0 d Hwf) as Hle.
  destruct (objs o0 d) as [|n0 [|n1 t]] eqn:Eo; [discriminate| |simpl in Hle; lia].
  destruct (child_index r n0) as [i0|] eqn:Eci; [|discriminate]. simpl in Ht. inversion Ht; subst o0 i0. clear Ht.
  destruct n0 as [inf v|inf kvs|inf els|inf els]; try rewrite Eci.
  - discriminate.
  - apply Hnot. lia.
  - apply andb_true_iff. split.
    + apply forallb_forall. intros k Hk. apply in_seq in Hk. apply Hnot. lia.
    + destruct (is_neg r) eqn:En; simpl; [|reflexivity].
      apply forallb_forall. intros k Hk. apply negb_true_iff.
      destruct (inT (acc_targets d [] (rev rest)) o k) eqn:E; auto.
      destruct (Hfree k E) as [_ Hn]. unfold neg_index in Hn. rewrite En, Eo in Hn. discriminate.
  - apply Hnot. lia.
Qed.

(* THE IMPLICATION: distinct nodes in document order within each parent (the
   gather order of a single path; the loop walks it reversed) satisfy the guard *)
Theorem ordered_guard : forall d ps,
  wf_doc d -> doc_ordered d ps = true -> no_dup_no_disorder d (rev ps) = true.
Proof.
  intros d ps Hwf. unfold no_dup_no_disorder.
  induction ps as [|[po r] rest IH]; intros H; simpl in *; [reflexivity|].
  destruct (target_of d po r) as [[o i]|] eqn:Et; [|discriminate].
  apply andb_true_iff in H. destruct H as [H1 H2].
  rewrite ordered_from_app. rewrite (IH H2). simpl. rewrite andb_true_r.
  eapply step_ok_from_order; eauto.
Qed.

Lemma inT_cons1 : forall t Tl o k, inT (t :: Tl) o k = inT [t] o k || inT Tl o k.
Proof. intros. change (t :: Tl) with ([t] ++ Tl). apply inT_app. Qed.

Lemma targets_app_inT : forall d l1 l2 o k,
  inT (targets d (l1 ++ l2)) o k = inT (targets d l1) o k || inT (targets d l2) o k.
Proof.
  intros d l1. induction l1 as [|[po r] t IH]; intros l2 o k; cbn [targets app]; [reflexivity|].
  destruct (target_of d po r) as [t1|]; auto.
  rewrite (inT_cons1 t1 (targets d (t ++ l2))), (inT_cons1 t1 (targets d t)), IH, orb_assoc. reflexivity.
Qed.

Lemma targets_inT_rev : forall d ps o k, inT (targets d (rev ps)) o k = inT (targets d ps) o k.
Proof.
  intros d ps o k.
  induction ps as [|[po r] t IH]; cbn [rev]; [reflexivity|].
  rewrite targets_app_inT, IH. cbn [targets].
  destruct (target_of d po r) as [t1|].
  - rewrite (inT_cons1 t1 (targets d t)). rewrite (inT_cons1 t1 []).
    replace (inT [] o k) with false by reflexivity. rewrite orb_false_r. apply orb_comm.
  - replace (inT [] o k) with false by reflexivity. apply orb_false_r.
Qed.

(* the delete theorem with the read-side style hypothesis: for whatever was
   gathered (Collector nesting included), if the coordinates in GATHER order
   (= the reverse of the processing order) locate distinct nodes in document
   order within each parent, exactly those nodes are removed *)
Theorem delete_exact_ordered : forall d cs,
  wf_doc d ->
  doc_ordered d (rev (map pc_pair (del_order cs))) = true ->
  delete_nodes cs d = MDone (delete_spec d (rev (map pc_pair (del_order cs)))).
Proof.
  intros d cs Hwf H.
  rewrite delete_exact; auto.
  - f_equal. unfold delete_spec. apply prune_ext. intros o _ k. symmetry. apply targets_inT_rev.
  - rewrite <- (rev_involutive (map pc_pair (del_order cs))). apply ordered_guard; auto.
Qed.

(* a single path without Collectors: the coordinates as gathered *)
Theorem delete_exact_plain : forall d ps,
  wf_doc d ->
  doc_ordered d (map pc_pair ps) = true ->
  delete_nodes (map (fun p => CNode p false) ps) d = MDone (delete_spec d (map pc_pair ps)).
Proof.
  intros d ps Hwf H.
  pose proof (delete_exact_ordered d (map (fun p => CNode p false) ps) Hwf) as G.
  rewrite del_order_plain, map_rev, rev_involutive in G. auto.
Qed.
