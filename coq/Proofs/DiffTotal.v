(* Positional comparison always produces a diff: the fuel handed to
   diff_between by compare_to suffices and nothing raises. *)
From Coq Require Import List Ascii String ZArith NArith Bool Arith Lia.
From YP Require Import Outcome PyStr PyVal Doc Diff C06Spec DiffBase DiffPos.
Import ListNotations.
Open Scope nat_scope.

Lemma size_seq_in : forall els x, In x els ->
  node_size x <= fold_right (fun y acc => node_size y + acc) 0 els.
Proof.
  induction els as [|y r IH]; simpl; intros x H; [contradiction|].
  destruct H as [->|H]; [lia|]. specialize (IH _ H). lia.
Qed.

Lemma size_map_in : forall kvs k v, In (k, v) kvs ->
  node_size v <= fold_right (fun kv acc => node_size (fst kv) + node_size (snd kv) + acc) 0 kvs.
Proof.
  induction kvs as [|y r IH]; simpl; intros k v H; [contradiction|].
  destruct H as [->|H]; [simpl; lia|]. specialize (IH _ _ H). lia.
Qed.

Section Total.
  Variable path_eq : string -> string -> outcome bool.
  Variable cfg : dcfg.
  Hypothesis Hpos : positional cfg.

  Definition tot (rec : rec_t) (m : nat) : Prop :=
    forall path q l r par pref a, node_size l <= m -> exists a', rec path q l r par pref a = Ok a'.

  Lemma zip_tot : forall rec deep path q r0 m lels idx rels a,
    tot rec m -> (forall x, In x lels -> node_size x <= m) ->
    exists a', zip_go rec deep path q r0 idx lels rels a = Ok a'.
  Proof.
    intros rec deep path q r0 m. induction lels as [|le lr IH]; simpl; intros idx rels a Ht Hs.
    - eauto.
    - destruct rels as [|re rr].
      + apply IH; auto.
      + destruct deep; simpl.
        * match goal with |- exists a', bind (rec ?p ?l ?x ?y ?pa ?pr ?aa) _ = _ =>
            destruct (Ht p l x y pa pr aa) as [a1 E] end.
          { apply Hs; left; reflexivity. }
          rewrite E; simpl. apply IH; auto.
        * apply IH; auto.
  Qed.

  Lemma body_tot : forall rec m, tot rec m -> tot (diff_body path_eq cfg rec) (S m).
  Proof.
    intros rec m Ht path q l r par pref a Hs.
    destruct Hpos as [Hp1 Hp2].
    assert (Harr : forall deep i lels rn rels nc, node_size (NSeq i lels) <= S m ->
              exists a', diff_arrays path_eq cfg rec deep path q rn lels rels nc a = Ok a').
    { intros deep i lels rn rels nc Hsz. unfold diff_arrays. rewrite Hp1. simpl.
      eapply zip_tot; eauto. intros x Hx. simpl in Hsz. pose proof (size_seq_in _ _ Hx). lia. }
    destruct l as [i v|i lkvs|i lels|i lels], r as [j w|j rkvs|j rels|j rels]; simpl;
      try (match goal with |- exists a', (if ?c then _ else _) = _ => destruct c; eauto end); eauto.
    - (* maps *)
      unfold diff_dicts. destruct (negb _); eauto.
      match goal with |- exists a', bind (foldM ?f ?l ?s) _ = _ =>
        destruct (foldM_ok f l s) as [a1 E] end.
      { intros b [k rv] Hin. simpl.
        destruct (map_get k lkvs) as [lv|] eqn:Eg; eauto.
        destruct (map_has k rkvs); eauto.
        apply Ht. destruct (map_get_in _ _ _ Eg) as [kn Hkn].
        simpl in Hs. pose proof (size_map_in _ _ _ Hkn). lia. }
      rewrite E. simpl. eauto.
    - (* sequences *)
      unfold diff_lists. destruct (negb _); eauto.
      assert (Haoh : forall nc, exists a', diff_aoh path_eq cfg rec path q (NSeq j rels) lels rels nc a = Ok a').
      { intros nc. unfold diff_aoh. destruct (Hp2 nc) as [E|E]; rewrite E; simpl; eapply Harr; eauto. }
      destruct rels as [|[ | | | ] rr]; try (eapply Harr; eauto; fail). apply Haoh.
    - (* sets *)
      unfold diff_sets.
      match goal with |- exists a', bind (foldM ?f ?l ?s) _ = _ =>
        destruct (foldM_ok f l s) as [a1 E] end.
      { intros b k Hin. simpl.
        destruct (set_has k lels) eqn:E1; simpl; eauto.
        destruct (set_has k rels) eqn:E2; simpl; eauto.
        apply Ht. pose proof (set_find_in _ _ E1) as Hin'.
        simpl in Hs. pose proof (size_seq_in _ _ Hin'). lia. }
      rewrite E. simpl. eauto.
  Qed.

  Lemma between_tot : forall f, tot (diff_between path_eq cfg (S f)) f.
  Proof.
    induction f as [|f IH].
    - intros path q l r par pref a Hs. destruct l; simpl in Hs; lia.
    - change (diff_between path_eq cfg (S (S f))) with (diff_body path_eq cfg (diff_between path_eq cfg (S f))).
      apply body_tot. exact IH.
  Qed.

  Theorem compare_to_total : forall L R, exists es, compare_to path_eq cfg L R = Ok es.
  Proof.
    intros L R. unfold compare_to.
    destruct (between_tot (node_size L) "" [] L R None PNone [] (le_n _)) as [a E].
    rewrite E. simpl. eauto.
  Qed.
End Total.

Lemma positional_total :
  forall path_eq cfg L R, positional cfg -> exists es, compare_to path_eq cfg L R = Ok es.
Proof. intros path_eq cfg L R Hp. apply compare_to_total. exact Hp. Qed.
