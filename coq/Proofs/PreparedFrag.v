(* C15: for prepared texts the fragment's pairing demands follow from the
   parser invariant (Proofs/ParserPairs.v). *)
From Coq Require Import List Ascii String ZArith Bool Arith Lia.
From YP Require Import Outcome PyStr PyVal Doc Generated PathParser C14Pairs ParserPairs
     Searches Eval SpecC15 Keywords EvalKw SpecC15kw C15Shape EvalTotal EvalKwTotal EvalKwC15.
Import ListNotations.

Lemma collector_free_ppath segs : collector_free (PPath segs) = shape_segs seg_shape collector_free segs.
Proof. induction segs as [|[es us s s2] r IH]; cbn in *; [reflexivity | rewrite IH; reflexivity]. Qed.

Lemma collector_free_kw_ppath segs : collector_free_kw (PPath segs) = shape_segs seg_shape_kw collector_free_kw segs.
Proof. induction segs as [|[es us s s2] r IH]; cbn in *; [reflexivity | rewrite IH; reflexivity]. Qed.

(* a paired, non-collector escaped segment is what seg_ok asks for *)
Lemma paired_shape_ok es us : seg_paired es = true -> seg_shape es us = true -> seg_ok es us = true.
Proof.
  unfold seg_shape, seg_ok. destruct es as [[[]|] a]; destruct a; cbn; intros H1 H2;
    try discriminate H1; try discriminate H2; exact H2.
Qed.

(* segments produced by zip_segs: paired escaped halves, sub-paths made by [prep] *)
Definition made_by (prep : string -> outcome ppath) (p : ppath) : Prop :=
  p = PPath [] \/ exists t, prep t = Ok p.

Lemma zip_segs_spec prep : forall es us l,
  segs_paired es = true -> zip_segs prep es us = Ok l ->
  Forall (fun ps => seg_paired (seg_es ps) = true /\ made_by prep (seg_sub ps) /\ made_by prep (seg_sub2 ps)) l.
Proof.
  induction es as [|e er IH]; intros us l Hp H; cbn in H.
  - inversion H; subst. constructor.
  - destruct us as [|u ur]; [discriminate H|].
    cbn in Hp. apply andb_true_iff in Hp. destruct Hp as [Hp1 Hp2].
    match type of H with (do sub <- ?X; _) = _ => destruct X as [sub| |] eqn:E1 end; cbn in H; try discriminate H.
    match type of H with (do sub2 <- ?X; _) = _ => destruct X as [sub2| |] eqn:E2 end; cbn in H; try discriminate H.
    destruct (zip_segs prep er ur) as [rest| |] eqn:E3; cbn in H; try discriminate H.
    inversion H; subst; clear H. constructor; [|eapply IH; eauto].
    cbn. split; [exact Hp1|]. split.
    + destruct (snd e); try (right; eauto; fail);
        destruct (snd u); try (right; eauto; fail); inversion E1; left; reflexivity.
    + destruct (snd e); try (right; eauto; fail); inversion E2; left; reflexivity.
Qed.

Section Frag.
Variable sh : seg -> seg -> bool.
Variable okf : seg -> seg -> bool.
Hypothesis sh_ok : forall es us, seg_paired es = true -> sh es us = true -> okf es us = true.

Lemma shape_to_frag (cf fr : ppath -> bool) l :
  Forall (fun ps => seg_paired (seg_es ps) = true /\
                    (cf (seg_sub ps) = true -> fr (seg_sub ps) = true) /\
                    (cf (seg_sub2 ps) = true -> fr (seg_sub2 ps) = true)) l ->
  shape_segs sh cf l = true ->
  (fix go (l : list pseg) : bool :=
     match l with
     | [] => true
     | PSeg es us s s2 :: r => okf es us && fr s && fr s2 && go r
     end) l = true.
Proof.
  induction 1 as [|[es us s s2] r [Hp [H1 H2]] _ IH]; cbn; [reflexivity|].
  intros H. repeat (apply andb_true_iff in H; destruct H as [H ?]).
  cbn in *. rewrite (sh_ok _ _ Hp H), H1, H2, IH by assumption. reflexivity.
Qed.
End Frag.

Lemma frag_segs_fix l :
  frag_segs in_fragment l =
  (fix go (l : list pseg) : bool :=
     match l with
     | [] => true
     | PSeg es us s s2 :: r => seg_ok es us && in_fragment s && in_fragment s2 && go r
     end) l.
Proof. induction l as [|[es us s s2] r IH]; cbn; [reflexivity | rewrite IH; reflexivity]. Qed.

Theorem prepared_in_fragment : forall fuel text p,
  prepare fuel text = Ok p -> collector_free p = true -> in_fragment p = true.
Proof.
  induction fuel as [|f IH]; intros text p H Hc; cbn in H; [discriminate H|].
  destruct (parse Auto true text) as [es| |] eqn:E1; try discriminate H.
  2:{ inversion H; subst. exact Hc. }
  destruct es as [|e0 er]; [inversion H; subst; reflexivity|].
  destruct (parse Auto false text) as [us| |] eqn:E2; try discriminate H.
  2:{ inversion H; subst. exact Hc. }
  destruct (zip_segs (prepare f) (e0 :: er) us) as [l| |] eqn:E3; try discriminate H.
  2:{ inversion H; subst. exact Hc. }
  inversion H; subst; clear H.
  apply parse_paired in E1. pose proof (zip_segs_spec _ _ _ _ E1 E3) as Z.
  rewrite collector_free_ppath in Hc. rewrite in_fragment_ppath, frag_segs_fix.
  eapply shape_to_frag; [exact paired_shape_ok | | exact Hc].
  eapply Forall_impl; [|exact Z]. intros ps [P1 [P2 P3]]. split; [exact P1|].
  split; intros Q.
  - destruct P2 as [->|[t Ht]]; [reflexivity | eapply IH; eauto].
  - destruct P3 as [->|[t Ht]]; [reflexivity | eapply IH; eauto].
Qed.

Lemma paired_shape_ok_kw es us : seg_paired es = true -> seg_shape_kw es us = true -> seg_ok_kw es us = true.
Proof.
  unfold seg_shape_kw, seg_ok_kw. exact (paired_shape_ok es us).
Qed.

Lemma frag_segs_kw_fix l :
  frag_segs_kw in_fragment_kw l =
  (fix go (l : list pseg) : bool :=
     match l with
     | [] => true
     | PSeg es us s s2 :: r => seg_ok_kw es us && in_fragment_kw s && in_fragment_kw s2 && go r
     end) l.
Proof. induction l as [|[es us s s2] r IH]; cbn; [reflexivity | rewrite IH; reflexivity]. Qed.

Theorem prepared_in_fragment_kw : forall fuel text p,
  prepare fuel text = Ok p -> collector_free_kw p = true -> in_fragment_kw p = true.
Proof.
  induction fuel as [|f IH]; intros text p H Hc; cbn in H; [discriminate H|].
  destruct (parse Auto true text) as [es| |] eqn:E1; try discriminate H.
  2:{ inversion H; subst. exact Hc. }
  destruct es as [|e0 er]; [inversion H; subst; reflexivity|].
  destruct (parse Auto false text) as [us| |] eqn:E2; try discriminate H.
  2:{ inversion H; subst. exact Hc. }
  destruct (zip_segs (prepare f) (e0 :: er) us) as [l| |] eqn:E3; try discriminate H.
  2:{ inversion H; subst. exact Hc. }
  inversion H; subst; clear H.
  apply parse_paired in E1. pose proof (zip_segs_spec _ _ _ _ E1 E3) as Z.
  rewrite collector_free_kw_ppath in Hc. rewrite in_fragment_kw_ppath, frag_segs_kw_fix.
  eapply shape_to_frag; [exact paired_shape_ok_kw | | exact Hc].
  eapply Forall_impl; [|exact Z]. intros ps [P1 [P2 P3]]. split; [exact P1|].
  split; intros Q.
  - destruct P2 as [->|[t Ht]]; [reflexivity | eapply IH; eauto].
  - destruct P3 as [->|[t Ht]]; [reflexivity | eapply IH; eauto].
Qed.

(* since the repair of F31 the keyword fragment asks nothing of the parameter
   texts: it IS the fragment of SpecC15 (and collector_free_kw is collector_free) *)
Lemma in_fragment_kw_eq : forall p, in_fragment_kw p = in_fragment p.
Proof.
  fix IH 1. intros [segs|e]; [|reflexivity].
  rewrite in_fragment_kw_ppath, in_fragment_ppath.
  induction segs as [|[es us s s2] r IHr]; [reflexivity|].
  cbn [frag_segs_kw frag_segs]. rewrite (IH s), (IH s2), IHr. reflexivity.
Qed.

Lemma collector_free_kw_eq : forall p, collector_free_kw p = collector_free p.
Proof.
  fix IH 1. intros [segs|e]; [|reflexivity].
  rewrite collector_free_kw_ppath, collector_free_ppath.
  induction segs as [|[es us s s2] r IHr]; [reflexivity|].
  cbn [shape_segs]. rewrite (IH s), (IH s2), IHr. reflexivity.
Qed.

(* ---- C15 for texts: the evaluator joined with the keyword searches, on any
   path prepared from a text that has no collector segment ---- *)
Section Texts.
Variable lit : string -> outcome litres.
Variable re_search : string -> string -> outcome reres.
Variable nstr : node -> string.
Variable vstr : list rval -> string.
Hypothesis lit_total : forall s, exists r, lit s = Ok r /\ (forall c, r <> LCrash c).
Hypothesis re_total : forall p s, exists r, re_search p s = Ok r.

Theorem required_only_ype_text fuel text p d :
  prepare fuel text = Ok p -> collector_free_kw p = true ->
  clean_stop (snd (ek_required lit re_search nstr vstr p d)).
Proof.
  intros H1 H2. apply (required_only_ype_kw lit re_search nstr vstr lit_total re_total).
  eapply prepared_in_fragment_kw; eauto.
Qed.

Theorem exists_only_ype_text fuel text p d :
  prepare fuel text = Ok p -> collector_free_kw p = true ->
  clean_stop (snd (ek_exists lit re_search nstr vstr p d)).
Proof.
  intros H1 H2. apply (exists_only_ype_kw lit re_search nstr vstr lit_total re_total).
  eapply prepared_in_fragment_kw; eauto.
Qed.

Theorem optional_only_ype_text fuel text p d :
  prepare fuel text = Ok p -> collector_free_kw p = true ->
  clean_or_mut (snd (ek_optional lit re_search nstr vstr p d)).
Proof.
  intros H1 H2. apply (optional_only_ype_kw lit re_search nstr vstr lit_total re_total).
  eapply prepared_in_fragment_kw; eauto.
Qed.
End Texts.
