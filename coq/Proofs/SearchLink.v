(* C12, inversion clause over DOCUMENTS: the evaluator model's [by_search]
   (Model/Eval.v) yields exactly the candidates the loops of
   Model/SearchLoops.v yield on the candidate list that Model/SearchCands.v
   computes from the document -- one refinement lemma per loop -- and,
   composed with the loop theorems of Proofs/SearchProofs.v, the inverted search
   yields exactly the candidates the plain one does not, in candidate order. *)
From Coq Require Import List Ascii String ZArith NArith Bool Arith Lia.
From YP Require Import Outcome PyStr PyVal Doc Generated PathParser PathPrinter Searches SearchLoops Eval
  SearchCands SpecC12 SearchProofs.
Import ListNotations.
Open Scope string_scope.
Open Scope nat_scope.
Open Scope list_scope.

(* ---------- lists ---------- *)
Lemma sc_pick_cons {A} i (rest : list nat) (items : list A) x :
  nth_error items i = Some x -> sc_pick (i :: rest) items = x :: sc_pick rest items.
Proof. intros H. unfold sc_pick. cbn [flat_map]. rewrite H. reflexivity. Qed.

Lemma nth_error_pre {A} (pre : list A) x r : nth_error (pre ++ x :: r) (List.length pre) = Some x.
Proof. rewrite nth_error_app2 by lia. rewrite Nat.sub_diag. reflexivity. Qed.

Lemma nth_error_map_enum {A B} (h : nat * A -> B) (l : list A) : forall i k y,
  nth_error l k = Some y -> nth_error (map h (enumerate_from i l)) k = Some (h (i + k, y)).
Proof.
  induction l as [|a r IH]; intros i k y H; destruct k as [|k]; cbn in *; try discriminate.
  - injection H as ->. rewrite Nat.add_0_r. reflexivity.
  - rewrite (IH (S i) k y H). rewrite Nat.add_succ_r. reflexivity.
Qed.

Lemma nth_map_inv {A B} (h : A -> B) l k y z :
  nth_error l k = Some y -> nth_error (map h l) k = Some z -> z = h y.
Proof. intros Hy Hz. rewrite (map_nth_error h k l Hy) in Hz. congruence. Qed.

Lemma enumerate_from_length {A} (l : list A) : forall i, List.length (enumerate_from i l) = List.length l.
Proof. induction l as [|a r IH]; intros i; cbn; [reflexivity | rewrite IH; reflexivity]. Qed.

Lemma mapM_enum_nth {A B} (g : nat * A -> outcome B) (l : list A) : forall i r,
  mapM g (enumerate_from i l) = Ok r ->
  List.length r = List.length l /\
  forall k y z, nth_error l k = Some y -> nth_error r k = Some z -> g (i + k, y) = Ok z.
Proof.
  induction l as [|a t IH]; intros i r H; cbn in H.
  - injection H as <-. split; [reflexivity|]. intros [|k] y z Hy; discriminate.
  - destruct (g (i, a)) as [b| |] eqn:Eg; cbn in H; try discriminate.
    destruct (mapM g (enumerate_from (S i) t)) as [bs| |] eqn:Em; cbn in H; try discriminate.
    injection H as <-. destruct (IH _ _ Em) as [Hl Hn]. split; [cbn; rewrite Hl; reflexivity|].
    intros [|k] y z Hy Hz; cbn in Hy, Hz.
    + injection Hy as <-. injection Hz as <-. rewrite Nat.add_0_r. exact Eg.
    + rewrite Nat.add_succ_r. apply (Hn k y z Hy Hz).
Qed.

Lemma mapM_length {A B} (g : A -> outcome B) : forall l r, mapM g l = Ok r -> List.length r = List.length l.
Proof.
  induction l as [|a t IH]; intros r H; cbn in H.
  - injection H as <-. reflexivity.
  - destruct (g a); cbn in H; try discriminate. destruct (mapM g t) as [bs| |]; cbn in H; try discriminate.
    injection H as <-. cbn. rewrite (IH bs eq_refl). reflexivity.
Qed.

Lemma gfor_enum {A B} (g : A -> gen B) (l : list A) : forall i,
  gfor l g = gfor (enumerate_from i l) (fun ie => g (snd ie)).
Proof. induction l as [|a r IH]; intros i; cbn; [reflexivity|]. rewrite (IH (S i)). reflexivity. Qed.

(* ---------- how a stream refines the outcome of a loop ---------- *)
(* the loop says which positions are yielded; the stream yields the NodeCoords
   of exactly those candidates, in that order, and ends normally; where a
   comparison raises, the stream ends with the same exception *)
Definition sc_refines (g : gen rval) (o : outcome (list nat)) (items : list rval) : Prop :=
  match o with
  | Ok idxs => g = (sc_pick idxs items, Done)
  | Raise e => snd g = Err e
  | OutOfFuel => snd g = Fuel
  end.

(* ---------- the generic candidate loop ---------- *)
Section GenStream.
Variable X Y : Type.
Variable f : X -> outcome bool.
Variable inv : bool.

(* the body of every candidate loop of by_search: compare, yield on verdict *)
Definition cand_body (it : rval) (x : X) : gen rval :=
  glift (f x) (fun mt => if xorb_cond mt inv then gone it else gnil).

Lemma gen_stream (body : nat * Y -> gen rval) : forall (xs : list X) (ys : list Y) (its pre : list rval) idx,
  List.length pre = idx ->
  List.length ys = List.length xs -> List.length its = List.length xs ->
  (forall k x y it, nth_error xs k = Some x -> nth_error ys k = Some y -> nth_error its k = Some it ->
                    body (idx + k, y) = cand_body it x) ->
  sc_refines (gfor (enumerate_from idx ys) body) (gen_loop X f inv xs idx) (pre ++ its).
Proof.
  induction xs as [|x r IH]; intros ys its pre idx Hpre Hys Hits Hb.
  - destruct ys; [|discriminate]. reflexivity.
  - destruct ys as [|y ys]; [discriminate|]. destruct its as [|it itr]; [discriminate|].
    cbn [enumerate_from gfor gen_loop].
    pose proof (Hb 0 x y it eq_refl eq_refl eq_refl) as H0. rewrite Nat.add_0_r in H0. rewrite H0.
    unfold cand_body. destruct (f x) as [mt|e|]; cbn [glift bind]; [|reflexivity|reflexivity].
    specialize (IH ys itr (pre ++ [it]) (S idx)).
    rewrite <- app_assoc in IH. cbn [app] in IH.
    assert (Hi : sc_refines (gfor (enumerate_from (S idx) ys) body) (gen_loop X f inv r (S idx)) (pre ++ it :: itr)).
    { apply IH.
      - rewrite app_length. cbn. lia.
      - cbn in Hys. lia.
      - cbn in Hits. lia.
      - intros k x' y' it' Hx Hy Hi. replace (S idx + k) with (idx + S k) by lia. apply (Hb (S k) x' y' it'); assumption. }
    clear IH. unfold sc_refines in *.
    destruct (gen_loop X f inv r (S idx)) as [rest|e|]; cbn [bind].
    + change (xorb_cond mt inv) with (verdict inv mt).
      destruct (verdict inv mt).
      * rewrite Hi. rewrite (sc_pick_cons idx rest (pre ++ it :: itr) it); [reflexivity|].
        rewrite <- Hpre. apply nth_error_pre.
      * rewrite Hi. reflexivity.
    + destruct (if xorb_cond mt inv then gone it else gnil) as [l s] eqn:E.
      assert (s = Done) by (destruct (xorb_cond mt inv); inversion E; reflexivity). subst s.
      cbn. destruct (gfor (enumerate_from (S idx) ys) body). cbn in *. exact Hi.
    + destruct (if xorb_cond mt inv then gone it else gnil) as [l s] eqn:E.
      assert (s = Done) by (destruct (xorb_cond mt inv); inversion E; reflexivity). subst s.
      cbn. destruct (gfor (enumerate_from (S idx) ys) body). cbn in *. exact Hi.
Qed.
End GenStream.

Section Link.
Variable lit : string -> outcome litres.
Variable re_search : string -> string -> outcome reres.
Variable nstr : node -> string.
Variable vstr : list rval -> string.
Variable rq : rval -> ctx -> gen rval.

Notation bys := (by_search lit re_search nstr vstr rq).
Notation hay_ := (sc_hay nstr vstr).

Lemma esm_sm m term v : esm lit re_search nstr vstr m term v = sm lit re_search m term (hay_ v).
Proof. reflexivity. Qed.

(* ---------- hash keys on '.' ---------- *)
Lemma link_keys inv m attr term i kvs c :
  String.eqb attr "." = true ->
  sc_refines (bys inv m attr term (RNode (NMap i kvs)) c)
             (keys_loop lit re_search inv m term (map (fun kv => hay_ (RNode (fst kv))) kvs))
             (sc_items attr (NMap i kvs) c).
Proof.
  intros Ea. unfold by_search, sc_items, keys_loop. rewrite Ea. rewrite each_loop_from_gen.
  rewrite (gfor_enum _ kvs 0).
  apply (gen_stream hay (node * node) (sm lit re_search m term) inv _ _ kvs _ [] 0).
  - reflexivity.
  - rewrite map_length. reflexivity.
  - etransitivity; [apply map_length | symmetry; apply map_length].
  - intros k x y it Hx Hy Hi.
    apply (nth_map_inv _ _ _ _ _ Hy) in Hx. apply (nth_map_inv _ _ _ _ _ Hy) in Hi. subst x it. reflexivity.
Qed.

(* ---------- set members ---------- *)
Lemma link_set inv m attr term i els c :
  sc_refines (bys inv m attr term (RNode (NSet i els)) c)
             (set_loop lit re_search inv m term (map (fun e => hay_ (RNode e)) els))
             (sc_items attr (NSet i els) c).
Proof.
  unfold by_search, sc_items, set_loop. rewrite each_loop_from_gen.
  rewrite (gfor_enum _ els 0).
  apply (gen_stream hay node (sm lit re_search m term) inv _ _ els _ [] 0).
  - reflexivity.
  - rewrite map_length. reflexivity.
  - etransitivity; [apply map_length | symmetry; apply map_length].
  - intros k x y it Hx Hy Hi.
    apply (nth_map_inv _ _ _ _ _ Hy) in Hx. apply (nth_map_inv _ _ _ _ _ Hy) in Hi. subst x it. reflexivity.
Qed.

(* ---------- one candidate: hash attribute, scalar self ---------- *)
Lemma single_stream inv m term h it :
  sc_refines (glift (sm lit re_search m term h) (fun mt => if xorb_cond mt inv then gone it else gnil))
             (single_site lit re_search inv m term h) [it].
Proof.
  unfold single_site. destruct (sm lit re_search m term h) as [mt|e|]; cbn; try reflexivity.
  change (xorb_cond mt inv) with (verdict inv mt). destruct (verdict inv mt); reflexivity.
Qed.

Lemma link_attr inv m attr term i kvs c value :
  String.eqb attr "." = false -> assoc_key (PStr attr) kvs = Some value ->
  sc_refines (bys inv m attr term (RNode (NMap i kvs)) c)
             (attr_site lit re_search inv m term (hay_ (RNode value)))
             (sc_items attr (NMap i kvs) c).
Proof.
  intros Ea Hv. unfold by_search, sc_items, attr_site. rewrite Ea, Hv. apply single_stream.
Qed.

Lemma link_self inv m attr term i x c :
  sc_refines (bys inv m attr term (RNode (NLeaf i x)) c)
             (self_site lit re_search inv m term (hay_ (RNode (NLeaf i x))))
             (sc_items attr (NLeaf i x) c).
Proof. unfold by_search, sc_items, self_site. apply single_stream. Qed.

(* ---------- hash without the attribute: the descendant scan ---------- *)
Lemma desc_scan_stream inv m term (k : bool -> gen rval) : forall items nds matches,
  mapM cnode items = Ok nds ->
  hash_desc_scan lit re_search nstr vstr m term inv items Done matches k =
  glift (desc_scan lit re_search inv m term (map hay_ nds) matches) k.
Proof.
  induction items as [|d r IH]; intros nds matches H; cbn in H.
  - injection H as <-. reflexivity.
  - destruct (cnode d) as [nd| |] eqn:Ec; cbn in H; try discriminate.
    destruct (mapM cnode r) as [nr| |] eqn:Er; cbn in H; try discriminate.
    injection H as <-. cbn [hash_desc_scan map desc_scan]. rewrite Ec. cbn [glift].
    rewrite esm_sm. destruct (sm lit re_search m term (hay_ nd)) as [mt|e|]; cbn [glift bind]; try reflexivity.
    change (xorb_cond mt inv) with (verdict inv mt). destruct (verdict inv mt); [reflexivity|].
    apply IH. reflexivity.
Qed.

Lemma link_desc inv m attr term i kvs c ds :
  String.eqb attr "." = false -> assoc_key (PStr attr) kvs = None ->
  sc_all_hays nstr vstr (rq (RNode (NMap i kvs)) (mkctx (x_par c) (x_ref c) true (x_tp c) (x_anc c))) = Ok ds ->
  sc_refines (bys inv m attr term (RNode (NMap i kvs)) c)
             (desc_site lit re_search inv m term ds)
             (sc_items attr (NMap i kvs) c).
Proof.
  intros Ea Hv Hd. unfold by_search, sc_items, desc_site. rewrite Ea, Hv.
  unfold sc_all_hays, sc_desc_hays in Hd.
  destruct (rq (RNode (NMap i kvs)) (mkctx (x_par c) (x_ref c) true (x_tp c) (x_anc c))) as [items st].
  destruct st; cbn in Hd; try discriminate.
  destruct (mapM cnode items) as [nds| |] eqn:Em; cbn in Hd; try discriminate.
  injection Hd as <-. cbn [fst snd]. rewrite (desc_scan_stream inv m term _ items nds false Em).
  destruct (desc_scan lit re_search inv m term (map hay_ nds) false) as [mt|e|]; cbn; try reflexivity.
  change (xorb_cond mt inv) with (verdict inv mt). destruct (verdict inv mt); reflexivity.
Qed.

(* ---------- list elements ---------- *)
Lemma first_hays_body inv m term (g : gen rval) ds it :
  sc_first_hays nstr vstr g = Ok ds ->
  gfirst g (fun f => match f with
                     | Some d => glift (cnode d) (fun nd => glift (esm lit re_search nstr vstr m term nd)
                                   (fun mt => if xorb_cond mt inv then gone it else gnil))
                     | None => if xorb_cond false inv then gone it else gnil
                     end)
  = cand_body lcand (lcand_match lit re_search m term) inv it (LDesc ds).
Proof.
  intros H. unfold cand_body, lcand_match. destruct g as [[|x r] st].
  - destruct st; cbn in H; try discriminate. injection H as <-. reflexivity.
  - cbn in H. unfold sc_desc_hays in H. cbn in H.
    destruct (cnode x) as [nd| |] eqn:Ec; cbn in H; try discriminate.
    destruct (mapM cnode r) as [nr| |]; cbn in H; try discriminate.
    assert (Hds : ds = hay_ nd :: map hay_ nr) by (destruct st; cbn in H; injection H as <-; reflexivity).
    subst ds. cbn [gfirst]. rewrite Ec. reflexivity.
Qed.

Lemma link_list inv m attr term i els c cs :
  x_tl c = true ->
  mapM (sc_list_cand nstr vstr rq (RNode (NSeq i els)) c
          (forallb (fun e => is_pynone e || is_pydict e) (map RNode els)) attr term)
       (enumerate (map RNode els)) = Ok cs ->
  sc_refines (bys inv m attr term (RNode (NSeq i els)) c)
             (list_loop lit re_search inv m term cs)
             (sc_items attr (NSeq i els) c).
Proof.
  intros Htl Hm. unfold by_search, sc_items, list_loop. rewrite Htl. cbn [negb elems].
  rewrite list_loop_from_gen. unfold enumerate in *.
  destruct (mapM_enum_nth _ _ _ _ Hm) as [Hlen Hnth].
  apply (gen_stream lcand rval (lcand_match lit re_search m term) inv _ cs (map RNode els) _ [] 0).
  - reflexivity.
  - symmetry. exact Hlen.
  - etransitivity; [apply map_length|]. rewrite enumerate_from_length. symmetry. exact Hlen.
  - intros k cnd e it Hc He Hi.
    assert (Hit : Some it = Some (ncoords e (Some (RNode (NSeq i els))) (Some (PInt (Z.of_nat k)))
                                          (tp_add (x_tp c) (idx_text (Z.of_nat k)))
                                          (x_anc c ++ [(RNode (NSeq i els), PInt (Z.of_nat k))]))).
    { rewrite <- Hi.
      apply (nth_error_map_enum
               (fun ie : nat * rval =>
                  ncoords (snd ie) (Some (RNode (NSeq i els))) (Some (PInt (Z.of_nat (fst ie))))
                          (tp_add (x_tp c) (idx_text (Z.of_nat (fst ie))))
                          (x_anc c ++ [(RNode (NSeq i els), PInt (Z.of_nat (fst ie)))]))
               (map RNode els) 0 k e He). }
    injection Hit as ->. clear Hi.
    specialize (Hnth k e cnd He Hc). cbn [Nat.add fst snd] in *.
    unfold sc_list_cand in Hnth.
    destruct (String.eqb attr ".") eqn:Ea.
    + injection Hnth as <-. unfold cand_body, lcand_match, sc_has_key. cbn [list_elem_matches].
      destruct (forallb (fun e0 => is_pynone e0 || is_pydict e0) (map RNode els)); cbn [andb].
      * destruct (negb (is_pynone e) && match dict_get (PStr term) e with Some _ => true | None => false end);
          reflexivity.
      * reflexivity.
    + destruct (dict_get (PStr attr) e) as [x|] eqn:Ed.
      * injection Hnth as <-. reflexivity.
      * destruct (sc_first_hays nstr vstr _) as [ds| |] eqn:Ef; cbn in Hnth; try discriminate.
        injection Hnth as <-. apply (first_hays_body inv m term _ ds _ Ef).
Qed.

Lemma link_skip inv m attr term i els c :
  x_tl c = false ->
  sc_refines (bys inv m attr term (RNode (NSeq i els)) c) (Ok []) (sc_items attr (NSeq i els) c).
Proof. intros Htl. unfold by_search, sc_refines. rewrite Htl. reflexivity. Qed.

(* ---------- the five loops at once ---------- *)
Theorem by_search_refines inv m attr term n c cands :
  sc_cands_of nstr vstr rq attr term n c = Ok cands ->
  sc_refines (bys inv m attr term (RNode n) c) (sc_run lit re_search inv m term cands) (sc_items attr n c).
Proof.
  intros H. destruct n as [i x|i kvs|i els|i els]; cbn [sc_cands_of] in H.
  - injection H as <-. apply link_self.
  - destruct (String.eqb attr ".") eqn:Ea.
    + injection H as <-. apply link_keys. exact Ea.
    + destruct (assoc_key (PStr attr) kvs) as [value|] eqn:Ev.
      * injection H as <-. apply link_attr; assumption.
      * destruct (sc_all_hays nstr vstr _) as [ds| |] eqn:Ed; cbn in H; try discriminate.
        injection H as <-. apply link_desc; assumption.
  - destruct (x_tl c) eqn:Etl; cbn [negb] in H.
    + destruct (mapM _ _) as [cs| |] eqn:Em; cbn in H; try discriminate.
      injection H as <-. apply link_list; assumption.
    + injection H as <-. apply link_skip. exact Etl.
  - injection H as <-. apply link_set.
Qed.

(* ---------- what the loops yield, as a mask over the candidates ---------- *)
Fixpoint mask_idxs (mask : list bool) (idx : nat) : list nat :=
  match mask with
  | [] => []
  | b :: r => if b then idx :: mask_idxs r (S idx) else mask_idxs r (S idx)
  end.

Lemma gen_loop_mask {X} (f : X -> outcome bool) inv : forall xs idx res,
  gen_loop X f inv xs idx = Ok res ->
  exists ms, mapM f xs = Ok ms /\ res = mask_idxs (map (verdict inv) ms) idx.
Proof.
  induction xs as [|x r IH]; intros idx res H; cbn in H.
  - injection H as <-. exists []. split; reflexivity.
  - destruct (f x) as [mt| |] eqn:Ef; cbn in H; try discriminate.
    destruct (gen_loop X f inv r (S idx)) as [rest| |] eqn:Er; cbn in H; try discriminate.
    injection H as <-. destruct (IH _ _ Er) as [ms [Hm ->]].
    exists (mt :: ms). cbn. rewrite Ef, Hm. split; reflexivity.
Qed.

Lemma sc_pick_mask {A} : forall (mask : list bool) (its pre : list A),
  List.length mask = List.length its ->
  sc_pick (mask_idxs mask (List.length pre)) (pre ++ its) = sc_select mask its.
Proof.
  induction mask as [|b r IH]; intros its pre Hl.
  - destruct its; reflexivity.
  - destruct its as [|it itr]; [discriminate|]. cbn [mask_idxs sc_select].
    assert (Hr : sc_pick (mask_idxs r (S (List.length pre))) (pre ++ it :: itr) = sc_select r itr).
    { specialize (IH itr (pre ++ [it])). rewrite app_length in IH. cbn in IH.
      rewrite Nat.add_1_r, <- app_assoc in IH. apply IH. cbn in Hl. lia. }
    destruct b.
    + rewrite (sc_pick_cons _ _ _ it (nth_error_pre pre it itr)). rewrite Hr. reflexivity.
    + exact Hr.
Qed.

(* the verdicts of the candidates, whatever the inversion: the plain matches *)
Definition sc_matches (m : smethod) (term : string) (cs : sc_cands) : outcome (list bool) :=
  match cs with
  | SCList l => mapM (lcand_match lit re_search m term) l
  | SCKeys l | SCSet l => mapM (sm lit re_search m term) l
  | SCAttr v | SCSelf v => do mt <- sm lit re_search m term v; Ok [mt]
  | SCDesc [] => Ok [false]
  | SCDesc (d :: _) => do mt <- sm lit re_search m term d; Ok [mt]
  | SCSkip => Ok []
  end.

Lemma sc_run_mask inv m term cs res :
  sc_guard cs = true ->
  sc_run lit re_search inv m term cs = Ok res ->
  exists ms, sc_matches m term cs = Ok ms /\ List.length ms = sc_count cs /\
             res = mask_idxs (map (verdict inv) ms) 0.
Proof.
  intros Hg H. destruct cs as [l|l|v|ds|l|v|]; cbn [sc_run sc_matches sc_count] in *.
  - unfold list_loop in H. rewrite list_loop_from_gen in H.
    destruct (gen_loop_mask _ _ _ _ _ H) as [ms [Hm ->]]. exists ms. repeat split; try assumption.
    apply (mapM_length _ _ _ Hm).
  - unfold keys_loop in H. rewrite each_loop_from_gen in H.
    destruct (gen_loop_mask _ _ _ _ _ H) as [ms [Hm ->]]. exists ms. repeat split; try assumption.
    apply (mapM_length _ _ _ Hm).
  - unfold attr_site, single_site in H. destruct (sm lit re_search m term v) as [mt| |]; cbn in *; try discriminate.
    injection H as <-. exists [mt]; repeat split; cbn; try (destruct (verdict inv mt); reflexivity).
  - unfold desc_site in H. destruct ds as [|d [|d2 r]]; cbn in Hg; try discriminate.
    + cbn in H. injection H as <-. exists [false]; repeat split; cbn; try (destruct (verdict inv false); reflexivity).
    + cbn [desc_scan bind] in H. destruct (sm lit re_search m term d) as [mt| |]; cbn [bind] in *; try discriminate.
      assert (Hres : res = if verdict inv mt then [0] else []).
      { destruct (verdict inv mt) eqn:Ev; cbn [bind] in H; rewrite ?Ev in H; injection H as <-; reflexivity. }
      subst res. exists [mt]; repeat split; cbn; try (destruct (verdict inv mt); reflexivity).
  - unfold set_loop in H. rewrite each_loop_from_gen in H.
    destruct (gen_loop_mask _ _ _ _ _ H) as [ms [Hm ->]]. exists ms. repeat split; try assumption.
    apply (mapM_length _ _ _ Hm).
  - unfold self_site, single_site in H. destruct (sm lit re_search m term v) as [mt| |]; cbn in *; try discriminate.
    injection H as <-. exists [mt]; repeat split; cbn; try (destruct (verdict inv mt); reflexivity).
  - injection H as <-. exists []. repeat split.
Qed.

Lemma sc_items_count attr term n c cands :
  sc_cands_of nstr vstr rq attr term n c = Ok cands -> List.length (sc_items attr n c) = sc_count cands.
Proof.
  intros H. destruct n as [i x|i kvs|i els|i els]; cbn [sc_cands_of sc_items] in *.
  - injection H as <-. reflexivity.
  - destruct (String.eqb attr ".").
    + injection H as <-. cbn. rewrite !map_length. reflexivity.
    + destruct (assoc_key (PStr attr) kvs).
      * injection H as <-. reflexivity.
      * destruct (sc_all_hays nstr vstr _); cbn in H; try discriminate. injection H as <-. reflexivity.
  - destruct (x_tl c); cbn [negb] in *.
    + destruct (mapM _ _) as [cs| |] eqn:Em; cbn in H; try discriminate. injection H as <-.
      unfold enumerate in *. destruct (mapM_enum_nth _ _ _ _ Em) as [Hl _].
      cbn. rewrite map_length, enumerate_from_length. symmetry. exact Hl.
    + injection H as <-. reflexivity.
  - injection H as <-. cbn. rewrite !map_length. reflexivity.
Qed.

(* a stream that ended normally fixes the outcome of the loop it refines *)
Lemma sc_refines_done g o items l :
  sc_refines g o items -> g = (l, Done) -> exists idxs, o = Ok idxs /\ l = sc_pick idxs items.
Proof.
  intros H ->. destruct o as [idxs|e|]; cbn in H; try discriminate.
  injection H as ->. exists idxs. split; reflexivity.
Qed.

Lemma verdict_false_map ms : map (verdict false) ms = ms.
Proof. induction ms as [|b r IH]; cbn; [reflexivity|]. rewrite IH. destruct b; reflexivity. Qed.
Lemma verdict_true_map ms : map (verdict true) ms = map negb ms.
Proof. induction ms as [|b r IH]; cbn; [reflexivity|]. rewrite IH. destruct b; reflexivity. Qed.

(* ---------- the inversion clause over documents ---------- *)
Theorem inversion_doc m attr term n c cands plain invd :
  sc_cands_of nstr vstr rq attr term n c = Ok cands ->
  sc_guard cands = true ->
  bys false m attr term (RNode n) c = (plain, Done) ->
  bys true m attr term (RNode n) c = (invd, Done) ->
  exists mask,
    sc_matches m term cands = Ok mask /\
    List.length mask = List.length (sc_items attr n c) /\
    plain = sc_select mask (sc_items attr n c) /\
    invd = sc_select (map negb mask) (sc_items attr n c).
Proof.
  intros Hc Hg Hp Hi.
  destruct (sc_refines_done _ _ _ _ (by_search_refines false m attr term n c cands Hc) Hp) as [pi [Rp ->]].
  destruct (sc_refines_done _ _ _ _ (by_search_refines true m attr term n c cands Hc) Hi) as [ii [Ri ->]].
  destruct (sc_run_mask _ _ _ _ _ Hg Rp) as [ms [Hm [Hl ->]]].
  destruct (sc_run_mask _ _ _ _ _ Hg Ri) as [ms' [Hm' [_ ->]]].
  rewrite Hm in Hm'. injection Hm' as <-.
  pose proof (sc_items_count attr term n c cands Hc) as Hcount.
  exists ms. split; [exact Hm|]. split; [congruence|].
  rewrite verdict_false_map, verdict_true_map.
  split.
  - apply (sc_pick_mask ms (sc_items attr n c) []). congruence.
  - apply (sc_pick_mask (map negb ms) (sc_items attr n c) []). rewrite map_length. congruence.
Qed.

(* the same, in the vocabulary of the loop theorems: positions and [complement] *)
Theorem inversion_doc_positions m attr term n c cands plain invd :
  sc_cands_of nstr vstr rq attr term n c = Ok cands ->
  sc_guard cands = true ->
  bys false m attr term (RNode n) c = (plain, Done) ->
  bys true m attr term (RNode n) c = (invd, Done) ->
  exists pi ii,
    sc_run lit re_search false m term cands = Ok pi /\ sc_run lit re_search true m term cands = Ok ii /\
    plain = sc_pick pi (sc_items attr n c) /\ invd = sc_pick ii (sc_items attr n c) /\
    complement (sc_count cands) pi ii.
Proof.
  intros Hc Hg Hp Hi.
  destruct (sc_refines_done _ _ _ _ (by_search_refines false m attr term n c cands Hc) Hp) as [pi [Rp ->]].
  destruct (sc_refines_done _ _ _ _ (by_search_refines true m attr term n c cands Hc) Hi) as [ii [Ri ->]].
  exists pi, ii. split; [exact Rp|]. split; [exact Ri|]. split; [reflexivity|]. split; [reflexivity|].
  destruct cands as [l|l|v|ds|l|v|]; cbn [sc_run sc_count] in *.
  - apply (list_loop_complement lit re_search m term l pi ii Rp Ri).
  - apply (each_loop_complement lit re_search m term l pi ii Rp Ri).
  - apply (single_site_complement lit re_search m term v pi ii Rp Ri).
  - apply (desc_site_complement lit re_search m term ds pi ii); [|assumption|assumption].
    cbn in Hg. apply Nat.leb_le. exact Hg.
  - apply (each_loop_complement lit re_search m term l pi ii Rp Ri).
  - apply (single_site_complement lit re_search m term v pi ii Rp Ri).
  - injection Rp as <-. injection Ri as <-. intros i Hi'. lia.
Qed.

End Link.

(* ---------- the evaluator's dispatcher hands a search segment to by_search ---------- *)
Lemma dispatch_search lit re_search nstr vstr kw_handler self sg_next rqp segs i us sub sub2
      inv m attr term n c :
  nth_error segs i = Some (PSeg (Some TSearch, ASearch inv m attr term) us sub sub2) ->
  dispatch lit re_search nstr vstr kw_handler self sg_next rqp segs i (RNode n) c =
  by_search lit re_search nstr vstr (rqp sub) inv m attr term (RNode n) c.
Proof.
  intros H. unfold dispatch. rewrite H. cbn [seg_es seg_us seg_sub]. destruct us as [uty ua].
  cbn [is_ty is_stype]. destruct (0 <? i); reflexivity.
Qed.

(* the inversion clause for a search segment evaluated by the dispatcher of the
   query evaluator, whatever the rest of the path and the drivers around it *)
Theorem inversion_dispatch lit re_search nstr vstr kw_handler self sg_next rqp segs i us sub sub2
      m attr term n c cands plain invd segs' :
  nth_error segs i = Some (PSeg (Some TSearch, ASearch false m attr term) us sub sub2) ->
  nth_error segs' i = Some (PSeg (Some TSearch, ASearch true m attr term) us sub sub2) ->
  sc_cands_of nstr vstr (rqp sub) attr term n c = Ok cands ->
  sc_guard cands = true ->
  dispatch lit re_search nstr vstr kw_handler self sg_next rqp segs i (RNode n) c = (plain, Done) ->
  dispatch lit re_search nstr vstr kw_handler self sg_next rqp segs' i (RNode n) c = (invd, Done) ->
  exists mask,
    sc_matches lit re_search m term cands = Ok mask /\
    List.length mask = List.length (sc_items attr n c) /\
    plain = sc_select mask (sc_items attr n c) /\
    invd = sc_select (map negb mask) (sc_items attr n c).
Proof.
  intros H1 H2 Hc Hg Hp Hi.
  rewrite (dispatch_search _ _ _ _ _ _ _ _ _ _ _ _ _ _ _ _ _ _ _ H1) in Hp.
  rewrite (dispatch_search _ _ _ _ _ _ _ _ _ _ _ _ _ _ _ _ _ _ _ H2) in Hi.
  exact (inversion_doc lit re_search nstr vstr (rqp sub) m attr term n c cands plain invd Hc Hg Hp Hi).
Qed.

(* ---------- the unguarded statement is false (listed finding F12a) ---------- *)
Definition sc_demo_lit (s : string) : outcome litres :=
  Ok (match py_int s with Some z => LVal (PInt z) | None => LFail end).
Definition sc_demo_re (_ _ : string) : outcome reres := Ok (RMatch false).
Definition sc_demo_nstr (_ : node) : string := "{..}".
Definition sc_demo_vstr (_ : list rval) : string := "[..]".
Definition sc_demo_kw (_ : bool) (_ : keyword) (_ : string) (_ : rval) (_ : ctx) : gen rval := gnil.
Definition sc_demo_cr (_ : list pseg) (_ : nat) (_ : rval) (_ : ctx) : gen rval := ([], Mut 0 PNone).
(* _get_required_nodes(data, YAMLPath(attr), 0) by the evaluator model *)
Definition sc_demo_rq (attr : string) : rval -> ctx -> gen rval :=
  match prepare (String.length attr + 2) attr with
  | Ok sub => sc_rq sc_demo_lit sc_demo_re sc_demo_nstr sc_demo_vstr sc_demo_kw sc_demo_cr sub
  | _ => fun _ _ => gfuel
  end.
Definition sc_inf (n : N) : info := mkinfo n None false None.
Definition sc_leaf (n : N) (v : pyval) : node := NLeaf (sc_inf n) v.
(* the objects a stream yields, by identity *)
Definition sc_oids (l : list rval) : list N :=
  map (fun x => match x with RCoords (RNode n) _ _ _ _ => node_oid n | _ => 0%N end) l.

(* {a: {x: 1, y: 2}} with [a.*=1] and [a.*!=1]: both yield the hash *)
Definition sc_doc_f12a : node :=
  NMap (sc_inf 1) [(sc_leaf 2 (PStr "a"),
                    NMap (sc_inf 3) [(sc_leaf 4 (PStr "x"), sc_leaf 5 (PInt 1));
                                     (sc_leaf 6 (PStr "y"), sc_leaf 7 (PInt 2))])].

Lemma inversion_doc_refuted :
  exists cands plain invd,
    sc_cands_of sc_demo_nstr sc_demo_vstr (sc_demo_rq "a.*") "a.*" "1" sc_doc_f12a root_ctx = Ok cands /\
    sc_guard cands = false /\
    by_search sc_demo_lit sc_demo_re sc_demo_nstr sc_demo_vstr (sc_demo_rq "a.*") false MEquals "a.*" "1"
              (RNode sc_doc_f12a) root_ctx = (plain, Done) /\
    by_search sc_demo_lit sc_demo_re sc_demo_nstr sc_demo_vstr (sc_demo_rq "a.*") true MEquals "a.*" "1"
              (RNode sc_doc_f12a) root_ctx = (invd, Done) /\
    sc_oids plain = [1%N] /\ sc_oids invd = [1%N] /\
    ~ exists mask, plain = sc_select mask (sc_items "a.*" sc_doc_f12a root_ctx) /\
                   invd = sc_select (map negb mask) (sc_items "a.*" sc_doc_f12a root_ctx).
Proof.
  eexists. eexists. eexists.
  split; [vm_compute; reflexivity|]. split; [reflexivity|].
  split; [vm_compute; reflexivity|]. split; [vm_compute; reflexivity|].
  split; [reflexivity|]. split; [reflexivity|].
  intros [mask [Hp Hi]]. vm_compute in Hp, Hi.
  destruct mask as [|[|] r]; try discriminate; destruct r; discriminate.
Qed.
