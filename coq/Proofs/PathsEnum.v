(* C07, step 1: when the anchor classification cannot change the control flow
   (anchor names are not searched, and either the document has no anchors or
   both alias options are on), a successful search_for_paths reports exactly
   the locations listed by a pure enumeration [enum] of the document. *)
From Coq Require Import List Ascii String ZArith NArith Bool Arith Lia.
From YP Require Import Outcome PyStr PyVal Doc Generated PathParser PathPrinter Searches PathsSearch SpecC07.
Import ListNotations.

Definition h_lk (h : hit) : loc * hkind := (h_loc h, h_kind h).

Section Floop.
  Context {A B : Type}.
  Variable g : A -> nat -> list B.
  Fixpoint floop (l : list A) (idx : nat) : list B :=
    match l with
    | [] => []
    | x :: r => g x idx ++ floop r (S idx)
    end.

  Lemma In_floop x l : forall idx,
      In x (floop l idx) <-> exists j a, nth_error l j = Some a /\ In x (g a (idx + j)).
  Proof.
    induction l as [|a r IH]; intros idx; simpl.
    - split; [tauto|]. intros [j [a [H _]]]. destruct j; discriminate.
    - rewrite in_app_iff, IH. split.
      + intros [H|[j [b [H1 H2]]]].
        * exists 0, a. rewrite Nat.add_0_r. auto.
        * exists (S j), b. split; auto. replace (idx + S j) with (S idx + j) by lia. auto.
      + intros [j [b [H1 H2]]]. destruct j as [|j]; simpl in H1.
        * inversion H1; subst. rewrite Nat.add_0_r in H2. auto.
        * right. exists j, b. split; auto. replace (S idx + j) with (idx + S j) by lia. auto.
  Qed.
End Floop.

Section Enum.
Variable lit : string -> outcome litres.
Variable re_search : string -> string -> outcome reres.
Variable mt : mtable.
Variable aa : adict.
Variable tm : terms.
Variable sp : sep.
Variable o : opts.

Definition satb (s : node) : bool :=
  match term_matches lit re_search tm (node_hay s) with Ok true => true | _ => false end.

Definition val_enum (rec : node -> loc -> list (loc * hkind)) (v : node) (lc' : loc)
  : list (loc * hkind) :=
  if is_container v then rec v lc'
  else if o_values o && satb v then [(lc', HValue)] else [].

(* the leaf descendants of a node, as locations *)
Fixpoint leaves (n : node) (lc : loc) {struct n} : list loc :=
  match n with
  | NSeq _ els => floop (fun e idx => leaves e (lc ++ [RIdx idx])%list) els 0
  | NMap _ kvs => floop (fun kv (_ : nat) => leaves (snd kv) (lc ++ [key_ref (fst kv)])%list) kvs 0
  | NSet _ els => floop (fun m (_ : nat) => [(lc ++ [member_ref m])%list]) els 0
  | NLeaf _ _ => [lc]
  end.

(* a matched key: reported itself, or -- with expansion -- replaced by the
   leaf descendants of its value *)
Definition key_hit_enum (v : node) (lc' : loc) : list (loc * hkind) :=
  if o_expand o then map (fun l => (l, HChild HKey)) (leaves v lc') else [(lc', HKey)].

Definition entry_enum (rec : node -> loc -> list (loc * hkind)) (lc : loc) (kv : node * node)
  : list (loc * hkind) :=
  let lc' := (lc ++ [key_ref (fst kv)])%list in
  if o_keys o && satb (fst kv) then key_hit_enum (snd kv) lc'
  else val_enum rec (snd kv) lc'.

Definition member_enum (lc : loc) (k : node) : list (loc * hkind) :=
  if satb k then [((lc ++ [member_ref k])%list, HMember)] else [].

Fixpoint enum (n : node) (lc : loc) {struct n} : list (loc * hkind) :=
  match n with
  | NSeq _ els =>
      floop (fun e idx => val_enum (fun v l => enum v l) e (lc ++ [RIdx idx])%list) els 0
  | NMap _ kvs => floop (fun kv (_ : nat) => entry_enum (fun v l => enum v l) lc kv) kvs 0
  | NSet _ els => floop (fun k (_ : nat) => member_enum lc k) els 0
  | NLeaf _ _ => []
  end.

(* the whole document: a lone scalar is its own (only) place, at the root; a
   null document is empty *)
Definition enum_doc (d : node) : list (loc * hkind) :=
  if is_container d then enum d []
  else if negb (is_none_leaf d) && o_values o && satb d then [([], HValue)] else [].

(* ---- the generic loop lemma ---- *)
Lemma loop_floop {A} (body : A -> nat -> list string -> outcome res)
      (g : A -> nat -> list (loc * hkind)) (l : list A) :
  (forall x, In x l -> forall idx seen r, body x idx seen = Ok r -> map h_lk (fst r) = g x idx) ->
  forall idx seen r, loop body l idx seen = Ok r -> map h_lk (fst r) = floop g l idx.
Proof.
  induction l as [|a l IH]; intros H idx seen r E; simpl in *.
  - inversion E; reflexivity.
  - destruct (body a idx seen) as [hs| |] eqn:Eb; simpl in E; try discriminate.
    destruct (loop body l (S idx) (snd hs)) as [rs| |] eqn:El; simpl in E; try discriminate.
    inversion E; subst; simpl. rewrite map_app. f_equal.
    + eapply H; eauto.
    + eapply IH; eauto.
Qed.

(* ---- the anchor classification when anchor names are not searched ---- *)
Definition quiet (am : amatch) : Prop :=
  am = NoAnchor \/ am = UnsearchableAnchor \/ am = UnsearchableAlias.

Lemma search_anchor_off x seen b :
  o_anchors o = false ->
  exists am seen', search_anchor lit re_search tm o x seen b = Ok (am, seen') /\ quiet am /\
                   (get_node_anchor x = None -> am = NoAnchor /\ seen' = seen).
Proof.
  intros Ha. unfold search_anchor. destruct (get_node_anchor x) as [name|].
  - rewrite Ha. simpl. destruct (mem_string name seen); eexists; eexists; split; try reflexivity;
      (split; [unfold quiet; auto | discriminate]).
  - exists NoAnchor, seen. split; [reflexivity|]. split; [left; reflexivity|auto].
Qed.

Lemma anchor_free_none n : anchor_free n = true -> get_node_anchor n = None.
Proof. destruct n; simpl; destruct (get_node_anchor _); auto; discriminate. Qed.

(* either both alias options are on, or there is nothing to classify *)
Definition transparent (n : node) : Prop :=
  (o_kalias o = true /\ o_valias o = true) \/ (anchor_free n = true /\ mt = []).

Lemma transparent_seq i els e : transparent (NSeq i els) -> In e els -> transparent e.
Proof.
  intros [H|[H1 H2]] Hin; [left; auto|right]. split; auto.
  simpl in H1. destruct (get_node_anchor (NSeq i els)); [discriminate|].
  rewrite forallb_forall in H1. auto.
Qed.

Lemma transparent_set i els e : transparent (NSet i els) -> In e els -> transparent e.
Proof.
  intros [H|[H1 H2]] Hin; [left; auto|right]. split; auto.
  simpl in H1. destruct (get_node_anchor (NSet i els)); [discriminate|].
  rewrite forallb_forall in H1. auto.
Qed.

Lemma transparent_map i kvs kv :
  transparent (NMap i kvs) -> In kv kvs -> transparent (fst kv) /\ transparent (snd kv).
Proof.
  intros [H|[H1 H2]] Hin; [split; left; auto|].
  simpl in H1. destruct (get_node_anchor (NMap i kvs)); [discriminate|].
  rewrite forallb_forall in H1. specialize (H1 _ Hin). apply andb_true_iff in H1.
  destruct H1. split; right; auto.
Qed.

(* what the hypotheses give for one classification *)
Lemma classify x seen b :
  o_anchors o = false -> transparent x -> b = o_kalias o \/ b = o_valias o ->
  exists am seen', search_anchor lit re_search tm o x seen b = Ok (am, seen') /\
                   is_hit am = false /\ am <> AliasExcluded /\
                   (negb b && is_excl am = false) /\ (is_unsearchable_alias am && negb b = false).
Proof.
  intros Ha Ht Hb.
  destruct (search_anchor_off x seen b Ha) as [am [seen' [E [Q N]]]].
  exists am, seen'. split; auto.
  destruct Ht as [[Hk Hv]|[Hf _]].
  - assert (b = true) by (destruct Hb; congruence). subst b.
    destruct Q as [->|[->| ->]]; simpl; repeat split; auto; discriminate.
  - destruct (N (anchor_free_none _ Hf)) as [-> _]. simpl.
    repeat split; auto; try discriminate. destruct b; reflexivity.
Qed.

Lemma skip_merged_off n i pos : transparent n -> skip_merged mt o i pos = false.
Proof.
  unfold skip_merged. intros [[-> ->]|[_ ->]]; simpl.
  - apply andb_false_r.
  - reflexivity.
Qed.

Lemma satb_true v : term_matches lit re_search tm (node_hay v) = Ok true -> satb v = true.
Proof. unfold satb. intros ->. reflexivity. Qed.
Lemma satb_false v : term_matches lit re_search tm (node_hay v) = Ok false -> satb v = false.
Proof. unfold satb. intros ->. reflexivity. Qed.

Lemma map_floop {A B C} (f : B -> C) (g : A -> nat -> list B) (l : list A) : forall idx,
  map f (floop g l idx) = floop (fun a i => map f (g a i)) l idx.
Proof. induction l; intros; simpl; auto. rewrite map_app, IHl. reflexivity. Qed.

Lemma not_container_leaf' v : is_container v = false -> exists i x, v = NLeaf i x.
Proof. destruct v; simpl; try discriminate. eauto. Qed.

(* yield_children lists the leaf descendants *)
Theorem yc_leaves n :
  o_anchors o = false -> transparent n ->
  forall bp lc kd seen r,
    yield_children lit re_search mt tm sp o n bp lc kd seen = Ok r ->
    map h_lk (fst r) = map (fun l => (l, HChild kd)) (leaves n lc).
Proof.
  intros Ha. induction n as [i v|i kvs IH|i els IH|i els IH] using node_ind'; intros Ht bp lc kd seen r E.
  - simpl in E. inversion E; reflexivity.
  - simpl in E. simpl leaves. rewrite map_floop.
    eapply loop_floop; [|exact E].
    intros kv Hin idx seen0 r0 Eb. cbv beta in Eb.
    rewrite (skip_merged_off _ _ _ Ht) in Eb.
    destruct (transparent_map _ _ _ Ht Hin) as [Tk Tv].
    destruct (classify (fst kv) seen0 (o_kalias o) Ha Tk (or_introl eq_refl))
      as [ka [s1 [Ek [Hk1 [Hk2 [Hk3 Hk4]]]]]].
    rewrite Ek in Eb. simpl in Eb.
    destruct (classify (snd kv) s1 (o_valias o) Ha Tv (or_intror eq_refl))
      as [va [s2 [Ev [Hv1 [Hv2 [Hv3 Hv4]]]]]].
    rewrite Ev in Eb. simpl in Eb. rewrite Hk3, Hv3 in Eb. simpl in Eb.
    rewrite Forall_forall in IH. destruct (IH _ Hin) as [_ IHv].
    destruct (is_container (snd kv)) eqn:Ec.
    + eapply IHv; eauto.
    + destruct (not_container_leaf' _ Ec) as [i0 [x Ex]]. rewrite Ex. inversion Eb; subst. reflexivity.
  - simpl in E. simpl leaves. rewrite map_floop.
    eapply loop_floop; [|exact E].
    intros e Hin idx seen0 r0 Eb. cbv beta in Eb.
    pose proof (transparent_seq _ _ _ Ht Hin) as Te.
    destruct (classify e seen0 (o_valias o) Ha Te (or_intror eq_refl))
      as [am [s1 [Ea [H1 [H2 [H3 H4]]]]]].
    rewrite Ea in Eb. simpl in Eb. rewrite H3 in Eb.
    rewrite Forall_forall in IH.
    destruct (is_container e) eqn:Ec.
    + eapply IH; eauto.
    + destruct (not_container_leaf' _ Ec) as [i0 [x Ex]]. rewrite Ex. inversion Eb; subst. reflexivity.
  - simpl in E. simpl leaves. rewrite map_floop.
    eapply loop_floop; [|exact E].
    intros k Hin idx seen0 r0 Eb. cbv beta in Eb.
    pose proof (transparent_set _ _ _ Ht Hin) as Tk.
    destruct (classify k seen0 (o_kalias o) Ha Tk (or_introl eq_refl))
      as [ka [s1 [Ek [H1 [H2 [H3 H4]]]]]].
    rewrite Ek in Eb. simpl in Eb. rewrite H3 in Eb. inversion Eb; subst. reflexivity.
Qed.

Lemma report_enum nd tmp lc seen r :
  o_anchors o = false -> transparent nd ->
  report lit re_search mt tm sp o nd tmp lc HKey seen = Ok r ->
  map h_lk (fst r) = key_hit_enum nd lc.
Proof.
  intros Ha Ht. unfold report, key_hit_enum. destruct (o_expand o).
  - apply yc_leaves; auto.
  - intros E. inversion E; reflexivity.
Qed.

(* the shared value part *)
Lemma value_part_enum rec g am v tmp lc' seen r :
  is_hit am = false -> am <> AliasExcluded ->
  is_unsearchable_alias am && negb (o_valias o) = false ->
  (is_container v = true -> forall r, rec v tmp lc' seen = Ok r -> map h_lk (fst r) = g v lc') ->
  value_part lit re_search mt tm sp o rec am v tmp lc' seen = Ok r ->
  map h_lk (fst r) = val_enum g v lc'.
Proof.
  intros Hh Hx Hu Hrec E. unfold value_part in E. unfold val_enum.
  destruct am; simpl in Hh; try discriminate; try congruence;
    rewrite Hu in E; simpl in E;
    (destruct (is_container v); [apply Hrec; [reflexivity|exact E]|]);
    (destruct (o_values o); simpl;
     [ destruct (term_matches lit re_search tm (node_hay v)) as [[|]| |] eqn:Em; simpl in E; try discriminate;
       inversion E; subst; simpl;
       [rewrite (satb_true _ Em) | rewrite (satb_false _ Em)]; reflexivity
     | inversion E; reflexivity ]).
Qed.

Lemma sfp_seq_eq i els bp lc seen :
  search_for_paths lit re_search mt aa tm sp o (NSeq i els) bp lc seen =
  loop (fun ele idx seen =>
          do am_s <- search_anchor lit re_search tm o ele seen (o_valias o);
          value_part lit re_search mt tm sp o
                     (fun v t l s => search_for_paths lit re_search mt aa tm sp o v t l s)
                     (fst am_s) ele (elem_path sp (seq_prefix sp bp) (fst am_s) idx ele)
                     (lc ++ [RIdx idx])%list (snd am_s))
       els 0 seen.
Proof. reflexivity. Qed.

Theorem sfp_enum n :
  o_anchors o = false -> transparent n -> is_container n = true ->
  forall bp lc seen r,
    search_for_paths lit re_search mt aa tm sp o n bp lc seen = Ok r ->
    map h_lk (fst r) = enum n lc.
Proof.
  intros Ha. induction n as [i v|i kvs IH|i els IH|i els IH] using node_ind'; intros Ht Hc bp lc seen r E.
  - discriminate Hc.
  - (* mapping *)
    simpl in E.
    match type of E with bind (loop ?b _ _ _) _ = _ => set (body := b) in * end.
    destruct (loop body kvs 0 seen) as [bd| |] eqn:El; simpl in E; try discriminate.
    unfold ymk_hits in E. rewrite Ha, andb_false_r in E. simpl in E. inversion E; subst; clear E.
    simpl fst. rewrite app_nil_r. simpl enum.
    eapply loop_floop; [|exact El].
    intros kv Hin idx seen0 r0 Eb. unfold body in Eb. clear El body.
    rewrite (skip_merged_off _ _ _ Ht) in Eb.
    destruct (transparent_map _ _ _ Ht Hin) as [Tk Tv].
    destruct (classify (fst kv) seen0 (o_kalias o) Ha Tk (or_introl eq_refl))
      as [ka [s1 [Ek [Hk1 [Hk2 [Hk3 Hk4]]]]]].
    rewrite Ek in Eb. simpl in Eb.
    destruct (classify (snd kv) s1 (o_valias o) Ha Tv (or_intror eq_refl))
      as [va [s2 [Ev [Hv1 [Hv2 [Hv3 Hv4]]]]]].
    rewrite Ev in Eb. simpl in Eb. rewrite Hk3 in Eb.
    unfold entry_enum.
    rewrite Forall_forall in IH. destruct (IH _ Hin) as [_ IHv].
    destruct (o_keys o); simpl in *.
    + rewrite Hk1 in Eb.
      destruct (term_matches lit re_search tm (node_hay (fst kv))) as [[|]| |] eqn:Em; simpl in Eb; try discriminate.
      * rewrite (satb_true _ Em).
        destruct (report lit re_search mt tm sp o (snd kv) _ _ HKey s2) as [hs| |] eqn:Er; simpl in Eb; try discriminate.
        inversion Eb; subst. eapply report_enum; eauto.
      * rewrite (satb_false _ Em).
        eapply value_part_enum; eauto.
    + eapply value_part_enum; eauto.
  - (* sequence *)
    rewrite sfp_seq_eq in E. simpl enum.
    eapply loop_floop; [|exact E].
    intros e Hin idx seen0 r0 Eb. cbv beta in Eb.
    pose proof (transparent_seq _ _ _ Ht Hin) as Te.
    destruct (classify e seen0 (o_valias o) Ha Te (or_intror eq_refl))
      as [am [s1 [Ea [H1 [H2 [H3 H4]]]]]].
    rewrite Ea in Eb. simpl in Eb.
    rewrite Forall_forall in IH.
    eapply value_part_enum; eauto.
  - (* set *)
    simpl in E. simpl enum.
    eapply loop_floop; [|exact E].
    intros k Hin idx seen0 r0 Eb. simpl in Eb.
    pose proof (transparent_set _ _ _ Ht Hin) as Tk.
    destruct (classify k seen0 (o_kalias o) Ha Tk (or_introl eq_refl))
      as [ka [s1 [Ek [H1 [H2 [H3 H4]]]]]].
    rewrite Ek in Eb. simpl in Eb. rewrite H3, H1 in Eb.
    unfold member_enum.
    destruct (term_matches lit re_search tm (node_hay k)) as [[|]| |] eqn:Em; simpl in Eb; try discriminate;
      inversion Eb; subst; simpl;
      [rewrite (satb_true _ Em) | rewrite (satb_false _ Em)]; reflexivity.
Qed.

End Enum.
