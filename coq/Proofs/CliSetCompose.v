(* C16 -- yaml-set's glue composed with the library models of its change step:
   processor.set_value = Model/Compose.v [ce_set] (Eval.v gathering + Mutate.set_value changing),
   its creating route = Create.create_set, processor.delete_gathered_nodes = Mutate.delete_nodes on
   the coordinates Eval.get_required gathered.  Adapters: Spec/CliLibSet.v. *)
From Coq Require Import List Ascii String ZArith NArith Bool Arith Lia.
From YP Require Import Outcome PyStr PyVal Doc PathParser Searches.
From YP Require Import Cli CliSpec CliSetPaths CliLibSpec CliLibSet.
From YP Require Eval Mutate Create Compose.
Import ListNotations.
Open Scope list_scope.

Section SetCompose.
  Variable lit : string -> outcome litres.
  Variable re_search : string -> string -> outcome reres.
  Variable nstr : node -> string.
  Variable vstr : list Eval.rval -> string.
  Variable kw_handler : bool -> keyword -> string -> Eval.rval -> Eval.ctx -> Eval.gen Eval.rval.
  Variable creator : list Eval.pseg -> nat -> Eval.rval -> Eval.ctx -> Eval.gen Eval.rval.
  Variable fl : string -> outcome Mutate.flres.
  Variable doc_of : nat -> node.
  Variable id_of : node -> nat.
  Variable ko_of : string -> option N.
  (* the glue's remaining oracles *)
  Variable built : lres nat.
  Variable saveto : nat -> lres nat.
  Variable flow : nat -> bool.
  Variable dump_fail : nat -> option string.
  Variable jsonview : nat -> nat.
  Variable yamlview : nat -> nat.
  Variable change_verb : nat -> nat.

  Notation CE_SET := (Compose.ce_set lit re_search nstr vstr kw_handler creator fl).
  Notation REQ := (Eval.get_required lit re_search nstr vstr kw_handler creator).

  (* main()'s change step, from the library models: set_value(change_path, new_value,
     value_format, mustexist = args.mustexist or args.saveto) / delete_gathered_nodes *)
  Definition lib_change (a : set_args) (p : Eval.ppath) (value : pyval) (fmt : Mutate.vformat) (vo : option N)
             (d0 : nat) : nat -> change_res :=
    total_change
      (match set_change_kind a with
       | ChSetValue =>
           lib_set_value lit re_search nstr vstr kw_handler creator fl doc_of id_of ko_of
                         (sa_mustexist a || sa_saveto a) p value fmt vo
       | ChDelete => lib_set_delete lit re_search nstr vstr kw_handler creator doc_of id_of p d0
       | _ => fun _ => None
       end).

  Notation TOOL a p value fmt vo d0 tty valfile_err load gather :=
    (cli_set_main built saveto (lib_change a p value fmt vo d0) flow dump_fail jsonview yamlview change_verb
                  a tty valfile_err load gather).

  (* whatever the change step leaves (ChOk d2) is what the run delivers *)
  Lemma delivers_post : forall a p value fmt vo d0 tty valfile_err load gather d2,
    sa_saveto a = false -> set_change_kind a <> ChNothing ->
    get_yaml_data load = L1Ok (Some d0) ->
    lib_change a p value fmt vo d0 d0 = ChOk d2 ->
    (r_status (TOOL a p value fmt vo d0 tty valfile_err load gather) = Exit 0 ->
     exists j, delivered (TOOL a p value fmt vo d0 tty valfile_err load gather)
               = [(j, [set_written a flow yamlview jsonview d2])]) /\
    (r_status (TOOL a p value fmt vo d0 tty valfile_err load gather) <> Exit 0 ->
     delivered (TOOL a p value fmt vo d0 tty valfile_err load gather) = []).
  Proof.
    intros a p value fmt vo d0 tty valfile_err load gather d2 Hs Hk Hl Hc.
    assert (Hp : set_post a saveto (lib_change a p value fmt vo d0) d0 = d2).
    { unfold set_post. rewrite Hs, Hc. destruct (set_change_kind a); try reflexivity. contradiction. }
    destruct (set_file built saveto (lib_change a p value fmt vo d0) flow dump_fail jsonview yamlview change_verb
                       a tty valfile_err load gather) as [[S [d0' [j [L D]]]]|[S D]].
    - split; [|intros N; contradiction]. intros _. exists j.
      assert (d0' = d0).
      { destruct L as [L|[L _]]; rewrite Hl in L; inversion L; reflexivity. }
      subst d0'. rewrite Hp in D. exact D.
    - split; [intros E; contradiction|intros _; exact D].
  Qed.

  (* yaml-set --change P --value V : glue o (Eval + Mutate) *)
  Theorem set_value_e2e : forall a p value fmt vo d0 tty valfile_err load gather st',
    set_change_kind a = ChSetValue -> sa_saveto a = false ->
    get_yaml_data load = L1Ok (Some d0) ->
    CE_SET (sa_mustexist a || sa_saveto a) p (doc_of d0) value fmt vo = Compose.CeDone st' ->
    (r_status (TOOL a p value fmt vo d0 tty valfile_err load gather) = Exit 0 ->
     exists j, delivered (TOOL a p value fmt vo d0 tty valfile_err load gather)
               = [(j, [set_written a flow yamlview jsonview (id_of (fst st'))])]) /\
    (r_status (TOOL a p value fmt vo d0 tty valfile_err load gather) <> Exit 0 ->
     delivered (TOOL a p value fmt vo d0 tty valfile_err load gather) = []).
  Proof.
    intros a p value fmt vo d0 tty valfile_err load gather st' Hk Hs Hl Hc.
    apply delivers_post; auto; [rewrite Hk; discriminate|].
    unfold lib_change, total_change, lib_set_value. rewrite Hk, Hc. reflexivity.
  Qed.

  (* the creating route: the optional gather reaches a node-creating branch on a straight path *)
  Theorem set_create_e2e : forall a segs cs value fmt vo d0 tty valfile_err load gather o k st',
    set_change_kind a = ChSetValue -> sa_saveto a = false -> sa_mustexist a = false ->
    get_yaml_data load = L1Ok (Some d0) ->
    CE_SET false (Eval.PPath segs) (doc_of d0) value fmt vo = Compose.CeRead (Eval.Mut o k) ->
    straight_segs ko_of segs = Some cs ->
    Create.create_set lit fl cs value fmt vo (doc_of d0) = Mutate.SDone st' ->
    (r_status (TOOL a (Eval.PPath segs) value fmt vo d0 tty valfile_err load gather) = Exit 0 ->
     exists j, delivered (TOOL a (Eval.PPath segs) value fmt vo d0 tty valfile_err load gather)
               = [(j, [set_written a flow yamlview jsonview (id_of (fst st'))])]) /\
    (r_status (TOOL a (Eval.PPath segs) value fmt vo d0 tty valfile_err load gather) <> Exit 0 ->
     delivered (TOOL a (Eval.PPath segs) value fmt vo d0 tty valfile_err load gather) = []).
  Proof.
    intros a segs cs value fmt vo d0 tty valfile_err load gather o k st' Hk Hs Hm Hl Hc Hst Hcr.
    apply delivers_post; auto; [rewrite Hk; discriminate|].
    unfold lib_change, total_change, lib_set_value. rewrite Hk, Hs, Hm. simpl. rewrite Hc, Hst, Hcr. reflexivity.
  Qed.

  (* yaml-set --change P --delete : glue o (Eval + Mutate.delete_nodes) *)
  Theorem set_delete_e2e : forall a p value fmt vo d0 tty valfile_err load gather items cs d',
    set_change_kind a = ChDelete -> sa_saveto a = false ->
    get_yaml_data load = L1Ok (Some d0) ->
    REQ p (doc_of d0) = (items, Eval.Done) -> Compose.ce_coords false items = Some cs ->
    Mutate.delete_nodes cs (doc_of d0) = Mutate.MDone d' ->
    (r_status (TOOL a p value fmt vo d0 tty valfile_err load gather) = Exit 0 ->
     exists j, delivered (TOOL a p value fmt vo d0 tty valfile_err load gather)
               = [(j, [set_written a flow yamlview jsonview (id_of d')])]) /\
    (r_status (TOOL a p value fmt vo d0 tty valfile_err load gather) <> Exit 0 ->
     delivered (TOOL a p value fmt vo d0 tty valfile_err load gather) = []).
  Proof.
    intros a p value fmt vo d0 tty valfile_err load gather items cs d' Hk Hs Hl Hq Hc Hd.
    apply delivers_post; auto; [rewrite Hk; discriminate|].
    unfold lib_change, total_change, lib_set_delete. rewrite Hk, Hq, Hc, Hd. reflexivity.
  Qed.

  (* the change step raises a YAML Path error (nothing matched although it must exist; a refused
     key collision; an impossible format): "Applying changes" ends with status 1 and no effect *)
  Theorem set_value_e2e_error : forall a p value fmt vo d0 n file out d1 k d2,
    set_change_kind a = ChSetValue ->
    lib_change a p value fmt vo d0 d1 = change_of_exn (YPE k) d2 ->
    let r := set_change_tail (lib_change a p value fmt vo d0) flow dump_fail jsonview yamlview change_verb a n file out d1 in
    r_status r = Exit 1 /\ r_fx r = [] /\ delivered r = dumped (r_out r).
  Proof.
    intros a p value fmt vo d0 n file out d1 k d2 Hk Hc. cbv zeta.
    unfold set_change_tail. rewrite Hk, Hc. simpl. unfold delivered. simpl. rewrite app_nil_r. repeat split.
  Qed.
End SetCompose.

(* ------------------------------------------------------------------ *)
(* ... and what that delivered document IS: C03_set_end_to_end / C04_delete_exact_end_to_end *)
From YP Require Import SpecC01 EvalLocAll C03spec C03hist C04spec C03e2e C04delete EvalDelete EvalSet.

Section SetComposeSpec.
  Variable lit : string -> outcome litres.
  Variable re_search : string -> string -> outcome reres.
  Variable nstr : node -> string.
  Variable vstr : list Eval.rval -> string.
  Variable kw_handler : bool -> keyword -> string -> Eval.rval -> Eval.ctx -> Eval.gen Eval.rval.
  Variable creator : list Eval.pseg -> nat -> Eval.rval -> Eval.ctx -> Eval.gen Eval.rval.
  Variable fl : string -> outcome Mutate.flres.
  Variable doc_of : nat -> node.
  Variable id_of : node -> nat.
  Variable ko_of : string -> option N.
  Variable built : lres nat.
  Variable saveto : nat -> lres nat.
  Variable flow : nat -> bool.
  Variable dump_fail : nat -> option string.
  Variable jsonview : nat -> nat.
  Variable yamlview : nat -> nat.
  Variable change_verb : nat -> nat.

  Notation GATHERED := (gathered lit re_search nstr vstr kw_handler creator).
  Notation TOOL a p value fmt vo d0 tty valfile_err load gather :=
    (cli_set_main built saveto
       (lib_change lit re_search nstr vstr kw_handler creator fl doc_of id_of ko_of a p value fmt vo d0)
       flow dump_fail jsonview yamlview change_verb a tty valfile_err load gather).

  (* yaml-set --mustexist --change P --value V: when the library call completes under the guards of
     C03_set_end_to_end, the document the tool delivers is the identifier of the successive
     substitution at the locations of exactly the nodes sem_doc selects *)
  Theorem set_value_e2e_spec : forall a segs value fmt vo d0 tty valfile_err load gather st',
    let p := Eval.PPath segs in
    let d := doc_of d0 in
    let pcs := GATHERED p d in
    let s0 := sv_start vo (Mutate.init_state d) in
    set_change_kind a = ChSetValue -> sa_saveto a = false -> sa_mustexist a = true ->
    get_yaml_data load = L1Ok (Some d0) ->
    c01_frag p = true -> is_null_node d = false -> specified (sem_doc lit re_search nstr true p d) = true ->
    slices_last segs = true -> Compose.ce_name_kw p = false -> ce_plain (sem_doc lit re_search nstr false p d) = true ->
    ce_doc_ok d = true ->
    acts_ok lit fl value (fst s0) (ce_acts fmt pcs) (snd s0) = true ->
    Compose.ce_set lit re_search nstr vstr kw_handler creator fl true p d value fmt vo = Compose.CeDone st' ->
    Forall2 (ce_holds d) (map pc_pair pcs) (sem_doc lit re_search nstr false p d) /\
    ce_set_spec lit fl value fmt (fst s0) (map pc_pair pcs) (snd s0) = Some st' /\
    (r_status (TOOL a p value fmt vo d0 tty valfile_err load gather) = Exit 0 ->
     exists j, delivered (TOOL a p value fmt vo d0 tty valfile_err load gather)
               = [(j, [set_written a flow yamlview jsonview (id_of (fst st'))])]) /\
    (r_status (TOOL a p value fmt vo d0 tty valfile_err load gather) <> Exit 0 ->
     delivered (TOOL a p value fmt vo d0 tty valfile_err load gather) = []).
  Proof.
    cbv zeta. intros a segs value fmt vo d0 tty valfile_err load gather st' Hk Hs Hm Hl Hfr Hnn Hsp Hsl Hnk Hpl Hok Hg Hc.
    destruct (set_required_e2e lit re_search nstr vstr kw_handler creator fl segs (doc_of d0) value fmt vo
                Hfr Hnn Hsp Hsl Hnk Hpl Hok) as [A [_ B]].
    destruct (B Hg st' Hc) as [B1 _].
    split; [exact A|]. split; [exact B1|].
    apply set_value_e2e; auto. rewrite Hm, Hs. exact Hc.
  Qed.

  (* yaml-set --delete --change P: the delivered document is the identifier of delete_spec *)
  Theorem set_delete_e2e_spec : forall a segs value fmt vo d0 tty valfile_err load gather,
    let p := Eval.PPath segs in
    let d := doc_of d0 in
    let ps := map pc_pair (GATHERED p d) in
    set_change_kind a = ChDelete -> sa_saveto a = false ->
    get_yaml_data load = L1Ok (Some d0) ->
    c01_frag p = true -> is_null_node d = false -> specified (sem_doc lit re_search nstr true p d) = true ->
    slices_last segs = true -> ce_plain (sem_doc lit re_search nstr false p d) = true ->
    sem_doc lit re_search nstr false p d <> [] ->
    ce_doc_ok d = true -> del_all_located d ps = true ->
    Forall2 (ce_holds d) ps (sem_doc lit re_search nstr false p d) /\
    (r_status (TOOL a p value fmt vo d0 tty valfile_err load gather) = Exit 0 ->
     exists j, delivered (TOOL a p value fmt vo d0 tty valfile_err load gather)
               = [(j, [set_written a flow yamlview jsonview (id_of (delete_spec d ps))])]) /\
    (r_status (TOOL a p value fmt vo d0 tty valfile_err load gather) <> Exit 0 ->
     delivered (TOOL a p value fmt vo d0 tty valfile_err load gather) = []).
  Proof.
    cbv zeta. intros a segs value fmt vo d0 tty valfile_err load gather Hk Hs Hl Hfr Hnn Hsp Hsl Hpl Hne Hok Hloc.
    pose proof Hok as Hok'. unfold ce_doc_ok in Hok'.
    apply andb_prop in Hok'. destruct Hok' as [Hok' Hwa]. apply andb_prop in Hok'. destruct Hok' as [Hok' Hkd].
    apply andb_prop in Hok'. destruct Hok' as [Hok' Hsm]. apply andb_prop in Hok'. destruct Hok' as [Hwd Hfl].
    apply wf_docb_sound in Hwd.
    destruct (gathered_holds_sem lit re_search nstr vstr kw_handler creator segs (doc_of d0)
                Hfr Hnn Hsp Hsl Hpl Hwd Hfl Hsm Hkd) as [A [B C]].
    split; [exact A|].
    destruct (Eval.get_required lit re_search nstr vstr kw_handler creator (Eval.PPath segs) (doc_of d0)) as [items st] eqn:Eq.
    simpl in B, C.
    assert (Est : st = Eval.Done).
    { rewrite C. destruct (sem_doc lit re_search nstr false (Eval.PPath segs) (doc_of d0)); [contradiction|reflexivity]. }
    rewrite Est in Eq.
    apply (set_delete_e2e lit re_search nstr vstr kw_handler creator fl doc_of id_of ko_of built saveto flow dump_fail
             jsonview yamlview change_verb a (Eval.PPath segs) value fmt vo d0 tty valfile_err load gather items
             (map (fun c => Mutate.CNode c false) (GATHERED (Eval.PPath segs) (doc_of d0)))
             (delete_spec (doc_of d0) (map pc_pair (GATHERED (Eval.PPath segs) (doc_of d0)))) Hk Hs Hl Eq B).
    apply (delete_gathered_exact lit re_search nstr vstr kw_handler creator (Eval.PPath segs) (doc_of d0) Hwd Hloc).
  Qed.
End SetComposeSpec.
