(* Proofs for yaml-validate and for file-vs-STDIN delivery (C16). *)
From Coq Require Import List Ascii String ZArith Bool Arith Lia.
From YP Require Import Outcome PyStr Cli CliSpec.
Import ListNotations.
Open Scope list_scope.

Definition has_fail (ys : list yielded) : bool := existsb (fun y => match y with YFail => true | _ => false end) ys.

Lemma val_docs_state : forall n name ys idx,
  fst (val_docs n name ys idx) = if has_fail ys then 2 else 0.
Proof.
  intros n name ys. induction ys as [|y r IH]; intros idx; simpl; [reflexivity|].
  specialize (IH (S idx)). destruct (val_docs n name r (S idx)) as [st ls]. simpl in IH.
  destruct y; simpl; [exact IH|reflexivity].
Qed.

Lemma has_fail_map_ydoc : forall ds, has_fail (map YDoc ds) = false.
Proof. induction ds; simpl; auto. Qed.

Lemma has_fail_app : forall a b, has_fail (a ++ b) = has_fail a || has_fail b.
Proof. intros. unfold has_fail. apply existsb_app. Qed.

(* one file: its state is 0 iff it loads; 2 iff a trapped failure; an untrapped one escapes *)
Lemma val_process_file_spec : forall estr n s st ls unc,
  val_process_file estr n s = (st, ls, unc) ->
  (unc = None -> (st = 0 <-> loads s) /\ (st = 0 \/ st = 2)) /\
  (unc <> None -> ~ loads s).
Proof.
  intros estr n s st ls unc. unfold val_process_file, multidoc_yields, loads.
  destruct (rl_fail (s_raw s)) as [mro|] eqn:F.
  - destruct (is_trapped mro).
    + pose proof (val_docs_state n (display_name (s_name s)) (map YDoc (rl_docs (s_raw s)) ++ [YFail]) 0) as X.
      destruct (val_docs _ _ _ _) as [st' ls']. simpl in X.
      rewrite has_fail_app in X. simpl in X. rewrite orb_true_r in X.
      intros E. inversion E; subst. split.
      * intros _. split; [split; [discriminate|intro H; discriminate]|right; reflexivity].
      * intros H. congruence.
    + destruct (val_docs _ _ _ _) as [st' ls']. intros E. inversion E; subst. split.
      * intros H. discriminate.
      * intros _ H. discriminate.
  - set (ys := if src_is_stdin s && _ then _ else _).
    assert (HF : has_fail ys = false).
    { unfold ys. destruct (src_is_stdin s && _); [reflexivity|apply has_fail_map_ydoc]. }
    pose proof (val_docs_state n (display_name (s_name s)) ys 0) as X.
    destruct (val_docs _ _ _ _) as [st' ls']. simpl in X. rewrite HF in X.
    intros E. inversion E; subst. split.
    + intros _. split; [split; auto|left; reflexivity].
    + intros H. congruence.
Qed.

Lemma val_loop_spec : forall estr n srcs st0 consumed st c ls unc,
  val_loop estr n srcs st0 consumed = (st, c, ls, unc) ->
  c = consumed || existsb (fun s => is_dash (s_name s)) srcs \/ unc <> None.
Proof.
  intros estr n srcs. induction srcs as [|s r IH]; intros st0 consumed st c ls unc; simpl.
  - intros E. inversion E; subst. left. rewrite orb_false_r. reflexivity.
  - destruct (val_process_file estr n s) as [[st1 ls1] unc1].
    destruct unc1.
    + intros E. inversion E; subst. right. discriminate.
    + destruct (val_loop estr n r _ _) as [[[e2 c2] ls2] u2] eqn:L.
      intros E. inversion E; subst.
      destruct (IH _ _ _ _ _ _ L) as [H|H]; [left|right; exact H].
      rewrite H. rewrite orb_assoc. reflexivity.
Qed.

Lemma val_loop_state : forall estr n srcs st0 consumed st c ls,
  val_loop estr n srcs st0 consumed = (st, c, ls, None) ->
  (st = 0 <-> st0 = 0 /\ Forall loads srcs) /\ (st0 = 0 \/ st0 = 2 -> st = 0 \/ st = 2).
Proof.
  intros estr n srcs. induction srcs as [|s r IH]; intros st0 consumed st c ls; simpl.
  - intros E. inversion E; subst. split; [split; [auto|intros [H _]; exact H]|auto].
  - destruct (val_process_file estr n s) as [[st1 ls1] unc1] eqn:P.
    destruct unc1; [intros E; inversion E|].
    destruct (val_loop estr n r _ _) as [[[e2 c2] ls2] u2] eqn:L.
    intros E. inversion E; subst.
    destruct (val_process_file_spec _ _ _ _ _ _ P) as [S1 _].
    destruct (S1 eq_refl) as [Siff Srange].
    destruct (IH _ _ _ _ _ L) as [Iiff Irange].
    split.
    + rewrite Iiff. destruct (Nat.eqb st1 0) eqn:Z.
      * apply Nat.eqb_eq in Z. subst st1. split.
        -- intros [A B]. split; [exact A|constructor; [apply Siff; reflexivity|exact B]].
        -- intros [A B]. inversion B; subst. split; auto.
      * apply Nat.eqb_neq in Z. split.
        -- intros [A _]. congruence.
        -- intros [_ B]. inversion B; subst. exfalso. apply Z. apply Siff. assumption.
    + intros H. apply Irange. destruct (Nat.eqb st1 0); [exact H|exact Srange].
Qed.

Lemma val_loop_uncaught : forall estr n srcs st0 consumed st c ls u,
  val_loop estr n srcs st0 consumed = (st, c, ls, Some u) -> ~ Forall loads srcs.
Proof.
  intros estr n srcs. induction srcs as [|s r IH]; intros st0 consumed st c ls u; simpl.
  - intros E. inversion E.
  - destruct (val_process_file estr n s) as [[st1 ls1] unc1] eqn:P.
    destruct (val_process_file_spec _ _ _ _ _ _ P) as [_ S2].
    destruct unc1.
    + intros _ F. inversion F; subst. apply S2; [discriminate|assumption].
    + destruct (val_loop estr n r _ _) as [[[e2 c2] ls2] u2] eqn:L.
      intros E. inversion E; subst. intros F. inversion F; subst. eapply IH; eauto.
Qed.

(* yaml-validate: with a valid command line, exit 0 exactly when every document of every
   named file loads and, when a STDIN document waits, every document of it as well;
   otherwise exit 2, or an exception the loader does not trap escapes *)
Lemma validate_exit_iff : forall estr a tty srcs stdin_src,
  val_validate_errors (List.length srcs) (map s_name srcs) (va_nostdin a) tty = 0 ->
  (r_status (val_main estr a tty srcs stdin_src) = Exit 0 <->
   Forall loads srcs /\ (stdin_waits a tty srcs = true -> loads stdin_src)).
Proof.
  intros estr a tty srcs stdin_src V. unfold val_main. rewrite V. simpl.
  destruct (val_loop estr (va_noise a) srcs 0 false) as [[[st c] ls] unc] eqn:L.
  destruct unc as [u|].
  - simpl. split; [discriminate|]. intros [F _]. exfalso. eapply val_loop_uncaught; eauto.
  - destruct (val_loop_state _ _ _ _ _ _ _ _ L) as [Siff _].
    destruct (val_loop_spec _ _ _ _ _ _ _ _ _ L) as [C|C]; [|congruence]. simpl in C.
    unfold stdin_waits. rewrite <- C.
    destruct (Nat.eqb st 0) eqn:Z; simpl.
    + apply Nat.eqb_eq in Z. subst st. destruct (proj1 Siff eq_refl) as [_ F].
      destruct (negb c && negb (va_nostdin a) && negb tty) eqn:W.
      * destruct (val_process_file estr (va_noise a) stdin_src) as [[st2 ls2] unc2] eqn:P.
        destruct (val_process_file_spec _ _ _ _ _ _ P) as [S1 S2].
        destruct unc2; simpl.
        -- split; [discriminate|]. intros [_ H]. exfalso. apply S2; [discriminate|]. apply H. reflexivity.
        -- destruct (S1 eq_refl) as [I _]. split.
           ++ intros E. inversion E; subst. split; [exact F|]. intros _. apply I. reflexivity.
           ++ intros [_ H]. f_equal. apply I. apply H. reflexivity.
      * simpl. split; [|reflexivity]. intros _. split; [exact F|]. intros X. discriminate.
    + apply Nat.eqb_neq in Z. simpl. split.
      * intros E. inversion E. congruence.
      * intros [F _]. exfalso. apply Z. apply Siff. auto.
Qed.

(* and it never exits with anything but 0 or 2 once the command line is accepted *)
Lemma validate_status_range : forall estr a tty srcs stdin_src,
  val_validate_errors (List.length srcs) (map s_name srcs) (va_nostdin a) tty = 0 ->
  r_status (val_main estr a tty srcs stdin_src) = Exit 0 \/
  r_status (val_main estr a tty srcs stdin_src) = Exit 2 \/
  exists c, r_status (val_main estr a tty srcs stdin_src) = Uncaught (UCrash c).
Proof.
  intros estr a tty srcs stdin_src V. unfold val_main. rewrite V. simpl.
  destruct (val_loop estr (va_noise a) srcs 0 false) as [[[st c] ls] unc] eqn:L.
  destruct unc as [u|]; [right; right; eexists; reflexivity|].
  destruct (val_loop_state _ _ _ _ _ _ _ _ L) as [_ R].
  destruct (R (or_introl eq_refl)) as [Z|Z]; subst st; simpl.
  - destruct (negb c && negb (va_nostdin a) && negb tty).
    + destruct (val_process_file estr (va_noise a) stdin_src) as [[st2 ls2] unc2] eqn:P.
      destruct (val_process_file_spec _ _ _ _ _ _ P) as [S1 _].
      destruct unc2; [right; right; eexists; reflexivity|].
      destruct (S1 eq_refl) as [_ [Z|Z]]; subst; auto.
    + auto.
  - auto.
Qed.

(* ---------------- file vs STDIN ---------------- *)

(* the loader yields the same documents for a file and for STDIN, unless the stream is empty *)
Lemma multidoc_delivery_same : forall estr r,
  holds_a_document r -> multidoc_yields estr true r = multidoc_yields estr false r.
Proof.
  intros estr r H. unfold holds_a_document in H. unfold multidoc_yields.
  destruct (rl_fail r) eqn:F; [reflexivity|].
  destruct (rl_docs r) eqn:D; [|reflexivity]. destruct H as [H|H]; congruence.
Qed.

Lemma multidoc_delivery_empty_differs : forall estr,
  multidoc_yields estr true (mkraw [] None) <> multidoc_yields estr false (mkraw [] None).
Proof. intros estr. unfold multidoc_yields. simpl. discriminate. Qed.

(* yaml-get is a function of the loaded document: naming the file, naming "-", or leaving the
   name out with a waiting STDIN cannot change the status or any printed line *)
Definition same_get_options (a b : get_args) : Prop :=
  ga_noise a = ga_noise b /\ ga_priv a = ga_priv b /\ ga_priv_ok a = ga_priv_ok b /\
  ga_pub a = ga_pub b /\ ga_pub_ok a = ga_pub_ok b.

Lemma log_verbose_muted : forall n l, log_verbose (mute_unless_forced n) l = log_verbose n l.
Proof.
  intros n l. unfold mute_unless_forced.
  destruct (n_verbose n || n_debug n) eqn:F; [reflexivity|]. unfold log_verbose. simpl.
  rewrite F. rewrite andb_false_r. reflexivity.
Qed.

Lemma get_delivery_same : forall a tty b tty' load qverb query,
  same_get_options a b ->
  get_validate_errors a tty = 0 -> get_validate_errors b tty' = 0 ->
  get_main a tty load qverb query = get_main b tty' load qverb query.
Proof.
  intros a tty b tty' load qverb query (N & _) Va Vb. unfold get_main. rewrite Va, Vb. simpl.
  rewrite <- N.
  destruct (get_in_stream a tty), (get_in_stream b tty'); try rewrite !log_verbose_muted; reflexivity.
Qed.

(* yaml-validate / yaml-diff / yaml-merge / yaml-paths read every source through the same loader:
   for a source that holds a document, the per-file results do not depend on the delivery *)
Lemma validate_delivery_same : forall estr n name isf raw,
  holds_a_document raw ->
  let '(st1, _, u1) := val_process_file estr n (mksrc "-" false raw) in
  let '(st2, _, u2) := val_process_file estr n (mksrc name isf raw) in
  st1 = st2 /\ u1 = u2.
Proof.
  intros estr n name isf raw H. unfold val_process_file. simpl s_raw.
  replace (multidoc_yields estr (src_is_stdin (mksrc name isf raw)) raw)
    with (multidoc_yields estr (src_is_stdin (mksrc "-" false raw)) raw).
  2:{ unfold src_is_stdin; simpl. destruct (String.eqb name "-"); [reflexivity|].
      apply multidoc_delivery_same; assumption. }
  destruct (multidoc_yields _ _ raw) as [ys unc].
  pose proof (val_docs_state n (display_name (s_name (mksrc "-" false raw))) ys 0) as X1.
  pose proof (val_docs_state n (display_name (s_name (mksrc name isf raw))) ys 0) as X2.
  destruct (val_docs n (display_name (s_name (mksrc "-" false raw))) ys 0) as [s1 l1].
  destruct (val_docs n (display_name (s_name (mksrc name isf raw))) ys 0) as [s2 l2].
  simpl in *. split; congruence.
Qed.

Lemma diff_delivery_same : forall estr name raw,
  holds_a_document raw ->
  diff_get_docs estr (mksrc "-" false raw) = diff_get_docs estr (mksrc name true raw).
Proof.
  intros estr name raw H. unfold diff_get_docs, src_is_stdin. simpl.
  destruct (String.eqb name "-"); simpl; [reflexivity|].
  rewrite (multidoc_delivery_same estr raw H). reflexivity.
Qed.
