(* C18: pure list inductions over the abstract pairwise merge. *)
From Coq Require Import List ZArith Bool Lia.
From YP Require Import Outcome MergeConfig MultiDoc.
Import ListNotations.

Section P.
Variable doc : Type.
Variable merge2 : doc -> doc -> doc * option exn.
Notation m2 := (m2 doc merge2).
Notation all_succeed := (all_succeed doc merge2).

Lemma m2_eq : forall l r, all_succeed -> merge2 l r = (m2 l r, None).
Proof. intros l r H. unfold MultiDoc.m2. specialize (H l r). destruct (merge2 l r); simpl in *. now subst. Qed.

Lemma condense_into_ok : forall code ds p st,
  all_succeed -> condense_into doc merge2 code ds p st = Ok (fold_left m2 ds p, st).
Proof.
  induction ds as [|d rest IH]; intros p st H; simpl; [reflexivity|].
  rewrite (m2_eq p d H). now rewrite IH.
Qed.

Theorem condense_all_is_fold : forall l0 rest rs,
  all_succeed ->
  merge_condense_all doc merge2 (l0 :: rest) rs = Ok ([fold_left m2 (rest ++ rs) l0], 0).
Proof.
  intros. unfold merge_condense_all. rewrite condense_into_ok by assumption. simpl.
  rewrite condense_into_ok by assumption. simpl. now rewrite fold_left_app.
Qed.

(* whatever fails: condense-all yields exactly one document *)
Theorem condense_all_one_output : forall ls rs out st,
  merge_condense_all doc merge2 ls rs = Ok (out, st) -> length out = 1.
Proof.
  intros ls rs out st H. unfold merge_condense_all in H. destruct ls as [|l0 rest]; [discriminate|].
  destruct (condense_into doc merge2 _ rest l0 0) as [[p1 s1]| |]; simpl in H; try discriminate.
  destruct (condense_into doc merge2 _ rs p1 s1) as [[p2 s2]| |]; simpl in H; try discriminate.
  inversion H; reflexivity.
Qed.

Theorem across_is_spec : forall ls rs,
  all_succeed -> merge_across doc merge2 ls rs = Ok (across_spec doc merge2 ls rs, 0).
Proof.
  induction ls as [|l ls' IH]; intros rs H.
  - destruct rs; reflexivity.
  - destruct rs as [|r rs']; [reflexivity|]. simpl. rewrite (m2_eq l r H). rewrite IH by assumption. reflexivity.
Qed.

Lemma across_spec_length : forall ls rs,
  length (across_spec doc merge2 ls rs) = Nat.max (length ls) (length rs).
Proof.
  induction ls as [|l ls' IH]; intros rs.
  - destruct rs; reflexivity.
  - destruct rs as [|r rs']; [reflexivity|]. simpl. now rewrite IH.
Qed.

Lemma across_spec_nth : forall ls rs i l r d,
  nth_error ls i = Some l -> nth_error rs i = Some r ->
  nth i (across_spec doc merge2 ls rs) d = m2 l r.
Proof.
  induction ls as [|l0 ls' IH]; intros rs i l r d Hl Hr.
  - destruct i; discriminate.
  - destruct rs as [|r0 rs']; [destruct i; discriminate|].
    destruct i; simpl in *.
    + now inversion Hl; inversion Hr; subst.
    + now apply IH.
Qed.

Lemma across_spec_surplus : forall ls rs i r d,
  length ls <= i -> nth_error rs i = Some r -> nth i (across_spec doc merge2 ls rs) d = r.
Proof.
  induction ls as [|l0 ls' IH]; intros rs i r d Hlen Hr.
  - destruct rs as [|d0 rs0]; [destruct i; discriminate|]. change (across_spec doc merge2 [] (d0 :: rs0)) with (d0 :: rs0). now apply nth_error_nth.
  - destruct rs as [|r0 rs']; [destruct i; discriminate|].
    destruct i; simpl in *; [lia|]. apply IH; [lia|assumption].
Qed.

Lemma matrix_row_ok : forall rs l, all_succeed -> matrix_row doc merge2 rs l = Ok (fold_left m2 rs l, None).
Proof.
  induction rs as [|r rest IH]; intros l H; simpl; [reflexivity|]. rewrite (m2_eq l r H). now apply IH.
Qed.

Theorem matrix_is_map_fold : forall ls rs,
  all_succeed -> merge_matrix doc merge2 ls rs = Ok (map (fun l => fold_left m2 rs l) ls, 0).
Proof.
  intros ls rs H. unfold merge_matrix. generalize 0 as st.
  induction ls as [|l rest IH]; intros st; simpl; [reflexivity|].
  rewrite matrix_row_ok by assumption. simpl. rewrite IH. reflexivity.
Qed.

(* whatever fails: matrix yields one output per left document *)
Theorem matrix_output_count : forall ls rs st0 out st,
  merge_matrix_from doc merge2 ls rs st0 = Ok (out, st) -> length out = length ls.
Proof.
  induction ls as [|l rest IH]; intros rs st0 out st H; simpl in H.
  - inversion H; reflexivity.
  - destruct (matrix_row doc merge2 rs l) as [[l' e]| |]; simpl in H; try discriminate.
    destruct (merge_matrix_from doc merge2 rest rs _) as [[t st']| |] eqn:E; simpl in H; try discriminate.
    inversion H; subst. simpl. f_equal. eapply IH; eauto.
Qed.

(* exit states: zero exactly when nothing failed (under success), and an error
   in across stops the walk with the failing pair's state *)
Theorem across_error_stops : forall l ls r rs l' x c,
  merge2 l r = (l', Some x) -> catch x = Some c ->
  merge_across doc merge2 (l :: ls) (r :: rs) = Ok (l' :: ls, st_across c).
Proof. intros. simpl. rewrite H, H0. reflexivity. Qed.

(* merge_docs: the dispatcher hands the WHOLE loaded stream -- every document,
   empty ones included, in file order -- to the driver of the selected mode *)
Theorem merge_docs_dispatch : forall m ls rs,
  merge_docs doc merge2 (Ok m) (Some rs) ls =
  match m with
  | MCondense => merge_condense_all doc merge2 ls rs
  | MAcross => merge_across doc merge2 ls rs
  | MMatrix => merge_matrix doc merge2 ls rs
  end.
Proof. reflexivity. Qed.

Theorem merge_docs_unloaded : forall m ls, merge_docs doc merge2 (Ok m) None ls = Ok (ls, 3).
Proof. reflexivity. Qed.

Theorem merge_docs_bad_mode : forall e rs ls, merge_docs doc merge2 (Raise e) rs ls = Raise e.
Proof. reflexivity. Qed.

(* the number of output documents of merge-across under merge_docs: stream lengths alone *)
Theorem merge_docs_across_count : forall ls rs out,
  all_succeed -> merge_docs doc merge2 (Ok MAcross) (Some rs) ls = Ok (out, 0) ->
  length out = Nat.max (length ls) (length rs).
Proof.
  intros ls rs out H E. rewrite merge_docs_dispatch in E. rewrite across_is_spec in E by assumption.
  inversion E. apply across_spec_length.
Qed.
End P.
