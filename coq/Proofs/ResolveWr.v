(* Resolve, step 1: what escape_path_section writes.

   [wr S pb k] is the written form of a key text [k]: a back-slash is doubled;
   a character of [S] gets a back-slash, unless it directly follows a
   back-slash of [k] (ensure_escaped's split/replace/join takes that pair for
   an already escaped symbol and leaves it alone); everything else is
   written as it is.  [pb] = "the previous character of k was a back-slash".

   For every key without two adjacent back-slashes,
       escape_path_section k sepc = wr (its symbol list) false k
   and every further ensure_escaped round (str() of the unescaped parse) only
   enlarges S.  Then the parser model is run over the written form. *)
From Coq Require Import List Ascii String ZArith Bool Arith Lia.
From YP Require Import Outcome PyStr Generated PathParser PathPrinter C08Spec RtStep RtSeg RtInt RtRender RtCanon PathBuild.
Import ListNotations.
Open Scope string_scope.
Open Scope nat_scope.

Fixpoint wr (S : list ascii) (pb : bool) (k : string) : string :=
  match k with
  | EmptyString => EmptyString
  | String c r =>
      if Ascii.eqb c bs then String bs (String bs (wr S true r))
      else if mem_ascii c S && negb pb then String bs (String c (wr S false r))
      else String c (wr S false r)
  end.

(* [okb H pb k]: no character of H directly after a back-slash of k (pb: a
   back-slash precedes k) *)
Fixpoint okb (H : list ascii) (pb : bool) (k : string) : bool :=
  match k with
  | EmptyString => true
  | String c r => (if pb then negb (mem_ascii c H) else true) && okb H (Ascii.eqb c bs) r
  end.

Lemma okb_no_bs_before H k : okb H false k = pb_no_bs_before H k.
Proof.
  assert (G : forall k pb, okb H pb k
             = ((if pb then match k with String d _ => negb (mem_ascii d H) | EmptyString => true end else true)
                && pb_no_bs_before H k)%bool).
  { induction k0 as [|c r IH]; intros pb; [destruct pb; reflexivity|].
    cbn [okb pb_no_bs_before]. rewrite IH. fold bs.
    destruct pb, (Ascii.eqb c bs); cbn; try reflexivity; rewrite ?andb_true_r; reflexivity. }
  rewrite G. reflexivity.
Qed.

Lemma okb_sub H H' pb k :
  (forall c, mem_ascii c H' = true -> mem_ascii c H = true) -> okb H pb k = true -> okb H' pb k = true.
Proof.
  intros Hs. revert pb. induction k as [|c r IH]; intros pb; [reflexivity|]. cbn [okb]. intros E.
  apply andb_true_iff in E. destruct E as [E1 E2]. rewrite (IH _ E2), andb_true_r.
  destruct pb; [|reflexivity]. apply negb_true_iff in E1. apply negb_true_iff.
  destruct (mem_ascii c H') eqn:E; [|reflexivity]. rewrite (Hs _ E) in E1. discriminate.
Qed.

Lemma wr_ext S S' : (forall c, mem_ascii c S = mem_ascii c S') -> forall k pb, wr S pb k = wr S' pb k.
Proof.
  intros H. induction k as [|c r IH]; intros pb; [reflexivity|]. cbn [wr]. rewrite H, !IH. reflexivity.
Qed.

(* ---- the back-slash round ---- *)
Lemma wr_nil_Rp : forall k pb, wr [] pb k = Rp bs k.
Proof.
  induction k as [|c r IH]; intros pb; [reflexivity|]. cbn [wr mem_ascii andb]. rewrite Rp_cons, !IH.
  rewrite (Ascii.eqb_sym bs c). destruct (Ascii.eqb c bs) eqn:E; [|reflexivity].
  apply Ascii.eqb_eq in E. subst c. reflexivity.
Qed.

Lemma split_nodbl : forall s cur, okb [bs] false s = true -> split_go (rt_of bs) s 0 cur = [cur ++ s].
Proof.
  induction s as [|c r IH]; intros cur H; [cbn; rewrite app_nil_r_s; reflexivity|].
  cbn [split_go]. cbn [okb] in H. cbn [andb] in H.
  assert (Hs : starts_with (rt_of bs) (String c r) = false).
  { unfold rt_of. cbn [starts_with]. rewrite (Ascii.eqb_sym bs c).
    destruct (Ascii.eqb c bs) eqn:E; [|reflexivity].
    destruct r as [|d r']; [reflexivity|]. cbn [okb mem_ascii] in H.
    apply andb_true_iff in H. destruct H as [H _]. apply negb_true_iff in H.
    rewrite (Ascii.eqb_sym bs d). destruct (Ascii.eqb d bs); [discriminate H | reflexivity]. }
  rewrite Hs. rewrite IH.
  - unfold snoc. rewrite app_assoc_s. reflexivity.
  - destruct (Ascii.eqb c bs) eqn:E.
    + (* okb [bs] true r -> okb [bs] false r *)
      destruct r as [|d r']; [reflexivity|]. cbn [okb] in H |- *. apply andb_true_iff in H. destruct H as [_ H]. exact H.
    + exact H.
Qed.

Lemma escape_bs_round k : okb [bs] false k = true -> escape_symbol k (str1 bs) = wr [] false k.
Proof.
  intros H. unfold escape_symbol, split_on.
  change (String "\"%char (str1 bs)) with (rt_of bs).
  rewrite split_nodbl by exact H. cbn [map join append].
  rewrite wr_nil_Rp. reflexivity.
Qed.

(* ---- a round for any other symbol ---- *)
Lemma scan1_bs_cons d c X :
  scan1 d (String bs (String c X))
  = if Ascii.eqb c d then String bs (String d (scan1 d X)) else String bs (scan1 d (String c X)).
Proof. cbn [scan1]. replace (Ascii.eqb bs bs) with true by reflexivity. reflexivity. Qed.

Lemma scan1_plain d c X : Ascii.eqb c bs = false ->
  scan1 d (String c X) = if Ascii.eqb c d then String bs (String d (scan1 d X)) else String c (scan1 d X).
Proof. intros H. cbn [scan1]. rewrite H. reflexivity. Qed.

Lemma scan1_wr d S : Ascii.eqb d bs = false ->
  forall k,
    (okb [bs] false k = true -> scan1 d (wr S false k) = wr (d :: S) false k) /\
    (okb [bs] true k = true -> scan1 d (String bs (wr S true k)) = String bs (wr (d :: S) true k)).
Proof.
  intros Hd. induction k as [|c r [IH1 IH2]]; [split; reflexivity|].
  split; intros H; cbn [okb] in H.
  - cbn [andb] in H. cbn [wr mem_ascii negb andb].
    destruct (Ascii.eqb c bs) eqn:Ecb.
    + (* c is the back-slash: \\ then the rest with pb = true *)
      rewrite scan1_bs_cons. rewrite (Ascii.eqb_sym bs d), Hd.
      rewrite (IH2 H). reflexivity.
    + rewrite !andb_true_r. specialize (IH1 H).
      destruct (Ascii.eqb c d) eqn:Ecd.
      * apply Ascii.eqb_eq in Ecd. subst c.
        destruct (mem_ascii d S).
        -- rewrite scan1_bs_cons, Ascii.eqb_refl, IH1. reflexivity.
        -- rewrite (scan1_plain d d _ Ecb), Ascii.eqb_refl, IH1. reflexivity.
      * destruct (mem_ascii c S).
        -- rewrite scan1_bs_cons, Ecd, (scan1_plain d c _ Ecb), Ecd, IH1. reflexivity.
        -- rewrite (scan1_plain d c _ Ecb), Ecd, IH1. reflexivity.
  - apply andb_true_iff in H. destruct H as [Hc H]. cbn [mem_ascii] in Hc.
    destruct (Ascii.eqb c bs) eqn:Ecb; [discriminate Hc|].
    cbn [wr]. rewrite Ecb. rewrite !andb_false_r. specialize (IH1 H).
    rewrite scan1_bs_cons.
    destruct (Ascii.eqb c d) eqn:Ecd.
    + rewrite IH1. apply Ascii.eqb_eq in Ecd. subst c. reflexivity.
    + rewrite (scan1_plain d c _ Ecb), Ecd, IH1. reflexivity.
Qed.

(* the whole loop of ensure_escaped over single-character symbols other than
   the back-slash, on a written text *)
Lemma ensure_wr : forall ds S k,
  forallb (fun d => negb (Ascii.eqb d bs)) ds = true -> okb [bs] false k = true ->
  ensure_escaped (wr S false k) (map str1 ds) = wr (rev ds ++ S)%list false k.
Proof.
  unfold ensure_escaped.
  induction ds as [|d r IH]; intros S k Hds Hk; [reflexivity|].
  cbn [map fold_left forallb] in *. apply andb_true_iff in Hds. destruct Hds as [Hd Hr].
  apply negb_true_iff in Hd.
  rewrite (escape_symbol_scan d _ Hd).
  destruct (scan1_wr d S Hd k) as [H1 _]. rewrite (H1 Hk).
  rewrite IH by assumption. cbn [rev]. rewrite <- app_assoc. reflexivity.
Qed.

(* ---- escape_path_section ---- *)
Definition sec_syms (sepc : ascii) : list ascii :=
  match g_section_escape_syms with
  | _ :: r => map (fun o => match o with Some c => c | None => sepc end) r
  | [] => []
  end.

(* side conditions over the regenerated table: the first symbol is the
   back-slash, no other is, and the list contains every character the parser
   does not take as plain text in a key *)
Lemma T_sec_syms sp : syms_with_sep g_section_escape_syms (sep_char sp) = map str1 (bs :: sec_syms (sep_char sp)).
Proof. destruct sp; reflexivity. Qed.
Lemma T_sec_nobs sp : forallb (fun d => negb (Ascii.eqb d bs)) (sec_syms (sep_char sp)) = true.
Proof. destruct sp; reflexivity. Qed.
Lemma T_sec_hard sp c : mem_ascii c (pb_hard (sep_char sp)) = true -> mem_ascii c (sec_syms (sep_char sp)) = true.
Proof. intros H. destruct sp; all_ascii c; vm_compute in H; try discriminate H; reflexivity. Qed.

Definition sec_set (sp : sep) : list ascii := rev (sec_syms (sep_char sp)).

Theorem escape_section_wr sp k :
  okb [bs] false k = true -> escape_path_section k (sep_char sp) = wr (sec_set sp) false k.
Proof.
  intros H. unfold escape_path_section. rewrite T_sec_syms. cbn [map].
  unfold ensure_escaped. cbn [fold_left]. rewrite (escape_bs_round k H).
  change (fold_left escape_symbol (map str1 (sec_syms (sep_char sp))) (wr [] false k))
    with (ensure_escaped (wr [] false k) (map str1 (sec_syms (sep_char sp)))).
  rewrite ensure_wr by (try apply T_sec_nobs; exact H). rewrite app_nil_r. reflexivity.
Qed.

Theorem escape_section_written sp k :
  pb_no_bs_before ["\"%char] k = true -> escape_path_section k (sep_char sp) = wr (sec_set sp) false k.
Proof. intros H. apply escape_section_wr. rewrite okb_no_bs_before. exact H. Qed.

Lemma sec_set_hard sp c : mem_ascii c (pb_hard (sep_char sp)) = true -> mem_ascii c (sec_set sp) = true.
Proof. intros H. unfold sec_set. rewrite mem_rev. apply T_sec_hard. exact H. Qed.

(* ---- facts about the written form ---- *)
Lemma wr_str_in c S : Ascii.eqb c bs = false -> forall k pb, str_in c (wr S pb k) = str_in c k.
Proof.
  intros Hc. induction k as [|d r IH]; intros pb; [reflexivity|]. cbn [wr].
  destruct (Ascii.eqb d bs) eqn:E.
  - apply Ascii.eqb_eq in E. subst d. cbn [str_in]. rewrite Hc, IH. reflexivity.
  - destruct (mem_ascii d S && negb pb); cbn [str_in]; rewrite ?Hc, IH; reflexivity.
Qed.

Lemma wr_nonempty S pb k : nonempty k = true -> nonempty (wr S pb k) = true.
Proof.
  destruct k as [|c r]; [discriminate|]. intros _. cbn [wr].
  destruct (Ascii.eqb c bs); [reflexivity|]. destruct (mem_ascii c S && negb pb); reflexivity.
Qed.

(* what the two parses keep *)
Definition keptw (strip : bool) (S : list ascii) (pb : bool) (k : string) : string :=
  if strip then k else wr S pb k.

(* ---- the parser over a written key, outside brackets and quotes ---- *)
Lemma plain_top_hard strip sp S ty A acc sa c :
  mem_ascii c (bs :: pb_hard (sep_char sp)) = false -> (sa = true -> Ascii.eqb c "&"%char = false) ->
  step strip (sep_char sp) (Gst false S ty [] false None A None 0 CNone acc sa false) c
  = Ok (Gst false S ty [] false None A None 0 CNone (snoc acc c) false false).
Proof.
  intros H F. destruct sp, sa; all_ascii c; vm_compute in H; try discriminate H;
    try (specialize (F eq_refl); vm_compute in F; try discriminate F); vm_compute; reflexivity.
Qed.

Section WrRun.
Variable strip : bool.
Variable sp : sep.
Variable Ssyms : list ascii.
Hypothesis Hcov : forall c, mem_ascii c (pb_hard (sep_char sp)) = true -> mem_ascii c Ssyms = true.
Notation sepc := (sep_char sp).
Notation H := (bs :: pb_hard sepc).

Lemma wr_run S ty A : forall k pb acc sa,
  okb H pb k = true -> (pb = true -> sa = false) -> (sa = true -> pb_first_not "&"%char k = true) ->
  run strip sepc (Gst false S ty [] false None A None 0 CNone acc sa false) (wr Ssyms pb k)
  = Ok (Gst false S ty [] false None A None 0 CNone (acc ++ keptw strip Ssyms pb k) (aft sa k) false).
Proof.
  induction k as [|c r IH]; intros pb acc sa Hok Hpb Hamp.
  - cbn. unfold keptw. destruct strip; cbn; rewrite app_nil_r_s; reflexivity.
  - cbn [okb] in Hok. apply andb_true_iff in Hok. destruct Hok as [Hc Hok].
    cbn [wr aft].
    destruct (Ascii.eqb c bs) eqn:Ecb.
    + (* a doubled back-slash *)
      apply Ascii.eqb_eq in Ecb. subst c.
      cbn [run]. rewrite bs_step. cbn [bind].
      destruct strip eqn:Es.
      * cbn [run]. rewrite esc_step. cbn [bind].
        rewrite (IH true) by (try exact Hok; try reflexivity; discriminate).
        unfold keptw. rewrite app_snoc. destruct r; reflexivity.
      * cbn [run]. rewrite esc_step. cbn [bind].
        rewrite (IH true) by (try exact Hok; try reflexivity; discriminate).
        unfold keptw. cbn [wr]. unfold bs at 3. rewrite Ascii.eqb_refl. rewrite !app_snoc. destruct r; reflexivity.
    + destruct (mem_ascii c Ssyms && negb pb) eqn:Em.
      * (* written \c *)
        cbn [run]. rewrite bs_step. cbn [bind].
        destruct strip eqn:Es.
        -- cbn [run]. rewrite esc_step. cbn [bind].
           rewrite (IH false) by (try exact Hok; discriminate).
           unfold keptw. rewrite app_snoc. destruct r; reflexivity.
        -- cbn [run]. rewrite esc_step. cbn [bind].
           rewrite (IH false) by (try exact Hok; discriminate).
           unfold keptw. cbn [wr]. rewrite Ecb, Em. rewrite !app_snoc. destruct r; reflexivity.
      * (* written as it is: it must be plain text for the parser *)
        assert (Hpl : mem_ascii c H = false).
        { destruct pb.
          - apply negb_true_iff in Hc. exact Hc.
          - rewrite andb_true_r in Em. cbn [mem_ascii]. rewrite Ecb.
            destruct (mem_ascii c (pb_hard sepc)) eqn:Eh; [|reflexivity].
            rewrite (Hcov _ Eh) in Em. discriminate. }
        cbn [run]. rewrite plain_top_hard.
        -- cbn [bind]. rewrite (IH false) by (try exact Hok; discriminate).
           unfold keptw. cbn [wr]. rewrite Ecb, Em. rewrite app_snoc. destruct strip; destruct r; reflexivity.
        -- exact Hpl.
        -- intros Hsa. specialize (Hamp Hsa). cbn in Hamp. apply negb_true_iff in Hamp. exact Hamp.
Qed.
End WrRun.
