(* Spec-level facts about the two equalities of C06Spec on well-formed
   documents: data equality is symmetric, and exact equality implies the
   order-insensitive equivalence of every (position / value) mode. *)
From Coq Require Import List Ascii String ZArith NArith Bool Arith Lia Permutation.
From YP Require Import Outcome PyStr PyVal Doc Diff C06Spec DiffBase DiffEq DiffKeys.
Import ListNotations.
Open Scope nat_scope.

Lemma tag_eqb_sym : forall a b, tag_eqb a b = tag_eqb b a.
Proof. destruct a, b; simpl; auto. apply String.eqb_sym. Qed.

Lemma data_eq_set : forall i els j els',
  data_eq (NSet i els) (NSet j els') =
  tag_eqb (tag i) (tag j) && Nat.eqb (List.length els) (List.length els') &&
  forallb (fun x => existsb (fun y => py_eq (leaf_value x) (leaf_value y)) els') els.
Proof. reflexivity. Qed.

Lemma forall2b_sym {A} (f : A -> A -> bool) : forall l l',
  (forall x y, In x l -> In y l' -> f x y = true -> f y x = true) ->
  forall2b f l l' = true -> forall2b f l' l = true.
Proof.
  induction l as [|x r IH]; destruct l' as [|y r']; simpl; intros H E; auto; try discriminate.
  apply andb_true_iff in E. destruct E as [E1 E2]. apply andb_true_iff. split.
  - apply H; auto.
  - apply IH; [intros a b Ha Hb; apply H; auto | exact E2].
Qed.

Theorem data_eq_sym : forall a b, wf_doc a = true -> wf_doc b = true ->
  data_eq a b = true -> data_eq b a = true.
Proof.
  induction a as [i v|i kvs IH|i els IH|i els IH] using node_ind'; intros b Hwa Hwb H;
    destruct b as [j w|j kvs'|j els'|j els']; try discriminate.
  - simpl in *. apply andb_true_iff in H. destruct H as [H1 H2].
    rewrite tag_eqb_sym, H1. simpl. apply py_eq_sym; auto.
  - rewrite data_eq_map in *.
    apply andb_true_iff in H. destruct H as [H H3]. apply andb_true_iff in H. destruct H as [H1 H2].
    destruct (wf_map_inv _ _ Hwa) as [Ap [An Av]]. destruct (wf_map_inv _ _ Hwb) as [Bp [Bn Bv]].
    rewrite tag_eqb_sym, H1. apply Nat.eqb_eq in H2. rewrite <- H2, Nat.eqb_refl. simpl.
    apply forallb_forall. intros kv' Hkv'.
    assert (K : forall kv, In kv kvs -> exists kv2, In kv2 kvs' /\ py_eq (kkey kv) (kkey kv2) = true /\
                                          data_eq (snd kv) (snd kv2) = true).
    { intros kv Hkv. rewrite forallb_forall in H3. specialize (H3 kv Hkv).
      apply existsb_exists in H3. destruct H3 as [kv2 [Hkv2 X]]. apply andb_true_iff in X.
      exists kv2. tauto. }
    destruct (keyed_sym kkey kkey (fun kv kv' => data_eq (snd kv) (snd kv') = true) kvs kvs' An Bn H2 K kv' Hkv')
      as [kv [Hkv [E D]]].
    apply existsb_exists. exists kv. split; auto. apply andb_true_iff. split.
    + apply py_eq_sym. exact E.
    + rewrite Forall_forall in IH. destruct (IH kv Hkv) as [_ IHv].
      apply IHv; [apply Av; exact Hkv | apply Bv; exact Hkv' | exact D].
  - rewrite data_eq_seq in *. apply andb_true_iff in H. destruct H as [H1 H2].
    rewrite tag_eqb_sym, H1. simpl.
    apply forall2b_sym; auto. intros x y Hx Hy E.
    rewrite Forall_forall in IH. apply IH; auto.
    + apply (wf_seq_inv _ _ Hwa); auto.
    + apply (wf_seq_inv _ _ Hwb); auto.
  - rewrite data_eq_set in *.
    apply andb_true_iff in H. destruct H as [H H3]. apply andb_true_iff in H. destruct H as [H1 H2].
    destruct (wf_set_inv _ _ Hwa) as [Ap An]. destruct (wf_set_inv _ _ Hwb) as [Bp Bn].
    rewrite tag_eqb_sym, H1. apply Nat.eqb_eq in H2. rewrite <- H2, Nat.eqb_refl. simpl.
    apply forallb_forall. intros y Hy.
    assert (K : forall x, In x els -> exists y2, In y2 els' /\ py_eq (key_val x) (key_val y2) = true /\ True).
    { intros x Hx. rewrite forallb_forall in H3. specialize (H3 x Hx).
      apply existsb_exists in H3. destruct H3 as [y2 [Hy2 X]]. exists y2. auto. }
    destruct (keyed_sym key_val key_val (fun _ _ => True) els els' An Bn H2 K y Hy) as [x [Hx [E _]]].
    apply existsb_exists. exists x. split; auto. apply py_eq_sym. exact E.
Qed.

(* ---- exact equality implies the equivalence of every unkeyed mode ---- *)
Lemma equiv_map : forall am hm i kvs j kvs',
  equiv am hm (NMap i kvs) (NMap j kvs') =
  tag_eqb (tag i) (tag j) && Nat.eqb (List.length kvs) (List.length kvs') &&
  forallb (fun kv => existsb (fun kv' => py_eq (leaf_value (fst kv)) (leaf_value (fst kv'))
                                        && equiv am hm (snd kv) (snd kv')) kvs') kvs.
Proof. reflexivity. Qed.

Definition keyed_eqb (am : arr_opt) (hm : aoh_opt) (d : bool) (els els' : list node) : bool :=
  match first_key els' with
  | Some K =>
      Nat.eqb (List.length els) (List.length els') &&
      forallb (fun x => existsb (fun y => same_id K x y && (if d then equiv am hm x y else data_eq x y)) els') els
  | None => false
  end.

Lemma equiv_seq : forall am hm i els j els',
  equiv am hm (NSeq i els) (NSeq j els') =
  tag_eqb (tag i) (tag j) &&
  match list_mode am hm els' with
  | LPos true => forall2b (equiv am hm) els els'
  | LPos false => forall2b data_eq els els'
  | LValue => bag_eqb data_eq els els'
  | LKey d => keyed_eqb am hm d els els'
  end.
Proof.
  intros. simpl. f_equal. destruct (list_mode am hm els') as [[|]| |d]; auto.
  revert els'. induction els as [|x r IH]; destruct els'; simpl; auto. rewrite IH. reflexivity.
Qed.

Lemma list_mode_unkeyed : forall am hm rels d, unkeyed hm = true -> list_mode am hm rels <> LKey d.
Proof.
  intros am hm rels d H. unfold list_mode.
  destruct rels as [|[| | |] ?]; destruct am, hm; try discriminate H; discriminate.
Qed.

Lemma forall2b_bag : forall l l',
  (forall x y, In x l -> In y l' -> data_eq x y = true -> data_eq y x = true) ->
  forall2b data_eq l l' = true -> bag_eqb data_eq l l' = true.
Proof.
  induction l as [|x r IH]; destruct l' as [|y r']; simpl; intros Hs H; auto; try discriminate.
  apply andb_true_iff in H. destruct H as [H1 H2].
  rewrite (Hs x y (or_introl eq_refl) (or_introl eq_refl) H1).
  apply IH; [intros a b Ha Hb; apply Hs; auto | exact H2].
Qed.

Lemma forall2b_mono {A} (f g : A -> A -> bool) : forall l l',
  (forall x y, In x l -> In y l' -> f x y = true -> g x y = true) ->
  forall2b f l l' = true -> forall2b g l l' = true.
Proof.
  induction l as [|x r IH]; destruct l' as [|y r']; simpl; intros Hs H; auto.
  apply andb_true_iff in H. destruct H as [H1 H2]. apply andb_true_iff. split.
  - apply Hs; auto.
  - apply IH; [intros a b Ha Hb; apply Hs; auto | exact H2].
Qed.

Theorem data_eq_equiv : forall am hm, unkeyed hm = true ->
  forall a b, wf_doc a = true -> wf_doc b = true -> data_eq a b = true -> equiv am hm a b = true.
Proof.
  intros am hm Hu.
  induction a as [i v|i kvs IH|i els IH|i els IH] using node_ind'; intros b Hwa Hwb H;
    destruct b as [j w|j kvs'|j els'|j els']; try discriminate; try exact H.
  - rewrite data_eq_map in H. rewrite equiv_map.
    apply andb_true_iff in H. destruct H as [H H3]. rewrite H. simpl.
    destruct (wf_map_inv _ _ Hwa) as [_ [_ Av]]. destruct (wf_map_inv _ _ Hwb) as [_ [_ Bv]].
    apply forallb_forall. intros kv Hkv. rewrite forallb_forall in H3. specialize (H3 kv Hkv).
    apply existsb_exists in H3. destruct H3 as [kv' [Hkv' X]]. apply andb_true_iff in X. destruct X as [X1 X2].
    apply existsb_exists. exists kv'. split; auto. rewrite X1. simpl.
    rewrite Forall_forall in IH. destruct (IH kv Hkv) as [_ IHv]. apply IHv; auto.
  - rewrite data_eq_seq in H. rewrite equiv_seq.
    apply andb_true_iff in H. destruct H as [H1 H2]. rewrite H1. simpl.
    pose proof (wf_seq_inv _ _ Hwa) as Aw. pose proof (wf_seq_inv _ _ Hwb) as Bw.
    destruct (list_mode am hm els') as [[|]| |d] eqn:M.
    + eapply forall2b_mono; [|exact H2]. intros x y Hx Hy E. rewrite Forall_forall in IH. apply IH; auto.
    + exact H2.
    + apply forall2b_bag; auto. intros x y Hx Hy E. apply data_eq_sym; auto.
    + exfalso. exact (list_mode_unkeyed _ _ _ _ Hu M).
Qed.

(* under positional comparison the equivalence IS data equality *)
Theorem equiv_positional : forall hm, (hm = AohPosition \/ hm = AohDpos) ->
  forall a b, equiv ArrPosition hm a b = data_eq a b.
Proof.
  intros hm Hm.
  induction a as [i v|i kvs IH|i els IH|i els IH] using node_ind'; intros b;
    destruct b as [j w|j kvs'|j els'|j els']; try reflexivity.
  - rewrite data_eq_map, equiv_map. f_equal.
    apply forallb_ext_in. intros kv Hkv. 
    rewrite Forall_forall in IH. destruct (IH kv Hkv) as [_ IHv].
    clear - IHv. induction kvs' as [|kv' r IHr]; simpl; auto. rewrite IHv, IHr. reflexivity.
  - rewrite data_eq_seq, equiv_seq. f_equal.
    assert (E : forall2b (equiv ArrPosition hm) els els' = forall2b data_eq els els').
    { clear - IH. revert els'. induction els as [|x r IHr]; destruct els'; simpl; auto.
      inversion IH; subst. rewrite H1, IHr; auto. }
    unfold list_mode. destruct els' as [|[| | |] ?]; auto; destruct Hm as [-> | ->]; auto.
Qed.
