(* Proofs for C13 about unique / distinct of Model/Keywords.v: the dict keyed by
   value (seen_add) holds, after any prefix of the collection, one group per
   class of equal values -- keyed by the value of the class's first member, in
   order of first occurrence, each group listing the class's members in
   collection order ([groups_char]).  The three keyword outputs follow. *)
From Coq Require Import List Ascii String ZArith QArith Bool Arith Lia.
From YP Require Import Outcome PyStr PyVal Doc PathParser Searches Keywords SpecC13 PyValOrder.
Import ListNotations.
Open Scope string_scope.
Open Scope list_scope.

Notation vmem := (pyval * coords)%type.

Notation group_of := (SpecC13.group_of coords).
Notation occurrences := (SpecC13.occurrences coords).
Notation first_members := (SpecC13.first_members coords).

Definition shas (seen : list pyval) (v : pyval) : bool := existsb (fun w => py_eq w v) seen.
Definition vhas (ms : list vmem) (v : pyval) : bool := existsb (fun m => py_eq (fst m) v) ms.
Definition fvals (seen : list pyval) (ms : list vmem) : list pyval := map fst (first_members seen ms).

Lemma shas_trans : forall seen a b, shas seen a = true -> py_eq a b = true -> shas seen b = true.
Proof.
  induction seen as [|w r IH]; intros a b H1 H2; simpl in *; [discriminate|].
  apply orb_true_iff in H1. apply orb_true_iff. destruct H1 as [H1|H1].
  - left. eapply py_eq_trans; eassumption.
  - right. eapply IH; eassumption.
Qed.

Lemma vhas_app : forall a b v, vhas (a ++ b) v = vhas a v || vhas b v.
Proof. intros. unfold vhas. apply existsb_app. Qed.

(* ---------- the spec's first_members, one member at a time ---------- *)
Lemma first_members_snoc : forall ms seen v c,
  first_members seen (ms ++ [(v, c)]) =
  first_members seen ms ++ (if shas seen v || vhas ms v then [] else [(v, c)]).
Proof.
  induction ms as [|[v0 c0] r IH]; intros seen v c.
  - simpl. fold (shas seen v). rewrite orb_false_r. destruct (shas seen v); reflexivity.
  - cbn [app SpecC13.first_members]. fold (shas seen v0).
    destruct (shas seen v0) eqn:E0.
    + rewrite IH. f_equal. unfold vhas at 2. cbn [existsb fst]. fold (vhas r v).
      destruct (py_eq v0 v) eqn:E1; [|reflexivity].
      rewrite (shas_trans _ _ _ E0 E1). reflexivity.
    + rewrite IH. cbn [app]. f_equal. f_equal.
      unfold shas at 1. cbn [existsb]. fold (shas seen v).
      unfold vhas at 2. cbn [existsb fst]. fold (vhas r v).
      destruct (py_eq v0 v), (shas seen v), (vhas r v); reflexivity.
Qed.

(* the keys are pairwise unequal ... *)
Fixpoint keys_sep (ks : list pyval) : Prop :=
  match ks with
  | [] => True
  | k :: r => (forall k', In k' r -> py_eq k k' = false) /\ keys_sep r
  end.

Lemma fvals_sep : forall ms seen,
  keys_sep (fvals seen ms) /\ forall k, In k (fvals seen ms) -> shas seen k = false.
Proof.
  induction ms as [|[v0 c0] r IH]; intros seen; unfold fvals; cbn [SpecC13.first_members].
  - simpl. split; [exact I|intros k []].
  - fold (shas seen v0). destruct (shas seen v0) eqn:E0.
    + apply IH.
    + destruct (IH (v0 :: seen)) as [Hs Hn]. cbn [map fst keys_sep]. fold (fvals (v0 :: seen) r). split.
      * split; [|exact Hs]. intros k' Hk. specialize (Hn _ Hk). unfold shas in Hn. cbn [existsb] in Hn.
        apply orb_false_iff in Hn. apply Hn.
      * intros k [<-|Hk]; [exact E0|]. specialize (Hn _ Hk). unfold shas in Hn. cbn [existsb] in Hn.
        apply orb_false_iff in Hn. apply Hn.
Qed.

(* ... and cover every value of the collection *)
Lemma fvals_cover : forall ms seen w,
  shas seen w || shas (fvals seen ms) w = shas seen w || vhas ms w.
Proof.
  induction ms as [|[v0 c0] r IH]; intros seen w; unfold fvals; cbn [SpecC13.first_members].
  - reflexivity.
  - fold (shas seen v0). unfold vhas. cbn [existsb fst]. fold (vhas r w).
    destruct (shas seen v0) eqn:E0.
    + fold (fvals seen r). rewrite IH.
      destruct (py_eq v0 w) eqn:E1; [|reflexivity].
      rewrite (shas_trans _ _ _ E0 E1). reflexivity.
    + cbn [map fst]. fold (fvals (v0 :: seen) r). unfold shas at 2. cbn [existsb].
      fold (shas (fvals (v0 :: seen) r) w).
      specialize (IH (v0 :: seen) w). unfold shas at 1 3 in IH. cbn [existsb] in IH. fold (shas seen w) in IH.
      destruct (py_eq v0 w), (shas seen w); simpl in *; auto.
Qed.

Lemma fvals_cover0 : forall ms w, shas (fvals [] ms) w = vhas ms w.
Proof. intros ms w. apply (fvals_cover ms [] w). Qed.

(* ---------- groups ---------- *)
Lemma group_of_app : forall k a b, group_of k (a ++ b) = group_of k a ++ group_of k b.
Proof. intros. unfold SpecC13.group_of. rewrite filter_app, map_app. reflexivity. Qed.

Lemma group_of_nil : forall ms v, vhas ms v = false -> group_of v ms = [].
Proof.
  induction ms as [|[v0 c0] r IH]; intros v H; [reflexivity|].
  unfold vhas in H. cbn [existsb fst] in H. apply orb_false_iff in H. destruct H as [H1 H2].
  unfold SpecC13.group_of. cbn [filter fst]. rewrite H1. apply IH. exact H2.
Qed.

Lemma group_of_nil_inv : forall ms v, group_of v ms = [] -> vhas ms v = false.
Proof.
  induction ms as [|[v0 c0] r IH]; intros v H; [reflexivity|].
  unfold SpecC13.group_of in H. cbn [filter fst] in H. unfold vhas. cbn [existsb fst].
  destruct (py_eq v0 v); [discriminate|]. apply IH. exact H.
Qed.

Lemma occurrences_group : forall v ms, occurrences v ms = List.length (group_of v ms).
Proof. intros. unfold SpecC13.occurrences, SpecC13.group_of. rewrite map_length. reflexivity. Qed.

Lemma group_of_equiv : forall ms v w, py_eq v w = true -> group_of v ms = group_of w ms.
Proof.
  intros ms v w H. unfold SpecC13.group_of. f_equal. apply filter_ext. intros [u c]. cbn [fst].
  destruct (py_eq u v) eqn:E1.
  - symmetry. eapply py_eq_trans; eassumption.
  - symmetry. destruct (py_eq u w) eqn:E2; [|reflexivity].
    rewrite py_eq_sym in H. rewrite (py_eq_trans _ _ _ E2 H) in E1. discriminate.
Qed.

Definition G (ms : list vmem) (k : pyval) : pyval * list coords := (k, group_of k ms).

Lemma seen_add_map : forall ms v c ks,
  keys_sep ks ->
  seen_add v c (map (G ms) ks) =
  map (G (ms ++ [(v, c)])) ks ++ (if shas ks v then [] else [(v, [c])]).
Proof.
  intros ms v c. induction ks as [|k r IH]; intros Hs.
  - reflexivity.
  - destruct Hs as [Hk Hr]. cbn [map seen_add G]. unfold shas. cbn [existsb]. fold (shas r v).
    unfold G at 1. cbn [seen_add].
    assert (HG : forall k0, G (ms ++ [(v, c)]) k0 = (k0, group_of k0 ms ++ (if py_eq v k0 then [c] else []))).
    { intros k0. unfold G. rewrite group_of_app. unfold SpecC13.group_of at 2. cbn [filter fst].
      destruct (py_eq v k0); reflexivity. }
    destruct (py_eq k v) eqn:E.
    + cbn [orb app]. rewrite app_nil_r. rewrite HG. rewrite py_eq_sym, E. f_equal.
      apply map_ext_in. intros k' Hk'. rewrite HG.
      assert (E' : py_eq v k' = false).
      { rewrite py_eq_sym in E. apply (py_eq_trans_false k v k'); [rewrite py_eq_sym; exact E|apply Hk; exact Hk']. }
      rewrite E', app_nil_r. reflexivity.
    + cbn [orb]. rewrite (IH Hr). cbn [app]. f_equal. rewrite HG. rewrite py_eq_sym, E, app_nil_r. reflexivity.
Qed.

Definition gstep_add (s : seen) (m : vmem) : seen := seen_add (fst m) (snd m) s.
Definition groups (ms : list vmem) : seen := fold_left gstep_add ms [].

(* the dict after the whole collection *)
Lemma groups_char : forall ms, groups ms = map (G ms) (fvals [] ms).
Proof.
  induction ms as [|[v c] ms IH] using rev_ind; [reflexivity|].
  unfold groups. rewrite fold_left_app. cbn [fold_left]. fold (groups ms). rewrite IH.
  unfold gstep_add. cbn [fst snd].
  rewrite seen_add_map by (apply fvals_sep).
  assert (Hf : fvals [] (ms ++ [(v, c)]) = fvals [] ms ++ (if vhas ms v then [] else [v])).
  { unfold fvals. rewrite first_members_snoc, map_app. cbn [shas existsb orb].
    destruct (vhas ms v); reflexivity. }
  rewrite Hf, fvals_cover0.
  destruct (vhas ms v) eqn:E.
  - rewrite !app_nil_r. reflexivity.
  - rewrite map_app. cbn [map]. f_equal.
    unfold G. rewrite group_of_app, (group_of_nil _ _ E). unfold SpecC13.group_of. cbn [filter fst].
    rewrite py_eq_refl. reflexivity.
Qed.

(* ---------- distinct: the first member of every group ---------- *)
Definition head1 (g : pyval * list coords) : list coords :=
  match snd g with nc :: _ => [nc] | [] => [] end.

Lemma head1_first : forall pre v c r,
  vhas pre v = false -> head1 (G ((pre ++ [(v, c)]) ++ r) v) = [c].
Proof.
  intros pre v c r H. unfold head1, G. cbn [snd]. rewrite !group_of_app, (group_of_nil _ _ H).
  unfold SpecC13.group_of at 1. cbn [filter fst]. rewrite py_eq_refl. reflexivity.
Qed.

Lemma cover_step : forall seen pre v c,
  (forall w, shas seen w = vhas pre w) ->
  forall w, shas (v :: seen) w = vhas (pre ++ [(v, c)]) w.
Proof.
  intros seen pre v c Hs w. rewrite vhas_app. unfold shas. cbn [existsb]. fold (shas seen w). rewrite Hs.
  unfold vhas at 3. cbn [existsb fst]. rewrite orb_false_r. apply orb_comm.
Qed.

Lemma cover_skip : forall seen pre v c,
  (forall w, shas seen w = vhas pre w) -> shas seen v = true ->
  forall w, shas seen w = vhas (pre ++ [(v, c)]) w.
Proof.
  intros seen pre v c Hs E w. rewrite vhas_app, <- Hs. unfold vhas. cbn [existsb fst]. rewrite orb_false_r.
  destruct (py_eq v w) eqn:E1; [rewrite (shas_trans _ _ _ E E1); reflexivity|rewrite orb_false_r; reflexivity].
Qed.

Lemma distinct_gen : forall r pre seen,
  (forall w, shas seen w = vhas pre w) ->
  flat_map head1 (map (G (pre ++ r)) (fvals seen r)) = firsts coords seen r.
Proof.
  induction r as [|[v c] r IH]; intros pre seen Hs; [reflexivity|].
  unfold fvals, firsts. cbn [SpecC13.first_members]. fold (shas seen v).
  replace (pre ++ (v, c) :: r) with ((pre ++ [(v, c)]) ++ r) by (rewrite <- app_assoc; reflexivity).
  destruct (shas seen v) eqn:E.
  - apply IH. apply cover_skip; assumption.
  - cbn [map fst snd flat_map]. rewrite head1_first by (rewrite <- Hs; exact E). cbn [app]. f_equal.
    apply IH. apply cover_step; assumption.
Qed.

Lemma distinct_char : forall ms,
  flat_map head1 (groups ms) = firsts coords [] ms.
Proof.
  intros ms. rewrite groups_char. apply (distinct_gen ms [] []). intros w. reflexivity.
Qed.

(* ---------- unique: the groups of one member ---------- *)
Definition once1 (g : pyval * list coords) : list coords :=
  if Nat.eqb (List.length (snd g)) 1 then snd g else [].
Definition many1 (g : pyval * list coords) : list coords :=
  if Nat.ltb 1 (List.length (snd g)) then snd g else [].

Lemma occurrences_equiv : forall ms v w, py_eq v w = true -> occurrences v ms = occurrences w ms.
Proof. intros. rewrite !occurrences_group, (group_of_equiv ms v w); auto. Qed.

Lemma in_vhas : forall (ms : list vmem) m, In m ms -> vhas ms (fst m) = true.
Proof.
  intros ms m H. unfold vhas. apply existsb_exists. exists m. split; [assumption|apply py_eq_refl].
Qed.

Lemma once_gen : forall r pre seen,
  (forall w, shas seen w = vhas pre w) ->
  flat_map once1 (map (G (pre ++ r)) (fvals seen r)) =
  map snd (filter (fun m => Nat.eqb (occurrences (fst m) (pre ++ r)) 1 && negb (shas seen (fst m))) r).
Proof.
  induction r as [|[v c] r IH]; intros pre seen Hs; [reflexivity|].
  unfold fvals. cbn [SpecC13.first_members filter fst]. fold (shas seen v).
  replace (pre ++ (v, c) :: r) with ((pre ++ [(v, c)]) ++ r) by (rewrite <- app_assoc; reflexivity).
  destruct (shas seen v) eqn:E.
  - rewrite andb_false_r. apply IH. apply cover_skip; assumption.
  - rewrite andb_true_r. cbn [map fst flat_map].
    assert (Hpre : vhas pre v = false) by (rewrite <- Hs; exact E).
    assert (Hgrp : group_of v ((pre ++ [(v, c)]) ++ r) = c :: group_of v r).
    { rewrite !group_of_app, (group_of_nil _ _ Hpre). unfold SpecC13.group_of at 1. cbn [filter fst].
      rewrite py_eq_refl. reflexivity. }
    fold (fvals (v :: seen) r).
    rewrite (IH (pre ++ [(v, c)]) (v :: seen)) by (apply cover_step; assumption).
    unfold once1 at 1. unfold G. cbn [snd]. rewrite !occurrences_group, !Hgrp.
    destruct (group_of v r) as [|c1 g1] eqn:Eg.
    + (* v occurs once: no later member equals it *)
      cbn [List.length Nat.eqb app map snd]. f_equal. f_equal.
      apply filter_ext_in. intros [w cw] Hw. cbn [fst]. f_equal. f_equal.
      unfold shas. cbn [existsb]. fold (shas seen w).
      pose proof (group_of_nil_inv _ _ Eg) as Hv.
      assert (E1 : py_eq v w = false).
      { destruct (py_eq v w) eqn:E1; [|reflexivity].
        assert (Hx : vhas r v = true).
        { unfold vhas. apply existsb_exists. exists (w, cw). split; [assumption|]. cbn [fst].
          rewrite py_eq_sym. exact E1. }
        congruence. }
      rewrite E1. reflexivity.
    + (* v occurs again: every member equal to v occurs more than once *)
      cbn [List.length Nat.eqb app]. f_equal.
      apply filter_ext_in. intros [w cw] Hw. cbn [fst].
      unfold shas. cbn [existsb]. fold (shas seen w).
      destruct (py_eq v w) eqn:E1; [|reflexivity].
      cbn [orb negb]. rewrite andb_false_r.
      rewrite <- (occurrences_equiv _ v w E1), occurrences_group, Hgrp. reflexivity.
Qed.

Lemma once_char : forall ms, flat_map once1 (groups ms) = once_members coords ms.
Proof.
  intros ms. rewrite groups_char.
  pose proof (once_gen ms [] [] (fun w => eq_refl)) as H. cbn [app] in H. rewrite H.
  unfold once_members. f_equal. apply filter_ext. intros m. cbn [shas existsb negb]. apply andb_true_r.
Qed.

Lemma flat_map_map : forall A B X (f : B -> list X) (g : A -> B) l,
  flat_map f (map g l) = flat_map (fun a => f (g a)) l.
Proof. intros. induction l as [|a r IH]; simpl; [reflexivity|]. rewrite IH. reflexivity. Qed.

Lemma many_char : forall ms, flat_map many1 (groups ms) = repeated_grouped coords ms.
Proof.
  intros ms. rewrite groups_char. unfold fvals. rewrite map_map, flat_map_map. unfold repeated_grouped.
  apply flat_map_ext. intros m. unfold many1, G. cbn [snd]. rewrite <- occurrences_group. reflexivity.
Qed.

(* the grouped list is, as a set, the members whose value occurs more than once *)
Lemma first_members_in : forall ms seen m, In m (first_members seen ms) -> In m ms.
Proof.
  induction ms as [|[v c] r IH]; intros seen m H; [contradiction|].
  cbn [SpecC13.first_members] in H. destruct (existsb (fun w => py_eq w v) seen).
  - right. eapply IH; eassumption.
  - destruct H as [H|H]; [left; assumption|right; eapply IH; eassumption].
Qed.

Lemma in_group_of : forall ms k c, In c (group_of k ms) <-> exists v, In (v, c) ms /\ py_eq v k = true.
Proof.
  intros ms k c. unfold SpecC13.group_of. rewrite in_map_iff. split.
  - intros [[v c'] [Hc Hi]]. cbn [snd] in Hc. subst c'. apply filter_In in Hi. exists v. exact Hi.
  - intros [v [Hi He]]. exists (v, c). split; [reflexivity|]. apply filter_In. split; assumption.
Qed.

Lemma repeated_grouped_set : forall ms c,
  In c (repeated_grouped coords ms) <-> repeated_member coords ms c.
Proof.
  intros ms c. unfold repeated_grouped, repeated_member. rewrite in_flat_map. split.
  - intros [[k ck] [Hk Hc]]. cbn [fst] in Hc.
    destruct (Nat.ltb 1 (occurrences k ms)) eqn:E; [|contradiction].
    apply in_group_of in Hc. destruct Hc as [v [Hi He]]. exists v. split; [assumption|].
    rewrite (occurrences_equiv ms v k He). apply Nat.ltb_lt. exact E.
  - intros [v [Hi Ho]].
    assert (Hc : shas (fvals [] ms) v = true).
    { rewrite fvals_cover0. apply (in_vhas ms (v, c) Hi). }
    unfold shas in Hc. apply existsb_exists in Hc. destruct Hc as [k [Hk He]].
    unfold fvals in Hk. apply in_map_iff in Hk. destruct Hk as [[k' ck] [Hf Hk]]. cbn [fst] in Hf. subst k'.
    exists (k, ck). split; [assumption|]. cbn [fst].
    rewrite (occurrences_equiv ms k v He).
    apply Nat.ltb_lt in Ho. rewrite Ho. apply in_group_of. exists v. split; [assumption|].
    rewrite py_eq_sym. exact He.
Qed.

(* distinct, declaratively: a member is yielded iff no earlier member has an
   equal value *)
Lemma firsts_set : forall ms c,
  In c (firsts coords [] ms) <->
  exists pre v post, ms = pre ++ (v, c) :: post /\ vhas pre v = false.
Proof.
  assert (Hgen : forall r pre seen c, (forall w, shas seen w = vhas pre w) ->
    (In c (firsts coords seen r) <->
     exists p v post, r = p ++ (v, c) :: post /\ vhas (pre ++ p) v = false)).
  { induction r as [|[v0 c0] r IH]; intros pre seen c Hs.
    - simpl. split; [intros []|]. intros [p [v [post [H _]]]]. destruct p; discriminate.
    - unfold firsts. cbn [SpecC13.first_members]. fold (shas seen v0). destruct (shas seen v0) eqn:E.
      + fold (firsts coords seen r). rewrite (IH (pre ++ [(v0, c0)]) seen c) by (apply cover_skip; assumption).
        split.
        * intros [p [v [post [Hr Hv]]]]. exists ((v0, c0) :: p), v, post. split; [rewrite Hr; reflexivity|].
          rewrite <- app_assoc in Hv. exact Hv.
        * intros [p [v [post [Hr Hv]]]]. destruct p as [|m p].
          -- cbn [app] in Hr. inversion Hr; subst. rewrite app_nil_r, <- Hs in Hv. congruence.
          -- cbn [app] in Hr. inversion Hr; subst. exists p, v, post. split; [reflexivity|].
             rewrite <- app_assoc. exact Hv.
      + cbn [map snd]. fold (firsts coords (v0 :: seen) r).
        split.
        * intros [Hc|Hc].
          -- subst c0. exists [], v0, r. split; [reflexivity|]. rewrite app_nil_r, <- Hs. exact E.
          -- apply (IH (pre ++ [(v0, c0)]) (v0 :: seen) c) in Hc; [|apply cover_step; assumption].
             destruct Hc as [p [v [post [Hr Hv]]]]. exists ((v0, c0) :: p), v, post.
             split; [rewrite Hr; reflexivity|]. rewrite <- app_assoc in Hv. exact Hv.
        * intros [p [v [post [Hr Hv]]]]. destruct p as [|m p].
          -- cbn [app] in Hr. inversion Hr; subst. left; reflexivity.
          -- cbn [app] in Hr. inversion Hr; subst. right.
             apply (IH (pre ++ [(v0, c0)]) (v0 :: seen) c); [apply cover_step; assumption|].
             exists p, v, post. split; [reflexivity|]. rewrite <- app_assoc. exact Hv. }
  intros ms c. apply (Hgen ms [] [] c). intros w. reflexivity.
Qed.

(* ---------- the model's loops are this fold ---------- *)
Definition gmem := (option node * coords)%type.

Definition gadd (s : seen) (m : gmem) : outcome seen :=
  match fst m with
  | None => Ok s
  | Some vn => do v <- hashable_val vn; Ok (seen_add v (snd m) s)
  end.

(* every value to group is a scalar (containers are refused: see group_refuses) *)
Definition scalar_members (gs : list gmem) : Prop :=
  forall vn c, In (Some vn, c) gs -> exists i v, vn = NLeaf i v.

Fixpoint vmembers (gs : list gmem) : list vmem :=
  match gs with
  | [] => []
  | (Some (NLeaf _ v), c) :: r => (v, c) :: vmembers r
  | _ :: r => vmembers r
  end.

Lemma foldM_gadd : forall gs s,
  scalar_members gs -> foldM gadd gs s = Ok (fold_left gstep_add (vmembers gs) s).
Proof.
  induction gs as [|[o c] r IH]; intros s H; [reflexivity|].
  assert (Hr : scalar_members r) by (intros vn c' Hi; apply (H vn c'); right; assumption).
  cbn [foldM]. unfold gadd at 1. cbn [fst snd]. destruct o as [vn|].
  - destruct (H vn c (or_introl eq_refl)) as [i [v ->]]. cbn [hashable_val bind vmembers fold_left].
    apply IH. exact Hr.
  - cbn [bind vmembers]. apply IH. exact Hr.
Qed.

Definition list_gmember (x : kctx) (ie : nat * node) : gmem :=
  (Some (snd ie), child_coords x (RIdx (fst ie))).
Definition rec_attr (attr : string) (rec : node) : option node :=
  match rec with NMap _ kvs => map_get kvs attr | _ => None end.
Definition aoh_gmember (attr : string) (x : kctx) (ie : nat * node) : gmem :=
  (rec_attr attr (snd ie), child_coords x (RIdx (fst ie))).
Definition hoh_gmember (attr : string) (x : kctx) (kv : node * node) : gmem :=
  (rec_attr attr (snd kv), child_coords x (key_ref (fst kv))).

(* the members of a collection for unique / distinct: a plain list without a
   parameter, an Array-of-Hashes or a hash of hashes with the attribute named *)
Definition collection_gmembers (params : list string) (data : node) (x : kctx) : option (list gmem) :=
  match data, params with
  | NSeq _ els, [] =>
      if node_is_aoh true data then None else Some (map (list_gmember x) (enumerate els))
  | NSeq _ els, [attr] =>
      if node_is_aoh true data then Some (map (aoh_gmember attr x) (enumerate els)) else None
  | NMap _ kvs, [attr] =>
      if forallb (fun kv => is_map (snd kv)) kvs then Some (map (hoh_gmember attr x) kvs) else None
  | _, _ => None
  end.

Lemma foldM_map_ext_in_g : forall S A B (f : S -> A -> outcome S) (g : S -> B -> outcome S) (h : A -> B) l,
  (forall s a, In a l -> f s a = g s (h a)) ->
  forall s, foldM f l s = foldM g (map h l) s.
Proof.
  intros S A B f g h l. induction l as [|a r IH]; intros H s; simpl; [reflexivity|].
  rewrite H by (left; reflexivity). destruct (g s (h a)); simpl; auto.
  apply IH. intros s' a' Hi. apply H. right; assumption.
Qed.

Lemma group_values_collection : forall params data x gs,
  collection_gmembers params data x = Some gs ->
  group_values params data x = foldM gadd gs [] /\ List.length params <= 1.
Proof.
  intros params data x gs H. unfold collection_gmembers in H.
  destruct data as [i v|i kvs|i els|i els]; try discriminate.
  - (* hash of hashes *)
    destruct params as [|attr [|? ?]]; try discriminate.
    destruct (forallb (fun kv => is_map (snd kv)) kvs) eqn:Eh; [|discriminate].
    inversion H; subst gs. split; [|simpl; lia].
    unfold group_values. cbn [node_is_aoh].
    apply foldM_map_ext_in_g. intros s [k vv] Hi. unfold gadd, hoh_gmember, rec_attr. cbn [fst snd].
    rewrite forallb_forall in Eh. specialize (Eh _ Hi). cbn [snd] in Eh.
    destruct vv as [?|ci ckvs|?|?]; try discriminate.
    destruct (map_get ckvs attr); reflexivity.
  - destruct params as [|attr [|? ?]]; try discriminate.
    + destruct (node_is_aoh true (NSeq i els)) eqn:Ea; [discriminate|].
      inversion H; subst gs. split; [|simpl; lia].
      unfold group_values. rewrite Ea.
      apply foldM_map_ext_in_g. intros s [idx ele] _. reflexivity.
    + destruct (node_is_aoh true (NSeq i els)) eqn:Ea; [|discriminate].
      inversion H; subst gs. split; [|simpl; lia].
      unfold group_values. rewrite Ea.
      apply foldM_map_ext_in_g. intros s [idx ele] _. unfold gadd, aoh_gmember, rec_attr. cbn [fst snd].
      destruct ele as [?|ci ckvs|?|?]; reflexivity.
Qed.

Lemma group_values_groups : forall params data x gs,
  collection_gmembers params data x = Some gs -> scalar_members gs ->
  group_values params data x = Ok (groups (vmembers gs)) /\ List.length params <= 1.
Proof.
  intros params data x gs H Hs. destruct (group_values_collection _ _ _ _ H) as [E L].
  split; [|exact L]. rewrite E. apply foldM_gadd. exact Hs.
Qed.

Lemma ltb_1_false : forall n, n <= 1 -> Nat.ltb 1 n = false.
Proof. intros n H. apply Nat.ltb_ge. exact H. Qed.

(* ---------- the headline statements ---------- *)
Lemma unique_plain : forall params data x gs,
  collection_gmembers params data x = Some gs -> scalar_members gs ->
  kw_unique false params data x = Ok (once_members coords (vmembers gs)).
Proof.
  intros params data x gs H Hs. destruct (group_values_groups _ _ _ _ H Hs) as [E L].
  unfold kw_unique. rewrite (ltb_1_false _ L), E. cbn [bind]. f_equal.
  rewrite <- once_char. reflexivity.
Qed.

Lemma unique_inverted : forall params data x gs,
  collection_gmembers params data x = Some gs -> scalar_members gs ->
  kw_unique true params data x = Ok (repeated_grouped coords (vmembers gs)).
Proof.
  intros params data x gs H Hs. destruct (group_values_groups _ _ _ _ H Hs) as [E L].
  unfold kw_unique. rewrite (ltb_1_false _ L), E. cbn [bind]. f_equal.
  rewrite <- many_char. reflexivity.
Qed.

Lemma distinct_first_of_group : forall params data x gs,
  collection_gmembers params data x = Some gs -> scalar_members gs ->
  kw_distinct false params data x = Ok (firsts coords [] (vmembers gs)).
Proof.
  intros params data x gs H Hs. destruct (group_values_groups _ _ _ _ H Hs) as [E L].
  unfold kw_distinct. rewrite (ltb_1_false _ L), E. cbn [bind]. f_equal.
  rewrite <- distinct_char. reflexivity.
Qed.

(* inversion is refused for distinct, whatever the data *)
Lemma distinct_inverted_refused : forall params data x,
  kw_distinct true params data x = Raise (YPE Generic).
Proof. reflexivity. Qed.

(* a value that is a Hash, Array or Set is refused with a YAMLPathException *)
Lemma gadd_refuses : forall gs s,
  (exists vn c, In (Some vn, c) gs /\ forall i v, vn <> NLeaf i v) ->
  foldM gadd gs s = Raise (YPE Generic).
Proof.
  induction gs as [|[o c] r IH]; intros s [vn [c' [Hi Hn]]]; [contradiction|].
  cbn [foldM]. unfold gadd at 1. cbn [fst snd]. destruct o as [wn|].
  - destruct wn as [i v|?|?|?] eqn:Ew.
    + cbn [hashable_val bind]. apply IH. destruct Hi as [Hi|Hi].
      * inversion Hi; subst. exfalso. apply (Hn i v). reflexivity.
      * exists vn, c'. split; assumption.
    + reflexivity.
    + reflexivity.
    + reflexivity.
  - cbn [bind]. apply IH. destruct Hi as [Hi|Hi]; [discriminate|]. exists vn, c'. split; assumption.
Qed.

Lemma group_refuses : forall invert params data x gs,
  collection_gmembers params data x = Some gs ->
  (exists vn c, In (Some vn, c) gs /\ forall i v, vn <> NLeaf i v) ->
  kw_unique invert params data x = Raise (YPE Generic) /\
  kw_distinct invert params data x = Raise (YPE Generic).
Proof.
  intros invert params data x gs H Hn. destruct (group_values_collection _ _ _ _ H) as [E L].
  unfold kw_unique, kw_distinct. rewrite (ltb_1_false _ L), E, (gadd_refuses gs [] Hn).
  destruct invert; split; reflexivity.
Qed.

(* ---------- parameter present / absent where it must not / must be ---------- *)
Section Params.
Variable lit : string -> outcome litres.
Variable re_search : string -> string -> outcome reres.
Variable node_str : node -> string.

(* more than one parameter; a parameter with a plain list; none with an
   Array-of-Hashes or a hash: refused by all four keywords *)
Lemma params_refused : forall cmp invert params data x,
  (1 < List.length params \/
   (exists i els p, data = NSeq i els /\ node_is_aoh true data = false /\ params = [p]) \/
   (exists i els, data = NSeq i els /\ node_is_aoh true data = true /\ params = []) \/
   (exists i kvs, data = NMap i kvs /\ params = [])) ->
  extremum lit re_search node_str cmp invert params data x = Raise (YPE Generic) /\
  kw_unique invert params data x = Raise (YPE Generic) /\
  kw_distinct invert params data x = Raise (YPE Generic).
Proof.
  intros cmp invert params data x H. unfold extremum, kw_unique, kw_distinct, group_values.
  destruct H as [H|[H|[H|H]]].
  - apply Nat.ltb_lt in H. rewrite H. destruct invert; repeat split; reflexivity.
  - destruct H as [i [els [p [-> [Ha ->]]]]]. rewrite Ha. destruct invert; repeat split; reflexivity.
  - destruct H as [i [els [-> [Ha ->]]]]. rewrite Ha. destruct invert; repeat split; reflexivity.
  - destruct H as [i [kvs [-> ->]]]. destruct invert; repeat split; reflexivity.
Qed.

(* a parameter text SearchKeywordTerms.parameters cannot split (unmatched
   quote): refused by the dispatcher for every keyword, before the data is
   looked at (finding F31, repaired: it was the accessor's bare ValueError) *)
Lemma unsplit_params_refused : forall doc invert kw raw x,
  keyword_parameters raw = Raise (PyCrash ValueError) ->
  keyword_search lit re_search node_str doc invert kw raw x = Raise (YPE Generic).
Proof. intros doc invert kw raw x H. unfold keyword_search. rewrite H. reflexivity. Qed.
End Params.
