(* C10 item (h): left / right / rename and unique-names, stated of the FINAL document
   merge_with returns (Anchors.merge_with_anchors = conflict resolution, then the root
   dispatch insert_* / tag_sync of Merge.merge_root around the recursive core).
   Ingredients: MergeRootLeaves.v (the merge proper creates no anchored Scalar and changes
   none, root dispatch included), AnchorsGuards.v (the bridge from `places` to all Scalars of
   a tidy document; tidy is kept by substitution and renaming), the loop invariants of
   AnchorsPolicy.v / AnchorsUnique.v. *)
From Coq Require Import List Ascii String ZArith QArith NArith Bool Lia.
From YP Require Import Outcome PyStr PyVal Doc PathParser Searches MergeConfig Merge Anchors SpecC05 SpecC10
  AnchorsFuel AnchorsStr AnchorsProofs AnchorsPolicy AnchorsScan AnchorsUnique AnchorsGuards
  MergeLeaves MergeRootLeaves.
Import ListNotations.
Open Scope string_scope.
Open Scope list_scope.

(* ---------- the pair handed to the merge proper is tidy ---------- *)
Section LoopTidy.
Variable cfg : mconfig.
Variables l0 r0 : node.
Let lanc := an_scan_anchors l0 [].
Let ranc := an_scan_anchors r0 [].
Hypothesis Hokl : an_doc_ok l0 = true.
Hypothesis Hokr : an_doc_ok r0 = true.

Lemma loop_tidy : forall names l r st',
  (forall c, In c names -> In c (common_names lanc ranc)) ->
  an_tidy l = true -> an_tidy r = true ->
  (anchor_merge_mode cfg = Ok KRename -> an_heap_ok r) ->
  foldM (resolve_step cfg lanc ranc) names (l, r) = Ok st' ->
  an_tidy (fst st') = true /\ an_tidy (snd st') = true /\
  is_leaf (fst st') = is_leaf l /\ is_leaf (snd st') = is_leaf r.
Proof.
  induction names as [|b rest IH]; intros l r st' HC Tl Tr Hh E.
  - simpl in E. inversion E; subst. simpl. auto.
  - rewrite foldM_cons in E.
    destruct (resolve_step cfg lanc ranc (l, r) b) as [[l1 r1]| |] eqn:Es; simpl in E; try discriminate.
    destruct (common_in l0 r0 b (HC b (or_introl eq_refl))) as [lb [rb [Hlb Hrb]]].
    destruct (lanc_node l0 Hokl b lb Hlb) as [_ [Nlb Llb]]. destruct (ranc_node r0 Hokr b rb Hrb) as [_ [Nrb Lrb]].
    assert (HC' : forall c, In c rest -> In c (common_names lanc ranc)) by (intros; apply HC; now right).
    unfold resolve_step in Es. fold lanc ranc in Hlb, Hrb. rewrite Hlb, Hrb in Es.
    destruct (anchor_merge_mode cfg) as [mode| |] eqn:Em; cbn [bind] in Es; try discriminate.
    assert (SL : replace_anchor rb l = Ok l1 -> r1 = r ->
                 an_tidy (fst st') = true /\ an_tidy (snd st') = true /\
                 is_leaf (fst st') = is_leaf l /\ is_leaf (snd st') = is_leaf r).
    { intros Er ->. rewrite (replace_anchor_subst rb b l Nrb (tidy_keys_plain l Tl)) in Er. inversion Er; subst l1.
      destruct (IH (subst_named b rb l) r st' HC' (subst_tidy b rb l Lrb Tl) Tr Hh E) as [A [B [C D]]].
      rewrite subst_is_leaf in C. auto. }
    destruct (anchors_match lb rb).
    + destruct (replace_anchor rb l) eqn:Er; simpl in Es; try discriminate. inversion Es; subst. now apply SL.
    + destruct mode.
      * discriminate.
      * rewrite (replace_anchor_subst lb b r Nlb (tidy_keys_plain r Tr)) in Es. simpl in Es. inversion Es; subst l1 r1.
        destruct (IH l (subst_named b lb r) st' HC' Tl (subst_tidy b lb r Llb Tr)) as [A [B [C D]]]; [discriminate|exact E|].
        rewrite subst_is_leaf in D. auto.
      * destruct (replace_anchor rb l) eqn:Er; simpl in Es; try discriminate. inversion Es; subst. now apply SL.
      * destruct (calc_unique_anchor b (known_names lanc ranc)) as [nn| |]; simpl in Es; try discriminate.
        inversion Es; subst l1 r1. pose proof (Hh eq_refl) as Hheap.
        destruct (IH l (rename_anchor b nn r) st' HC' Tl (rename_tidy b nn r Hheap Tr)) as [A [B [C D]]];
          [intros _; unfold rename_anchor; now apply rho_heap_ok|exact E|].
        unfold rename_anchor in D. rewrite rho_is_leaf in D. auto.
Qed.
End LoopTidy.

Theorem resolve_tidy : forall cfg l r l' r',
  an_doc_tidy l = true -> an_doc_tidy r = true ->
  (anchor_merge_mode cfg = Ok KRename -> an_heap_ok r) ->
  resolve_conflicts cfg l r = Ok (l', r') ->
  an_doc_tidy l' = true /\ an_doc_tidy r' = true.
Proof.
  intros cfg l r l' r' Tl Tr Hh E. unfold resolve_conflicts in E.
  destruct (doc_tidy_parts l Tl) as [Ll Tl']. destruct (doc_tidy_parts r Tr) as [Lr Tr'].
  destruct (loop_tidy cfg l r (doc_tidy_ok l Tl) (doc_tidy_ok r Tr) _ l r (l', r') (fun c H => H) Tl' Tr' Hh E)
    as [A [B [C D]]].
  cbn [fst snd] in *. unfold an_doc_tidy. now rewrite C, D, Ll, Lr, A, B.
Qed.

(* merge_with on two container documents: conflicts are resolved, then the merge proper runs *)
Lemma merge_with_steps : forall cfg lit l r m,
  is_leaf l = false -> is_leaf r = false ->
  merge_with_anchors cfg lit l r = Ok m ->
  exists l' r', resolve_conflicts cfg l r = Ok (l', r') /\ merge_root lit cfg l' r' = Ok m.
Proof.
  intros cfg lit l r m Ll Lr H. unfold merge_with_anchors in H.
  assert (Nr : is_none r = false) by (destruct r; try discriminate; reflexivity).
  assert (Nl : is_none l = false) by (destruct l; try discriminate; reflexivity).
  rewrite Nr, Nl in H.
  destruct (resolve_conflicts cfg l r) as [[l' r']| |]; simpl in H; try discriminate.
  exists l', r'. auto.
Qed.

(* from the places of a tidy pair to all Scalars of the merged document *)
Lemma lift_reads : forall lit cfg l' r' m a x,
  an_doc_tidy l' = true -> an_doc_tidy r' = true ->
  all_read a x l' -> all_read a x r' ->
  merge_root lit cfg l' r' = Ok m -> all_scalars_read a x m.
Proof.
  intros lit cfg l' r' m a x Tl Tr Rl Rr H p Hp Lp Np.
  apply (merge_root_lift_reads lit cfg l' r' m a x); auto.
  - intros q Hq _ Nq. destruct (tidy_bridge l' Tl q a Hq Nq) as [A _].
    apply (proj1 (all_read_iff a x l') Rl q A). now apply hit_iff.
  - intros q Hq _ Nq. destruct (tidy_bridge r' Tr q a Hq Nq) as [A _].
    apply (proj1 (all_read_iff a x r') Rr q A). now apply hit_iff.
Qed.

Lemma all_read_of_reads : forall a x d, reads a x d -> all_read a x d.
Proof. intros a x d H. apply all_read_iff. intros n Hn Hh. apply H; auto. now apply hit_iff. Qed.

Lemma reads_of_all_read : forall a x d, all_read a x d -> reads a x d.
Proof. intros a x d H p Hp Np. apply (proj1 (all_read_iff a x d) H p Hp). now apply hit_iff. Qed.

(* one node per name => every place of a recorded name is the recorded node *)
Lemma one_node_reads : forall d a x, an_doc_ok d = true -> one_node_per_name d ->
  ad_get a (an_scan_anchors d []) = Some x -> all_read a x d.
Proof.
  intros d a x Hok Hu Hg. destruct (lanc_node d Hok a x Hg) as [Hin [Hn _]].
  apply all_read_of_reads. intros p Hp Np. eapply Hu; eauto.
Qed.

(* ---------- LEFT ---------- *)
(* the left document keeps "every place of a is la" through the loop: it is changed only by
   adopting right-hand nodes of names whose anchors MATCH, and a conflicts *)
Lemma loop_left_keeps_l : forall cfg l0 r0 a la ra,
  an_doc_ok l0 = true -> an_doc_ok r0 = true ->
  anchor_merge_mode cfg = Ok KLeft ->
  ad_get a (an_scan_anchors l0 []) = Some la -> ad_get a (an_scan_anchors r0 []) = Some ra ->
  anchors_match la ra = false ->
  forall names l r st',
    (forall c, In c names -> In c (common_names (an_scan_anchors l0 []) (an_scan_anchors r0 []))) ->
    keys_plain l = true -> keys_plain r = true -> reads a la l ->
    foldM (resolve_step cfg (an_scan_anchors l0 []) (an_scan_anchors r0 [])) names (l, r) = Ok st' ->
    reads a la (fst st').
Proof.
  intros cfg l0 r0 a la ra Hokl Hokr Hm Hla Hra Hc names.
  induction names as [|b rest IH]; intros l r st' HC Kl Kr R E.
  - simpl in E. inversion E; subst. exact R.
  - rewrite foldM_cons in E.
    destruct (resolve_step cfg _ _ (l, r) b) as [[l1 r1]| |] eqn:Es; simpl in E; try discriminate.
    destruct (common_in l0 r0 b (HC b (or_introl eq_refl))) as [lb [rb [Hlb Hrb]]].
    destruct (lanc_node l0 Hokl b lb Hlb) as [_ [Nlb Llb]]. destruct (ranc_node r0 Hokr b rb Hrb) as [_ [Nrb Lrb]].
    assert (HC' : forall c, In c rest -> In c (common_names (an_scan_anchors l0 []) (an_scan_anchors r0 [])))
      by (intros; apply HC; now right).
    unfold resolve_step in Es. rewrite Hlb, Hrb, Hm in Es. cbn [bind] in Es.
    destruct (anchors_match lb rb) eqn:Em.
    + rewrite (replace_anchor_subst rb b l Nrb Kl) in Es. simpl in Es. inversion Es; subst l1 r1.
      apply (IH (subst_named b rb l) r st' HC'); auto; [now apply subst_keys_plain|].
      apply subst_reads_other; auto. intros ->. rewrite Hla in Hlb. rewrite Hra in Hrb.
      inversion Hlb; inversion Hrb; subst. congruence.
    + rewrite (replace_anchor_subst lb b r Nlb Kr) in Es. simpl in Es. inversion Es; subst l1 r1.
      apply (IH l (subst_named b lb r) st' HC'); auto. now apply subst_keys_plain.
Qed.

Theorem final_left : forall cfg lit l r m a la ra,
  anchor_merge_mode cfg = Ok KLeft ->
  an_doc_tidy l = true -> an_doc_tidy r = true ->
  ad_get a (an_scan_anchors l []) = Some la -> ad_get a (an_scan_anchors r []) = Some ra ->
  anchors_match la ra = false ->
  all_read a la l ->
  merge_with_anchors cfg lit l r = Ok m ->
  all_scalars_read a la m.
Proof.
  intros cfg lit l r m a la ra Hm Tl Tr Hla Hra Hc Rl H.
  destruct (doc_tidy_parts l Tl) as [Ll Tl']. destruct (doc_tidy_parts r Tr) as [Lr Tr'].
  pose proof (doc_tidy_ok l Tl) as Okl. pose proof (doc_tidy_ok r Tr) as Okr.
  destruct (merge_with_steps cfg lit l r m Ll Lr H) as [l' [r' [E Hr]]].
  destruct (resolve_tidy cfg l r l' r' Tl Tr) as [Tl1 Tr1]; [intros X; congruence|exact E|].
  assert (SAl : scalar_anchors l) by (intros k n Hk; apply (lanc_node l Okl k n Hk)).
  assert (SAr : scalar_anchors r) by (intros k n Hk; apply (ranc_node r Okr k n Hk)).
  pose proof (resolve_left_reads_left cfg l r l' r' a la ra Hm (tidy_keys_plain l Tl') (tidy_keys_plain r Tr')
                SAl SAr Hla Hra Hc E) as Rr1.
  assert (Rl1 : all_read a la l').
  { apply all_read_of_reads. unfold resolve_conflicts in E.
    change l' with (fst (l', r')).
    apply (loop_left_keeps_l cfg l r a la ra Okl Okr Hm Hla Hra Hc _ l r (l', r') (fun c X => X)
             (tidy_keys_plain l Tl') (tidy_keys_plain r Tr') (reads_of_all_read a la l Rl) E). }
  exact (lift_reads lit cfg l' r' m a la Tl1 Tr1 Rl1 Rr1 Hr).
Qed.

(* ---------- RIGHT ---------- *)
Lemma right_untouched : forall cfg l r l' r',
  anchor_merge_mode cfg = Ok KRight -> resolve_conflicts cfg l r = Ok (l', r') -> r' = r.
Proof.
  intros cfg l r l' r' Hm E. unfold resolve_conflicts in E.
  apply foldM_snd_inv in E; [exact E|].
  intros [l1 r1] b s' _ Hs. unfold resolve_step in Hs.
  destruct (ad_get b (an_scan_anchors l [])) as [lb|]; [|discriminate].
  destruct (ad_get b (an_scan_anchors r [])) as [rb|]; [|discriminate].
  rewrite Hm in Hs. cbn [bind] in Hs.
  destruct (anchors_match lb rb); destruct (replace_anchor rb l1); simpl in Hs; try discriminate; now inversion Hs.
Qed.

Theorem final_right : forall cfg lit l r m a la ra,
  anchor_merge_mode cfg = Ok KRight ->
  an_doc_tidy l = true -> an_doc_tidy r = true ->
  ad_get a (an_scan_anchors l []) = Some la -> ad_get a (an_scan_anchors r []) = Some ra ->
  all_read a ra r ->
  merge_with_anchors cfg lit l r = Ok m ->
  all_scalars_read a ra m.
Proof.
  intros cfg lit l r m a la ra Hm Tl Tr Hla Hra Rr H.
  destruct (doc_tidy_parts l Tl) as [Ll Tl']. destruct (doc_tidy_parts r Tr) as [Lr Tr'].
  pose proof (doc_tidy_ok r Tr) as Okr.
  destruct (merge_with_steps cfg lit l r m Ll Lr H) as [l' [r' [E Hr]]].
  destruct (resolve_tidy cfg l r l' r' Tl Tr) as [Tl1 Tr1]; [intros X; congruence|exact E|].
  assert (SAr : scalar_anchors r) by (intros k n Hk; apply (ranc_node r Okr k n Hk)).
  pose proof (resolve_right_reads_right cfg l r l' r' a la ra Hm (tidy_keys_plain l Tl') SAr Hla Hra E) as Rl1.
  pose proof (right_untouched cfg l r l' r' Hm E) as ->.
  exact (lift_reads lit cfg l' r m a ra Tl1 Tr1 Rl1 Rr Hr).
Qed.

(* ---------- RENAME ---------- *)
Lemma uses_in : forall c d p, In p (uses c d) <-> In p (places d) /\ c10_name p = Some c.
Proof. intros c d p. rewrite uses_is_filter, filter_In, hit_iff. reflexivity. Qed.

Theorem final_rename : forall cfg lit l r m a la ra,
  anchor_merge_mode cfg = Ok KRename ->
  an_doc_tidy l = true -> an_doc_tidy r = true ->
  one_node_per_name l -> one_node_per_name r -> an_heap_ok r ->
  ad_get a (an_scan_anchors l []) = Some la -> ad_get a (an_scan_anchors r []) = Some ra ->
  anchors_match la ra = false ->
  merge_with_anchors cfg lit l r = Ok m ->
  all_scalars_read a la m /\
  exists nn, calc_unique_anchor a (known_names (an_scan_anchors l []) (an_scan_anchors r [])) = Ok nn /\
             ~ In nn (known_names (an_scan_anchors l []) (an_scan_anchors r [])) /\
             all_scalars_read nn (an_with_name nn ra) m.
Proof.
  intros cfg lit l r m a la ra Hm Tl Tr Ul Ur Hh Hla Hra Hc H.
  destruct (doc_tidy_parts l Tl) as [Ll Tl']. destruct (doc_tidy_parts r Tr) as [Lr Tr'].
  pose proof (doc_tidy_ok l Tl) as Okl. pose proof (doc_tidy_ok r Tr) as Okr.
  destruct (merge_with_steps cfg lit l r m Ll Lr H) as [l' [r' [E Hr]]].
  destruct (resolve_tidy cfg l r l' r' Tl Tr (fun _ => Hh) E) as [Tl1 Tr1].
  destruct (resolve_rename cfg l r l' r' a la ra Hm Okl Okr Ul Ur Hh Hla Hra Hc E)
    as [R1 [nn [N1 [N2 [N3 [N4 N5]]]]]].
  split.
  - apply (lift_reads lit cfg l' r' m a la Tl1 Tr1 R1); [|exact Hr].
    intros n Hn. rewrite N3 in Hn. contradiction.
  - exists nn. split; [exact N1|]. split; [exact N2|].
    apply (lift_reads lit cfg l' r' m nn (an_with_name nn ra) Tl1 Tr1); [| |exact Hr].
    + intros n Hn. rewrite N5 in Hn. contradiction.
    + intros n Hn. rewrite N4 in Hn. apply in_map_iff in Hn. destruct Hn as [q [<- Hq]].
      apply uses_in in Hq. destruct Hq as [Hq Nq].
      destruct (ranc_node r Okr a ra Hra) as [Hin [Hn _]].
      now rewrite (Ur q ra a Hq Hin Nq Hn).
Qed.

(* ---------- UNIQUE NAMES ---------- *)
Theorem final_unique_names : forall cfg lit l r m,
  an_doc_tidy l = true -> an_doc_tidy r = true ->
  one_node_per_name l -> one_node_per_name r -> an_heap_ok r ->
  merge_with_anchors cfg lit l r = Ok m ->
  an_doc_unique m.
Proof.
  intros cfg lit l r m Tl Tr Ul Ur Hh H.
  destruct (doc_tidy_parts l Tl) as [Ll Tl']. destruct (doc_tidy_parts r Tr) as [Lr Tr'].
  pose proof (doc_tidy_ok l Tl) as Okl. pose proof (doc_tidy_ok r Tr) as Okr.
  destruct (merge_with_steps cfg lit l r m Ll Lr H) as [l' [r' [E Hr]]].
  destruct (resolve_tidy cfg l r l' r' Tl Tr (fun _ => Hh) E) as [Tl1 Tr1].
  pose proof (resolve_unique_names cfg l r l' r' Okl Okr Ul Ur Hh E) as PU.
  unfold an_doc_unique. apply (merge_root_lift_unique lit cfg l' r' m); [|exact Hr].
  intros n k a Hn Hk _ _ Nn Nk.
  assert (P : forall q, In q (an_all l' ++ an_all r') -> c10_name q = Some a -> In q (places l' ++ places r')).
  { intros q Hq Nq. apply in_app_or in Hq. apply in_or_app. destruct Hq as [Hq|Hq]; [left|right].
    - apply (tidy_bridge l' Tl1 q a Hq Nq).
    - apply (tidy_bridge r' Tr1 q a Hq Nq). }
  apply (PU n k a); auto.
Qed.

(* the same with the computable guard *)
Lemma pair_guard_parts : forall l r, c10_pair_guard l r = true ->
  an_doc_tidy l = true /\ an_doc_tidy r = true /\ one_node_per_name l /\ one_node_per_name r /\ an_heap_ok r.
Proof.
  intros l r H. unfold c10_pair_guard in H. rewrite !andb_true_iff in H.
  destruct H as [[[[A B] C] D] E].
  repeat split; auto; [now apply one_node_per_name_b_iff|now apply one_node_per_name_b_iff|now apply an_heap_ok_b_iff].
Qed.

Theorem final_unique_names_b : forall cfg lit l r m,
  c10_pair_guard l r = true -> merge_with_anchors cfg lit l r = Ok m -> an_doc_unique m.
Proof.
  intros cfg lit l r m G H. destruct (pair_guard_parts l r G) as [A [B [C [D E]]]].
  exact (final_unique_names cfg lit l r m A B C D E H).
Qed.

Theorem final_rename_b : forall cfg lit l r m a la ra,
  anchor_merge_mode cfg = Ok KRename -> c10_pair_guard l r = true ->
  ad_get a (an_scan_anchors l []) = Some la -> ad_get a (an_scan_anchors r []) = Some ra ->
  anchors_match la ra = false ->
  merge_with_anchors cfg lit l r = Ok m ->
  all_scalars_read a la m /\
  exists nn, calc_unique_anchor a (known_names (an_scan_anchors l []) (an_scan_anchors r [])) = Ok nn /\
             ~ In nn (known_names (an_scan_anchors l []) (an_scan_anchors r [])) /\
             all_scalars_read nn (an_with_name nn ra) m.
Proof.
  intros cfg lit l r m a la ra Hm G. destruct (pair_guard_parts l r G) as [A [B [C [D E]]]].
  now apply final_rename.
Qed.

(* the resolved pair itself under the computable guard (C10_unique_names / C10_rename re-stated) *)
Theorem resolve_unique_names_b : forall cfg l r l' r',
  c10_pair_guard l r = true -> resolve_conflicts cfg l r = Ok (l', r') -> an_pair_unique l' r'.
Proof.
  intros cfg l r l' r' G E. destruct (pair_guard_parts l r G) as [A [B [C [D F]]]].
  exact (resolve_unique_names cfg l r l' r' (doc_tidy_ok l A) (doc_tidy_ok r B) C D F E).
Qed.
