(* C07: the loader guarantee [shared_closed] FOLLOWS from the computable document
   well-formedness [doc_wf] (same oid => same tree among the anchored
   occurrences; scalar keys / members), for every combination of the search
   options and any merge table (a merged-in entry hidden by the options is
   walked by record_anchors, so nothing is asked of it). *)
From Coq Require Import List Ascii String ZArith NArith Bool Arith Lia.
From YP Require Import Outcome PyStr PyVal Doc Generated PathParser PathPrinter Searches PathsSearch SpecC07 PathsAlias.
Import ListNotations.
Open Scope list_scope.

(* ---- structural equality ---- *)
Lemma opt_string_beq_eq : forall a b, opt_string_beq a b = true -> a = b.
Proof. intros [x|] [y|]; simpl; intros H; try discriminate; auto. apply String.eqb_eq in H. subst; auto. Qed.

Lemma info_beq_eq : forall i j, info_beq i j = true -> i = j.
Proof.
  intros [o1 a1 h1 t1] [o2 a2 h2 t2]. unfold info_beq. simpl. intros H.
  apply andb_true_iff in H. destruct H as [H H4]. apply andb_true_iff in H. destruct H as [H H3].
  apply andb_true_iff in H. destruct H as [H1 H2].
  apply N.eqb_eq in H1. apply opt_string_beq_eq in H2. apply eqb_prop in H3. apply opt_string_beq_eq in H4.
  subst. reflexivity.
Qed.

Lemma pyval_beq_eq : forall v w, pyval_beq v w = true -> v = w.
Proof.
  intros [|a|a|[n d] r|a|a] [|b|b|[n' d'] r'|b|b]; simpl; intros H; try discriminate; auto.
  - apply eqb_prop in H. subst; auto.
  - apply Z.eqb_eq in H. subst; auto.
  - apply andb_true_iff in H. destruct H as [H H3]. apply andb_true_iff in H. destruct H as [H1 H2].
    apply Z.eqb_eq in H1. apply Pos.eqb_eq in H2. apply String.eqb_eq in H3. subst; auto.
  - apply String.eqb_eq in H. subst; auto.
  - apply String.eqb_eq in H. subst; auto.
Qed.

Lemma node_beq_eq : forall a b, node_beq a b = true -> a = b.
Proof.
  induction a as [i v|i kvs IH|i els IH|i els IH] using node_ind'; intros b H;
    destruct b as [j w|j kvs'|j els'|j els']; simpl in H; try discriminate;
    apply andb_true_iff in H; destruct H as [Hi H]; apply info_beq_eq in Hi; subst j.
  - apply pyval_beq_eq in H. subst; auto.
  - f_equal. revert kvs' H. induction kvs as [|kv r IHr]; intros [|kv' r'] H; try discriminate; auto.
    inversion IH as [|? ? [Hk Hv] IHt]; subst.
    apply andb_true_iff in H. destruct H as [H H3]. apply andb_true_iff in H. destruct H as [H1 H2].
    destruct kv as [k v], kv' as [k' v']. simpl in *.
    rewrite (Hk _ H1), (Hv _ H2), (IHr IHt _ H3). reflexivity.
  - f_equal. revert els' H. induction els as [|x r IHr]; intros [|y r'] H; try discriminate; auto.
    inversion IH as [|? ? Hx IHt]; subst.
    apply andb_true_iff in H. destruct H as [H1 H2]. rewrite (Hx _ H1), (IHr IHt _ H2). reflexivity.
  - f_equal. revert els' H. induction els as [|x r IHr]; intros [|y r'] H; try discriminate; auto.
    inversion IH as [|? ? Hx IHt]; subst.
    apply andb_true_iff in H. destruct H as [H1 H2]. rewrite (Hx _ H1), (IHr IHt _ H2). reflexivity.
Qed.

Definition consistent_trees (U : list node) : Prop :=
  forall x y, In x U -> In y U -> node_oid x = node_oid y -> x = y.

Lemma same_oid_same_tree_spec : forall d, same_oid_same_tree d = true -> consistent_trees (all_occs d).
Proof.
  intros d H x y Hx Hy E. unfold same_oid_same_tree in H. rewrite forallb_forall in H.
  specialize (H x Hx). rewrite forallb_forall in H. specialize (H y Hy).
  rewrite E, N.eqb_refl in H. apply node_beq_eq. exact H.
Qed.

(* ---- "strictly inside": through sequence elements and mapping values ---- *)
Inductive vchild : node -> node -> Prop :=
  | vc_elem : forall i els e, In e els -> vchild e (NSeq i els)
  | vc_val : forall i kvs k v, In (k, v) kvs -> vchild v (NMap i kvs).
Inductive inside : node -> node -> Prop :=
  | in_child : forall e n, vchild e n -> inside e n
  | in_step : forall e m n, inside e m -> vchild m n -> inside e n.

Lemma fold_size_in : forall (els : list node) e, In e els ->
  node_size e <= fold_right (fun x acc => node_size x + acc) 0 els.
Proof. induction els as [|x r IH]; simpl; intros e H; [contradiction|]. destruct H as [<-|H]; [lia|]. specialize (IH e H). lia. Qed.
Lemma fold_size_in_kv : forall (kvs : list (node * node)) k v, In (k, v) kvs ->
  node_size v <= fold_right (fun kv acc => node_size (fst kv) + node_size (snd kv) + acc) 0 kvs.
Proof. induction kvs as [|x r IH]; simpl; intros k v H; [contradiction|]. destruct H as [->|H]; [simpl; lia|]. specialize (IH k v H). lia. Qed.

Lemma vchild_size : forall e n, vchild e n -> node_size e < node_size n.
Proof.
  intros e n H. destruct H as [i els e H|i kvs k v H]; simpl.
  - pose proof (fold_size_in els e H). lia.
  - pose proof (fold_size_in_kv kvs k v H). lia.
Qed.
Lemma inside_size : forall e n, inside e n -> node_size e < node_size n.
Proof.
  intros e n H. induction H as [e n H|e m n H IH H2].
  - apply vchild_size; auto.
  - pose proof (vchild_size _ _ H2). lia.
Qed.
Lemma inside_irrefl : forall n, ~ inside n n.
Proof. intros n H. apply inside_size in H. lia. Qed.
Lemma inside_child : forall e n y, vchild e n -> inside n y -> inside e y.
Proof.
  intros e n y Hc H. induction H as [n y H|n m y H IH H2].
  - eapply in_step; [apply in_child; exact Hc | exact H].
  - eapply in_step; [apply IH; exact Hc | exact H2].
Qed.

(* ---- occurrences inside an occurrence ---- *)
Lemma keys_leaf_map : forall i kvs, c07_keys_leaf (NMap i kvs) = true ->
  forall k v, In (k, v) kvs -> is_leaf k = true /\ c07_keys_leaf v = true.
Proof.
  intros i kvs H. simpl in H. induction kvs as [|kv r IH]; intros k v Hin; [contradiction|].
  apply andb_true_iff in H. destruct H as [H H3]. apply andb_true_iff in H. destruct H as [H1 H2].
  destruct Hin as [->|Hin]; [simpl in *; auto | apply IH; auto].
Qed.
Lemma keys_leaf_seq : forall i els, c07_keys_leaf (NSeq i els) = true ->
  forall e, In e els -> c07_keys_leaf e = true.
Proof.
  intros i els H. simpl in H. induction els as [|x r IH]; intros e Hin; [contradiction|].
  apply andb_true_iff in H. destruct H as [H1 H2]. destruct Hin as [<-|Hin]; auto.
Qed.

Lemma anc_occs_leaf : forall n, is_leaf n = true -> anc_occs n = [].
Proof. intros [ | | | ]; simpl; intros; try discriminate; auto. Qed.

Lemma in_self_occ : forall x y, In y (self_occ x) -> y = x.
Proof. intros x y H. unfold self_occ in H. destruct (get_node_anchor x); [destruct H as [<-|[]]; auto | contradiction]. Qed.

Lemma anc_occs_trans : forall x, c07_keys_leaf x = true ->
  forall y, In y (anc_occs x) -> incl (anc_occs y) (anc_occs x).
Proof.
  induction x as [i v|i kvs IH|i els IH|i els IH] using node_ind'; intros K y Hy; simpl in Hy.
  - contradiction.
  - apply in_flat_map in Hy. destruct Hy as [[k v] [Hkv Hy]]. simpl in Hy.
    destruct (keys_leaf_map _ _ K k v Hkv) as [Lk Kv].
    rewrite Forall_forall in IH. destruct (IH _ Hkv) as [_ IHv]. simpl in IHv.
    assert (Sub : incl (anc_occs v) (anc_occs (NMap i kvs))).
    { intros z Hz. simpl. apply in_flat_map. exists (k, v). split; auto. simpl.
      apply in_or_app. right. apply in_or_app. right. exact Hz. }
    apply in_app_or in Hy. destruct Hy as [Hy|Hy].
    + apply in_self_occ in Hy. subst y. rewrite (anc_occs_leaf _ Lk). intros z [].
    + apply in_app_or in Hy. destruct Hy as [Hy|Hy].
      * apply in_self_occ in Hy. subst y. exact Sub.
      * intros z Hz. apply Sub. apply (IHv Kv y Hy). exact Hz.
  - apply in_flat_map in Hy. destruct Hy as [e [He Hy]].
    pose proof (keys_leaf_seq _ _ K e He) as Ke.
    rewrite Forall_forall in IH.
    assert (Sub : incl (anc_occs e) (anc_occs (NSeq i els))).
    { intros z Hz. simpl. apply in_flat_map. exists e. split; auto. apply in_or_app. right. exact Hz. }
    apply in_app_or in Hy. destruct Hy as [Hy|Hy].
    + apply in_self_occ in Hy. subst y. exact Sub.
    + intros z Hz. apply Sub. apply (IH e He Ke y Hy). exact Hz.
  - apply in_flat_map in Hy. destruct Hy as [e [He Hy]]. apply in_self_occ in Hy. subst y.
    simpl in K. rewrite forallb_forall in K. rewrite (anc_occs_leaf _ (K e He)). intros z [].
Qed.

Lemma same_oid_in_self : forall pre z, In z pre -> same_oid_in pre z = true.
Proof. intros pre z H. apply same_oid_in_iff. exists z. auto. Qed.
Lemma same_oid_in_mono : forall pre pre' z, incl pre pre' -> same_oid_in pre z = true -> same_oid_in pre' z = true.
Proof.
  intros pre pre' z Hi H. apply same_oid_in_iff in H. destruct H as [y [Hy E]].
  apply same_oid_in_iff. exists y. split; auto.
Qed.

Lemma all_at_intro {A} (f : A -> list node) (chk : list node -> nat -> A -> bool) : forall (l : list A) pos pre,
  (forall j x, nth_error l j = Some x -> chk (pre ++ flat_map f (firstn j l)) (pos + j) x = true) ->
  all_at f chk l pos pre = true.
Proof.
  induction l as [|a l IH]; intros pos pre H; simpl; auto.
  apply andb_true_iff. split.
  - specialize (H 0 a eq_refl). simpl in H. rewrite app_nil_r, Nat.add_0_r in H. exact H.
  - apply IH. intros j x Hn. specialize (H (S j) x Hn). simpl in H.
    rewrite <- app_assoc. replace (S pos + j) with (pos + S j) by lia. exact H.
Qed.

Lemma firstn_flat_incl {A} (f : A -> list node) : forall (l : list A) j, incl (flat_map f (firstn j l)) (flat_map f l).
Proof.
  intros l j z Hz. apply in_flat_map in Hz. destruct Hz as [x [Hx Hz]].
  apply in_flat_map. exists x. split; auto. rewrite <- (firstn_skipn j l). apply in_or_app. left. exact Hx.
Qed.

Section Closed.
Variable mt : mtable.
Variable o : opts.
Variable U : list node.
Hypothesis HU : consistent_trees U.

(* every occurrence met before either has all its inner occurrences among those
   met before, or is an ancestor of the current node *)
Definition closed_or_above (pre0 : list node) (n : node) : Prop :=
  forall y, In y pre0 -> (forall z, In z (anc_occs y) -> same_oid_in pre0 z = true) \/ inside n y.

Lemma repeat_closed : forall pre0 e,
  closed_or_above pre0 e -> incl pre0 U -> In e U -> is_repeat pre0 e = true ->
  forall z, In z (anc_occs e) -> same_oid_in pre0 z = true.
Proof.
  intros pre0 e Hc Hi He Hr z Hz. unfold is_repeat in Hr.
  destruct (get_node_anchor e); [|discriminate].
  apply same_oid_in_iff in Hr. destruct Hr as [y [Hy E]].
  assert (y = e) by (apply HU; auto). subst y.
  destruct (Hc e Hy) as [C|C]; [auto | exfalso; exact (inside_irrefl _ C)].
Qed.

Lemma sc_gen : forall n pre0 s,
  (forall y, In y s -> y = n) ->
  c07_keys_leaf n = true ->
  incl (pre0 ++ s ++ anc_occs n) U ->
  closed_or_above pre0 n ->
  shared_closed mt o n (pre0 ++ s) = true.
Proof.
  induction n as [i v|i kvs IH|i els IH|i els IH] using node_ind'; intros pre0 s Hs K Hi Hc; try reflexivity.
  - (* mapping *)
    simpl. apply all_at_intro. intros pos [k v] Hn. simpl.
    pose proof (nth_error_In _ _ Hn) as Hin.
    destruct (keys_leaf_map _ _ K k v Hin) as [Lk Kv].
    set (pre_kv := (pre0 ++ s) ++ flat_map entry_occs (firstn pos kvs)) in *.
    assert (Ikv : incl (entry_occs (k, v)) (anc_occs (NMap i kvs))).
    { intros z Hz. simpl. apply in_flat_map. exists (k, v). split; auto. }
    assert (Ipre : incl pre_kv (pre0 ++ s ++ anc_occs (NMap i kvs))).
    { unfold pre_kv. intros z Hz. rewrite app_assoc. apply in_app_or in Hz. apply in_or_app.
      destruct Hz as [Hz|Hz]; auto. right. simpl. eapply firstn_flat_incl; eauto. }
    assert (Ipre2 : incl (pre_kv ++ self_occ k) (pre0 ++ s ++ anc_occs (NMap i kvs))).
    { intros z Hz. apply in_app_or in Hz. destruct Hz as [Hz|Hz]; [apply Ipre; auto|].
      rewrite app_assoc. apply in_or_app. right. apply Ikv. unfold entry_occs. simpl. apply in_or_app. left. exact Hz. }
    (* closedness relative to the value v *)
    assert (Cv : closed_or_above (pre_kv ++ self_occ k) v).
    { intros y Hy. apply in_app_or in Hy. destruct Hy as [Hy|Hy].
      - unfold pre_kv in Hy. apply in_app_or in Hy. destruct Hy as [Hy|Hy].
        + apply in_app_or in Hy. destruct Hy as [Hy|Hy].
          * destruct (Hc y Hy) as [C|C].
            -- left. intros z Hz. eapply same_oid_in_mono; [|apply C; exact Hz].
               unfold pre_kv. intros w Hw. apply in_or_app. left. apply in_or_app. left. apply in_or_app. left. exact Hw.
            -- right. eapply inside_child; [|exact C]. eapply vc_val; eauto.
          * right. rewrite (Hs y Hy). apply in_child. eapply vc_val; eauto.
        + left. apply in_flat_map in Hy. destruct Hy as [[k' v'] [Hkv' Hy]].
          assert (Hin' : In (k', v') kvs) by (rewrite <- (firstn_skipn pos kvs); apply in_or_app; left; exact Hkv').
          destruct (keys_leaf_map _ _ K k' v' Hin') as [Lk' Kv'].
          assert (Sub : incl (anc_occs v') (pre_kv ++ self_occ k)).
          { intros z Hz. apply in_or_app. left. unfold pre_kv. apply in_or_app. right.
            apply in_flat_map. exists (k', v'). split; auto. unfold entry_occs. simpl.
            apply in_or_app. right. apply in_or_app. right. exact Hz. }
          unfold entry_occs in Hy. simpl in Hy. intros z Hz. apply same_oid_in_self.
          apply in_app_or in Hy. destruct Hy as [Hy|Hy].
          * apply in_self_occ in Hy. subst y. rewrite (anc_occs_leaf _ Lk') in Hz. contradiction.
          * apply in_app_or in Hy. destruct Hy as [Hy|Hy].
            -- apply in_self_occ in Hy. subst y. apply Sub; auto.
            -- apply Sub. apply (anc_occs_trans v' Kv' y Hy). exact Hz.
      - left. apply in_self_occ in Hy. subst y. rewrite (anc_occs_leaf _ Lk). intros z []. }
    destruct (skip_merged mt o (oid i) pos); [reflexivity|].
    destruct (negb (o_kalias o) && is_repeat pre_kv k); [reflexivity|].
    destruct (negb (o_valias o) && is_repeat (pre_kv ++ self_occ k) v) eqn:Rv.
    + apply andb_true_iff in Rv. destruct Rv as [_ Rv].
      unfold all_rep. apply forallb_forall. intros z Hz.
      eapply same_oid_in_mono; [|eapply (repeat_closed (pre_kv ++ self_occ k) v Cv); eauto].
      * intros w Hw. apply in_or_app. left. exact Hw.
      * intros w Hw. apply Hi. apply Ipre2. exact Hw.
      * apply Hi. rewrite app_assoc. apply in_or_app. right. apply Ikv. unfold entry_occs. simpl.
        apply in_or_app. right. apply in_or_app. left.
        unfold is_repeat in Rv. unfold self_occ. destruct (get_node_anchor v); [left; reflexivity | discriminate].
    + rewrite Forall_forall in IH. destruct (IH _ Hin) as [_ IHv]. simpl in IHv.
      apply (IHv (pre_kv ++ self_occ k) (self_occ v)); auto.
      * intros y Hy. apply in_self_occ in Hy. exact Hy.
      * intros z Hz. apply Hi. apply in_app_or in Hz. destruct Hz as [Hz|Hz]; [apply Ipre2; exact Hz|].
        rewrite app_assoc. apply in_or_app. right. apply Ikv. unfold entry_occs. simpl.
        apply in_or_app. right. exact Hz.
  - (* sequence *)
    simpl. apply all_at_intro. intros idx e Hn. simpl.
    pose proof (nth_error_In _ _ Hn) as Hin.
    pose proof (keys_leaf_seq _ _ K e Hin) as Ke.
    set (pre_e := (pre0 ++ s) ++ flat_map elem_occs (firstn idx els)) in *.
    assert (Ie : incl (elem_occs e) (anc_occs (NSeq i els))).
    { intros z Hz. simpl. apply in_flat_map. exists e. split; auto. }
    assert (Ipre : incl pre_e (pre0 ++ s ++ anc_occs (NSeq i els))).
    { unfold pre_e. intros z Hz. rewrite app_assoc. apply in_app_or in Hz. apply in_or_app.
      destruct Hz as [Hz|Hz]; auto. right. simpl. eapply firstn_flat_incl; eauto. }
    assert (Ce : closed_or_above pre_e e).
    { intros y Hy. unfold pre_e in Hy. apply in_app_or in Hy. destruct Hy as [Hy|Hy].
      - apply in_app_or in Hy. destruct Hy as [Hy|Hy].
        + destruct (Hc y Hy) as [C|C].
          * left. intros z Hz. eapply same_oid_in_mono; [|apply C; exact Hz].
            unfold pre_e. intros w Hw. apply in_or_app. left. apply in_or_app. left. exact Hw.
          * right. eapply inside_child; [|exact C]. eapply vc_elem; eauto.
        + right. rewrite (Hs y Hy). apply in_child. eapply vc_elem; eauto.
      - left. apply in_flat_map in Hy. destruct Hy as [e' [He' Hy]].
        assert (Hin' : In e' els) by (rewrite <- (firstn_skipn idx els); apply in_or_app; left; exact He').
        pose proof (keys_leaf_seq _ _ K e' Hin') as Ke'.
        assert (Sub : incl (anc_occs e') pre_e).
        { intros z Hz. unfold pre_e. apply in_or_app. right.
          apply in_flat_map. exists e'. split; auto. unfold elem_occs. apply in_or_app. right. exact Hz. }
        unfold elem_occs in Hy. intros z Hz. apply same_oid_in_self.
        apply in_app_or in Hy. destruct Hy as [Hy|Hy].
        + apply in_self_occ in Hy. subst y. apply Sub; auto.
        + apply Sub. apply (anc_occs_trans e' Ke' y Hy). exact Hz. }
    destruct (negb (o_valias o) && is_repeat pre_e e) eqn:Re.
    + apply andb_true_iff in Re. destruct Re as [_ Re].
      unfold all_rep. apply forallb_forall. intros z Hz.
      eapply same_oid_in_mono; [|eapply (repeat_closed pre_e e Ce); eauto].
      * intros w Hw. apply in_or_app. left. exact Hw.
      * intros w Hw. apply Hi. apply Ipre. exact Hw.
      * apply Hi. rewrite app_assoc. apply in_or_app. right. apply Ie. unfold elem_occs.
        apply in_or_app. left.
        unfold is_repeat in Re. unfold self_occ. destruct (get_node_anchor e); [left; reflexivity | discriminate].
    + rewrite Forall_forall in IH.
      apply (IH e Hin pre_e (self_occ e)); auto.
      * intros y Hy. apply in_self_occ in Hy. exact Hy.
      * intros z Hz. apply Hi. apply in_app_or in Hz. destruct Hz as [Hz|Hz]; [apply Ipre; exact Hz|].
        rewrite app_assoc. apply in_or_app. right. apply Ie. exact Hz.
Qed.
End Closed.

Theorem doc_wf_shared_closed : forall mt d, doc_wf d = true ->
  forall o, shared_closed mt o d [] = true.
Proof.
  intros mt d H o. unfold doc_wf in H.
  apply andb_true_iff in H. destruct H as [H1 H2].
  apply (sc_gen mt o (all_occs d) (same_oid_same_tree_spec d H1) d [] []); auto.
  - intros y [].
  - simpl. intros z Hz. unfold all_occs. apply in_or_app. right. exact Hz.
  - intros y [].
Qed.
