(* C07: the theorems of Properties/C07.v, assembled from PathsEnum (model =
   enumeration) and PathsSpec (enumeration = declarative places). *)
From Coq Require Import List Ascii String ZArith NArith Bool Arith Lia.
From YP Require Import Outcome PyStr PyVal Doc Generated PathParser PathPrinter Searches PathsSearch
     SpecC07 PathsEnum PathsSpec.
Import ListNotations.

Section Main.
Variable lit : string -> outcome litres.
Variable re_search : string -> string -> outcome reres.
Variable mt : mtable.
Variable tm : terms.
Variable sp : sep.
Variable o : opts.

Notation satb := (satb lit re_search tm).

Lemma satb_inv v : satb v = true -> satisfies lit re_search tm v.
Proof.
  unfold PathsEnum.satb, satisfies. destruct (term_matches lit re_search tm (node_hay v)) as [[|]| |]; auto; discriminate.
Qed.

Lemma satb_of v : satisfies lit re_search tm v -> satb v = true.
Proof. unfold PathsEnum.satb, satisfies. intros ->. reflexivity. Qed.

(* ---- the lone-scalar document ---- *)
Lemma is_none_leaf_null d : is_none_leaf d = null_doc d.
Proof. reflexivity. Qed.

Lemma reach_leaf i v l m : reach (NLeaf i v) l m -> l = [] /\ m = NLeaf i v.
Proof. intros H. inversion H; subst; auto. match goal with H : child_at (NLeaf _ _) _ _ |- _ => inversion H end. Qed.

Lemma search_doc_leaf i v res :
  search_doc lit re_search mt tm sp o (NLeaf i v) = Ok res ->
  res = if negb (null_doc (NLeaf i v)) && o_values o && satb (NLeaf i v)
        then [mkhit (root_slash sp "") [] HValue] else [].
Proof.
  unfold search_doc. cbn [search_for_paths]. unfold scalar_root. change (is_none_leaf (NLeaf i v)) with (null_doc (NLeaf i v)). unfold PathsEnum.satb.
  destruct (negb (null_doc (NLeaf i v)) && o_values o); cbn [andb].
  - destruct (term_matches lit re_search tm (node_hay (NLeaf i v))) as [[|]| |]; cbn [bind fst]; intros E; inversion E; reflexivity.
  - cbn [bind fst]. intros E; inversion E; reflexivity.
Qed.

Lemma container_not_root d l s : is_container d = true -> ~ root_place d l s.
Proof. intros Hc [_ [_ [Hl _]]]. destruct d; simpl in *; discriminate. Qed.

Lemma search_doc_enum d res :
  o_anchors o = false -> transparent mt o d ->
  search_doc lit re_search mt tm sp o d = Ok res ->
  map h_lk res = enum_doc lit re_search tm o d.
Proof.
  intros Ha Ht E. unfold enum_doc. destruct (is_container d) eqn:Ec.
  - unfold search_doc in E.
    destruct (search_for_paths lit re_search mt (scan_for_anchors d []) tm sp o d "" [] []) as [r| |] eqn:Es;
      simpl in E; try discriminate.
    inversion E; subst. eapply sfp_enum; eauto.
  - destruct (not_container_leaf' _ Ec) as [i [v ->]]. rewrite (search_doc_leaf _ _ _ E).
    change (is_none_leaf (NLeaf i v)) with (null_doc (NLeaf i v)).
    destruct (negb (null_doc (NLeaf i v)) && o_values o && satb (NLeaf i v)); reflexivity.
Qed.

Lemma good_justified d h :
  good lit re_search tm o d (h_loc h) (h_kind h) -> justified lit re_search tm o d h.
Proof.
  unfold justified. intros [l0 [tgt [r [El [R L]]]]]. destruct (h_kind h); simpl in L; try contradiction.
  - destruct L as [Hk [i [kvs [kn [v [-> [Hin [-> Hs]]]]]]]]. split; auto.
    exists kn. split; [|apply satb_inv; auto]. exists l0, i, kvs, v. auto.
  - destruct L as [Hv [i [v [Hc Hs]]]]. split; auto.
    exists (NLeaf i v). split; [|apply satb_inv; auto]. left. exists l0, tgt, r. auto.
  - destruct L as [i [els [m [-> [Hin [-> Hs]]]]]].
    exists m. split; [|apply satb_inv; auto]. exists l0, i, els. auto.
Qed.

(* what a lone-scalar document reports *)
Lemma leaf_hit_justified i v res h :
  search_doc lit re_search mt tm sp o (NLeaf i v) = Ok res -> In h res ->
  h = mkhit (root_slash sp "") [] HValue /\ o_values o = true /\ null_doc (NLeaf i v) = false /\
  satb (NLeaf i v) = true.
Proof.
  intros E Hin. rewrite (search_doc_leaf _ _ _ E) in Hin.
  destruct (null_doc (NLeaf i v)); cbn [negb andb] in Hin; [contradiction|].
  destruct (o_values o); cbn [andb] in Hin; [|contradiction].
  destruct (satb (NLeaf i v)); [|contradiction]. destruct Hin as [<-|[]]. auto.
Qed.

Theorem sound d res :
  o_anchors o = false -> o_expand o = false -> transparent mt o d ->
  search_doc lit re_search mt tm sp o d = Ok res ->
  forall h, In h res -> justified lit re_search tm o d h.
Proof.
  intros Ha Hx Ht E h Hin. destruct (is_container d) eqn:Ec.
  - pose proof (search_doc_enum _ _ Ha Ht E) as Eq. unfold enum_doc in Eq. rewrite Ec in Eq.
    assert (Hi : In (h_lk h) (enum lit re_search tm o d [])) by (rewrite <- Eq; apply in_map; auto).
    destruct (enum_sound lit re_search tm o Hx d [] _ _ Hi) as [l' [El G]]. simpl in El. subst l'.
    apply good_justified; auto.
  - destruct (not_container_leaf' _ Ec) as [i [v ->]].
    destruct (leaf_hit_justified _ _ _ _ E Hin) as [-> [Hv [Hn Hs]]]. unfold justified. cbn [h_kind h_loc].
    split; auto. exists (NLeaf i v). split; [|apply satb_inv; auto]. right. repeat split; auto.
Qed.

Lemma wanted_good d l :
  is_container d = true ->
  wanted lit re_search tm o d l -> exists k, good lit re_search tm o d l k.
Proof.
  intros Hc [[Hv [s [[[l0 [p [r [-> [R [Hch Hl]]]]]]|Hr] Hs]]]|[[Hk [kn [[l0 [i [kvs [v [-> [R Hin]]]]]] Hs]]]
                                                  |[m [[l0 [i [els [-> [R Hin]]]]] Hs]]]].
  - destruct s as [i v| | |]; try discriminate.
    exists HValue, l0, p, r. split; [reflexivity|]. split; auto. simpl. split; auto.
    exists i, v. split; auto. apply satb_of; auto.
  - exfalso. eapply container_not_root; eauto.
  - exists HKey, l0, (NMap i kvs), (key_ref kn). split; [reflexivity|]. split; auto. simpl. split; auto.
    exists i, kvs, kn, v. repeat split; auto. apply satb_of; auto.
  - exists HMember, l0, (NSet i els), (member_ref m). split; [reflexivity|]. split; auto. simpl.
    exists i, els, m. repeat split; auto. apply satb_of; auto.
Qed.

(* on a lone-scalar document only the root can be wanted *)
Lemma wanted_leaf i v l :
  wanted lit re_search tm o (NLeaf i v) l ->
  l = [] /\ o_values o = true /\ null_doc (NLeaf i v) = false /\ satb (NLeaf i v) = true.
Proof.
  intros [[Hv [s [[[l0 [p [r [-> [R [Hch Hl]]]]]]|[-> [-> [_ Hn]]]] Hs]]]|[[Hk [kn [[l0 [i0 [kvs [v0 [-> [R Hin]]]]]] Hs]]]
                                                  |[m [[l0 [i0 [els [-> [R Hin]]]]] Hs]]]].
  - destruct (reach_leaf _ _ _ _ R) as [_ ->]. inversion Hch.
  - repeat split; auto. apply satb_of; auto.
  - destruct (reach_leaf _ _ _ _ R) as [_ Hm]. discriminate.
  - destruct (reach_leaf _ _ _ _ R) as [_ Hm]. discriminate.
Qed.

Theorem complete_cover d res :
  o_anchors o = false -> o_expand o = false -> transparent mt o d ->
  search_doc lit re_search mt tm sp o d = Ok res ->
  forall l, wanted lit re_search tm o d l ->
  exists h, In h res /\ prefix (h_loc h) l /\ (h_loc h = l \/ (h_kind h = HKey /\ o_keys o = true)).
Proof.
  intros Ha Hx Ht E l W. destruct (is_container d) eqn:Ec.
  - pose proof (search_doc_enum _ _ Ha Ht E) as Eq. unfold enum_doc in Eq. rewrite Ec in Eq.
    destruct (wanted_good _ _ Ec W) as [k [l0 [tgt [r [-> [R L]]]]]].
    destruct (enum_complete lit re_search tm o Hx d l0 tgt R r k [] L) as [l1 [k1 [p [Hin [El [Hp Hd]]]]]].
    simpl in El. subst l1. rewrite <- Eq in Hin. apply in_map_iff in Hin.
    destruct Hin as [h [Eh Hin]]. unfold h_lk in Eh. inversion Eh; subst.
    exists h. split; auto. split; auto.
    destruct Hd as [[Hd _]|Hd]; auto.
  - destruct (not_container_leaf' _ Ec) as [i [v ->]].
    destruct (wanted_leaf _ _ _ W) as [-> [Hv [Hn Hs]]].
    exists (mkhit (root_slash sp "") [] HValue). rewrite (search_doc_leaf _ _ _ E), Hn, Hv, Hs. cbn.
    split; [left; reflexivity|]. split; [exists []; reflexivity|]. left; reflexivity.
Qed.

Theorem complete_values d res :
  o_anchors o = false -> o_expand o = false -> transparent mt o d -> o_keys o = false ->
  search_doc lit re_search mt tm sp o d = Ok res ->
  forall l, wanted lit re_search tm o d l -> exists h, In h res /\ h_loc h = l.
Proof.
  intros Ha Hx Ht Hk E l W.
  destruct (complete_cover d res Ha Hx Ht E l W) as [h [Hin [_ [Hd|[_ Hd]]]]]; [eauto|congruence].
Qed.

Theorem once d res :
  o_anchors o = false -> o_expand o = false -> transparent mt o d -> nodup_keys d ->
  search_doc lit re_search mt tm sp o d = Ok res ->
  NoDup (map h_loc res).
Proof.
  intros Ha Hx Ht Hn E. destruct (is_container d) eqn:Ec.
  - pose proof (search_doc_enum _ _ Ha Ht E) as Eq. unfold enum_doc in Eq. rewrite Ec in Eq.
    pose proof (enum_nodup lit re_search tm o Hx d Hn []) as N. unfold locs in N. rewrite <- Eq in N.
    rewrite map_map in N. exact N.
  - destruct (not_container_leaf' _ Ec) as [i [v ->]]. rewrite (search_doc_leaf _ _ _ E).
    destruct (_ && _); cbn; repeat constructor; auto.
Qed.

(* the step-level facts behind the exclusion modes *)
Lemma alias_classified x seen b name :
  o_anchors o = false -> get_node_anchor x = Some name ->
  search_anchor lit re_search tm o x seen b =
  Ok (if mem_string name seen then UnsearchableAlias else UnsearchableAnchor,
      if mem_string name seen then seen else (seen ++ [name])%list).
Proof.
  intros Ha Hn. unfold search_anchor. rewrite Hn, Ha. simpl. destruct (mem_string name seen); reflexivity.
Qed.

Lemma alias_value_excluded rec v tmp lc seen :
  o_valias o = false ->
  value_part lit re_search mt tm sp o rec UnsearchableAlias v tmp lc seen = Ok ([], seen).
Proof. intros Hv. unfold value_part. rewrite Hv. reflexivity. Qed.

End Main.
