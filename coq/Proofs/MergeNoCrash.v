(* C05: the merge proper never crashes.  For every pair of documents, every
   configuration and every literal_eval oracle that behaves (total, raising
   only what Nodes.typed_value catches), Merge.merge_root ends in a document,
   a MergeException, or the NameError of a policy lookup that met a text
   outside its enumeration -- never AttributeError / KeyError / TypeError,
   never OutOfFuel. *)
From Coq Require Import List Ascii String ZArith QArith NArith Bool Lia.
From YP Require Import Outcome PyStr PyVal Doc PathParser Searches MergeConfig Merge SpecC05 MergeHash.
Import ListNotations.
Open Scope string_scope.
Open Scope list_scope.

Section Cfg.
Variable lit : string -> outcome litres.
Variable cfg : mconfig.
Hypothesis Hlit : mg_lit_ok lit.

Notation clean := (mg_clean cfg).

Lemma clean_bind {A B} (o : outcome A) (f : A -> outcome B) :
  clean o -> (forall a, o = Ok a -> clean (f a)) -> clean (bind o f).
Proof. destruct o; simpl; intros H Hf; auto. Qed.

Lemma clean_ok {A} (a : A) : clean (Ok a).
Proof. exact I. Qed.
Lemma clean_mergeexc {A} : clean (@Raise A MergeExc).
Proof. simpl. now left. Qed.

(* ---- the lookups ---- *)
Lemma hash_of_str_cases : forall s, (exists m, hash_of_str s = Ok m) \/ hash_of_str s = Raise name_error.
Proof. intros s. unfold hash_of_str. repeat (destruct (String.eqb _ _); [left; eauto|]). now right. Qed.
Lemma array_of_str_cases : forall s, (exists m, array_of_str s = Ok m) \/ array_of_str s = Raise name_error.
Proof. intros s. unfold array_of_str. repeat (destruct (String.eqb _ _); [left; eauto|]). now right. Qed.
Lemma aoh_of_str_cases : forall s, (exists m, aoh_of_str s = Ok m) \/ aoh_of_str s = Raise name_error.
Proof. intros s. unfold aoh_of_str. repeat (destruct (String.eqb _ _); [left; eauto|]). now right. Qed.
Lemma set_of_str_cases : forall s, (exists m, set_of_str s = Ok m) \/ set_of_str s = Raise name_error.
Proof. intros s. unfold set_of_str. repeat (destruct (String.eqb _ _); [left; eauto|]). now right. Qed.

Lemma clean_hash_mode : forall nc, clean (hash_merge_mode cfg nc).
Proof.
  intros nc. destruct (hash_of_str_cases (mode_text cfg nc (cli_hashes cfg) (ini_of cfg (ini_hashes cfg)) "DEEP")) as [[m E]|E];
    unfold hash_merge_mode; rewrite E; simpl; auto.
  right. split; auto. exists nc. left. exact E.
Qed.
Lemma clean_array_mode : forall nc, clean (array_merge_mode cfg nc).
Proof.
  intros nc. destruct (array_of_str_cases (mode_text cfg nc (cli_arrays cfg) (ini_of cfg (ini_arrays cfg)) "ALL")) as [[m E]|E];
    unfold array_merge_mode; rewrite E; simpl; auto.
  right. split; auto. exists nc. right. left. exact E.
Qed.
Lemma clean_aoh_mode : forall nc, clean (aoh_merge_mode cfg nc).
Proof.
  intros nc. destruct (aoh_of_str_cases (mode_text cfg nc (cli_aoh cfg) (ini_of cfg (ini_aoh cfg)) "ALL")) as [[m E]|E];
    unfold aoh_merge_mode; rewrite E; simpl; auto.
  right. split; auto. exists nc. right. right. left. exact E.
Qed.
Lemma clean_set_mode : forall nc, clean (set_merge_mode cfg nc).
Proof.
  intros nc. destruct (set_of_str_cases (mode_text cfg nc (cli_sets cfg) (ini_of cfg (ini_sets cfg)) "UNIQUE")) as [[m E]|E];
    unfold set_merge_mode; rewrite E; simpl; auto.
  right. split; auto. exists nc. right. right. right. exact E.
Qed.

Lemma clean_dict_shortcut : forall val nc, clean (dict_shortcut cfg val nc).
Proof.
  intros val nc. destruct val; simpl; apply clean_bind; intros; try apply clean_ok;
    [apply clean_aoh_mode|apply clean_hash_mode|apply clean_aoh_mode|apply clean_set_mode].
Qed.

(* ---- the oracle ---- *)
Lemma typed_value_ok : forall v, exists t, typed_value lit v = Ok t.
Proof.
  intros v. unfold typed_value. destruct v; try (eexists; reflexivity).
  all: match goal with |- context [match ?c with Some _ => _ | None => _ end] => destruct c as [text|] end;
       try (eexists; reflexivity).
  all: destruct (Hlit text) as [r [E Hr]]; rewrite E; simpl; destruct r; try (eexists; reflexivity);
       rewrite Hr; eexists; reflexivity.
Qed.

Lemma tagless_value_ok : forall n, exists t, tagless_value lit n = Ok t.
Proof.
  intros n. destruct n; simpl; try (eexists; reflexivity).
  match goal with |- context [typed_value lit ?x] => destruct (typed_value_ok x) as [t E]; rewrite E end.
  simpl. eexists; reflexivity.
Qed.

Lemma find_record_ok : forall idk idv lels i, exists f, find_record lit idk idv lels i = Ok f.
Proof.
  intros idk idv lels. induction lels as [|h rest IH]; intros i; simpl; [eexists; reflexivity|].
  destruct h; try apply IH.
  destruct (assoc_key idk kvs); [|apply IH].
  destruct (tagless_value_ok n) as [t E]. rewrite E. simpl.
  destruct (idval_eq t idv); [eexists; reflexivity|apply IH].
Qed.

(* ---- sets and simple arrays ---- *)
Lemma merge_sets_clean : forall l r nc,
  is_set r = true \/ is_seq r = true -> clean (merge_sets cfg l r nc).
Proof.
  intros l r nc Hr. unfold merge_sets. destruct l; try apply clean_mergeexc.
  apply clean_bind; [apply clean_set_mode|]. intros m _. destruct m; try apply clean_ok.
  destruct r; try apply clean_ok; destruct Hr; discriminate.
Qed.

Lemma merge_sets_shape : forall l r nc m,
  is_leaf r = false -> merge_sets cfg l r nc = Ok m -> is_leaf (ret m) = false /\ is_leaf (inplace m) = false.
Proof.
  intros l r nc m Hr H. unfold merge_sets in H. destruct l; try discriminate.
  destruct (set_merge_mode cfg nc) as [mode| |]; simpl in H; try discriminate.
  destruct mode.
  - inversion H; subst. simpl. auto.
  - inversion H; subst. simpl. auto.
  - destruct r; try discriminate; inversion H; subst; simpl; auto.
Qed.

Lemma merge_simple_lists_clean : forall l r nc, clean (merge_simple_lists cfg l r nc).
Proof.
  intros. unfold merge_simple_lists. destruct l; try apply clean_mergeexc.
  apply clean_bind; [apply clean_array_mode|]. intros m _. destruct m; apply clean_ok.
Qed.

Lemma merge_simple_lists_shape : forall l r nc m,
  is_leaf r = false -> merge_simple_lists cfg l r nc = Ok m ->
  is_leaf (ret m) = false /\ is_leaf (inplace m) = false.
Proof.
  intros l r nc m Hr H. unfold merge_simple_lists in H. destruct l; try discriminate.
  destruct (array_merge_mode cfg nc) as [mode| |]; simpl in H; try discriminate.
  destruct mode; inversion H; subst; simpl; auto.
Qed.

(* ---- the recursive core ---- *)
Definition rec_ok (r : node) : Prop :=
  forall nc l, clean (merge_rec lit cfg r nc l) /\
               (forall m, merge_rec lit cfg r nc l = Ok m -> is_leaf r = false -> is_leaf m = false).

Lemma yaml_set_tag_container : forall n t, is_leaf n = false -> yaml_set_tag n t = Ok (set_tag n t).
Proof. intros n t H. destruct n; try discriminate; reflexivity. Qed.

Lemma set_tag_not_leaf : forall n t, is_leaf n = false -> is_leaf (set_tag n t) = false.
Proof. intros n t H. destruct n; try discriminate; reflexivity. Qed.

Lemma dict_step_clean : forall ro st key val,
  rec_ok val -> clean (dict_step cfg (merge_rec lit cfg) ro st (key, val)).
Proof.
  intros ro [[kvs buf] pos] key val Hrec. unfold dict_step.
  destruct (assoc_key (key_val key) kvs) eqn:Ek; [|apply clean_ok].
  destruct (flush buf pos kvs) as [kvs1 pos1] eqn:Ef.
  assert (H1 : assoc_key (key_val key) kvs1 <> None).
  { replace kvs1 with (fst (flush buf pos kvs)) by now rewrite Ef. apply assoc_flush. congruence. }
  apply clean_bind; [apply clean_dict_shortcut|]. intros sc _.
  destruct sc; try apply clean_ok.
  destruct (assoc_key (key_val key) kvs1) as [lv|] eqn:E1; [|congruence].
  destruct val as [vi vv|vi vkvs|vi vels|vi vels].
  - apply clean_ok.
  - destruct (Hrec (mkcoord (node_oid (NMap vi vkvs)) (Some ro) (Some (key_val key))) lv) as [Hc Hs].
    apply clean_bind; [exact Hc|]. intros m Hm.
    rewrite yaml_set_tag_container by (apply (Hs m Hm); reflexivity). apply clean_ok.
  - destruct (Hrec (mkcoord (node_oid (NSeq vi vels)) (Some ro) (Some (key_val key))) lv) as [Hc Hs].
    apply clean_bind; [exact Hc|]. intros m Hm.
    rewrite yaml_set_tag_container by (apply (Hs m Hm); reflexivity). apply clean_ok.
  - apply clean_bind; [apply merge_sets_clean; now left|]. intros m Hm.
    apply merge_sets_shape in Hm; [|reflexivity]. destruct Hm as [Hm _].
    rewrite yaml_set_tag_container by exact Hm. apply clean_ok.
Qed.

Lemma dict_loop_clean : forall ro items st,
  Forall (fun kv => rec_ok (snd kv)) items -> clean (dict_loop lit cfg ro items st).
Proof.
  intros ro items. induction items as [|[key val] rest IH]; intros st HF; [apply clean_ok|].
  inversion HF; subst. rewrite dict_loop_cons. apply clean_bind.
  - apply dict_step_clean. assumption.
  - intros st' _. apply IH. assumption.
Qed.

Lemma aoh_step_clean : forall mode idk lels ele,
  rec_ok ele -> clean (aoh_step lit (merge_rec lit cfg) mode idk lels ele).
Proof.
  intros mode idk lels ele Hrec. unfold aoh_step. destruct mode; try apply clean_ok.
  - destruct ele; try apply clean_ok.
    destruct (assoc_key idk kvs) as [idn|]; [|apply clean_mergeexc].
    destruct (tagless_value_ok idn) as [t E]. rewrite E. cbn [bind].
    destruct (find_record_ok idk t lels 0) as [f Ef]. rewrite Ef. cbn [bind].
    destruct f as [[i0 lh]|]; [|apply clean_ok].
    apply clean_bind; [apply Hrec|]. intros; apply clean_ok.
  - destruct (in_list ele lels); apply clean_ok.
Qed.

Lemma aoh_loop_clean : forall mode idk items lels,
  Forall rec_ok items -> clean (aoh_loop lit cfg mode idk items lels).
Proof.
  intros mode idk items. induction items as [|e rest IH]; intros lels HF; [apply clean_ok|].
  inversion HF; subst. simpl. apply clean_bind.
  - apply aoh_step_clean. assumption.
  - intros l' _. apply IH. assumption.
Qed.

Theorem merge_rec_ok : forall r, rec_ok r.
Proof.
  induction r as [i v|i kvs IH|i els IH|i els IH] using node_ind'; intros nc l.
  - simpl. split; [exact I|]. intros m _ H; discriminate.
  - destruct l as [li lv|li lkvs|li lels|li lels];
      try (simpl; split; [now left|intros; discriminate]).
    rewrite merge_rec_map. split.
    + apply clean_bind.
      * apply dict_loop_clean. eapply Forall_impl; [|exact IH]. intros kv [_ H]. exact H.
      * intros [[k b] p] _. apply clean_ok.
    + intros m H _. destruct (dict_loop lit cfg (oid i) kvs (lkvs, [], 0)) as [[[k b] p]| |]; simpl in H; try discriminate.
      inversion H; reflexivity.
  - destruct els as [|first rest].
    + simpl. destruct (is_seq l) eqn:El; split; try exact I; try (now left).
      * intros m H _. inversion H; subst. destruct m; try discriminate; reflexivity.
      * intros; discriminate.
    + destruct (is_map first) eqn:Ef.
      * destruct l as [li lv|li lkvs|li lels|li lels];
          try (simpl; rewrite Ef; split; [now left|intros; discriminate]).
        rewrite merge_rec_aoh by exact Ef. split.
        -- apply clean_bind; [apply clean_aoh_mode|]. intros mode _.
           destruct mode; try apply clean_ok;
             (apply clean_bind; [apply aoh_loop_clean; exact IH|intros; apply clean_ok]).
        -- intros m H _. destruct (aoh_merge_mode cfg nc) as [mode| |]; simpl in H; try discriminate.
           destruct mode; try (inversion H; reflexivity);
             match type of H with bind ?x _ = _ => destruct x; simpl in H; try discriminate end;
             inversion H; reflexivity.
      * simpl. rewrite Ef. split.
        -- apply clean_bind; [apply merge_simple_lists_clean|]. intros; apply clean_ok.
        -- intros m H _.
           destruct (merge_simple_lists cfg l (NSeq i (first :: rest)) nc) as [mr| |] eqn:E; simpl in H; try discriminate.
           inversion H; subst. apply merge_simple_lists_shape in E; [tauto|reflexivity].
  - simpl. split.
    + apply clean_bind; [apply merge_sets_clean; now left|]. intros; apply clean_ok.
    + intros m H _. destruct (merge_sets cfg l (NSet i els) nc) as [mr| |] eqn:E; simpl in H; try discriminate.
      inversion H; subst. apply merge_sets_shape in E; [tauto|reflexivity].
Qed.

(* ---- _insert_* and merge_with ---- *)
Lemma merge_lists_top_clean : forall l r nc, clean (merge_lists_top lit cfg l r nc).
Proof.
  intros l r nc. unfold merge_lists_top.
  assert (D : clean (do m <- merge_rec lit cfg r nc l; Ok (same m))).
  { apply clean_bind; [apply merge_rec_ok|intros; apply clean_ok]. }
  destruct r; try exact D. destruct els as [|first rest]; try exact D.
  destruct (is_map first); [|apply merge_simple_lists_clean].
  apply clean_bind; [apply merge_rec_ok|]. intros m _.
  apply clean_bind; [apply clean_aoh_mode|]. intros; apply clean_ok.
Qed.

Lemma merge_lists_top_shape : forall l r nc m,
  is_leaf l = false -> is_leaf r = false -> merge_lists_top lit cfg l r nc = Ok m ->
  is_leaf (inplace m) = false.
Proof.
  intros l r nc m Hl Hr H. unfold merge_lists_top in H.
  assert (D : forall m, (do x <- merge_rec lit cfg r nc l; Ok (same x)) = Ok m -> is_leaf (inplace m) = false).
  { intros m0 H0. destruct (merge_rec lit cfg r nc l) as [x| |] eqn:E; simpl in H0; try discriminate.
    inversion H0; subst. simpl. apply (proj2 (merge_rec_ok r nc l) x E Hr). }
  destruct r; try (apply D; exact H). destruct els as [|first rest]; try (apply D; exact H).
  destruct (is_map first).
  - destruct (merge_rec lit cfg (NSeq i (first :: rest)) nc l) as [x| |] eqn:E; simpl in H; try discriminate.
    destruct (aoh_merge_mode cfg nc) as [mode| |]; simpl in H; try discriminate.
    pose proof (proj2 (merge_rec_ok _ nc l) x E eq_refl) as Hx.
    destruct mode; inversion H; subst; simpl; auto.
  - apply merge_simple_lists_shape in H; [tauto|reflexivity].
Qed.

Lemma tag_sync_clean : forall m l r, is_leaf (inplace m) = false -> clean (tag_sync m l r).
Proof. intros m l r H. unfold tag_sync. rewrite yaml_set_tag_container by exact H. apply clean_ok. Qed.

Lemma insert_dict_clean : forall l r, is_map r = true -> clean (insert_dict lit cfg l r).
Proof.
  intros l r Hr. unfold insert_dict. destruct l; try apply clean_mergeexc.
  - apply clean_bind; [apply clean_hash_mode|]. intros mode _.
    apply clean_bind.
    + destruct mode; try apply clean_ok. apply clean_bind; [apply merge_rec_ok|intros; apply clean_ok].
    + intros m Hm. apply tag_sync_clean. destruct mode.
      * destruct (merge_rec lit cfg r (root_coord r) (NMap i kvs)) as [x| |] eqn:E; simpl in Hm; try discriminate.
        inversion Hm; subst. simpl. apply (proj2 (merge_rec_ok r _ _) x E). destruct r; try discriminate; reflexivity.
      * inversion Hm; reflexivity.
      * inversion Hm; reflexivity.
  - apply clean_bind; [apply merge_lists_top_clean|]. intros m Hm. apply tag_sync_clean.
    eapply merge_lists_top_shape; [| |exact Hm]; reflexivity.
Qed.

Lemma insert_list_clean : forall l r, is_seq r = true -> clean (insert_list lit cfg l r).
Proof.
  intros l r Hr. unfold insert_list. destruct l; try apply clean_mergeexc.
  - apply clean_bind; [apply merge_lists_top_clean|]. intros m Hm. apply tag_sync_clean.
    eapply merge_lists_top_shape; [| |exact Hm]; [reflexivity|destruct r; try discriminate; reflexivity].
  - destruct (forallb is_leaf _); [|apply clean_mergeexc].
    apply clean_bind; [apply merge_sets_clean; now left|]. intros m Hm. apply tag_sync_clean.
    apply merge_sets_shape in Hm; [tauto|reflexivity].
Qed.

Lemma insert_set_clean : forall l r, is_set r = true -> clean (insert_set lit cfg l r).
Proof.
  intros l r Hr. unfold insert_set. destruct l.
  - apply clean_bind; [apply merge_sets_clean; now left|]. intros m Hm. discriminate.
  - apply clean_bind; [apply merge_rec_ok|]. intros x Hx. apply tag_sync_clean. simpl.
    apply (proj2 (merge_rec_ok _ _ _) x Hx). reflexivity.
  - apply clean_bind; [apply merge_lists_top_clean|]. intros m Hm. apply tag_sync_clean.
    eapply merge_lists_top_shape; [| |exact Hm]; reflexivity.
  - apply clean_bind; [apply merge_sets_clean; now left|]. intros m Hm. apply tag_sync_clean.
    apply merge_sets_shape in Hm; [tauto|destruct r; try discriminate; reflexivity].
Qed.

Lemma insert_scalar_root_clean : forall l r, clean (insert_scalar_root cfg l r).
Proof.
  intros l r. unfold insert_scalar_root. destruct l; try apply clean_ok; try apply clean_mergeexc.
  apply clean_bind; [apply merge_sets_clean; now left|]. intros; apply clean_ok.
Qed.

Lemma insert_any_clean : forall l r, clean (insert_any lit cfg l r).
Proof.
  intros l r. destruct r; simpl.
  - apply insert_scalar_root_clean.
  - now apply insert_dict_clean.
  - now apply insert_list_clean.
  - now apply insert_set_clean.
Qed.

Theorem merge_root_clean : forall l r, clean (merge_root lit cfg l r).
Proof.
  intros l r. unfold merge_root. destruct (is_none r); [apply clean_ok|].
  destruct (is_none l); [apply clean_ok|].
  apply clean_bind; [apply insert_any_clean|]. intros; apply clean_ok.
Qed.

End Cfg.

(* ---- the computable guard excludes the configuration error ---- *)
Lemma first_match_in : forall nc section,
  first_match nc section = "" \/ exists r, In r section /\ first_match nc section = r_val r.
Proof.
  induction section as [|r rest IH]; simpl; [now left|].
  destruct (coord_match (r_at r) nc); [right; exists r; auto|].
  destruct IH as [E|[r' [Hin E]]]; [now left|right; exists r'; auto].
Qed.

Lemma enum_ok_lookup {A} (of_str : string -> outcome A) : forall cfg cli ini dflt nc,
  mg_enum_ok of_str cfg cli ini dflt = true ->
  is_ok (of_str (mode_text cfg nc cli (ini_of cfg ini) dflt)) = true.
Proof.
  intros cfg cli ini dflt nc H. unfold mg_enum_ok in H. apply andb_true_iff in H. destruct H as [H1 H2].
  unfold mode_text. destruct (nonempty (get_rule_for cfg nc)) eqn:En; [|exact H1].
  unfold get_rule_for, get_config_for in *. destruct (has_config cfg); [|discriminate].
  simpl in H2. rewrite forallb_forall in H2.
  destruct (first_match_in nc (m_rules cfg)) as [E|[r [Hin E]]].
  - rewrite E in En. discriminate.
  - rewrite E in *. specialize (H2 r Hin). rewrite En in H2. exact H2.
Qed.

Lemma cfg_valid_no_bad_lookup : forall cfg, mg_cfg_valid cfg = true -> ~ mg_bad_lookup cfg.
Proof.
  intros cfg H [nc Hb]. unfold mg_cfg_valid in H.
  apply andb_true_iff in H; destruct H as [H H0].
  apply andb_true_iff in H; destruct H as [H H1].
  apply andb_true_iff in H; destruct H as [H H2].
  destruct Hb as [E|[E|[E|E]]].
  - pose proof (enum_ok_lookup hash_of_str cfg _ _ _ nc H) as Q. unfold hash_merge_mode in E. rewrite E in Q. discriminate.
  - pose proof (enum_ok_lookup array_of_str cfg _ _ _ nc H2) as Q. unfold array_merge_mode in E. rewrite E in Q. discriminate.
  - pose proof (enum_ok_lookup aoh_of_str cfg _ _ _ nc H1) as Q. unfold aoh_merge_mode in E. rewrite E in Q. discriminate.
  - pose proof (enum_ok_lookup set_of_str cfg _ _ _ nc H0) as Q. unfold set_merge_mode in E. rewrite E in Q. discriminate.
Qed.

Theorem merge_root_valid_config : forall lit cfg l r,
  mg_lit_ok lit -> mg_cfg_valid cfg = true ->
  (exists m, merge_root lit cfg l r = Ok m) \/ merge_root lit cfg l r = Raise MergeExc.
Proof.
  intros lit cfg l r Hl Hv. pose proof (merge_root_clean lit cfg Hl l r) as H.
  destruct (merge_root lit cfg l r) as [m|e|]; simpl in H.
  - left. eauto.
  - destruct H as [->|[_ Hb]]; [now right|]. exfalso. now apply (cfg_valid_no_bad_lookup cfg Hv).
  - contradiction.
Qed.
