(* The Array slice that selects nothing (processor.py Processor._is_empty_slice,
   fix f20b613).  The read side gathers it as ONE NodeCoords whose node is an
   empty list of the evaluator and whose parent / parentref are the sliced
   Array and the START of the slice; _apply_change and _leaf_node_coords now
   recognise it and do nothing with it.  Compose.ce_coord turns it into the
   coordinate [CList [] pc nk], for which Mutate.v has no action and no place
   to delete.  Before the fix it was a [CNode pc nk]: `parent[start]` raised a
   bare IndexError past the end, and replaced / deleted the element at the
   start when the start was within range. *)
From Coq Require Import List String ZArith NArith Bool.
From YP Require Import Outcome PyStr PyVal Doc PathParser Searches Eval Mutate Create Compose C03hist.
Import ListNotations.

(* what Compose.ce_coord makes of the gathered NodeCoords of such a slice *)
Lemma empty_slice_coord nk i els z path anc :
  is_copy (NSeq i els) = false ->
  ce_coord nk (RCoords (RList []) (Some (RNode (NSeq i els))) (Some (PInt z)) path anc)
  = Some (CList [] (mkpc (Some (oid i)) (PInt z)) nk).
Proof. intros H. simpl. simpl in H. rewrite H. reflexivity. Qed.

(* a real empty sequence of the document at the same place stays an ordinary node *)
Lemma empty_real_seq_coord nk i els z j path anc :
  is_copy (NSeq i els) = false ->
  ce_coord nk (RCoords (RNode (NSeq j [])) (Some (RNode (NSeq i els))) (Some (PInt z)) path anc)
  = Some (CNode (mkpc (Some (oid i)) (PInt z)) nk).
Proof. intros H. simpl. simpl in H. rewrite H. reflexivity. Qed.

Section Slice.
Variable lit : String.string -> outcome litres.
Variable fl : String.string -> outcome flres.

(* set_value: the coordinate contributes no change, wherever it stands among the gathered ones *)
Lemma set_empty_slice_skipped cs1 cs2 pc nk value fmt vo st :
  set_value lit fl (cs1 ++ CList [] pc nk :: cs2) value fmt vo st = set_value lit fl (cs1 ++ cs2) value fmt vo st.
Proof.
  unfold set_value. destruct st as [d next]. rewrite !flat_map_app. simpl. reflexivity.
Qed.

(* alone: the call completes and the document is the one it started with *)
Lemma set_empty_slice_nothing pc nk value fmt vo st :
  set_value lit fl [CList [] pc nk] value fmt vo st = SDone (snd (sv_start vo st)).
Proof. destruct st as [d next]. destruct vo; reflexivity. Qed.

(* delete_nodes: no place is deleted for it *)
Lemma delete_empty_slice_skipped cs1 cs2 pc nk d :
  delete_nodes (cs1 ++ CList [] pc nk :: cs2) d = delete_nodes (cs1 ++ cs2) d.
Proof.
  unfold delete_nodes, del_plan, leaf_coords. rewrite !flat_map_app. simpl. reflexivity.
Qed.

Lemma delete_empty_slice_nothing pc nk d : delete_nodes [CList [] pc nk] d = MDone d.
Proof. reflexivity. Qed.

End Slice.

Section SliceE2E.
Variable lit : string -> outcome litres.
Variable re_search : string -> string -> outcome reres.
Variable nstr : node -> string.
Variable vstr : list rval -> string.
Variable kw_handler : bool -> keyword -> string -> rval -> ctx -> gen rval.
Variable creator : list pseg -> nat -> rval -> ctx -> gen rval.
Variable fl : string -> outcome flres.

(* the composed route (either mustexist): when the gather is such slices only - each the empty list of the
   evaluator under a sequence object of the document -, Processor.set_value completes and the document is
   unchanged; delete_nodes likewise *)
Definition empty_slice_item (x : rval) : Prop :=
  exists i els z path anc, is_copy (NSeq i els) = false /\
    x = RCoords (RList []) (Some (RNode (NSeq i els))) (Some (PInt z)) path anc.

(* the same, computable *)
Definition empty_slice_itemb (x : rval) : bool :=
  match x with
  | RCoords (RList []) (Some (RNode (NSeq i els))) (Some (PInt _)) _ _ => negb (is_copy (NSeq i els))
  | _ => false
  end.

Lemma empty_slice_itemb_ok x : empty_slice_itemb x = true -> empty_slice_item x.
Proof.
  destruct x as [n|l|nd par rf path anc]; try discriminate.
  destruct nd as [n|l|]; try discriminate. destruct l; try discriminate.
  destruct par as [[p| |]|]; try discriminate. destruct p as [|? ?|i els|]; try discriminate.
  destruct rf as [r|]; try discriminate. destruct r; try discriminate.
  simpl. intros H. apply negb_true_iff in H. exists i, els, z, path, anc. split; [exact H|reflexivity].
Qed.

Lemma empty_slice_itemsb_ok items : forallb empty_slice_itemb items = true -> Forall empty_slice_item items.
Proof.
  intros H. apply Forall_forall. intros x Hx. apply empty_slice_itemb_ok.
  rewrite forallb_forall in H. apply H. exact Hx.
Qed.

Lemma empty_slice_items_coords nk items :
  Forall empty_slice_item items ->
  exists cs, ce_coords nk items = Some cs /\ flat_map leaf_coords1 cs = [] /\
             forall fmt, flat_map (set_actions fmt) cs = [].
Proof.
  induction 1 as [|x r Hx Hr IH].
  - exists []. repeat split; reflexivity.
  - destruct Hx as [i [els [z [path [anc [Hc ->]]]]]]. destruct IH as [cs [E [Hl Ha]]].
    exists (CList [] (mkpc (Some (oid i)) (PInt z)) nk :: cs).
    cbn [ce_coords]. rewrite (empty_slice_coord nk i els z path anc Hc), E.
    repeat split; [exact Hl|]. intros fmt. simpl. apply Ha.
Qed.

Theorem set_empty_slices_e2e mustexist p d value fmt vo items :
  ce_gather lit re_search nstr vstr kw_handler creator mustexist p d = (items, Done) ->
  forallb empty_slice_itemb items = true ->
  ce_set lit re_search nstr vstr kw_handler creator fl mustexist p d value fmt vo
  = CeDone (snd (sv_start vo (init_state d))).
Proof.
  intros Hg Hi. apply empty_slice_itemsb_ok in Hi. unfold ce_set. rewrite Hg. cbn [fst snd].
  destruct (empty_slice_items_coords (ce_name_kw p) items Hi) as [cs [E [_ Ha]]]. rewrite E.
  unfold set_value. destruct (init_state d) as [d0 next]. rewrite Ha. destruct vo; reflexivity.
Qed.

Theorem delete_empty_slices_e2e p d items :
  ce_required_raw lit re_search nstr vstr kw_handler creator p d = (items, Done) ->
  forallb empty_slice_itemb items = true ->
  ce_delete lit re_search nstr vstr kw_handler creator p d = CsDone d.
Proof.
  intros Hg Hi. apply empty_slice_itemsb_ok in Hi. unfold ce_delete. rewrite Hg. cbn [fst snd].
  destruct (empty_slice_items_coords false items Hi) as [cs [E [Hl _]]]. rewrite E.
  unfold delete_nodes, del_plan, leaf_coords. rewrite Hl. reflexivity.
Qed.

End SliceE2E.
