(* C05: the Hash merge (_merge_dicts): loop unfolding, the left frame,
   scalar override, and the set / Array-of-Hashes modes. *)
From Coq Require Import List Ascii String ZArith QArith NArith Bool Lia.
From YP Require Import Outcome PyStr PyVal Doc PathParser Searches MergeConfig Merge SpecC05.
Import ListNotations.
Open Scope string_scope.
Open Scope list_scope.

Lemma py_eq_refl : forall v, py_eq v v = true.
Proof.
  destruct v; unfold py_eq; simpl; try reflexivity.
  - apply Qeq_bool_iff; reflexivity.
  - apply Qeq_bool_iff; reflexivity.
  - apply Qeq_bool_iff; reflexivity.
  - apply String.eqb_refl.
  - apply String.eqb_refl.
Qed.

Section Cfg.
Variable lit : string -> outcome litres.
Variable cfg : mconfig.

(* the loops of merge_rec as stand-alone functions *)
Fixpoint dict_loop (ro : N) (items : list (node * node)) (st : dstate) : outcome dstate :=
  match items with
  | [] => Ok st
  | kv :: rest => do st' <- dict_step cfg (merge_rec lit cfg) ro st kv; dict_loop ro rest st'
  end.

Fixpoint aoh_loop (mode : aoh_opt) (id_key : pyval) (items : list node) (lels : list node)
  : outcome (list node) :=
  match items with
  | [] => Ok lels
  | ele :: rest => do lels' <- aoh_step lit (merge_rec lit cfg) mode id_key lels ele;
                   aoh_loop mode id_key rest lels'
  end.

Lemma dict_step_ext : forall ro st kv,
  dict_step cfg (fun _ c lv => merge_rec lit cfg (snd kv) c lv) ro st kv =
  dict_step cfg (merge_rec lit cfg) ro st kv.
Proof. intros ro [[kvs buf] pos] [key val]. reflexivity. Qed.

Lemma aoh_step_ext : forall mode idk lels ele,
  aoh_step lit (fun _ c lv => merge_rec lit cfg ele c lv) mode idk lels ele =
  aoh_step lit (merge_rec lit cfg) mode idk lels ele.
Proof. intros. unfold aoh_step. destruct mode; reflexivity. Qed.

Lemma merge_rec_map : forall ri rkvs nc li lkvs,
  merge_rec lit cfg (NMap ri rkvs) nc (NMap li lkvs) =
  (do st <- dict_loop (oid ri) rkvs (lkvs, [], O);
   let '(kvs, buf, _) := st in Ok (NMap li (kvs ++ buf))).
Proof.
  intros. simpl.
  match goal with |- bind (?f rkvs ?s0) _ = _ =>
    assert (H : forall items st, f items st = dict_loop (oid ri) items st) end.
  { induction items as [|kv rest IH]; intros st; [reflexivity|].
    simpl. rewrite dict_step_ext.
    destruct (dict_step cfg (merge_rec lit cfg) (oid ri) st kv); simpl; auto. }
  rewrite H. reflexivity.
Qed.

(* ---------- the left frame ---------- *)
Definition all_named (rkeys : list pyval) (buf : list (node * node)) : Prop :=
  Forall (fun b => named rkeys (key_val (fst b)) = true) buf.

Lemma named_in : forall rkeys k, In k rkeys -> named rkeys k = true.
Proof.
  intros. unfold named. apply existsb_exists. exists k. split; auto. apply py_eq_refl.
Qed.

Lemma unnamed_app : forall rk a b, unnamed_part rk (a ++ b) = unnamed_part rk a ++ unnamed_part rk b.
Proof. intros. unfold unnamed_part. apply filter_app. Qed.

Lemma unnamed_all_named : forall rk buf, all_named rk buf -> unnamed_part rk buf = [].
Proof.
  induction 1; simpl; auto. unfold key_val in H. rewrite H. simpl. exact IHForall.
Qed.

Lemma unnamed_insert : forall rk p kv l,
  named rk (key_val (fst kv)) = true ->
  unnamed_part rk (insert_at p kv l) = unnamed_part rk l.
Proof.
  intros. unfold insert_at. rewrite unnamed_app. simpl. unfold key_val in H. rewrite H. simpl.
  rewrite <- unnamed_app. now rewrite firstn_skipn.
Qed.

Lemma unnamed_flush : forall rk buf pos l,
  all_named rk buf -> unnamed_part rk (fst (flush buf pos l)) = unnamed_part rk l.
Proof.
  induction buf as [|kv rest IH]; intros pos l H; simpl; [reflexivity|].
  inversion H; subst. rewrite IH; auto. now apply unnamed_insert.
Qed.

Lemma unnamed_set_val : forall rk k v l,
  In k rk -> unnamed_part rk (set_val k v l) = unnamed_part rk l.
Proof.
  intros rk k v l Hin. induction l as [|[kn old] r IH]; simpl; [reflexivity|].
  destruct kn as [ki kv| | |]; simpl; try (rewrite IH; reflexivity).
  destruct (py_eq kv k) eqn:E.
  - simpl. assert (Hn : named rk kv = true).
    { unfold named. apply existsb_exists. exists k. auto. }
    rewrite Hn. reflexivity.
  - simpl. rewrite IH. reflexivity.
Qed.

Lemma dict_step_frame : forall ro rk kvs buf pos kv kvs' buf' pos',
  In (key_val (fst kv)) rk ->
  all_named rk buf ->
  dict_step cfg (merge_rec lit cfg) ro (kvs, buf, pos) kv = Ok (kvs', buf', pos') ->
  unnamed_part rk kvs' = unnamed_part rk kvs /\ all_named rk buf'.
Proof.
  intros ro rk kvs buf pos [key val] kvs' buf' pos' Hin Hbuf H.
  simpl in Hin. unfold dict_step in H.
  destruct (assoc_key (key_val key) kvs) eqn:Ek.
  - destruct (flush buf pos kvs) as [kvs1 pos1] eqn:Ef.
    assert (Hf : unnamed_part rk kvs1 = unnamed_part rk kvs).
    { replace kvs1 with (fst (flush buf pos kvs)) by now rewrite Ef. now apply unnamed_flush. }
    destruct (dict_shortcut cfg val _) as [sc| |]; simpl in H; try discriminate.
    destruct sc.
    + inversion H; subst. split; [exact Hf|constructor].
    + inversion H; subst. split; [|constructor]. now rewrite unnamed_set_val.
    + destruct (assoc_key (key_val key) kvs1); [|discriminate].
      destruct val.
      * inversion H; subst. split; [|constructor]. now rewrite unnamed_set_val.
      * destruct (merge_rec lit cfg _ _ _); simpl in H; try discriminate.
        destruct (yaml_set_tag _ _); simpl in H; try discriminate.
        inversion H; subst. split; [|constructor]. now rewrite unnamed_set_val.
      * destruct (merge_rec lit cfg _ _ _); simpl in H; try discriminate.
        destruct (yaml_set_tag _ _); simpl in H; try discriminate.
        inversion H; subst. split; [|constructor]. now rewrite unnamed_set_val.
      * destruct (merge_sets cfg _ _ _); simpl in H; try discriminate.
        destruct (yaml_set_tag _ _); simpl in H; try discriminate.
        inversion H; subst. split; [|constructor]. now rewrite unnamed_set_val.
  - inversion H; subst. split; [reflexivity|].
    apply Forall_app. split; [exact Hbuf|]. constructor; [|constructor]. simpl. now apply named_in.
Qed.

Lemma dict_loop_cons : forall ro kv rest st,
  dict_loop ro (kv :: rest) st =
  (do st' <- dict_step cfg (merge_rec lit cfg) ro st kv; dict_loop ro rest st').
Proof. reflexivity. Qed.

Lemma dict_loop_frame : forall ro rk items kvs buf pos kvs' buf' pos',
  (forall kv, In kv items -> In (key_val (fst kv)) rk) ->
  all_named rk buf ->
  dict_loop ro items (kvs, buf, pos) = Ok (kvs', buf', pos') ->
  unnamed_part rk kvs' = unnamed_part rk kvs /\ all_named rk buf'.
Proof.
  induction items as [|kv rest IH]; intros kvs buf pos kvs' buf' pos' Hin Hbuf H.
  - simpl in H. inversion H; subst. auto.
  - rewrite dict_loop_cons in H. destruct (dict_step cfg (merge_rec lit cfg) ro (kvs, buf, pos) kv) as [[[k1 b1] p1]| |] eqn:Es;
      simpl in H; try discriminate.
    destruct (dict_step_frame _ rk _ _ _ _ _ _ _ (Hin kv (or_introl eq_refl)) Hbuf Es) as [Hk Hb].
    destruct (IH _ _ _ _ _ _ (fun x Hx => Hin x (or_intror Hx)) Hb H) as [Hk' Hb'].
    split; [congruence|exact Hb'].
Qed.

(* Left-hand content not named by the right-hand Hash keeps its value and its
   relative order, whatever the policies, the rules and the nested merges do. *)
Theorem left_frame : forall ri rkvs nc li lkvs m,
  merge_rec lit cfg (NMap ri rkvs) nc (NMap li lkvs) = Ok m ->
  exists res, m = NMap li res /\
              unnamed_part (keys_of rkvs) res = unnamed_part (keys_of rkvs) lkvs.
Proof.
  intros ri rkvs nc li lkvs m H. rewrite merge_rec_map in H.
  destruct (dict_loop (oid ri) rkvs (lkvs, [], O)) as [[[kvs buf] pos]| |] eqn:El; simpl in H; try discriminate.
  inversion H; subst. exists (kvs ++ buf). split; [reflexivity|].
  assert (Hin : forall kv, In kv rkvs -> In (key_val (fst kv)) (keys_of rkvs)).
  { intros kv Hkv. unfold keys_of. apply in_map_iff. exists kv. split; auto. }
  destruct (dict_loop_frame _ (keys_of rkvs) _ _ _ _ _ _ _ Hin (Forall_nil _) El) as [Hk Hb].
  rewrite unnamed_app, Hk, (unnamed_all_named _ _ Hb). apply app_nil_r.
Qed.

(* ---------- right-hand scalars override ---------- *)
(* one right-hand key holding a Scalar, present on the left: unless the policy
   lookup stops the step (see the finding below), the key then holds the
   right-hand Scalar *)
Lemma assoc_set_val : forall k v l, assoc_key k l <> None -> assoc_key k (set_val k v l) = Some v.
Proof.
  intros k v l. induction l as [|[kn old] r IH]; simpl; intros H; [congruence|].
  destruct kn as [ki kv| | |]; simpl in *; try (apply IH; exact H).
  destruct (py_eq kv k) eqn:E; simpl; rewrite E; [reflexivity|apply IH; exact H].
Qed.

Lemma assoc_insert_other : forall k p kv l,
  assoc_key k l <> None -> assoc_key k (insert_at p kv l) <> None.
Proof.
  intros k p kv l H. unfold insert_at.
  rewrite <- (firstn_skipn p l) in H. revert H.
  generalize (firstn p l) (skipn p l). intros a b.
  induction a as [|[kn v] a IH]; simpl; intros H.
  - destruct kv as [kn v]. destruct kn; simpl; auto. destruct (py_eq v0 k); [congruence|auto].
  - destruct kn; simpl in *; auto. destruct (py_eq v0 k); [congruence|auto].
Qed.

Lemma assoc_flush : forall k buf pos l,
  assoc_key k l <> None -> assoc_key k (fst (flush buf pos l)) <> None.
Proof.
  induction buf as [|kv rest IH]; intros pos l H; simpl; auto.
  apply IH. now apply assoc_insert_other.
Qed.

Theorem scalar_override_step : forall ro kvs buf pos key vi v kvs' buf' pos',
  assoc_key (key_val key) kvs <> None ->
  dict_shortcut cfg (NLeaf vi v) (mkcoord (oid vi) (Some ro) (Some (key_val key))) = Ok GoOn ->
  dict_step cfg (merge_rec lit cfg) ro (kvs, buf, pos) (key, NLeaf vi v) = Ok (kvs', buf', pos') ->
  assoc_key (key_val key) kvs' = Some (NLeaf vi v).
Proof.
  intros ro kvs buf pos key vi v kvs' buf' pos' Hk Hs H.
  unfold dict_step in H.
  destruct (assoc_key (key_val key) kvs) eqn:Ek; [|congruence].
  destruct (flush buf pos kvs) as [kvs1 pos1] eqn:Ef.
  assert (H1 : assoc_key (key_val key) kvs1 <> None).
  { replace kvs1 with (fst (flush buf pos kvs)) by now rewrite Ef. apply assoc_flush. congruence. }
  change (node_oid (NLeaf vi v)) with (oid vi) in H.
  destruct (dict_shortcut cfg (NLeaf vi v) _) as [sc| |] eqn:Ed; try discriminate.
  inversion Hs; subst sc. cbn [bind] in H.
  destruct (assoc_key (key_val key) kvs1) eqn:E1; [|congruence].
  inversion H; subst. apply assoc_set_val. congruence.
Qed.

(* the step is stopped only by a LEFT policy, and taken over unchanged by RIGHT *)
Theorem scalar_step_shortcuts : forall nc vi v sc,
  dict_shortcut cfg (NLeaf vi v) nc = Ok sc ->
  exists m, aoh_merge_mode cfg nc = Ok m /\ sc = short_of_aoh m.
Proof.
  intros nc vi v sc H. simpl in H. destruct (aoh_merge_mode cfg nc); simpl in H; try discriminate.
  inversion H. eauto.
Qed.

(* ---------- sets ---------- *)
Lemma set_left_keeps : forall l r nc,
  is_set l = true -> set_merge_mode cfg nc = Ok SLeft -> merge_sets cfg l r nc = Ok (same l).
Proof. intros l r nc Hl H. destruct l; try discriminate. unfold merge_sets. now rewrite H. Qed.

Lemma set_right_replaces : forall l r nc,
  is_set l = true -> set_merge_mode cfg nc = Ok SRight ->
  exists m, merge_sets cfg l r nc = Ok m /\ ret m = r.
Proof. intros l r nc Hl H. destruct l; try discriminate. unfold merge_sets. rewrite H. simpl. eauto. Qed.

(* UNIQUE: left members stay in front in their order; every appended member
   is a right-hand member *)
Lemma sets_loop_extends : forall rels tl lels,
  exists added, sets_loop rels tl lels = lels ++ added /\ incl added rels.
Proof.
  induction rels as [|e rest IH]; intros tl lels; simpl.
  - exists []. split; [now rewrite app_nil_r|apply incl_nil_l].
  - destruct (in_list (tagless e) tl).
    + destruct (IH tl lels) as [a [Ha Hi]]. exists a. split; auto. now apply incl_tl.
    + destruct (in_list e lels).
      * destruct (IH tl lels) as [a [Ha Hi]]. exists a. split; auto. now apply incl_tl.
      * destruct (IH tl (lels ++ [e])) as [a [Ha Hi]]. exists (e :: a). split.
        -- rewrite Ha. now rewrite <- app_assoc.
        -- intros x [->|Hx]; [now left|right; auto].
Qed.

Lemma set_unique_extends : forall li lels ri rels nc,
  set_merge_mode cfg nc = Ok SUnique ->
  exists added, merge_sets cfg (NSet li lels) (NSet ri rels) nc = Ok (same (NSet li (lels ++ added)))
                /\ incl added rels.
Proof.
  intros. unfold merge_sets. rewrite H. simpl.
  destruct (sets_loop_extends rels (map tagless lels) lels) as [a [Ha Hi]].
  exists a. rewrite Ha. auto.
Qed.

(* ---------- arrays of hashes ---------- *)
Opaque aoh_step.
Lemma merge_rec_aoh : forall ri rec0 rest nc li lels,
  is_map rec0 = true ->
  merge_rec lit cfg (NSeq ri (rec0 :: rest)) nc (NSeq li lels) =
  (do mode <- aoh_merge_mode cfg nc;
   match mode with
   | OLeft => Ok (NSeq li lels)
   | ORight => Ok (NSeq ri (rec0 :: rest))
   | _ => do els <- aoh_loop mode
                     (aoh_merge_key cfg (mkcoord (node_oid rec0) (Some (oid ri)) (Some (PInt 0))) (first_key rec0))
                     (rec0 :: rest) lels;
          Ok (NSeq li els)
   end).
Proof.
  intros. simpl merge_rec. rewrite H.
  destruct (aoh_merge_mode cfg nc) as [mode| |]; simpl; try reflexivity.
  destruct mode; try reflexivity.
  all: rewrite aoh_step_ext;
       match goal with |- context [aoh_step lit (merge_rec lit cfg) ?m ?k ?l ?e] =>
         destruct (aoh_step lit (merge_rec lit cfg) m k l e) as [l1| |]; cbn [bind]; try reflexivity end.
  all: match goal with |- bind (?f _ _) _ = bind (aoh_loop ?m ?k _ _) _ =>
    assert (HL : forall items ls, f items ls = aoh_loop m k items ls);
    [ induction items as [|e r IH]; intros ls; [reflexivity|];
      simpl; rewrite aoh_step_ext;
      destruct (aoh_step lit (merge_rec lit cfg) m k ls e); simpl; auto
    | rewrite HL; reflexivity ] end.
Qed.

Transparent aoh_step.

Lemma aoh_loop_all : forall idk items lels, aoh_loop OAll idk items lels = Ok (lels ++ items).
Proof.
  induction items as [|e r IH]; intros; simpl; [now rewrite app_nil_r|].
  rewrite IH. now rewrite <- app_assoc.
Qed.

Theorem aoh_modes : forall ri rec0 rest nc li lels,
  is_map rec0 = true ->
  (aoh_merge_mode cfg nc = Ok OAll ->
     merge_rec lit cfg (NSeq ri (rec0 :: rest)) nc (NSeq li lels) = Ok (NSeq li (array_all lels (rec0 :: rest)))) /\
  (aoh_merge_mode cfg nc = Ok OLeft ->
     merge_rec lit cfg (NSeq ri (rec0 :: rest)) nc (NSeq li lels) = Ok (NSeq li lels)) /\
  (aoh_merge_mode cfg nc = Ok ORight ->
     merge_rec lit cfg (NSeq ri (rec0 :: rest)) nc (NSeq li lels) = Ok (NSeq ri (rec0 :: rest))).
Proof.
  intros. repeat split; intros Hm; rewrite merge_rec_aoh by assumption; rewrite Hm; cbn [bind]; try reflexivity.
  rewrite aoh_loop_all. reflexivity.
Qed.

End Cfg.
