(* C01, path level, part 2: one lemma per segment handler of Model/Eval.v --
   its stream against the corresponding [sel_*] of Spec/SpecC01.v. *)
From Coq Require Import List Ascii String ZArith NArith Bool Arith Lia.
From YP Require Import Outcome PyStr PyVal Doc Generated PathParser PathPrinter Searches Eval SpecC01 EvalSem EvalSemLib
  EvalGood EvalHandlers RtInt.
Import ListNotations.
Open Scope string_scope.
Open Scope nat_scope.

Lemma find_ext {A} (p q : A -> bool) l : (forall x, p x = q x) -> find p l = find q l.
Proof. intros H. induction l as [|x r IH]; cbn; [reflexivity|]. rewrite H, IH. reflexivity. Qed.

Lemma sel_element_out els i :
  ((- Z.of_nat (List.length els) <=? i)%Z && (i <? Z.of_nat (List.length els))%Z)%bool = false ->
  sel_element els i = [].
Proof. intros H. unfold sel_element. rewrite H. reflexivity. Qed.

(* ---- key ---- *)
Lemma by_key_sem self k n c :
  (forall e c', (match n with NSeq _ els => In e els | _ => False end) ->
                agree (self (RNode e) c') (map SNode (sel_key (x_tl c') k e))) ->
  agree (by_key self (AStr k) (RNode n) c) (map SNode (sel_key (x_tl c) k n)).
Proof.
  intros Hself. destruct n as [i x|i kvs|i els|i els].
  - apply agree_nil.
  - unfold by_key. cbn [attrs_str attr_val sel_key]. unfold sel_key_map.
    destruct (assoc_key (PStr k) kvs); [apply agree_gone; reflexivity|].
    destruct (py_int k); [|apply agree_nil].
    destruct (assoc_key (PInt z) kvs); [apply agree_gone; reflexivity | apply agree_nil].
  - unfold by_key. cbn [attrs_str attr_val sel_key elems]. rewrite map_length.
    destruct (py_int k) as [idx|].
    + destruct ((- Z.of_nat (List.length els) <=? idx)%Z && (idx <? Z.of_nat (List.length els))%Z)%bool eqn:Eb.
      * destruct (py_nth_sel els idx Eb) as [e [-> ->]]. cbn. apply agree_gone. reflexivity.
      * rewrite (sel_element_out _ _ Eb). apply agree_nil.
    + destruct (x_tl c) eqn:Etl; cbn [negb]; [|apply agree_nil].
      rewrite map_flat_map. unfold enumerate. apply agree_gfor_enum.
      intros j e He. specialize (Hself e (mkctx (Some (RNode (NSeq i els))) (Some (PInt (Z.of_nat j))) true
                                             (tp_add (x_tp c) (idx_text (Z.of_nat j)))
                                             (x_anc c ++ [(RNode (NSeq i els), PInt (Z.of_nat j))])) He).
      exact Hself.
  - unfold by_key. cbn [attrs_str attr_val sel_key]. unfold sel_key_set.
    rewrite (find_ext (fun e => py_eq (key_val e) (PStr k))
                      (fun e => match e with NLeaf _ v => py_eq v (PStr k) | _ => false end))
      by (intros [? ?|? ?|? ?|? ?]; reflexivity).
    destruct (find _ els); [apply agree_gone; reflexivity | apply agree_nil].
Qed.

(* ---- index ---- *)
Lemma by_index_sem z n c : agree (by_index (AInt z) (RNode n) c) (sel_index z n).
Proof.
  unfold by_index. cbn [attrs_str]. rewrite (proj2 (str_of_Z_chars z)), py_int_str_of_Z.
  destruct n as [i x|i kvs|i els|i els]; cbn [is_pylist sel_index elems].
  - apply agree_nil.
  - apply agree_nil.
  - rewrite map_length.
    destruct ((- Z.of_nat (List.length els) <=? z)%Z && (z <? Z.of_nat (List.length els))%Z)%bool eqn:Eb.
    + destruct (py_nth_sel els z Eb) as [e [-> ->]]. cbn. apply agree_gone. reflexivity.
    + rewrite (sel_element_out _ _ Eb). apply agree_nil.
  - apply agree_sout.
Qed.

(* ---- slices ---- *)
Lemma flat_map_filter_map {A B} (p : A -> bool) (f : A -> B) l :
  flat_map (fun x => if p x then [f x] else []) l = map f (filter p l).
Proof. induction l as [|x r IH]; cbn; [reflexivity|]. rewrite IH. destruct (p x); reflexivity. Qed.

Lemma py_nth_nat (els : list node) k e :
  nth_error els k = Some e -> py_nth (map RNode els) (Z.of_nat k) = Ok (RNode e).
Proof.
  intros H. unfold py_nth. rewrite map_length.
  assert (Hk : k < List.length els) by (apply nth_error_Some; rewrite H; discriminate).
  assert (E0 : (Z.of_nat k <? 0)%Z = false) by (apply Z.ltb_ge; lia). rewrite E0.
  assert (E1 : (0 <=? Z.of_nat k)%Z = true) by (apply Z.leb_le; lia).
  assert (E2 : (Z.of_nat k <? Z.of_nat (List.length els))%Z = true) by (apply Z.ltb_lt; lia).
  rewrite E1, E2. cbn [andb]. rewrite Nat2Z.id, nth_error_map, H. reflexivity.
Qed.

Lemma skipn_nth {A} (l : list A) k e : nth_error l k = Some e -> skipn k l = e :: skipn (S k) l.
Proof.
  revert k; induction l as [|x r IH]; intros [|k] H; cbn in *; try discriminate.
  - injection H as ->. reflexivity.
  - apply IH. exact H.
Qed.

Lemma mapM_slice (els : list node) (mk : nat -> rval -> rval) :
  (forall k e, elem_node (mk k (RNode e)) = Some e) ->
  forall cnt lo, lo + cnt <= List.length els ->
  exists l', mapM (fun si => do e <- py_nth (map RNode els) (Z.of_nat si); Ok (mk si e)) (range_from lo cnt) = Ok l'
             /\ elem_nodes l' = Some (firstn cnt (skipn lo els)).
Proof.
  intros Hmk. induction cnt as [|cnt IH]; intros lo Hlen.
  - exists []. split; reflexivity.
  - destruct (nth_error els lo) as [e|] eqn:En; [|apply nth_error_None in En; lia].
    destruct (IH (S lo)) as [l' [H1 H2]]; [lia|].
    exists (mk lo (RNode e) :: l'). cbn [range_from mapM]. rewrite (py_nth_nat _ _ _ En). cbn [bind].
    rewrite H1. cbn [bind]. split; [reflexivity|].
    cbn [elem_nodes]. rewrite Hmk, H2. rewrite (skipn_nth _ _ _ En). reflexivity.
Qed.

Lemma clamp_le len i : (0 <= len)%Z -> (Z.of_nat (slice_clamp len i) <= len)%Z.
Proof.
  intros H. unfold slice_clamp. destruct (i <? 0)%Z eqn:E; [apply Z.ltb_lt in E | apply Z.ltb_ge in E]; lia.
Qed.

Lemma slice_bounds_clamp a b n :
  slice_bounds a b n = (slice_clamp (Z.of_nat n) a, slice_clamp (Z.of_nat n) b).
Proof. reflexivity. Qed.

Lemma by_slice_sem s n c :
  str_in ":"%char s = true -> agree (by_index (AStr s) (RNode n) c) (sel_slice s n).
Proof.
  intros Hc. unfold by_index, sel_slice. cbn [attrs_str]. rewrite Hc. unfold split_colon.
  set (lo := take (index_char ":"%char s) s). set (hi := drop (S (index_char ":"%char s)) s).
  destruct n as [i x|i kvs|i els|i els].
  - apply agree_nil.
  - unfold sel_hash_slice. rewrite map_map.
    rewrite <- (flat_map_filter_map (fun kv => str_leb lo (key_txt (fst kv)) && str_leb (key_txt (fst kv)) hi)
                                    (fun kv => SNode (snd kv))).
    apply agree_gfor. intros kv _. unfold key_txt, key_val.
    destruct (_ && _); [apply agree_gone; reflexivity | apply agree_nil].
  - cbn [elems]. rewrite map_length.
    destruct (py_int lo) as [a|]; [|apply agree_sout].
    destruct (py_int hi) as [b|]; [|apply agree_sout].
    set (len := Z.of_nat (List.length els)).
    assert (Hslice : forall par rf tp anc,
      agree (let '(lo0, hi0) := slice_bounds a b (List.length els) in
             glift (mapM (fun si => let zi := Z.of_nat si in
                                    do e <- py_nth (map RNode els) zi;
                                    Ok (ncoords e (Some (RNode (NSeq i els))) (Some (PInt zi))
                                                (tp_add (x_tp c) (idx_text zi))
                                                (x_anc c ++ [(RNode (NSeq i els), PInt zi)]))) (range lo0 hi0))
                   (fun sliced => gone (ncoords (RList sliced) par rf tp anc)))
            [SVirt (py_slice els a b)]).
    { intros par rf tp anc. rewrite slice_bounds_clamp. fold len.
      pose proof (clamp_le len a ltac:(unfold len; lia)) as Ha.
      pose proof (clamp_le len b ltac:(unfold len; lia)) as Hb.
      destruct (mapM_slice els (fun si e => ncoords e (Some (RNode (NSeq i els))) (Some (PInt (Z.of_nat si)))
                                              (tp_add (x_tp c) (idx_text (Z.of_nat si)))
                                              (x_anc c ++ [(RNode (NSeq i els), PInt (Z.of_nat si))]))
                  (fun k e => eq_refl) (slice_clamp len b - slice_clamp len a) (slice_clamp len a)) as [l' [H1 H2]].
      { unfold len in *. lia. }
      unfold range. cbv zeta. rewrite H1. cbn [glift]. apply agree_gone. cbn. rewrite H2. reflexivity. }
    destruct (a =? b)%Z eqn:Eab; cbn [andb].
    + destruct ((- len <=? a)%Z && (a <? len)%Z)%bool eqn:Eb.
      * destruct (py_nth_sel els a Eb) as [e [-> ->]]. cbn. apply agree_gone. reflexivity.
      * rewrite (sel_element_out _ _ Eb). apply Hslice.
    + apply Hslice.
  - rewrite <- (flat_map_filter_map (key_between lo hi) SNode).
    apply agree_gfor. intros e _. unfold key_between, key_txt, key_val.
    destruct (_ && _); [apply agree_gone; reflexivity | apply agree_nil].
Qed.

(* ---- anchor ---- *)
Lemma by_anchor_sem a n c : agree (by_anchor (AStr a) (RNode n) c) (map SNode (sel_anchor a n)).
Proof.
  unfold by_anchor. cbn [attrs_str].
  destruct n as [i x|i kvs|i els|i els]; cbn [sel_anchor].
  - apply agree_nil.
  - rewrite map_map.
    rewrite <- (flat_map_filter_map (fun kv => has_anchor a (fst kv) || has_anchor a (snd kv)) (fun kv => SNode (snd kv))).
    apply agree_gfor. intros kv _. unfold node_anchor_is, has_anchor.
    destruct (_ || _); [apply agree_gone; reflexivity | apply agree_nil].
  - cbn [elems]. rewrite <- (flat_map_filter_map (has_anchor a) SNode).
    unfold enumerate. apply agree_gfor_enum. intros j e _. unfold anchor_is, node_anchor_is, has_anchor.
    destruct (_ && _); [apply agree_gone; reflexivity | apply agree_nil].
  - rewrite <- (flat_map_filter_map (has_anchor a) SNode).
    apply agree_gfor. intros e _. unfold node_anchor_is, has_anchor.
    destruct (_ && _); [apply agree_gone; reflexivity | apply agree_nil].
Qed.

(* ---- `*` as last segment ---- *)
Lemma flat_map_one {A B} (f : A -> B) l : flat_map (fun x => [f x]) l = map f l.
Proof. induction l as [|x r IH]; cbn; [reflexivity | rewrite IH; reflexivity]. Qed.

Lemma match_all_sem n c : agree (match_all_unfiltered (RNode n) c) (map SNode (sel_children n)).
Proof.
  unfold match_all_unfiltered.
  destruct n as [i x|i kvs|i els|i els]; cbn [sel_children].
  - apply agree_nil.
  - rewrite map_map. rewrite <- (flat_map_one (fun kv : node * node => SNode (snd kv))).
    apply agree_gfor. intros kv _. apply agree_gone. reflexivity.
  - cbn [elems]. rewrite <- (flat_map_one SNode). unfold enumerate. apply agree_gfor_enum.
    intros j e _. apply agree_gone. reflexivity.
  - rewrite <- (flat_map_one SNode). apply agree_gfor. intros e _. apply agree_gone. reflexivity.
Qed.

(* ---- search ---- *)
Section Search.
Variable lit : string -> outcome litres.
Variable re_search : string -> string -> outcome reres.
Variable nstr : node -> string.
Variable vstr : list rval -> string.

Lemma haystack_node n : haystack_of nstr vstr (RNode n) = hay_of_node nstr n.
Proof. destruct n; reflexivity. Qed.

Lemma agree_keep inv m term h (x : node) par rf tp anc :
  agree (glift (esm lit re_search nstr vstr m term (RNode h))
               (fun mt => if xorb_cond mt inv then gone (ncoords (RNode x) par rf tp anc) else gnil))
        (keep_if lit re_search nstr inv m term h x).
Proof.
  unfold keep_if, esm. rewrite haystack_node.
  destruct (search_matches_h lit re_search m term (hay_of_node nstr h)) as [b|e|]; cbn [glift].
  - rewrite xorb_cond_xorb. destruct (xorb b inv); [apply agree_gone; reflexivity | apply agree_nil].
  - apply agree_sout.
  - apply agree_sout.
Qed.

Lemma agree_verdict inv b (x : node) par rf tp anc :
  agree (if xorb_cond b inv then gone (ncoords (RNode x) par rf tp anc) else gnil) (verdict_of inv b x).
Proof.
  unfold verdict_of. rewrite xorb_cond_xorb. destruct (xorb b inv); [apply agree_gone; reflexivity | apply agree_nil].
Qed.

(* the attribute path reaches at most one node (strict = true): both
   descendant loops of the code decide as documented *)
Lemma some_hit_first (rq : rval -> ctx -> gen rval) inv m term (e x : node) cc hits par rf tp anc :
  agree (rq (RNode e) cc) hits ->
  agree (gfirst (rq (RNode e) cc)
           (fun f => match f with
                     | Some d => glift (cnode d) (fun nd => glift (esm lit re_search nstr vstr m term nd)
                                   (fun mt => if xorb_cond mt inv then gone (ncoords (RNode x) par rf tp anc) else gnil))
                     | None => if xorb_cond false inv then gone (ncoords (RNode x) par rf tp anc) else gnil
                     end))
        (some_hit lit re_search nstr true inv m term hits x).
Proof.
  intros Hrq. unfold some_hit.
  destruct hits as [|h0 [|h1 r]].
  - destruct (Hrq eq_refl) as [Hs Hi]. destruct (rq (RNode e) cc) as [l s]. cbn in Hs, Hi. subst s.
    destruct l; [|discriminate]. cbn [gfirst]. apply agree_verdict.
  - destruct h0 as [h|ns|]; try apply agree_sout.
    destruct (Hrq eq_refl) as [Hs Hi]. destruct (rq (RNode e) cc) as [l s]. cbn in Hs, Hi. subst s.
    destruct l as [|d [|d2 l]]; try discriminate. cbn in Hi. injection Hi as Hd.
    destruct d as [| |nd p0 r0 t0 a0]; try discriminate. destruct nd as [nn| |]; try discriminate.
    + cbn in Hd. injection Hd as ->. cbn [gfirst cnode glift]. apply agree_keep.
    + cbn in Hd. destruct (elem_nodes l); discriminate.
  - destruct h0; cbn [orb]; apply agree_sout.
Qed.

Lemma some_hit_scan (rq : rval -> ctx -> gen rval) inv m term (e x : node) cc hits par rf tp anc :
  agree (rq (RNode e) cc) hits ->
  agree (hash_desc_scan lit re_search nstr vstr m term inv (fst (rq (RNode e) cc)) (snd (rq (RNode e) cc)) false
           (fun mt => if xorb_cond mt inv then gone (ncoords (RNode x) par rf tp anc) else gnil))
        (some_hit lit re_search nstr true inv m term hits x).
Proof.
  intros Hrq. unfold some_hit.
  destruct hits as [|h0 [|h1 r]].
  - destruct (Hrq eq_refl) as [Hs Hi]. destruct (rq (RNode e) cc) as [l s]. cbn in Hs, Hi. subst s.
    destruct l; [|discriminate]. cbn. apply agree_verdict.
  - destruct h0 as [h|ns|]; try apply agree_sout.
    destruct (Hrq eq_refl) as [Hs Hi]. destruct (rq (RNode e) cc) as [l s]. cbn in Hs, Hi. subst s.
    destruct l as [|d [|d2 l]]; try discriminate. cbn in Hi. injection Hi as Hd.
    destruct d as [| |nd p0 r0 t0 a0]; try discriminate. destruct nd as [nn| |]; try discriminate.
    + cbn in Hd. injection Hd as ->. cbn [fst snd hash_desc_scan cnode glift].
      unfold keep_if, esm. rewrite haystack_node.
      destruct (search_matches_h lit re_search m term (hay_of_node nstr h)) as [b|ex|]; cbn [glift];
        try apply agree_sout.
      rewrite xorb_cond_xorb. destruct (xorb b inv) eqn:Ex.
      * apply agree_gone. reflexivity.
      * apply agree_nil.
    + cbn in Hd. destruct (elem_nodes l); discriminate.
  - destruct h0; cbn [orb]; apply agree_sout.
Qed.

Lemma by_search_sem rq attr_sem inv m attr term n c :
  (forall e cc, agree (rq (RNode e) cc) (attr_sem e)) ->
  agree (by_search lit re_search nstr vstr rq inv m attr term (RNode n) c)
        (sel_search lit re_search nstr true attr_sem (x_tl c) inv m attr term n).
Proof.
  intros Hrq. unfold by_search, sel_search.
  destruct n as [i x|i kvs|i els|i els].
  - apply agree_keep.
  - destruct (String.eqb attr ".").
    + apply agree_gfor. intros kv _. apply agree_keep.
    + destruct (assoc_key (PStr attr) kvs) as [v|]; [apply agree_keep|].
      apply some_hit_scan. apply Hrq.
  - destruct (x_tl c); cbn [negb]; [|apply agree_nil].
    cbn [elems]. unfold enumerate.
    destruct (String.eqb attr ".") eqn:Edot.
    + assert (Haoh : forallb (fun e => is_pynone e || is_pydict e) (map RNode els)
                     = forallb (fun e => is_null_node e || is_map e) els).
      { clear. induction els as [|e r IH]; [reflexivity|]. cbn [map forallb]. rewrite IH.
        destruct e as [? []|? ?|? ?|? ?]; reflexivity. }
      rewrite Haoh. apply agree_gfor_enum. intros j e _.
      unfold dict_get, attr_of.
      assert (Hn : is_pynone (RNode e) = is_null_node e) by (destruct e as [? []|? ?|? ?|? ?]; reflexivity).
      rewrite Hn.
      destruct (forallb (fun e0 => is_null_node e0 || is_map e0) els) eqn:Ea; cbn [andb].
      * destruct e as [ie xe|ie kve|ie ee|ie ee]; cbn [is_null_node negb andb].
        -- destruct xe; cbn [negb andb]; apply agree_keep.
        -- destruct (assoc_key (PStr term) kve); [apply agree_verdict | apply agree_keep].
        -- apply agree_keep.
        -- apply agree_keep.
      * apply agree_keep.
    + apply agree_gfor_enum. intros j e _. unfold dict_get, attr_of.
      destruct e as [ie xe|ie kve|ie ee|ie ee].
      * apply some_hit_first. apply Hrq.
      * destruct (assoc_key (PStr attr) kve); [apply agree_keep | apply some_hit_first; apply Hrq].
      * apply some_hit_first. apply Hrq.
      * apply some_hit_first. apply Hrq.
  - apply agree_gfor. intros e _. apply agree_keep.
Qed.

End Search.

(* ---- `**` as last segment ---- *)
Lemma trav_last_sem sg : forall tf n c, node_size n < tf ->
  agree (trav tf true sg (RNode n) c) (map SNode (leaf_nodes n)).
Proof.
  induction tf as [|tf IH]; intros n c Hsz; [lia|].
  cbn [trav]. destruct n as [i x|i kvs|i els|i els]; cbn [leaf_nodes].
  - apply agree_gone. reflexivity.
  - rewrite map_flat_map. apply agree_gfor. intros kv Hkv. apply IH.
    pose proof (map_val_size i kvs kv Hkv). lia.
  - cbn [elems]. rewrite map_flat_map. unfold enumerate. apply agree_gfor_enum. intros j e He. apply IH.
    pose proof (seq_elem_size i els e He). lia.
  - rewrite <- (flat_map_one SNode). apply agree_gfor. intros e _. apply agree_gone. reflexivity.
Qed.
