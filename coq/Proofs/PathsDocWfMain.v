(* C07: the exclusion theorem with the computable document well-formedness
   [doc_wf] in place of the assumed loader guarantee [shared_closed]; witnesses. *)
From Coq Require Import List Ascii String ZArith NArith Bool Arith Lia.
From YP Require Import Outcome PyStr PyVal Doc Generated PathParser PathPrinter Searches PathsSearch
     SpecC07 PathsAlias PathsAliasMain PathsDocWf.
Import ListNotations.
Open Scope string_scope.

Theorem alias_excluded_wf :
  forall lit re_search (mt : mtable) (tm : terms) (sp : sep) (o : opts) (d : node) (res : list hit),
    o_anchors o = false -> o_expand o = false -> names_consistent (anc_occs d) = true ->
    doc_wf d = true ->
    search_doc lit re_search mt tm sp o d = Ok res ->
    forall h, In h res -> vjustified lit re_search tm mt o d h.
Proof.
  intros lit re_search mt tm sp o d res Ha Hx Hc Hw.
  apply alias_excluded; auto. apply doc_wf_shared_closed; auto.
Qed.

(* `a: {<<: {k: &v hit}}` / `b: *v`: the merge source is an INLINE mapping that
   defines the anchor &v for the first time; the merged-in entry a.k is hidden
   with both alias options off.  The search used to skip it without a look, so
   nothing recorded &v and the alias b: *v was reported (the former witness
   C07_inline_merge_refuted; [doc_wf] had a third part, merged_closed, false of
   this document).  Since the repair the hidden entry is classified and walked
   by record_anchors: &v is on record, b is an aliased repeat, nothing is
   reported; with the alias options on, both places are. *)
Definition dw_i (n : N) : info := mkinfo n None true None.
Definition dw_leaf (n : N) (s : string) : node := NLeaf (mkinfo n None false None) (PStr s).
Definition dw_v : node := NLeaf (mkinfo 4 (Some "v") true None) (PStr "hit").
Definition dw_doc : node :=
  NMap (dw_i 0) [(dw_leaf 1 "a", NMap (dw_i 2) [(dw_leaf 3 "k", dw_v)]); (dw_leaf 5 "b", dw_v)].
Definition dw_mt : mtable := [(2%N, mkminfo [0] [NMap (dw_i 6) [(dw_leaf 3 "k", dw_v)]])].
Definition dw_opts : opts := mkopts true false false false false false.
Definition dw_lit : string -> outcome litres := fun _ => Ok LFail.
Definition dw_re : string -> string -> outcome reres := fun _ _ => Ok (RMatch false).

Definition dw_opts_all : opts := mkopts true false false true true false.
(* the same document with an own key that is an alias of &v: j comes before the
   merged-in k in items() order, so a.j is the original and is reported *)
Definition dw_doc_j : node :=
  NMap (dw_i 0) [(dw_leaf 1 "a", NMap (dw_i 2) [(dw_leaf 7 "j", dw_v); (dw_leaf 3 "k", dw_v)]); (dw_leaf 5 "b", dw_v)].
Definition dw_mt_j : mtable := [(2%N, mkminfo [1] [NMap (dw_i 6) [(dw_leaf 3 "k", dw_v)]])].

Lemma inline_merge_repaired :
  doc_wf dw_doc = true /\ names_consistent (anc_occs dw_doc) = true /\
  shared_closed dw_mt dw_opts dw_doc [] = true /\
  is_repeat (flat_map entry_occs (firstn 1 [(dw_leaf 1 "a", NMap (dw_i 2) [(dw_leaf 3 "k", dw_v)])])) dw_v = true /\
  search_doc dw_lit dw_re dw_mt (mkterms false MEquals "*" "hit") Dot dw_opts dw_doc = Ok [] /\
  search_doc dw_lit dw_re dw_mt (mkterms false MEquals "*" "hit") Dot dw_opts_all dw_doc =
    Ok [mkhit "a.k" [RKey (PStr "a"); RKey (PStr "k")] HValue; mkhit "b" [RKey (PStr "b")] HValue] /\
  search_doc dw_lit dw_re dw_mt_j (mkterms false MEquals "*" "hit") Dot dw_opts dw_doc_j =
    Ok [mkhit "a.j" [RKey (PStr "a"); RKey (PStr "j")] HValue].
Proof. vm_compute. repeat split; reflexivity. Qed.

(* the same merge through an alias: x: &m {k: &v hit} / a: {<<: *m} / b: *v *)
Definition dw_m : node := NMap (mkinfo 2 (Some "m") true None) [(dw_leaf 3 "k", dw_v)].
Definition dw_doc2 : node :=
  NMap (dw_i 0) [(dw_leaf 1 "x", dw_m); (dw_leaf 5 "a", NMap (dw_i 6) [(dw_leaf 3 "k", dw_v)]); (dw_leaf 7 "b", dw_v)].
Definition dw_mt2 : mtable := [(6%N, mkminfo [0] [dw_m])].

Lemma doc_wf_example :
  doc_wf dw_doc2 = true /\ names_consistent (anc_occs dw_doc2) = true /\
  search_doc dw_lit dw_re dw_mt2 (mkterms false MEquals "*" "hit") Dot dw_opts dw_doc2 =
    Ok [mkhit "x.k" [RKey (PStr "x"); RKey (PStr "k")] HValue].
Proof. vm_compute. repeat split; reflexivity. Qed.
