(* C05: UNIQUE for plain Arrays and for Arrays-of-Hashes, and DEEP for
   Arrays-of-Hashes, as declarative statements for all inputs. *)
From Coq Require Import List Ascii String ZArith QArith NArith Bool Lia.
From YP Require Import Outcome PyStr PyVal Doc PathParser Searches MergeConfig Merge SpecC05 SpecC05Union
  MergeBasics MergeHash.
Import ListNotations.
Open Scope string_scope.
Open Scope list_scope.

(* ---------- plain Arrays, UNIQUE ---------- *)
Lemma simple_step_unique : forall s ele,
  simple_step true s ele =
  if in_list (tagless ele) (tl s)
  then mkslst fresh_info (map (fun e => if elem_matches e (tagless ele) then ele else e) (cur s)) (orig s) false (tl s)
  else mkslst (cur_i s) (cur s ++ [ele]) (if is_orig s then orig s ++ [ele] else orig s) (is_orig s)
              (tl s ++ [tagless ele]).
Proof. intros. unfold simple_step. destruct (in_list (tagless ele) (tl s)); reflexivity. Qed.

Lemma simple_unique_loop : forall rels all rest s X,
  incl rest rels -> rels = all ->
  Forall2 (mg_chain rels) X (cur s) ->
  Forall2 (mg_chain rels) (X ++ mg_new_tagless (tl s) rest) (cur (fold_left (simple_step true) rest s)).
Proof.
  intros rels all rest. induction rest as [|ele rest IH]; intros s X Hin Hall HF; cbn [fold_left mg_new_tagless].
  - now rewrite app_nil_r.
  - assert (Hele : In ele rels) by (apply Hin; now left).
    assert (Hrest : incl rest rels) by (intros x Hx; apply Hin; now right).
    rewrite simple_step_unique.
    destruct (in_list (tagless ele) (tl s)) eqn:Ein.
    + specialize (IH (mkslst fresh_info (map (fun e => if elem_matches e (tagless ele) then ele else e) (cur s))
                             (orig s) false (tl s)) X Hrest Hall).
      cbn [cur tl] in IH. apply IH.
      clear - HF Hele. induction HF as [|e0 e X' c' Hc HF IHF]; simpl; [constructor|].
      constructor; [|exact IHF].
      destruct (elem_matches e (tagless ele)) eqn:Em; [|exact Hc].
      eapply mg_chain_step; eauto.
    + specialize (IH (mkslst (cur_i s) (cur s ++ [ele]) (if is_orig s then orig s ++ [ele] else orig s)
                             (is_orig s) (tl s ++ [tagless ele])) (X ++ [ele]) Hrest Hall).
      cbn [cur tl] in IH. rewrite <- app_assoc in IH. apply IH.
      apply Forall2_app; [exact HF|]. constructor; [constructor|constructor].
Qed.

Theorem array_unique_declarative : forall cfg li lels ri rels nc,
  array_merge_mode cfg nc = Ok AUnique ->
  exists m i res, merge_simple_lists cfg (NSeq li lels) (NSeq ri rels) nc = Ok m /\ ret m = NSeq i res /\
    Forall2 (mg_chain rels) (lels ++ mg_new_tagless (map tagless lels) rels) res.
Proof.
  intros cfg li lels ri rels nc Hm. unfold merge_simple_lists. rewrite Hm. cbn [bind].
  eexists. eexists. eexists. split; [reflexivity|]. split; [reflexivity|].
  apply (simple_unique_loop rels rels rels (mkslst li lels lels true (map tagless lels)) lels);
    [apply incl_refl|reflexivity|].
  cbn [cur]. clear. induction lels; constructor; [constructor|assumption].
Qed.

Lemma forall2_length {A B} (R : A -> B -> Prop) : forall l m, Forall2 R l m -> List.length l = List.length m.
Proof. induction 1; simpl; auto. Qed.

(* no right-hand element equal to a left one is appended; the left elements keep their count and order *)
Corollary array_unique_length : forall cfg li lels ri rels nc m,
  array_merge_mode cfg nc = Ok AUnique ->
  merge_simple_lists cfg (NSeq li lels) (NSeq ri rels) nc = Ok m ->
  exists i res, ret m = NSeq i res /\
    List.length res = List.length lels + List.length (mg_new_tagless (map tagless lels) rels).
Proof.
  intros cfg li lels ri rels nc m Hm E.
  destruct (array_unique_declarative cfg li lels ri rels nc Hm) as [m' [i [res [E' [Hr HF]]]]].
  rewrite E in E'. inversion E'; subst m'. exists i, res. split; [exact Hr|].
  apply forall2_length in HF. rewrite <- HF, app_length. reflexivity.
Qed.

(* ---------- Arrays-of-Hashes, UNIQUE ---------- *)
Section Cfg.
Variable lit : string -> outcome litres.
Variable cfg : mconfig.

Lemma aoh_loop_unique : forall idk items lels,
  aoh_loop lit cfg OUnique idk items lels = Ok (lels ++ mg_new_full lels items).
Proof.
  induction items as [|e r IH]; intros lels; simpl; [now rewrite app_nil_r|].
  destruct (in_list e lels); cbn [bind]; rewrite IH; [reflexivity|]. now rewrite <- app_assoc.
Qed.

Theorem aoh_unique_declarative : forall ri rec0 rest nc li lels,
  is_map rec0 = true -> aoh_merge_mode cfg nc = Ok OUnique ->
  merge_rec lit cfg (NSeq ri (rec0 :: rest)) nc (NSeq li lels) =
  Ok (NSeq li (lels ++ mg_new_full lels (rec0 :: rest))).
Proof.
  intros. rewrite merge_rec_aoh by assumption. rewrite H0. cbn [bind]. rewrite aoh_loop_unique. reflexivity.
Qed.
End Cfg.

(* ---------- right-hand scalars override: from one step to the whole Hash merge ---------- *)
From YP Require Import MergeNoCrash MergeUnion.

Theorem scalar_override_loop : forall lit cfg ri rkvs nc li lkvs m key vi v,
  mg_keys_leaf lkvs = true -> mg_keys_leaf rkvs = true -> mg_distinct rkvs = true ->
  merge_rec lit cfg (NMap ri rkvs) nc (NMap li lkvs) = Ok m ->
  In (key, NLeaf vi v) rkvs -> assoc_key (key_val key) lkvs <> None ->
  dict_shortcut cfg (NLeaf vi v) (mkcoord (oid vi) (Some (oid ri)) (Some (key_val key))) = Ok GoOn ->
  exists res, m = NMap li res /\ assoc_key (key_val key) res = Some (NLeaf vi v).
Proof.
  intros lit cfg ri rkvs nc li lkvs m key vi v HL HR HD H Hin Hk Hs.
  destruct (hash_union lit cfg ri rkvs nc li lkvs m HL HR HD H) as [res [E [_ [_ [_ [_ V2]]]]]].
  exists res. split; [exact E|].
  destruct (assoc_key (key_val key) lkvs) as [lv|] eqn:El; [|congruence].
  destruct (V2 key (NLeaf vi v) lv Hin El) as [v' [Ev Ea]].
  unfold mg_common_value in Ev. change (node_oid (NLeaf vi v)) with (oid vi) in Ev. rewrite Hs in Ev.
  cbn [bind] in Ev. inversion Ev; subst v'. exact Ea.
Qed.

(* ---------- Arrays-of-Hashes, DEEP by identity key ---------- *)
Section Deep.
Variable lit : string -> outcome litres.
Variable cfg : mconfig.

(* the element is a record whose identity key holds a value equal, in its literal type, to idv *)
Definition mg_matches (idk : pyval) (idv : idval) (e : node) : Prop :=
  exists i kvs v lv, e = NMap i kvs /\ assoc_key idk kvs = Some v /\
                     tagless_value lit v = Ok lv /\ idval_eq lv idv = true.

Lemma find_record_some : forall idk idv lels i0 i lh,
  find_record lit idk idv lels i0 = Ok (Some (i, lh)) ->
  exists j, i = i0 + j /\ nth_error lels j = Some lh /\ mg_matches idk idv lh /\
            (forall j' e, j' < j -> nth_error lels j' = Some e -> ~ mg_matches idk idv e).
Proof.
  intros idk idv lels. induction lels as [|h rest IH]; intros i0 i lh H; [simpl in H; discriminate|].
  assert (Skip : ~ mg_matches idk idv h -> find_record lit idk idv rest (S i0) = Ok (Some (i, lh)) ->
          exists j, i = i0 + j /\ nth_error (h :: rest) j = Some lh /\ mg_matches idk idv lh /\
            (forall j' e, j' < j -> nth_error (h :: rest) j' = Some e -> ~ mg_matches idk idv e)).
  { intros Hno Hf. destruct (IH _ _ _ Hf) as [j [Ei [Hn [Hm Hb]]]]. exists (S j).
    split; [lia|]. split; [exact Hn|]. split; [exact Hm|].
    intros j' e Hj He. destruct j' as [|j']; simpl in He; [inversion He; subst; exact Hno|]. apply (Hb j' e); [lia|exact He]. }
  simpl in H. destruct h as [hi hv|hi hkvs|hi hels|hi hels];
    try (apply Skip; [intros [? [? [? [? [E _]]]]]; discriminate|exact H]).
  destruct (assoc_key idk hkvs) as [v|] eqn:Ea.
  - destruct (tagless_value lit v) as [lv| |] eqn:Et; simpl in H; try discriminate.
    destruct (idval_eq lv idv) eqn:Ee.
    + inversion H; subst. exists 0. split; [lia|]. split; [reflexivity|].
      split; [exists hi, hkvs, v, lv; auto|]. intros j' e Hj; lia.
    + apply Skip; [|exact H]. intros [i1 [k1 [v1 [lv1 [E1 [E2 [E3 E4]]]]]]]. inversion E1; subst. congruence.
  - apply Skip; [|exact H]. intros [i1 [k1 [v1 [lv1 [E1 [E2 _]]]]]]. inversion E1; subst. congruence.
Qed.

Lemma find_record_none : forall idk idv lels i0,
  find_record lit idk idv lels i0 = Ok None -> forall e, In e lels -> ~ mg_matches idk idv e.
Proof.
  intros idk idv lels. induction lels as [|h rest IH]; intros i0 H e Hin; [contradiction|].
  simpl in H.
  assert (Rest : find_record lit idk idv rest (S i0) = Ok None -> ~ mg_matches idk idv h -> ~ mg_matches idk idv e).
  { intros Hf Hno. destruct Hin as [<-|Hin]; [exact Hno|]. eapply IH; eauto. }
  destruct h as [hi hv|hi hkvs|hi hels|hi hels];
    try (apply Rest; [exact H|intros [? [? [? [? [E _]]]]]; discriminate]).
  destruct (assoc_key idk hkvs) as [v|] eqn:Ea.
  - destruct (tagless_value lit v) as [lv| |] eqn:Et; simpl in H; try discriminate.
    destruct (idval_eq lv idv) eqn:Ee; [discriminate|].
    apply Rest; [exact H|]. intros [i1 [k1 [v1 [lv1 [E1 [E2 [E3 E4]]]]]]]. inversion E1; subst. congruence.
  - apply Rest; [exact H|]. intros [i1 [k1 [v1 [lv1 [E1 [E2 _]]]]]]. inversion E1; subst. congruence.
Qed.

(* one right-hand element under DEEP *)
Definition deep_step_statement : Prop :=
  forall idk lels ele lels',
    aoh_step lit (merge_rec lit cfg) ODeep idk lels ele = Ok lels' ->
    (* an element that is no Hash is appended *)
    (is_map ele = false -> lels' = lels ++ [ele]) /\
    (* a record: its identity value decides *)
    (forall i kvs, ele = NMap i kvs ->
       exists idn idv, assoc_key idk kvs = Some idn /\ tagless_value lit idn = Ok idv /\
         ((* no record on the left (or appended before) has that identity: appended *)
          ((forall e, In e lels -> ~ mg_matches idk idv e) /\ lels' = lels ++ [ele]) \/
          (* otherwise the FIRST such record is replaced by the Hash merge of the two
             (carrying the right-hand tag); everything else stays where it is *)
          (exists j lh m, nth_error lels j = Some lh /\ mg_matches idk idv lh /\
             (forall j' e, j' < j -> nth_error lels j' = Some e -> ~ mg_matches idk idv e) /\
             merge_rec lit cfg ele (mkcoord (node_oid ele) None None) lh = Ok m /\
             lels' = replace_nth j (set_tag m (node_tag ele)) lels))).

Theorem deep_step : deep_step_statement.
Proof.
  intros idk lels ele lels' H. unfold aoh_step in H. split.
  - intros Hm. destruct ele; try discriminate; inversion H; reflexivity.
  - intros i kvs ->. destruct (assoc_key idk kvs) as [idn|] eqn:Ea; [|discriminate].
    destruct (tagless_value lit idn) as [idv| |] eqn:Et; cbn [bind] in H; try discriminate.
    exists idn, idv. split; [reflexivity|]. split; [exact Et|].
    destruct (find_record lit idk idv lels 0) as [[[j0 lh]|]| |] eqn:Ef; cbn [bind] in H; try discriminate.
    + right. destruct (find_record_some _ _ _ _ _ _ Ef) as [j [Ej [Hn [Hm Hb]]]]. simpl in Ej. subst j0.
      destruct (merge_rec lit cfg (NMap i kvs) (mkcoord (node_oid (NMap i kvs)) None None) lh) as [m| |] eqn:Em;
        cbn [bind] in H; try discriminate.
      inversion H; subst. exists j, lh, m. auto.
    + left. inversion H; subst. split; [|reflexivity]. eapply find_record_none; eauto.
Qed.

(* a record lacking the identity key is a merge error *)
Lemma deep_missing_key : forall idk lels i kvs,
  assoc_key idk kvs = None -> aoh_step lit (merge_rec lit cfg) ODeep idk lels (NMap i kvs) = Raise MergeExc.
Proof. intros. unfold aoh_step. now rewrite H. Qed.

(* the whole Array-of-Hashes: the right-hand elements are taken in order, each against the
   list as it stands; the identity key is the configured one or the first key of the first record *)
Theorem aoh_deep_declarative : forall ri rec0 rest nc li lels,
  is_map rec0 = true -> aoh_merge_mode cfg nc = Ok ODeep ->
  merge_rec lit cfg (NSeq ri (rec0 :: rest)) nc (NSeq li lels) =
  (do els <- foldM (fun ls ele => aoh_step lit (merge_rec lit cfg) ODeep
                        (aoh_merge_key cfg (mkcoord (node_oid rec0) (Some (oid ri)) (Some (PInt 0))) (first_key rec0))
                        ls ele) (rec0 :: rest) lels;
   Ok (NSeq li els)).
Proof.
  intros. rewrite merge_rec_aoh by assumption. rewrite H0. cbn [bind].
  match goal with |- bind ?a _ = bind ?b _ => assert (E : a = b); [|now rewrite E] end.
  generalize (rec0 :: rest) as items. intros items. revert lels.
  induction items as [|e r IH]; intros lels; [reflexivity|]. cbn [aoh_loop foldM].
  destruct (aoh_step lit (merge_rec lit cfg) ODeep _ lels e); cbn [bind]; auto.
Qed.

(* which key identifies *)
Theorem aoh_key_choice : forall nc fk,
  let k1 := get_key_for cfg nc in
  let k2 := parent_key (mc_parent nc) (m_keys cfg) in
  aoh_merge_key cfg nc fk =
  if nonempty k1 then PStr k1                       (* the [keys] entry of the first record *)
  else if nonempty k2 then PStr k2                  (* else the entry of its parent Array *)
  else match fk with Some f => f | None => PStr "" end.   (* else the first key of the first record *)
Proof.
  intros nc fk k1 k2. unfold aoh_merge_key. fold k1. destruct (nonempty k1) eqn:E1.
  - rewrite E1. reflexivity.
  - fold k2. destruct (nonempty k2) eqn:E2; [reflexivity|]. destruct fk; [reflexivity|].
    destruct k2; [reflexivity|discriminate].
Qed.
End Deep.
