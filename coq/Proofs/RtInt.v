(* C08: int(str(n)) = n for every integer n -- a fact about the two Lib
   functions str_of_Z (decimal rendering, fuelled) and py_int (Python's int()
   on a string).  In particular the fuel str_of_Z supplies is sufficient. *)
From Coq Require Import List Ascii String ZArith Bool Arith Lia.
From YP Require Import Outcome PyStr C08Spec.
Import ListNotations.
Open Scope string_scope.

Definition is_digit (c : ascii) : bool :=
  match digit_val c with Some _ => true | None => false end.

Definition dv (c : ascii) : Z := match digit_val c with Some d => d | None => 0%Z end.

(* value and weight of a digit string *)
Fixpoint Lw (s : string) : Z :=
  match s with EmptyString => 1%Z | String _ r => (10 * Lw r)%Z end.
Fixpoint Vl (s : string) : Z :=
  match s with EmptyString => 0%Z | String c r => (dv c * Lw r + Vl r)%Z end.

Lemma digits_go_V : forall s a b,
  all_chars is_digit s = true ->
  digits_go s a b = if (nonempty s || b)%bool then Some (a * Lw s + Vl s)%Z else None.
Proof.
  induction s as [|c r IH]; intros a b H.
  - cbn. destruct b; [f_equal; lia | reflexivity].
  - cbn [all_chars] in H. apply andb_true_iff in H. destruct H as [Hc Hr].
    cbn [digits_go nonempty orb Vl Lw]. unfold is_digit in Hc. unfold dv.
    destruct (digit_val c) as [d|]; [|discriminate Hc].
    rewrite (IH _ true Hr). rewrite orb_true_r. f_equal. lia.
Qed.

Definition dchar (d : Z) : ascii := ascii_of_nat (48 + Z.to_nat d).

Lemma dchar_val d : (0 <= d < 10)%Z -> digit_val (dchar d) = Some d.
Proof.
  intros H.
  assert (d = 0 \/ d = 1 \/ d = 2 \/ d = 3 \/ d = 4 \/ d = 5 \/ d = 6 \/ d = 7 \/ d = 8 \/ d = 9)%Z as E by lia.
  destruct E as [->|[->|[->|[->|[->|[->|[->|[->|[->| ->]]]]]]]]]; reflexivity.
Qed.

Lemma dchar_digit d : (0 <= d < 10)%Z -> is_digit (dchar d) = true /\ dv (dchar d) = d.
Proof. intros H. unfold is_digit, dv. rewrite (dchar_val d H). split; reflexivity. Qed.

(* the fuelled loop, with enough fuel: p < 2^f needs at most f+1 rounds *)
Lemma pdf_spec : forall f p acc,
  (0 <= p < 2 ^ Z.of_nat f)%Z -> all_chars is_digit acc = true ->
  let r := pos_digits_fuel (S f) p acc in
  all_chars is_digit r = true /\ nonempty r = true /\ Vl r = (p * Lw acc + Vl acc)%Z /\ Lw r <> 0%Z.
Proof.
  induction f as [|f IH]; intros p acc Hp Ha.
  - assert (p = 0)%Z as -> by (cbn in Hp; lia).
    assert (HL : (Lw acc <> 0)%Z) by (clear; induction acc; cbn [Lw]; lia).
    change (pos_digits_fuel 1 0 acc) with (String "0"%char acc). cbn zeta. cbn [all_chars Vl Lw nonempty].
    change (dv "0") with 0%Z. change (is_digit "0") with true. rewrite Ha.
    repeat split; lia.
  - cbn zeta. change (pos_digits_fuel (S (S f)) p acc) with
      (let d := (p mod 10)%Z in let q := (p / 10)%Z in
       let acc' := String (dchar d) acc in
       if (q =? 0)%Z then acc' else pos_digits_fuel (S f) q acc').
    cbn zeta.
    assert (Hd : (0 <= p mod 10 < 10)%Z) by (apply Z.mod_pos_bound; lia).
    destruct (dchar_digit _ Hd) as [Hdg Hdv].
    assert (Ha' : all_chars is_digit (String (dchar (p mod 10)) acc) = true) by (cbn [all_chars]; rewrite Hdg, Ha; reflexivity).
    assert (HL : (Lw acc <> 0)%Z) by (clear; induction acc; cbn [Lw]; lia).
    destruct (p / 10 =? 0)%Z eqn:Eq.
    + apply Z.eqb_eq in Eq. repeat split; try assumption; try reflexivity.
      * cbn [Vl Lw]. rewrite Hdv. pose proof (Z.div_mod p 10). lia.
      * cbn [Lw]. lia.
    + apply Z.eqb_neq in Eq.
      assert (Hq : (0 <= p / 10 < 2 ^ Z.of_nat f)%Z).
      { split; [apply Z.div_pos; lia|]. apply Z.div_lt_upper_bound; [lia|].
        rewrite Nat2Z.inj_succ, Z.pow_succ_r in Hp by lia. lia. }
      destruct (IH (p / 10)%Z _ Hq Ha') as (H1 & H2 & H3 & H4).
      repeat split; try assumption.
      rewrite H3. cbn [Vl Lw]. rewrite Hdv. pose proof (Z.div_mod p 10). lia.
Qed.

Lemma pdf_value a :
  (0 <= a)%Z ->
  let r := pos_digits_fuel (S (Z.to_nat (Z.log2 a + 1))) a EmptyString in
  all_chars is_digit r = true /\ nonempty r = true /\ Vl r = a.
Proof.
  intros Ha. cbn zeta.
  assert (Hb : (0 <= a < 2 ^ Z.of_nat (Z.to_nat (Z.log2 a + 1)))%Z).
  { split; [assumption|]. rewrite Z2Nat.id by (pose proof (Z.log2_nonneg a); lia).
    destruct (Z.eq_dec a 0) as [->|Hn]; [cbn; lia|].
    replace (Z.log2 a + 1)%Z with (Z.succ (Z.log2 a)) by lia. apply Z.log2_spec. lia. }
  destruct (pdf_spec _ a EmptyString Hb eq_refl) as (H1 & H2 & H3 & _).
  repeat split; try assumption. rewrite H3. cbn. lia.
Qed.

(* ---- str.strip() leaves a text without white-space alone ---- *)
Lemma all_chars_rev_acc (P : ascii -> bool) : forall s a,
  all_chars P (rev_str_acc s a) = (all_chars P s && all_chars P a)%bool.
Proof.
  induction s as [|c r IH]; intros a; cbn; [reflexivity|].
  rewrite IH. cbn. destruct (P c), (all_chars P r), (all_chars P a); reflexivity.
Qed.

Lemma rev_acc_acc : forall s a b, rev_str_acc (rev_str_acc s a) b = rev_str_acc a (s ++ b).
Proof. induction s as [|c r IH]; intros a b; cbn; [reflexivity|]. rewrite IH. reflexivity. Qed.

Lemma rev_str_invol s : rev_str (rev_str s) = s.
Proof.
  unfold rev_str. rewrite rev_acc_acc. cbn. induction s; cbn; [reflexivity | f_equal; assumption].
Qed.

Definition not_space (c : ascii) : bool := negb (is_space_py c).

Lemma lstrip_nospace s : all_chars not_space s = true -> lstrip_py s = s.
Proof.
  destruct s as [|c r]; [reflexivity|]. cbn. unfold not_space. intros H.
  apply andb_true_iff in H. destruct H as [H _]. apply negb_true_iff in H. rewrite H. reflexivity.
Qed.

Lemma strip_nospace s : all_chars not_space s = true -> strip_py s = s.
Proof.
  intros H. unfold strip_py. rewrite (lstrip_nospace s H).
  rewrite lstrip_nospace; [apply rev_str_invol|].
  unfold rev_str. rewrite all_chars_rev_acc, H. reflexivity.
Qed.

(* ---- per-character facts about digits (all 256 characters) ---- *)
Ltac all_ascii_i c := destruct c as [[|] [|] [|] [|] [|] [|] [|] [|]].

Lemma digit_facts c :
  is_digit c = true ->
  not_space c = true /\ is_slice_char c = true /\ Ascii.eqb c ":"%char = false
  /\ Ascii.eqb c "-"%char = false /\ Ascii.eqb c "+"%char = false /\ Ascii.eqb ":"%char c = false.
Proof. intros H. all_ascii_i c; vm_compute in H; try discriminate H; vm_compute; repeat split; reflexivity. Qed.

Lemma all_digit_facts s :
  all_chars is_digit s = true ->
  all_chars not_space s = true /\ all_chars is_slice_char s = true /\ str_in ":"%char s = false.
Proof.
  induction s as [|c r IH]; [repeat split; reflexivity|]. cbn [all_chars str_in]. intros H.
  apply andb_true_iff in H. destruct H as [Hc Hr]. destruct (IH Hr) as (I1 & I2 & I3).
  destruct (digit_facts c Hc) as (F1 & F2 & F3 & _ & _ & F6).
  rewrite F1, F2, I1, I2, F6, I3. repeat split; reflexivity.
Qed.

(* ---- the theorem ---- *)
Theorem py_int_str_of_Z (n : Z) : py_int (str_of_Z n) = Some n.
Proof.
  unfold str_of_Z.
  destruct (pdf_value (Z.abs n) (Z.abs_nonneg n)) as (H1 & H2 & H3). cbn zeta in H1, H2, H3.
  set (body := pos_digits_fuel (S (Z.to_nat (Z.log2 (Z.abs n) + 1))) (Z.abs n) EmptyString) in *.
  destruct (all_digit_facts body H1) as (S1 & _ & _).
  destruct (n <? 0)%Z eqn:En.
  - apply Z.ltb_lt in En. unfold py_int.
    rewrite strip_nospace by (cbn [all_chars]; rewrite S1; reflexivity).
    rewrite Ascii.eqb_refl.
    rewrite (digits_go_V body 0%Z false H1), H2. cbn [orb option_map]. f_equal. lia.
  - apply Z.ltb_ge in En. unfold py_int. rewrite (strip_nospace body S1).
    destruct body as [|c r] eqn:Eb; [discriminate H2|].
    cbn [all_chars] in H1. pose proof H1 as H1'. apply andb_true_iff in H1'. destruct H1' as [Hc _].
    destruct (digit_facts c Hc) as (_ & _ & _ & F4 & F5 & _). rewrite F4, F5.
    rewrite (digits_go_V (String c r) 0%Z false H1). cbn [nonempty orb]. f_equal. lia.
Qed.

Lemma str_of_Z_chars (n : Z) :
  all_chars is_slice_char (str_of_Z n) = true /\ str_in ":"%char (str_of_Z n) = false.
Proof.
  unfold str_of_Z.
  destruct (pdf_value (Z.abs n) (Z.abs_nonneg n)) as (H1 & _ & _). cbn zeta in H1.
  destruct (all_digit_facts _ H1) as (_ & S2 & S3).
  destruct (n <? 0)%Z; [|split; assumption].
  cbn [all_chars str_in]. rewrite S2, S3. split; reflexivity.
Qed.
