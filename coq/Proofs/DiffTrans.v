(* C06: data equality is TRANSITIVE on well-formed documents (with DiffIff.data_eq_refl
   and DiffSym.data_eq_sym: an equivalence relation), and therefore the greedy
   strike-out [bag_eqb data_eq] decides equality of two lists as multisets of
   data: it succeeds exactly when the right list can be reordered so that it
   equals the left list element by element. *)
From Coq Require Import List Ascii String ZArith NArith Bool Arith Lia Permutation.
From YP Require Import Outcome PyStr PyVal Doc Diff C06Spec DiffBase DiffEq DiffKeys DiffSync DiffSym DiffIff.
Import ListNotations.
Open Scope nat_scope.

Lemma tag_eqb_trans : forall a b c, tag_eqb a b = true -> tag_eqb b c = true -> tag_eqb a c = true.
Proof.
  intros [x|] [y|] [z|]; simpl; intros H1 H2; try discriminate; auto.
  apply String.eqb_eq in H1. apply String.eqb_eq in H2. subst. apply String.eqb_refl.
Qed.

Lemma forall2b_trans {A} (f : A -> A -> bool) : forall l l' l'',
  (forall x y z, In x l -> In y l' -> In z l'' -> f x y = true -> f y z = true -> f x z = true) ->
  forall2b f l l' = true -> forall2b f l' l'' = true -> forall2b f l l'' = true.
Proof.
  induction l as [|x r IH]; destruct l' as [|y r']; destruct l'' as [|z r'']; simpl; intros Ht H1 H2;
    auto; try discriminate.
  apply andb_true_iff in H1. destruct H1 as [A1 A2]. apply andb_true_iff in H2. destruct H2 as [B1 B2].
  apply andb_true_iff. split.
  - eapply Ht; eauto.
  - eapply IH; eauto.
Qed.

Theorem data_eq_trans : forall a b c,
  wf_doc a = true -> wf_doc b = true -> wf_doc c = true ->
  data_eq a b = true -> data_eq b c = true -> data_eq a c = true.
Proof.
  induction a as [i v|i kvs IH|i els IH|i els IH] using node_ind'; intros b c Wa Wb Wc H1 H2;
    destruct b as [j w|j kvs'|j els'|j els']; try discriminate H1;
    destruct c as [k u|k kvs''|k els''|k els'']; try discriminate H2.
  - simpl in *. apply andb_true_iff in H1. destruct H1 as [T1 E1]. apply andb_true_iff in H2. destruct H2 as [T2 E2].
    rewrite (tag_eqb_trans _ _ _ T1 T2). simpl. eapply py_eq_trans; eauto.
  - rewrite data_eq_map in *.
    apply andb_true_iff in H1. destruct H1 as [H1 F1]. apply andb_true_iff in H1. destruct H1 as [T1 L1].
    apply andb_true_iff in H2. destruct H2 as [H2 F2]. apply andb_true_iff in H2. destruct H2 as [T2 L2].
    rewrite (tag_eqb_trans _ _ _ T1 T2). apply Nat.eqb_eq in L1. apply Nat.eqb_eq in L2.
    rewrite L1, L2, Nat.eqb_refl. simpl.
    destruct (wf_map_inv _ _ Wa) as [_ [_ Av]]. destruct (wf_map_inv _ _ Wb) as [_ [_ Bv]].
    destruct (wf_map_inv _ _ Wc) as [_ [_ Cv]].
    rewrite forallb_forall in F1, F2. apply forallb_forall. intros kv Hkv.
    specialize (F1 kv Hkv). apply existsb_exists in F1. destruct F1 as [kv' [Hkv' X]].
    apply andb_true_iff in X. destruct X as [X1 X2].
    specialize (F2 kv' Hkv'). apply existsb_exists in F2. destruct F2 as [kv'' [Hkv'' Y]].
    apply andb_true_iff in Y. destruct Y as [Y1 Y2].
    apply existsb_exists. exists kv''. split; auto. apply andb_true_iff. split.
    + eapply py_eq_trans; eauto.
    + rewrite Forall_forall in IH. destruct (IH kv Hkv) as [_ IHv].
      apply (IHv (snd kv') (snd kv'')); auto.
  - rewrite data_eq_seq in *.
    apply andb_true_iff in H1. destruct H1 as [T1 F1]. apply andb_true_iff in H2. destruct H2 as [T2 F2].
    rewrite (tag_eqb_trans _ _ _ T1 T2). simpl.
    rewrite Forall_forall in IH.
    eapply forall2b_trans; [|exact F1|exact F2].
    intros x y z Hx Hy Hz. apply IH; auto.
    + apply (wf_seq_inv _ _ Wa); auto.
    + apply (wf_seq_inv _ _ Wb); auto.
    + apply (wf_seq_inv _ _ Wc); auto.
  - rewrite data_eq_set in *.
    apply andb_true_iff in H1. destruct H1 as [H1 F1]. apply andb_true_iff in H1. destruct H1 as [T1 L1].
    apply andb_true_iff in H2. destruct H2 as [H2 F2]. apply andb_true_iff in H2. destruct H2 as [T2 L2].
    rewrite (tag_eqb_trans _ _ _ T1 T2). apply Nat.eqb_eq in L1. apply Nat.eqb_eq in L2.
    rewrite L1, L2, Nat.eqb_refl. simpl.
    rewrite forallb_forall in F1, F2. apply forallb_forall. intros x Hx.
    specialize (F1 x Hx). apply existsb_exists in F1. destruct F1 as [y [Hy X]].
    specialize (F2 y Hy). apply existsb_exists in F2. destruct F2 as [z [Hz Y]].
    apply existsb_exists. exists z. split; auto. eapply py_eq_trans; eauto.
Qed.

(* ---- the greedy strike-out ---- *)
Lemma remove_first_perm {A} (f : A -> bool) : forall l l1, remove_first f l = Some l1 ->
  exists y, f y = true /\ Permutation l (y :: l1).
Proof.
  induction l as [|a r IH]; simpl; intros l1 H; [discriminate|].
  destruct (f a) eqn:Fa.
  - inversion H; subst. exists a. split; auto.
  - destruct (remove_first f r) as [r'|] eqn:E; try discriminate. inversion H; subst.
    destruct (IH r' eq_refl) as [y [Fy P]]. exists y. split; auto.
    eapply perm_trans; [apply perm_skip; exact P | apply perm_swap].
Qed.

Lemma remove_first_some {A} (f : A -> bool) : forall l y, In y l -> f y = true ->
  exists l1, remove_first f l = Some l1.
Proof.
  induction l as [|a r IH]; simpl; intros y Hy Fy; [contradiction|].
  destruct (f a) eqn:Fa; [eexists; reflexivity|].
  destruct Hy as [<-|Hy]; [congruence|].
  destruct (IH y Hy Fy) as [l1 E]. rewrite E. eexists; reflexivity.
Qed.

Lemma forall2b_split {A} (f : A -> A -> bool) : forall l C y D, forall2b f l (C ++ y :: D) = true ->
  exists lC x lD, l = lC ++ x :: lD /\ forall2b f lC C = true /\ f x y = true /\ forall2b f lD D = true.
Proof.
  intros l C. revert l. induction C as [|c C' IH]; simpl; intros l y D H.
  - destruct l as [|x r]; try discriminate. simpl in H. apply andb_true_iff in H. destruct H as [H1 H2].
    exists [], x, r. auto.
  - destruct l as [|x r]; try discriminate. simpl in H. apply andb_true_iff in H. destruct H as [H1 H2].
    destruct (IH r y D H2) as [lC [x' [lD [-> [A1 [A2 A3]]]]]].
    exists (x :: lC), x', lD. simpl. rewrite H1, A1. auto.
Qed.

Lemma forall2b_app {A} (f : A -> A -> bool) : forall l1 l1' l2 l2',
  forall2b f l1 l1' = true -> forall2b f l2 l2' = true -> forall2b f (l1 ++ l2) (l1' ++ l2') = true.
Proof.
  induction l1 as [|x r IH]; destruct l1' as [|y r']; simpl; intros l2 l2' H1 H2; auto; try discriminate.
  apply andb_true_iff in H1. destruct H1 as [A1 A2]. rewrite A1. simpl. apply IH; auto.
Qed.

Definition all_wf (l : list node) : Prop := forall x, In x l -> wf_doc x = true.

(* the greedy strike-out succeeds exactly when the right list can be reordered
   into a list that equals the left list element by element *)
Theorem bag_eqb_iff : forall l l', all_wf l -> all_wf l' ->
  (bag_eqb data_eq l l' = true <->
   exists l'', Permutation l'' l' /\ forall2b data_eq l l'' = true).
Proof.
  induction l as [|x r IH]; intros l' Wl Wl'.
  - simpl. destruct l' as [|y r']; split; intros H; auto.
    + exists []. auto.
    + discriminate.
    + destruct H as [l'' [P F]]. destruct l''; try discriminate. apply Permutation_nil in P. discriminate.
  - assert (Wr : all_wf r) by (intros z Hz; apply Wl; right; exact Hz).
    simpl. split.
    + intros H. destruct (remove_first (fun y => data_eq y x) l') as [l1|] eqn:E; try discriminate.
      destruct (remove_first_perm _ _ _ E) as [y [Fy P]].
      assert (Wl1 : all_wf l1).
      { intros z Hz. apply Wl'. eapply Permutation_in; [apply Permutation_sym; exact P | right; exact Hz]. }
      destruct (proj1 (IH l1 Wr Wl1) H) as [r3 [P3 F3]].
      exists (y :: r3). split.
      * eapply perm_trans; [apply perm_skip; exact P3 | apply Permutation_sym; exact P].
      * simpl. rewrite F3, andb_true_r. apply data_eq_sym; auto.
        -- apply Wl'. eapply Permutation_in; [apply Permutation_sym; exact P | left; reflexivity].
        -- apply Wl. left; reflexivity.
    + intros [l'' [P F]]. destruct l'' as [|y r'']; try discriminate. simpl in F.
      apply andb_true_iff in F. destruct F as [Fxy Fr].
      assert (Wl'' : all_wf (y :: r'')).
      { intros z Hz. apply Wl'. eapply Permutation_in; [exact P | exact Hz]. }
      assert (Wx : wf_doc x = true) by (apply Wl; left; reflexivity).
      assert (Wy : wf_doc y = true) by (apply Wl''; left; reflexivity).
      assert (Hy : In y l') by (eapply Permutation_in; [exact P | left; reflexivity]).
      destruct (remove_first_some (fun y' => data_eq y' x) l' y Hy (data_eq_sym _ _ Wx Wy Fxy)) as [l1 E].
      rewrite E. destruct (remove_first_perm _ _ _ E) as [y1 [Fy1 P1]].
      assert (Wl1 : all_wf l1).
      { intros z Hz. apply Wl'. eapply Permutation_in; [apply Permutation_sym; exact P1 | right; exact Hz]. }
      apply (proj2 (IH l1 Wr Wl1)).
      assert (P2 : Permutation (y :: r'') (y1 :: l1)) by (eapply perm_trans; eauto).
      assert (Hy1 : In y1 (y :: r'')).
      { eapply Permutation_in; [apply Permutation_sym; exact P2 | left; reflexivity]. }
      destruct Hy1 as [<-|Hy1].
      * exists r''. split; auto. eapply Permutation_cons_inv; eauto.
      * destruct (in_split _ _ Hy1) as [C [D ->]].
        destruct (forall2b_split _ _ _ _ _ Fr) as [lC [x' [lD [-> [A1 [A2 A3]]]]]].
        exists (C ++ y :: D). split.
        -- apply (Permutation_cons_inv (a := y1)).
           eapply perm_trans; [|exact P2].
           eapply perm_trans; [apply perm_skip; apply Permutation_sym; apply Permutation_middle|].
           eapply perm_trans; [apply perm_swap|].
           apply perm_skip. apply Permutation_middle.
        -- apply forall2b_app; auto. simpl. rewrite A3, andb_true_r.
           assert (Wx' : wf_doc x' = true) by (apply Wr; apply in_or_app; right; left; reflexivity).
           assert (Wy1 : wf_doc y1 = true) by (apply Wl''; right; apply in_or_app; right; left; reflexivity).
           apply (data_eq_trans x' y1 y); auto.
           apply (data_eq_trans y1 x y); auto.
Qed.

(* ---- hence "equal as bags" is symmetric and transitive ---- *)
Lemma forall2b_Forall2 {A} (f : A -> A -> bool) : forall l l',
  forall2b f l l' = true <-> Forall2 (fun a b => f a b = true) l l'.
Proof.
  induction l as [|x r IH]; destruct l' as [|y r']; simpl; split; intros H; auto; try discriminate;
    try (inversion H; fail).
  - apply andb_true_iff in H. destruct H as [H1 H2]. constructor; auto. apply IH; auto.
  - inversion H; subst. apply andb_true_iff. split; auto. apply IH; auto.
Qed.

Lemma all_wf_perm : forall l l', Permutation l l' -> all_wf l -> all_wf l'.
Proof. intros l l' P W x Hx. apply W. eapply Permutation_in; [apply Permutation_sym; exact P | exact Hx]. Qed.

Theorem bag_eqb_sym : forall l l', all_wf l -> all_wf l' ->
  bag_eqb data_eq l l' = true -> bag_eqb data_eq l' l = true.
Proof.
  intros l l' Wl Wl' H.
  destruct (proj1 (bag_eqb_iff l l' Wl Wl') H) as [l'' [P F]].
  assert (Wl'' : all_wf l'') by (eapply all_wf_perm; [apply Permutation_sym; exact P | exact Wl']).
  assert (F' : forall2b data_eq l'' l = true).
  { apply forall2b_sym; auto. intros x y Hx Hy. apply data_eq_sym; auto. }
  apply forall2b_Forall2 in F'.
  destruct (Permutation_Forall2 P F') as [m [Pm Fm]].
  apply (proj2 (bag_eqb_iff l' l Wl' Wl)). exists m. split; [apply Permutation_sym; exact Pm|].
  apply forall2b_Forall2. exact Fm.
Qed.

Theorem bag_eqb_trans : forall l1 l2 l3, all_wf l1 -> all_wf l2 -> all_wf l3 ->
  bag_eqb data_eq l1 l2 = true -> bag_eqb data_eq l2 l3 = true -> bag_eqb data_eq l1 l3 = true.
Proof.
  intros l1 l2 l3 W1 W2 W3 H12 H23.
  destruct (proj1 (bag_eqb_iff l1 l2 W1 W2) H12) as [a [Pa Fa]].
  destruct (proj1 (bag_eqb_iff l2 l3 W2 W3) H23) as [b [Pb Fb]].
  assert (Wa : all_wf a) by (eapply all_wf_perm; [apply Permutation_sym; exact Pa | exact W2]).
  assert (Wb : all_wf b) by (eapply all_wf_perm; [apply Permutation_sym; exact Pb | exact W3]).
  apply forall2b_Forall2 in Fb.
  destruct (Permutation_Forall2 (Permutation_sym Pa) Fb) as [b' [Pb' Fb']].
  assert (Wb' : all_wf b') by (eapply all_wf_perm; [exact Pb' | exact Wb]).
  apply (proj2 (bag_eqb_iff l1 l3 W1 W3)). exists b'. split.
  - eapply perm_trans; [apply Permutation_sym; exact Pb' | exact Pb].
  - apply forall2b_Forall2 in Fb'.
    eapply forall2b_trans; [|exact Fa|exact Fb'].
    intros x y z Hx Hy Hz. apply data_eq_trans; auto.
Qed.

Lemma bag_eqb_refl : forall l, bag_eqb data_eq l l = true.
Proof.
  induction l as [|x r IH]; simpl; auto. rewrite data_eq_refl. exact IH.
Qed.
