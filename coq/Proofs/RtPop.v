(* C08: clause 4 -- append(segment) then pop() restores the path.
   Proved for a tail segment that is written after a separator (key, "*", "**",
   bare anchor) in the two situations pop() distinguishes: the tail is in its
   canonical form (the text is cut: the path text is restored exactly), or no
   suffix test matches (the path is rebuilt from the remaining segments: the
   segments are restored). *)
From Coq Require Import List Ascii String ZArith Bool Arith Lia.
From YP Require Import Outcome PyStr Generated PathParser PathPrinter C08Spec RtStep RtSeg RtInt RtRender RtTables RtCanon RtClauses.
Import ListNotations.
Open Scope string_scope.
Open Scope nat_scope.

(* ---- strings ---- *)
Lemma rev_acc_app : forall s a, rev_str_acc s a = rev_str s ++ a.
Proof.
  unfold rev_str. induction s as [|c r IH]; intros a; [reflexivity|]. cbn [rev_str_acc].
  rewrite IH, (IH (String c "")). rewrite app_assoc_s. reflexivity.
Qed.

Lemma rev_str_app a b : rev_str (a ++ b) = rev_str b ++ rev_str a.
Proof.
  induction a as [|c r IH]; [cbn; rewrite app_nil_r_s; reflexivity|].
  cbn [append]. unfold rev_str in *. cbn [rev_str_acc]. rewrite !(rev_acc_app _ (String c "")).
  fold (rev_str (r ++ b)). fold (rev_str r). unfold rev_str. rewrite IH. apply app_assoc_s.
Qed.

Lemma starts_with_app q r : starts_with q (q ++ r) = true.
Proof. induction q as [|c q IH]; [destruct r; reflexivity|]. cbn. rewrite Ascii.eqb_refl. exact IH. Qed.

Lemma ends_with_app a p : ends_with p (a ++ p) = true.
Proof. unfold ends_with. rewrite rev_str_app. apply starts_with_app. Qed.

Lemma length_app_s a b : String.length (a ++ b) = String.length a + String.length b.
Proof. induction a; cbn; [reflexivity | f_equal; assumption]. Qed.

Lemma take_app a b : take (String.length a) (a ++ b) = a.
Proof. induction a; cbn; [destruct b; reflexivity | f_equal; assumption]. Qed.

Lemma cut_suffix a p : take (str_len (a ++ p) - str_len p) (a ++ p) = a.
Proof. unfold str_len. rewrite length_app_s. replace (_ + _ - _) with (String.length a) by lia. apply take_app. Qed.

(* ---- blank texts ---- *)
Lemma has_ns_app a b : has_ns (a ++ b) = (has_ns a || has_ns b)%bool.
Proof. induction a as [|c r IH]; [reflexivity|]. cbn [append has_ns]. rewrite IH. apply orb_assoc. Qed.

Lemma lstrip_head s : lstrip_py s = "" \/ has_ns (lstrip_py s) = true.
Proof.
  induction s as [|c r IH]; [left; reflexivity|]. cbn [lstrip_py].
  destruct (is_space_py c) eqn:E; [exact IH|]. right. cbn [has_ns]. rewrite E. reflexivity.
Qed.

Lemma nonblank_has_ns s : nonblank s = true -> has_ns s = true.
Proof.
  unfold nonblank, strip_py. intros H.
  destruct (lstrip_head (rev_str (lstrip_py s))) as [E|E]; [rewrite E in H; discriminate H|].
  rewrite has_ns_lstrip in E. unfold rev_str in E. rewrite has_ns_rev, has_ns_lstrip in E.
  rewrite orb_false_r in E. exact E.
Qed.

Lemma nonblank_app a b : nonblank a = true -> nonblank (a ++ b) = true.
Proof. intros H. apply has_ns_nonblank. rewrite has_ns_app, (nonblank_has_ns a H). reflexivity. Qed.

(* ---- the text after append ---- *)
Lemma render_go_snoc sepc x : forall l first,
  l <> [] -> render_go sepc first (l ++ [x])
             = render_go sepc first l ++ (if needs_sep x then c1 sepc else "") ++ body sepc x.
Proof.
  induction l as [|y r IH]; intros first Hn; [congruence|]. cbn [app render_go].
  destruct r as [|z r'].
  - cbn [app render_go]. rewrite andb_true_r, !app_nil_r_s, !app_assoc_s. reflexivity.
  - rewrite (IH false) by discriminate. rewrite !app_assoc_s. reflexivity.
Qed.

Lemma render_ref_snoc sp l x :
  l <> [] -> needs_sep x = true ->
  render_ref sp (l ++ [x]) = render_ref sp l ++ c1 (sep_char sp) ++ body (sep_char sp) x.
Proof.
  intros Hn Hs. unfold render_ref. rewrite render_go_snoc by exact Hn. rewrite Hs, !app_assoc_s. reflexivity.
Qed.

Lemma parse_forced_es sp strip T :
  normalize_original T = T -> parse (Forced sp) strip T = parse_es (Some sp) strip T.
Proof. intros H. unfold parse, parse_es. rewrite H. destruct T; reflexivity. Qed.

Lemma infer_sep_text sp T :
  nonblank T = true -> dot_text_ok sp T = true -> (sp = Slash -> exists r, T = String "/"%char r) ->
  infer_sep T = Some sp.
Proof.
  intros Hb Hd Hs. destruct T as [|c r]; [discriminate Hb|]. cbn.
  destruct sp.
  - cbn in Hd. destruct (Ascii.eqb c "/"%char); [discriminate Hd | reflexivity].
  - destruct (Hs eq_refl) as (r' & E). injection E as -> _. reflexivity.
Qed.

Lemma wf_go_snoc : forall l prev x,
  wf_go prev (l ++ [x]) = true ->
  wf_go prev l = true /\ exists prev', wf_seg prev' x = true.
Proof.
  induction l as [|y r IH]; intros prev x H.
  - cbn in H. rewrite andb_true_r in H. split; [reflexivity | eauto].
  - cbn [app wf_go] in H. apply andb_true_iff in H. destruct H as [H1 H2].
    destruct (IH _ _ H2) as [H3 H4]. split; [cbn [wf_go]; rewrite H1, H3; reflexivity | exact H4].
Qed.

Lemma forallb_snoc {A} (f : A -> bool) l x : forallb f (l ++ [x]) = true -> forallb f l = true /\ f x = true.
Proof. rewrite forallb_app. cbn. rewrite andb_true_r. intros H. apply andb_true_iff in H. exact H. Qed.

(* str() of the popped segment alone *)
Definition tail_canon (sp : sep) (x : sseg) : string :=
  body_x (sep_char sp) (restyle (sep_char sp) true (plain_x x)).

Lemma removable_is sp prev x :
  wf_seg prev x = true -> wfc_seg x = true -> needs_sep x = true ->
  stringify (Some sp) [kseg false (sep_char sp) (plain_x x)]
  = (match sp with Slash => "/" | Dot => "" end) ++ tail_canon sp x.
Proof.
  intros Hw Hc Hn. unfold stringify. cbn [sepc_of stringify_go].
  pose proof (stringify_seg_x sp sp true prev (plain_x x) Hw Hc) as H. cbn [negb] in H. rewrite H.
  rewrite andb_false_r, app_nil_r_s. unfold tail_canon. destruct sp; reflexivity.
Qed.

Lemma wf_nonblank sp l : l <> [] -> wf sp l = true -> nonblank (render_ref sp l) = true.
Proof.
  intros Hn Hw. destruct (wf_split _ _ Hw) as [_ Hb]. destruct l; [congruence | exact Hb].
Qed.

Lemma dot_ok_app sp T r : nonblank T = true -> dot_text_ok sp T = true -> dot_text_ok sp (T ++ r) = true.
Proof. intros Hb Hd. destruct sp; [|reflexivity]. destruct T; [discriminate Hb | exact Hd]. Qed.

Section Pop.
Variables (sp : sep) (l : list sseg) (x : sseg).
Notation sepc := (sep_char sp).
Hypothesis Hne : l <> [].
Hypothesis Hwf : wf sp l = true.
Hypothesis Hwfc : wfc sp (l ++ [x]) = true.
Hypothesis Hdot : dot_text_ok sp (render_ref sp l) = true.
Hypothesis Hsep : needs_sep x = true.

Let T := render_ref sp l.
Let B := body sepc x.
Let NOW := T ++ c1 sepc ++ B.
Let kx := kseg false sepc (plain_x x).

Lemma T_nonblank : nonblank T = true.
Proof. apply wf_nonblank; assumption. Qed.

Lemma T_slash : sp = Slash -> exists r, T = String "/"%char r.
Proof. intros ->. eexists. reflexivity. Qed.

Lemma NOW_is : NOW = render_ref sp (l ++ [x]).
Proof. unfold NOW, T, B. rewrite render_ref_snoc by assumption. reflexivity. Qed.

Lemma appended :
  y_append B (y_new T) = mkyp NOW None [] [] "".
Proof.
  unfold y_new, y_set_original. rewrite (normalize_nonblank _ T_nonblank).
  unfold y_append, y_separator. cbn [y_sep y_orig y_unesc y_esc y_strd].
  rewrite (infer_sep_text sp T T_nonblank Hdot T_slash).
  assert (String.length T <? 1 = false) as ->.
  { pose proof T_nonblank as Hb. destruct T; [discriminate Hb | reflexivity]. }
  unfold y_set_original. fold NOW.
  change (str1 sepc) with (c1 sepc). fold NOW.
  rewrite (normalize_nonblank NOW) by (apply nonblank_app; exact T_nonblank). reflexivity.
Qed.

Lemma NOW_dot : dot_text_ok sp NOW = true.
Proof. unfold NOW. apply dot_ok_app; [exact T_nonblank | exact Hdot]. Qed.

Lemma NOW_parse : parse_es (Some sp) false NOW = Ok (usegs sp l ++ [kx])%list.
Proof.
  destruct (wfc_split _ _ Hwfc) as [Hw _].
  rewrite <- parse_forced_es by (apply normalize_nonblank; apply nonblank_app; exact T_nonblank).
  rewrite NOW_is, (parse_forced_unescaped sp _ Hw). unfold usegs. rewrite !map_app. reflexivity.
Qed.

Lemma x_wf : (exists prev, wf_seg prev x = true) /\ wfc_seg x = true.
Proof.
  destruct (wfc_split _ _ Hwfc) as [Hw Hc]. destruct (wf_split _ _ Hw) as [Hgo _].
  destruct (wf_go_snoc _ _ _ Hgo) as [_ Hx]. destruct (forallb_snoc _ _ _ Hc) as [_ Hcx]. split; assumption.
Qed.

Definition prefixed_text : string := c1 sepc ++ tail_canon sp x.
Definition removable_text : string := (match sp with Slash => "/" | Dot => "" end) ++ tail_canon sp x.

(* pop() up to the choice of branch *)
Lemma pop_unfold :
  y_pop (mkyp NOW None [] [] "")
  = (Ok kx,
     let p2 := mkyp NOW (Some sp) (usegs sp l ++ [kx])%list [] "" in
     if ends_with prefixed_text NOW
     then y_set_original (take (str_len NOW - str_len prefixed_text) NOW) p2
     else if ends_with removable_text NOW
     then y_set_original (take (str_len NOW - str_len removable_text) NOW) p2
     else if sepopt_eqb (Some sp) (Some Slash) && ends_with (drop 1 removable_text) NOW
     then y_set_original (take (str_len NOW - str_len removable_text + 1) NOW) p2
     else y_set_original (stringify (Some sp) (removelast (usegs sp l ++ [kx])%list)) p2).
Proof.
  unfold y_pop, y_unescaped. cbn [y_unesc seglist_nonempty]. unfold y_separator. cbn [y_sep y_orig y_unesc y_esc y_strd].
  assert (Hinf : infer_sep NOW = Some sp).
  { apply infer_sep_text; [apply nonblank_app; exact T_nonblank | exact NOW_dot |].
    intros ->. eexists. reflexivity. }
  rewrite Hinf, NOW_parse. cbn [y_sep y_orig y_unesc y_esc y_strd].
  rewrite rev_app_distr. cbn [rev app].
  destruct x_wf as [[prev Hx] Hcx].
  pose proof (removable_is sp prev x Hx Hcx Hsep) as Hr. fold kx in Hr. rewrite Hr. fold removable_text.
  assert (Hp : (if sepopt_eqb (Some sp) (Some Slash) then removable_text else str1 (sepc_of (Some sp)) ++ removable_text)
               = prefixed_text).
  { unfold removable_text, prefixed_text. destruct sp; reflexivity. }
  rewrite Hp. reflexivity.
Qed.

(* the tail is written in its canonical form: the text is cut *)
Theorem append_pop_cut :
  String.eqb B (tail_canon sp x) = true ->
  exists p', y_pop (y_append B (y_new T)) = (Ok kx, p') /\ y_orig p' = T /\ fst (y_escaped p') = Ok (segs_of l).
Proof.
  intros Hb. apply String.eqb_eq in Hb. rewrite appended, pop_unfold. cbv zeta.
  assert (Hn : NOW = T ++ prefixed_text) by (unfold NOW, prefixed_text; rewrite Hb; reflexivity).
  assert (He : ends_with prefixed_text NOW = true) by (rewrite Hn; apply ends_with_app).
  assert (Hcut : take (str_len NOW - str_len prefixed_text) NOW = T) by (rewrite Hn; apply cut_suffix).
  rewrite He, Hcut. unfold y_set_original. rewrite (normalize_nonblank _ T_nonblank).
  eexists. split; [reflexivity|]. split; [reflexivity|].
  unfold y_escaped. cbn [y_esc seglist_nonempty]. unfold y_separator. cbn [y_sep y_orig y_unesc y_esc y_strd].
  rewrite (infer_sep_text sp T T_nonblank Hdot T_slash).
  rewrite <- parse_forced_es by (apply normalize_nonblank; exact T_nonblank).
  unfold T. rewrite (parse_render sp l Hwf). reflexivity.
Qed.

(* no suffix test matches: the path is rebuilt from the remaining segments *)
Definition no_suffix_match : bool :=
  negb (ends_with prefixed_text NOW) && negb (ends_with removable_text NOW)
  && negb (sepopt_eqb (Some sp) (Some Slash) && ends_with (drop 1 removable_text) NOW).

Theorem append_pop_rebuild :
  forallb wfc_seg l = true ->
  no_suffix_match = true ->
  dot_text_ok sp (canon_of sp sp l) = true -> (sp = Dot -> nonblank (canon_of sp sp l) = true) ->
  exists p', y_pop (y_append B (y_new T)) = (Ok kx, p') /\ y_orig p' = canon_of sp sp l
             /\ fst (y_escaped p') = Ok (segs_of l).
Proof.
  intros Hc Hm Hd Hnb. rewrite appended, pop_unfold. cbv zeta.
  unfold no_suffix_match in Hm. apply andb_true_iff in Hm. destruct Hm as [Hm H3].
  apply andb_true_iff in Hm. destruct Hm as [H1 H2].
  apply negb_true_iff in H1, H2, H3. rewrite H1, H2, H3.
  rewrite removelast_last.
  assert (Hwfc_l : wfc sp l = true) by (unfold wfc; rewrite Hwf, Hc; reflexivity).
  pose proof (canon_is sp sp l Hwfc_l Hdot) as Hcan. unfold canon in Hcan.
  rewrite (parse_auto_unescaped sp l Hwf Hdot) in Hcan. cbn [bind] in Hcan. injection Hcan as Hcan.
  rewrite Hcan.
  assert (Hnb' : nonblank (canon_of sp sp l) = true).
  { destruct sp eqn:Es; [apply Hnb; reflexivity | apply nonblank_slash]. }
  eexists. split; [reflexivity|]. unfold y_set_original. rewrite (normalize_nonblank _ Hnb').
  split; [reflexivity|].
  unfold y_escaped. cbn [y_esc seglist_nonempty]. unfold y_separator. cbn [y_sep y_orig y_unesc y_esc y_strd].
  pose proof (canonical_auto sp sp l _ Hwfc_l Hdot (canon_is sp sp l Hwfc_l Hdot)) as Hp.
  rewrite parse_auto_es, (normalize_nonblank _ Hnb') in Hp. rewrite Hp; [reflexivity | | exact Hd].
  intros _. rewrite Hnb'. apply orb_true_r.
Qed.
End Pop.

Definition tail_canonical (sp : sep) (x : sseg) : bool :=
  String.eqb (body (sep_char sp) x) (tail_canon sp x).

(* both situations in one statement *)
Theorem append_pop sp l x :
  l <> [] -> wfc sp l = true -> wfc sp (l ++ [x]) = true ->
  dot_text_ok sp (render_ref sp l) = true -> needs_sep x = true ->
  (tail_canonical sp x || no_suffix_match sp l x) = true ->
  dot_text_ok sp (canon_of sp sp l) = true -> (sp = Dot -> nonblank (canon_of sp sp l) = true) ->
  exists sg p', y_pop (y_append (body (sep_char sp) x) (y_new (render_ref sp l))) = (Ok sg, p')
                /\ sg = kseg false (sep_char sp) (plain_x x)
                /\ fst (y_escaped p') = Ok (segs_of l).
Proof.
  intros Hne Hwfc Hwfc2 Hd Hs Hg Hd2 Hnb. destruct (wfc_split _ _ Hwfc) as [Hwf Hc].
  destruct (tail_canonical sp x) eqn:Et.
  - destruct (append_pop_cut sp l x Hne Hwf Hwfc2 Hd Hs Et) as (p' & H1 & _ & H3). eauto.
  - cbn [orb] in Hg.
    destruct (append_pop_rebuild sp l x Hne Hwf Hwfc2 Hd Hs Hc Hg Hd2 Hnb) as (p' & H1 & _ & H3). eauto.
Qed.
