(* C04 / C01: the interface between the read side and the delete loop -- the
   coordinates the required query of Model/Eval.v gathers, in the vocabulary of
   Model/Mutate.v and Spec/C04spec.v. *)
From Coq Require Import List Ascii String ZArith NArith Bool Arith.
From YP Require Import Outcome PyStr PyVal Doc PathParser Searches Eval Mutate C04spec C04lists C04delete C04plan.
Import ListNotations.

(* NodeCoords.parent (as an object identity) and NodeCoords.parentref of a result *)
Definition coord_of (x : rval) : pcoord :=
  match x with
  | RCoords _ par rf _ _ =>
      mkpc (match par with Some (RNode p) => Some (node_oid p) | _ => None end)
           (match rf with Some r => r | None => PNone end)
  | _ => mkpc None PNone
  end.

Section Gather.
Variable lit : string -> outcome litres.
Variable re_search : string -> string -> outcome reres.
Variable nstr : node -> string.
Variable vstr : list rval -> string.
Variable kw_handler : bool -> keyword -> string -> rval -> ctx -> gen rval.
Variable creator : list pseg -> nat -> rval -> ctx -> gen rval.

(* what Processor.delete_nodes gathers for a path: list(_get_required_nodes(...)) *)
Definition gathered (p : ppath) (d : node) : list pcoord :=
  map coord_of (fst (get_required lit re_search nstr vstr kw_handler creator p d)).

Theorem delete_gathered_exact p d :
  wf_doc d ->
  del_all_located d (map pc_pair (gathered p d)) = true ->
  delete_nodes (map (fun c => CNode c false) (gathered p d)) d
  = MDone (delete_spec d (map pc_pair (gathered p d))).
Proof. intros Hwf Ho. apply delete_exact_plain; assumption. Qed.

End Gather.
