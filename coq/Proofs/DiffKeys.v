(* The join of two keyed lists modulo Python key equality.

   A mapping (set) of a loaded document is a list of items with pairwise
   different keys, where "different" is Python's == on scalars (1, 1.0 and
   True are one key).  _diff_dicts / _diff_sets split the two item lists into
   "shared" (visited in right-hand order, the left partner found by key),
   "deleted" (left keys absent on the right) and "added".  The lemmas here say
   that this split loses and duplicates nothing:
     [join_perm]     left items  ~  (left partners of right items) ++ deleted
     [part_perm]     right items ~  shared right items ++ added
     [shared_count]  both "shared" parts have the same number of items. *)
From Coq Require Import List Ascii String ZArith NArith QArith Bool Arith Lia Permutation.
From YP Require Import Outcome PyStr PyVal Doc Diff C06Spec DiffBase DiffEq.
Import ListNotations.
Close Scope Q_scope.
Open Scope nat_scope.

(* ---- == on scalars is an equivalence ---- *)
Lemma py_eq_sym : forall x y, py_eq x y = true -> py_eq y x = true.
Proof. intros x y H. eapply py_eq_eucl; [exact H | apply py_eq_refl]. Qed.

Lemma py_eq_trans : forall x y z, py_eq x y = true -> py_eq y z = true -> py_eq x z = true.
Proof. intros x y z H1 H2. eapply py_eq_eucl; [apply py_eq_sym; exact H1 | exact H2]. Qed.

Lemma py_eq_sym_b : forall x y, py_eq x y = py_eq y x.
Proof.
  intros x y. destruct (py_eq x y) eqn:E.
  - symmetry. apply py_eq_sym; exact E.
  - destruct (py_eq y x) eqn:E2; auto. apply py_eq_sym in E2. congruence.
Qed.

Lemma py_eq_congr_r : forall a b x, py_eq a b = true -> py_eq x a = py_eq x b.
Proof.
  intros a b x H. destruct (py_eq x a) eqn:E.
  - symmetry. eapply py_eq_trans; eauto.
  - destruct (py_eq x b) eqn:E2; auto.
    assert (py_eq x a = true) by (eapply py_eq_trans; [exact E2 | apply py_eq_sym; exact H]). congruence.
Qed.

Lemma py_eq_congr_l : forall a b x, py_eq a b = true -> py_eq a x = py_eq b x.
Proof. intros. rewrite (py_eq_sym_b a x), (py_eq_sym_b b x). apply py_eq_congr_r; auto. Qed.

(* ---- keyed lists ---- *)
Section Keyed.
  Context {A : Type} (ka : A -> pyval).

  Definition hask (x : pyval) (l : list A) : bool := existsb (fun a => py_eq (ka a) x) l.
  Definition sel (x : pyval) (l : list A) : list A := filter (fun a => py_eq (ka a) x) l.
  Definition findk (x : pyval) (l : list A) : option A := find (fun a => py_eq (ka a) x) l.

  Lemma hask_congr : forall x y l, py_eq x y = true -> hask x l = hask y l.
  Proof.
    intros x y l H. unfold hask. induction l as [|a r IH]; simpl; auto.
    rewrite (py_eq_congr_r _ _ (ka a) H), IH. reflexivity.
  Qed.

  Lemma findk_congr : forall x y l, py_eq x y = true -> findk x l = findk y l.
  Proof.
    intros x y l H. unfold findk. induction l as [|a r IH]; simpl; auto.
    rewrite (py_eq_congr_r _ _ (ka a) H), IH. reflexivity.
  Qed.

  Lemma hask_in : forall l a, In a l -> hask (ka a) l = true.
  Proof.
    intros l a H. unfold hask. apply existsb_exists. exists a. split; auto. apply py_eq_refl.
  Qed.

  Lemma hask_findk : forall x l, hask x l = match findk x l with Some _ => true | None => false end.
  Proof.
    intros x l. unfold hask, findk. induction l as [|a r IH]; simpl; auto.
    destruct (py_eq (ka a) x); simpl; auto.
  Qed.

  Lemma nodup_fresh : forall a l, nodup_vals (map ka (a :: l)) = true ->
    forall b, In b l -> py_eq (ka a) (ka b) = false.
  Proof.
    intros a l H b Hb. simpl in H. apply andb_true_iff in H. destruct H as [H _].
    apply negb_true_iff in H. destruct (py_eq (ka a) (ka b)) eqn:E; auto.
    assert (existsb (py_eq (ka a)) (map ka l) = true).
    { apply existsb_exists. exists (ka b). split; auto. apply in_map; auto. }
    congruence.
  Qed.

  Lemma nodup_tail : forall a l, nodup_vals (map ka (a :: l)) = true -> nodup_vals (map ka l) = true.
  Proof. intros a l H. simpl in H. apply andb_true_iff in H. tauto. Qed.

  (* at most one item per key *)
  Lemma sel_findk : forall x l, nodup_vals (map ka l) = true ->
    sel x l = match findk x l with Some a => [a] | None => [] end.
  Proof.
    intros x l. unfold sel, findk. induction l as [|a r IH]; simpl; intros H; auto.
    pose proof (nodup_tail _ _ H) as Hr.
    destruct (py_eq (ka a) x) eqn:E.
    - f_equal. rewrite (IH Hr).
      destruct (find (fun a0 => py_eq (ka a0) x) r) as [b|] eqn:F; auto.
      apply find_some in F. destruct F as [Hb Eb].
      pose proof (nodup_fresh _ _ H b Hb) as Fr.
      assert (py_eq (ka a) (ka b) = true) by (eapply py_eq_trans; [exact E | apply py_eq_sym; exact Eb]).
      congruence.
    - apply IH; auto.
  Qed.

  Lemma findk_in : forall l a, nodup_vals (map ka l) = true -> In a l -> findk (ka a) l = Some a.
  Proof.
    intros l a. unfold findk. induction l as [|b r IH]; simpl; intros H Hin; [contradiction|].
    destruct Hin as [->|Hin].
    - rewrite py_eq_refl. reflexivity.
    - rewrite (nodup_fresh _ _ H a Hin). apply IH; [exact (nodup_tail _ _ H) | exact Hin].
  Qed.

  Lemma findk_some : forall x l a, findk x l = Some a -> In a l /\ py_eq (ka a) x = true.
  Proof. intros x l a H. apply find_some in H. exact H. Qed.

  Lemma sel_length : forall x l, nodup_vals (map ka l) = true ->
    List.length (sel x l) = if hask x l then 1 else 0.
  Proof.
    intros x l H. rewrite (sel_findk x l H), hask_findk. destruct (findk x l); reflexivity.
  Qed.
End Keyed.

Lemma filter_split {A} (p q : A -> bool) : forall l,
  Permutation (filter q l) (filter (fun a => p a && q a) l ++ filter (fun a => negb (p a) && q a) l).
Proof.
  induction l as [|a r IH]; simpl; auto.
  destruct (q a), (p a); simpl; auto.
  apply Permutation_cons_app. exact IH.
Qed.

Lemma part_perm {A} (p : A -> bool) : forall l,
  Permutation l (filter p l ++ filter (fun a => negb (p a)) l).
Proof.
  induction l as [|a r IH]; simpl; auto.
  destruct (p a); simpl; auto. apply Permutation_cons_app. exact IH.
Qed.

Lemma filter_ext_in {A} (p q : A -> bool) : forall l, (forall a, In a l -> p a = q a) -> filter p l = filter q l.
Proof.
  induction l as [|a r IH]; simpl; intros H; auto.
  rewrite (H a (or_introl eq_refl)), IH; auto.
Qed.

Lemma filter_true {A} (p : A -> bool) : forall l, (forall a, In a l -> p a = true) -> filter p l = l.
Proof.
  induction l as [|a r IH]; simpl; intros H; auto.
  rewrite (H a (or_introl eq_refl)), IH; auto.
Qed.

Section Join.
  Context {A B : Type} (ka : A -> pyval) (kb : B -> pyval).

  (* the left items whose key is absent on the right *)
  Definition dels_of (l : list A) (r : list B) : list A := filter (fun a => negb (hask kb (ka a) r)) l.
  (* the left partners of the right items, in right-hand order *)
  Definition shared_of (l : list A) (r : list B) : list A := flat_map (fun b => sel ka (kb b) l) r.

  Theorem join_perm : forall l r, nodup_vals (map kb r) = true ->
    Permutation l (shared_of l r ++ dels_of l r).
  Proof.
    intros l r. unfold shared_of, dels_of. induction r as [|b r IH]; intros Hn.
    - simpl. rewrite filter_true; auto.
    - pose proof (nodup_tail kb _ _ Hn) as Hr. specialize (IH Hr).
      simpl flat_map.
      pose proof (filter_split (fun a => py_eq (ka a) (kb b)) (fun a => negb (hask kb (ka a) r)) l) as S.
      assert (E1 : filter (fun a => py_eq (ka a) (kb b) && negb (hask kb (ka a) r)) l = sel ka (kb b) l).
      { unfold sel. apply filter_ext_in. intros a _.
        destruct (py_eq (ka a) (kb b)) eqn:E; simpl; auto.
        rewrite (hask_congr kb _ _ r E).
        unfold hask. destruct (existsb (fun a0 => py_eq (kb a0) (kb b)) r) eqn:X; auto.
        apply existsb_exists in X. destruct X as [b' [Hb' Eb']].
        pose proof (nodup_fresh kb _ _ Hn b' Hb') as F. rewrite py_eq_sym_b in F. congruence. }
      assert (E2 : filter (fun a => negb (py_eq (ka a) (kb b)) && negb (hask kb (ka a) r)) l =
                   filter (fun a => negb (hask kb (ka a) (b :: r))) l).
      { apply filter_ext_in. intros a _. unfold hask. simpl.
        rewrite (py_eq_sym_b (kb b) (ka a)). rewrite negb_orb. reflexivity. }
      cbv beta in S. rewrite E1, E2 in S.
      eapply perm_trans; [exact IH|].
      rewrite <- app_assoc.
      eapply perm_trans; [apply Permutation_app_head; exact S|].
      rewrite !app_assoc. apply Permutation_app_tail. apply Permutation_app_comm.
  Qed.

  (* both "shared" parts have the same number of items *)
  Theorem shared_count : forall l r, nodup_vals (map ka l) = true ->
    List.length (shared_of l r) = List.length (filter (fun b => hask ka (kb b) l) r).
  Proof.
    intros l r Hl. unfold shared_of. induction r as [|b r IH]; simpl; auto.
    rewrite app_length, IH, (sel_length ka _ _ Hl).
    destruct (hask ka (kb b) l); simpl; auto.
  Qed.

  Corollary join_lengths : forall l r,
    nodup_vals (map ka l) = true -> nodup_vals (map kb r) = true ->
    List.length l + List.length (filter (fun b => negb (hask ka (kb b) l)) r) =
    List.length r + List.length (dels_of l r).
  Proof.
    intros l r Hl Hr.
    pose proof (Permutation_length (join_perm l r Hr)) as P1.
    pose proof (Permutation_length (part_perm (fun b => hask ka (kb b) l) r)) as P2.
    rewrite app_length in P1, P2. rewrite (shared_count l r Hl) in P1. lia.
  Qed.
End Join.

(* ---- the model's lookups on well-formed mappings and sets ---- *)
Definition kkey (kv : node * node) : pyval := key_val (fst kv).

Lemma map_get_findk : forall kvs k,
  forallb (fun kv => plain_leaf (fst kv)) kvs = true -> plain_leaf k = true ->
  map_get k kvs = option_map snd (findk kkey (key_val k) kvs).
Proof.
  unfold map_get, findk. induction kvs as [|kv r IH]; simpl; intros k Hp Hk; auto.
  apply andb_true_iff in Hp. destruct Hp as [Hkv Hr].
  rewrite (node_eq_plain _ _ Hkv Hk). unfold kkey at 1.
  destruct (py_eq (key_val (fst kv)) (key_val k)); simpl; auto.
Qed.

Lemma map_has_hask : forall kvs k,
  forallb (fun kv => plain_leaf (fst kv)) kvs = true -> plain_leaf k = true ->
  map_has k kvs = hask kkey (key_val k) kvs.
Proof.
  intros kvs k Hp Hk. unfold map_has. rewrite (map_get_findk _ _ Hp Hk), hask_findk.
  destruct (findk kkey (key_val k) kvs); reflexivity.
Qed.

Lemma set_has_hask : forall els k, forallb plain_leaf els = true -> plain_leaf k = true ->
  set_has k els = hask key_val (key_val k) els.
Proof.
  unfold set_has, hask. induction els as [|e r IH]; simpl; intros k Hp Hk; auto.
  apply andb_true_iff in Hp. destruct Hp as [He Hr].
  rewrite (node_eq_plain _ _ He Hk), IH; auto.
Qed.

Lemma set_find_findk : forall els k, forallb plain_leaf els = true -> plain_leaf k = true ->
  set_find k els = match findk key_val (key_val k) els with Some e => e | None => none_node end.
Proof.
  unfold set_find, findk. induction els as [|e r IH]; simpl; intros k Hp Hk; auto.
  apply andb_true_iff in Hp. destruct Hp as [He Hr].
  rewrite (node_eq_plain _ _ He Hk).
  destruct (py_eq (key_val e) (key_val k)); auto.
Qed.

Lemma assoc_key_findk : forall kvs x, forallb (fun kv => plain_leaf (fst kv)) kvs = true ->
  assoc_key x kvs = option_map snd (findk kkey x kvs).
Proof.
  unfold findk. induction kvs as [|[kn v] r IH]; simpl; intros x Hp; auto.
  apply andb_true_iff in Hp. destruct Hp as [Hkn Hr].
  destruct (plain_leaf_inv _ Hkn) as [i [w [-> _]]]. unfold kkey at 1. simpl.
  destruct (py_eq w x); simpl; auto.
Qed.

Lemma find_member_findk : forall els x, forallb plain_leaf els = true ->
  find_member x els = findk key_val x els.
Proof.
  unfold findk. induction els as [|e r IH]; simpl; intros x Hp; auto.
  apply andb_true_iff in Hp. destruct Hp as [He Hr].
  destruct (plain_leaf_inv _ He) as [i [w [-> _]]]. simpl.
  destruct (py_eq w x); simpl; auto.
Qed.

Lemma nodup_map_kkey : forall kvs, map (fun kv => leaf_value (fst kv)) kvs = map kkey kvs.
Proof. reflexivity. Qed.

(* ---- uniqueness and the symmetric reading of a key-wise correspondence ---- *)
Lemma keyed_uniq {A} (ka : A -> pyval) : forall l x y,
  nodup_vals (map ka l) = true -> In x l -> In y l -> py_eq (ka x) (ka y) = true -> x = y.
Proof.
  intros l x y Hn Hx Hy E.
  pose proof (findk_in ka l x Hn Hx) as Fx. pose proof (findk_in ka l y Hn Hy) as Fy.
  rewrite (findk_congr ka _ _ l E) in Fx. congruence.
Qed.

Lemma filter_nil_iff {A} (p : A -> bool) : forall l, filter p l = [] <-> (forall x, In x l -> p x = false).
Proof.
  induction l as [|a r IH]; simpl; split; intros H; auto.
  - intros x []. 
  - destruct (p a) eqn:E; [discriminate|]. intros x [<-|Hx]; auto. apply IH; auto.
  - rewrite (H a (or_introl eq_refl)). apply IH. intros x Hx. apply H; auto.
Qed.

Lemma keyed_sym {A B} (ka : A -> pyval) (kb : B -> pyval) (P : A -> B -> Prop) : forall l r,
  nodup_vals (map ka l) = true -> nodup_vals (map kb r) = true -> List.length l = List.length r ->
  (forall a, In a l -> exists b, In b r /\ py_eq (ka a) (kb b) = true /\ P a b) ->
  forall b, In b r -> exists a, In a l /\ py_eq (ka a) (kb b) = true /\ P a b.
Proof.
  intros l r Hl Hr Hlen H b Hb.
  assert (D : dels_of ka kb l r = []).
  { unfold dels_of. apply filter_nil_iff. intros a Ha. apply negb_false_iff.
    destruct (H a Ha) as [b' [Hb' [E _]]]. unfold hask. apply existsb_exists. exists b'. split; auto.
    apply py_eq_sym; auto. }
  pose proof (join_lengths ka kb l r Hl Hr) as J. rewrite D in J. simpl in J.
  assert (Ad : filter (fun b0 => negb (hask ka (kb b0) l)) r = []).
  { destruct (filter (fun b0 => negb (hask ka (kb b0) l)) r); auto. simpl in J. lia. }
  pose proof (proj1 (filter_nil_iff _ r) Ad b Hb) as Hh. apply negb_false_iff in Hh.
  rewrite hask_findk in Hh. destruct (findk ka (kb b) l) as [a|] eqn:F; try discriminate.
  apply findk_some in F. destruct F as [Ha E].
  destruct (H a Ha) as [b' [Hb' [E' Pab]]].
  assert (b' = b).
  { apply (keyed_uniq kb r b' b Hr Hb' Hb). eapply py_eq_trans; [apply py_eq_sym; exact E' | exact E]. }
  subst b'. exists a. auto.
Qed.
