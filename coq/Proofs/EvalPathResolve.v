(* C02, the clause "evaluating the reported path against the same document
   returns that node and no other" for EVERY real result of a required query
   of the C01 fragment: Proofs/EvalPathAt.v (the result IS the straight walk's
   NodeCoords, its path is build_orig of its location) composed with
   Proofs/ResolveMain.v (that text, fed back, yields exactly those NodeCoords). *)
From Coq Require Import List Ascii String ZArith NArith Bool Arith Lia.
From YP Require Import Outcome PyStr PyVal Doc Generated PathParser PathPrinter Searches Eval SpecC01
  EvalLocAll C08Spec RtCanon PathBuild ResolveEval ResolveMain SpecC02 EvalPathAt.
Import ListNotations.
Open Scope string_scope.
Open Scope nat_scope.

Section EveryResult.
Variable lit : string -> outcome litres.
Variable re_search : string -> string -> outcome reres.
Variable nstr : node -> string.
Variable vstr : list rval -> string.
Variable kw_handler : bool -> keyword -> string -> rval -> ctx -> gen rval.
Variable creator : list pseg -> nat -> rval -> ctx -> gen rval.
Notation GR := (get_required lit re_search nstr vstr kw_handler creator).

(* the reported path as it is (`.original`, what a caller hands back unchanged) *)
Theorem every_reported_path_resolves segs d m par rf path anc f :
  c02_doc_ok d = true ->
  c01_frag (PPath segs) = true -> slices_last segs = true -> c02_path_plain segs = true ->
  In (RCoords (RNode m) par rf path anc) (fst (GR (PPath segs) d)) ->
  pb_safe Dot d (anc_loc anc) = true ->
  exists p, prepare (S f) path = Ok p /\ GR p d = ([RCoords (RNode m) par rf path anc], Done).
Proof.
  intros Hd Hfr Hsl Hpl Hin Hs.
  destruct (reported_path_is_built lit re_search nstr vstr kw_handler creator segs d m par rf path anc Hd Hfr Hsl Hpl Hin)
    as (Hl & Hp & Hx).
  destruct (resolve_query_orig lit re_search nstr vstr kw_handler creator d (anc_loc anc) m f Hl Hs) as (p & H1 & H2).
  exists p. split; [rewrite Hp; exact H1 | rewrite Hx; exact H2].
Qed.

(* str() of the reported path with its separator set to either notation *)
Theorem every_reported_path_resolves_canon segs d m par rf path anc (sp' : sep) f :
  c02_doc_ok d = true ->
  c01_frag (PPath segs) = true -> slices_last segs = true -> c02_path_plain segs = true ->
  In (RCoords (RNode m) par rf path anc) (fst (GR (PPath segs) d)) ->
  pb_safe Dot d (anc_loc anc) = true -> pb_safe sp' d (anc_loc anc) = true ->
  exists t p, canon sp' path = Ok t /\ prepare (S f) t = Ok p
              /\ GR p d = ([RCoords (RNode m) par rf path anc], Done).
Proof.
  intros Hd Hfr Hsl Hpl Hin Hs Hs'.
  destruct (reported_path_is_built lit re_search nstr vstr kw_handler creator segs d m par rf path anc Hd Hfr Hsl Hpl Hin)
    as (Hl & Hp & Hx).
  destruct (resolve_query_canon lit re_search nstr vstr kw_handler creator sp' d (anc_loc anc) m f Hl Hs Hs')
    as (t & p & H0 & H1 & H2).
  exists t, p. split; [rewrite Hp; exact H0|]. split; [exact H1 | rewrite Hx; exact H2].
Qed.

End EveryResult.
