(* C17, second part: eyaml-rotate-keys' dump failure stated precisely (with / without
   --backup), and the implicit close() of the `with` blocks as a second failing call. *)
From Coq Require Import List Bool Arith Lia.
From YP Require Import SaveProtocol SaveCli C17Spec SaveProofs.
Import ListNotations.
Import Sv Sc.

(* ---- eyaml-rotate-keys: what a failing dump does ------------------------------------------- *)

(* with --backup: no restore (unlike yaml-set); the target stays truncated / half written, the
   .bak taken a moment ago holds the original bytes; traceback *)
Lemma rotate_dump_fault_with_backup : forall ft s,
  get s Target = Some Orig -> at_k ft = length (backup_ops s) + 1 ->
  let o := save (CRotate true true) (Some ft) s in
  get (o_fs o) Target = Some Partial /\ get (o_fs o) Bak = Some Orig /\ o_status o = SCrash
  /\ get (o_fs o) Output = get s Output.
Proof.
  intros [k m kd] [t b o tm] Ht Hk; simpl in Ht; subst t. simpl in Hk.
  destruct b as [c|]; simpl in Hk; subst k; destruct m; vm_compute; repeat split.
Qed.

(* without --backup: the file is lost, whatever the mode and the class of the failure *)
Lemma rotate_dump_fault_without_backup : forall m kd s,
  get s Target = Some Orig ->
  let o := save (CRotate false true) (Some (mkfault 1 m kd)) s in
  get (o_fs o) Target = Some Partial /\ get (o_fs o) Bak = get s Bak /\ o_status o = SCrash
  /\ o_trace o = [OpenTrunc Target; Dump Target true].
Proof.
  intros m kd [t b o tm] Ht; simpl in Ht; subst t. destruct m; vm_compute; repeat split.
Qed.

Lemma rotate_no_backup_losses : forall f s,
  get s Target = Some Orig -> get s Bak <> Some Orig ->
  (failed (o_status (save (CRotate false true) f s)) /\ ~ one_intact_copy (o_fs (save (CRotate false true) f s))
   <-> exists ft, f = Some ft /\ ((at_k ft = 0 /\ f_mode ft = Mid) \/ at_k ft = 1)).
Proof.
  intros f [t b o tm] Ht Hb; simpl in Ht, Hb; subst t.
  split.
  - intros [Hf H]. destruct f as [[k m kd]|].
    + destruct k as [|[|k]].
      * destruct m; [exfalso; apply H; left; reflexivity|]. eexists; split; [reflexivity | left; split; reflexivity].
      * eexists; split; [reflexivity | right; reflexivity].
      * exfalso. apply Hf. reflexivity.
    + exfalso. apply Hf. reflexivity.
  - intros [[k m kd] [-> [[Hk Hm]|Hk]]]; simpl in Hk; try (simpl in Hm; subst m); subst k.
    + split; [discriminate|]. intros [H|H]; [vm_compute in H; discriminate H | vm_compute in H; apply (Hb H)].
    + split; [destruct m; discriminate|]. intros [H|H]; destruct m; vm_compute in H; try discriminate H; apply (Hb H).
Qed.

(* ---- the close() of the `with` block as a call of its own -------------------------------------- *)
Definition is_writer (o : op) : bool := match o with WriteText _ | Dump _ _ => true | _ => false end.
Definition no_writer (l : list op) : bool := forallb (fun o => negb (is_writer o)) l.

Lemma closing_handle_cons : forall o tr, tr <> [] -> closing_handle (o :: tr) = closing_handle tr.
Proof. intros o [|x tr] H; [contradiction|]. unfold closing_handle. reflexivity. Qed.

Lemma closing_handle_app : forall tr0 tr, tr <> [] -> closing_handle (tr0 ++ tr) = closing_handle tr.
Proof.
  induction tr0 as [|o tr0 IH]; intros tr H; [reflexivity|].
  simpl. rewrite closing_handle_cons; [apply IH; exact H|]. destruct tr0; [exact H | discriminate].
Qed.

Lemma closing_handle_single : forall o, is_writer o = false -> closing_handle [o] = None.
Proof. intros [] H; try discriminate H; reflexivity. Qed.

Lemma run_trace_nonempty : forall l f k s, l <> [] -> r_trace (run_until_fault f k l s) <> [].
Proof.
  intros [|o l] f k s H; [contradiction|]. simpl.
  destruct f as [ft|]; [destruct (Nat.eqb (at_k ft) k); [discriminate|]|];
    destruct (exec o s); discriminate.
Qed.

Lemma run_trace_incl : forall l f k s o, In o (r_trace (run_until_fault f k l s)) -> In o l.
Proof.
  induction l as [|x l IH]; intros f k s o H; [destruct H|].
  simpl in H. destruct f as [ft|].
  - destruct (Nat.eqb (at_k ft) k); simpl in H; [destruct H as [<-|[]]; left; reflexivity|].
    destruct (exec x s) as [s'|]; simpl in H.
    + destruct H as [<-|H]; [left; reflexivity | right; eapply IH; exact H].
    + destruct H as [<-|[]]; left; reflexivity.
  - destruct (exec x s) as [s'|]; simpl in H.
    + destruct H as [<-|H]; [left; reflexivity | right; eapply IH; exact H].
    + destruct H as [<-|[]]; left; reflexivity.
Qed.

Lemma last_in : forall (A : Type) (l : list A) d, l <> [] -> In (last l d) l.
Proof.
  induction l as [|x l IH]; intros d H; [contradiction|].
  destruct l as [|y l]; [left; reflexivity|]. right. apply IH. discriminate.
Qed.

(* the handle being closed belongs to a write / dump of the list *)
Lemma closing_handle_in : forall tr r, closing_handle tr = Some r ->
  exists o, In o tr /\ is_writer o = true /\ damages r o = true.
Proof.
  intros tr r H. unfold closing_handle in H.
  destruct tr as [|x tr]; [discriminate H|].
  pose proof (last_in _ (x :: tr) (Exists Target) ltac:(discriminate)) as Hin.
  destruct (last (x :: tr) (Exists Target)) as [a|a|a b| |a|a b|a|a ok|ok|a] eqn:E; try discriminate H;
    inversion H; subst; eexists; (split; [exact Hin|]); split; try reflexivity; simpl; apply role_eqb_refl.
Qed.

Definition close_fs (m : option fmode) (tr : list op) (s : fs) : fs := o_fs (close_out m (mkout s tr SOk)).

Lemma close_fs_spares : forall m tr s r,
  (forall r', closing_handle tr = Some r' -> role_eqb r' r = false) -> get (close_fs m tr s) r = get s r.
Proof.
  intros m tr s r H. unfold close_fs, close_out. simpl.
  destruct (closing_handle tr) as [r'|]; [|reflexivity].
  destruct m as [[|]|]; try reflexivity. simpl. apply get_upd_other. apply H; reflexivity.
Qed.

Lemma close_fs_none : forall m tr s, closing_handle tr = None -> close_fs m tr s = s.
Proof. intros m tr s H. unfold close_fs, close_out. simpl. rewrite H. reflexivity. Qed.

(* the general lemma: the backup copy completes before the first write / dump and before anything
   that can damage the target; nothing afterwards writes to the backup - then one copy survives the
   failing call AND the close() of the handle, however that ends *)
Lemma backup_first_close_run : forall pre post f k s,
  spares Target pre = true -> no_writer pre = true -> spares Bak post = true ->
  get s Target = Some Orig ->
  let r := run_until_fault f k (pre ++ Copy2 Target Bak :: post) s in
  (get (r_fs r) Target = Some Orig /\ closing_handle (r_trace r) = None)
  \/ (get (r_fs r) Bak = Some Orig /\ forall r', closing_handle (r_trace r) = Some r' -> role_eqb r' Bak = false).
Proof.
  induction pre as [|o pre IH]; intros post f k s Hpre Hnw Hpost Ht.
  - (* the copy itself, then post *)
    assert (Hdone : forall s1, get s1 Bak = Some Orig ->
              let r := run_until_fault f (S k) post s1 in
              get (r_fs r) Bak = Some Orig /\
              forall r', closing_handle (Copy2 Target Bak :: r_trace r) = Some r' -> role_eqb r' Bak = false).
    { intros s1 Hb. split; [rewrite run_spares by assumption; exact Hb|].
      intros r' Hc. destruct (closing_handle_in _ _ Hc) as (x & Hin & Hw & Hd).
      destruct Hin as [<-|Hin]; [discriminate Hw|].
      apply run_trace_incl in Hin.
      unfold spares in Hpost. rewrite forallb_forall in Hpost. specialize (Hpost x Hin). apply negb_true_iff in Hpost.
      destruct x; try discriminate Hw; simpl in Hd, Hpost; destruct r', r; try discriminate Hd; try discriminate Hpost; reflexivity. }
    destruct s as [t b o tm]; simpl in Ht; subst t.
    cbv zeta. simpl app. simpl run_until_fault. destruct f as [ft|].
    + destruct (Nat.eqb (at_k ft) k); simpl.
      * left. split; [destruct (f_mode ft); reflexivity | reflexivity].
      * right. apply (Hdone (mkfs (Some Orig) (Some Orig) o tm)). reflexivity.
    + simpl. right. apply (Hdone (mkfs (Some Orig) (Some Orig) o tm)). reflexivity.
  - simpl in Hpre; apply andb_true_iff in Hpre; destruct Hpre as [Ho Hp]; apply negb_true_iff in Ho.
    simpl in Hnw; apply andb_true_iff in Hnw; destruct Hnw as [Hwo Hwp]; apply negb_true_iff in Hwo.
    assert (Hne : pre ++ Copy2 Target Bak :: post <> []) by (destruct pre; discriminate).
    assert (Hstep : forall s', exec o s = Some s' ->
              let r := run_until_fault f (S k) (pre ++ Copy2 Target Bak :: post) s' in
              (get (r_fs r) Target = Some Orig /\ closing_handle (o :: r_trace r) = None)
              \/ (get (r_fs r) Bak = Some Orig /\ forall r', closing_handle (o :: r_trace r) = Some r' -> role_eqb r' Bak = false)).
    { intros s' He. cbv zeta.
      rewrite (closing_handle_cons o _ (run_trace_nonempty _ f (S k) s' Hne)).
      apply IH; try assumption. rewrite (exec_spares Target o s s') by assumption; assumption. }
    cbv zeta. simpl app. simpl run_until_fault. destruct f as [ft|].
    + destruct (Nat.eqb (at_k ft) k); cbn [r_fs r_trace r_stop].
      * left. split; [rewrite fault_spares by assumption; assumption | apply closing_handle_single; exact Hwo].
      * destruct (exec o s) as [s'|] eqn:He; simpl; [apply Hstep; reflexivity|].
        left. split; [assumption | apply closing_handle_single; exact Hwo].
    + destruct (exec o s) as [s'|] eqn:He; simpl; [apply Hstep; reflexivity|].
      left. split; [assumption | apply closing_handle_single; exact Hwo].
Qed.

(* plans without a handler *)
Lemma noh_close_one_copy : forall p f m s pre post,
  p_guarded p = None -> forallb only_looks (p_validate p) = true ->
  p_main p = pre ++ Copy2 Target Bak :: post ->
  spares Target pre = true -> no_writer pre = true -> spares Bak post = true ->
  get s Target = Some Orig ->
  one_intact_copy (o_fs (close_out m (run_plan2 p f None s))).
Proof.
  intros p f m s pre post Hg Hv Hm Hp Hnw Hq Ht. unfold run_plan2.
  destruct (run_only_looks (p_validate p) f 0 s Hv) as [Hfs Htr].
  assert (Hvnone : forall tr, forallb only_looks tr = true -> closing_handle tr = None).
  { intros tr H. unfold closing_handle. destruct tr as [|x tr]; [reflexivity|].
    pose proof (last_in _ (x :: tr) (Exists Target) ltac:(discriminate)) as Hin.
    rewrite forallb_forall in H. specialize (H _ Hin).
    destruct (last (x :: tr) (Exists Target)); try discriminate H; reflexivity. }
  assert (Hkeep : forall st, one_intact_copy (o_fs (close_out m (mkout s (r_trace (run_until_fault f 0 (p_validate p) s)) st)))).
  { intro st. unfold close_out. simpl. rewrite (Hvnone _ Htr). left; exact Ht. }
  destruct (r_stop (run_until_fault f 0 (p_validate p) s)) eqn:Hst; simpl; rewrite ?Hfs; try apply Hkeep.
  destruct (p_refuse p); [apply Hkeep|].
  rewrite Hg, Hm.
  set (nv := length (p_validate p)).
  pose proof (backup_first_close_run pre post f nv s Hp Hnw Hq Ht) as H. cbv zeta in H.
  set (r := run_until_fault f nv (pre ++ Copy2 Target Bak :: post) s) in *.
  assert (Hne : r_trace r <> []) by (apply run_trace_nonempty; destruct pre; discriminate).
  assert (G : forall st, one_intact_copy (o_fs (close_out m
                (mkout (drop_tmp (r_fs r)) (r_trace (run_until_fault f 0 (p_validate p) s) ++ r_trace r) st)))).
  { intro st. unfold close_out. cbn [o_fs o_trace o_status]. rewrite (closing_handle_app _ _ Hne).
    assert (DT : get (drop_tmp (r_fs r)) Target = get (r_fs r) Target) by (apply drop_tmp_get; reflexivity).
    assert (DB : get (drop_tmp (r_fs r)) Bak = get (r_fs r) Bak) by (apply drop_tmp_get; reflexivity).
    destruct H as [[A B]|[A B]].
    - rewrite B. left. cbn [o_fs]. rewrite DT. exact A.
    - destruct (closing_handle (r_trace r)) as [r'|] eqn:Hc.
      + specialize (B r' eq_refl).
        destruct m as [[|]|]; cbn [o_fs]; right; rewrite ?(get_upd_other _ _ _ _ B); rewrite DB; exact A.
      + right. cbn [o_fs]. rewrite DB. exact A. }
  destruct (raised (r_stop r)); apply G.
Qed.

Lemma backup_ops_no_writer : forall s,
  no_writer (Exists Bak :: (if is_some (get s Bak) then [Remove Bak] else [])) = true.
Proof. intros s; destruct (is_some (get s Bak)); reflexivity. Qed.

Lemma no_writer_app : forall l1 l2, no_writer (l1 ++ l2) = no_writer l1 && no_writer l2.
Proof. intros; unfold no_writer; apply forallb_app. Qed.

Lemma render_ops_no_writer : forall json n ok, no_writer (render_ops json n ok) = true.
Proof.
  intros json n ok; unfold render_ops; destruct (json && Nat.ltb 1 n); [|reflexivity].
  simpl. induction (n - 1); [reflexivity | simpl; assumption].
Qed.

(* every tool that writes through a `with` block (all but yaml-set's YAML save, whose handlers
   close and reopen the file themselves): the failing call, then the close() failing too *)
Lemma close_one_copy_survives : forall c f m s,
  cfg_backup c = true -> (forall b ok, c <> CSet b false ok) -> get s Target = Some Orig ->
  one_intact_copy (o_fs (save_close c f m s)).
Proof.
  intros c f m s Hb Hn Ht. unfold save_close, save, save2.
  destruct c as [backup json ok| |md backup json n ok|backup changed]; simpl in Hb.
  - subst backup. destruct json; [|exfalso; apply (Hn true ok); reflexivity].
    simpl plan_of.
    eapply (noh_close_one_copy _ f m s (Render ok :: Exists Bak :: (if is_some (get s Bak) then [Remove Bak] else []))
              [OpenTrunc Target; WriteText Target]); try reflexivity; try assumption.
    + simpl. destruct (is_some (f_bak s)); reflexivity.
    + simpl. apply backup_prelude_spares_target.
    + simpl. apply backup_ops_no_writer.
  - discriminate.
  - destruct md; try discriminate; subst backup. simpl plan_of.
    eapply (noh_close_one_copy _ f m s (render_ops json n ok ++ Exists Bak :: (if is_some (get s Bak) then [Remove Bak] else []))
              [OpenTrunc Target; WriteText Target]); try reflexivity; try assumption.
    + simpl. rewrite <- !app_assoc. simpl. destruct (is_some (f_bak s)); reflexivity.
    + rewrite spares_app, render_ops_spare. apply backup_prelude_spares_target.
    + rewrite no_writer_app, render_ops_no_writer. apply backup_ops_no_writer.
  - apply andb_true_iff in Hb; destruct Hb; subst. simpl plan_of.
    eapply (noh_close_one_copy _ f m s (Exists Bak :: (if is_some (get s Bak) then [Remove Bak] else []))
              [OpenTrunc Target; Dump Target true]); try reflexivity; try assumption.
    + simpl. destruct (is_some (f_bak s)); reflexivity.
    + apply backup_prelude_spares_target.
    + apply backup_ops_no_writer.
Qed.

(* a failing close() ends the run with a traceback even when every call before it completed *)
Lemma close_failure_status : forall c m s,
  (forall b ok, c <> CSet b false ok) -> closing_handle (o_trace (save c None s)) <> None -> m <> None ->
  o_status (save_close c None m s) = SCrash.
Proof.
  intros c m s _ Hc Hm. unfold save_close, close_out.
  destruct (closing_handle (o_trace (save c None s))) as [r|]; [|contradiction].
  destruct m as [[|]|]; [reflexivity | reflexivity | contradiction].
Qed.

(* without --backup nothing is promised: the write completes, close() fails half way, the file is lost *)
Lemma close_no_backup_witness :
  exists (c : cfg) (s : fs), cfg_backup c = false /\ get s Target = Some Orig /\
    o_status (save c None s) = SOk /\
    ~ one_intact_copy (o_fs (save_close c None (Some Mid) s)).
Proof.
  exists (CMerge ToOverwrite false false 1 true), (init_fs true false false).
  repeat split. intros [H|H]; vm_compute in H; discriminate H.
Qed.
