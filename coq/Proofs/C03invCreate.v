(* C03: the document invariants survive the construction branch (Create.walk):
   every container the walk builds gets an identity of its own out of the range
   [next, next') the walk consumes, so a document whose identities lie below
   [next] holds every container once afterwards as well; new containers carry the
   anchor attribute, a new key is appended only where no equal key exists, keys
   and set members stay scalars. *)
From Coq Require Import String List ZArith NArith Bool Lia Arith Permutation.
From YP Require Import Outcome PyStr PyVal Doc Searches Mutate Create C03spec C04spec C03e2e C03set
  C04lists C04delete C04plan C09create C09createP C09doc C03inv.
Import ListNotations.

(* ---------------- identities below a bound ---------------- *)
Lemma coids_le_max : forall d x, In x (coids d) -> (x <= max_oid d)%N.
Proof.
  induction d using node_ind'; simpl; intros x Hx.
  - contradiction.
  - destruct Hx as [<-|Hx].
    + clear H. induction kvs as [|kv r IH]; simpl; lia.
    + apply in_flat_map in Hx. destruct Hx as [kv [Hkv Hx]].
      rewrite Forall_forall in H. pose proof (proj2 (H kv Hkv) x Hx) as Hle. clear H.
      induction kvs as [|kv0 r IH]; simpl in *; [contradiction|].
      destruct Hkv as [->|Hkv]; [lia|]. specialize (IH Hkv). lia.
  - destruct Hx as [<-|Hx].
    + clear H. induction els as [|y r IH]; simpl; lia.
    + apply in_flat_map in Hx. destruct Hx as [y [Hy Hx]].
      rewrite Forall_forall in H. pose proof (H y Hy x Hx) as Hle. clear H.
      induction els as [|y0 r IH]; simpl in *; [contradiction|].
      destruct Hy as [->|Hy]; [lia|]. specialize (IH Hy). lia.
  - destruct Hx as [<-|[]]. clear H. induction els as [|y r IH]; simpl; lia.
Qed.

Definition fresh_in (lo hi : N) (l : list N) : Prop := NoDup l /\ forall x, In x l -> (lo <= x < hi)%N.

Lemma nodup_app : forall A (l1 l2 : list A),
  NoDup l1 -> NoDup l2 -> (forall x, In x l1 -> ~ In x l2) -> NoDup (l1 ++ l2).
Proof.
  induction l1 as [|a r IH]; intros l2 H1 H2 Hd; simpl; auto.
  inversion H1; subst. constructor.
  - intro Hin. apply in_app_or in Hin. destruct Hin as [Hin|Hin]; [contradiction|].
    apply (Hd a (or_introl eq_refl) Hin).
  - apply IH; auto. intros x Hx. apply Hd. right. exact Hx.
Qed.

Lemma nodup_app_disjoint : forall A (l1 l2 : list A) x, NoDup (l1 ++ l2) -> In x l1 -> In x l2 -> False.
Proof.
  induction l1 as [|a r IH]; intros l2 x Hn H1 H2; simpl in *; [contradiction|].
  inversion Hn; subst. destruct H1 as [->|H1].
  - apply H3. apply in_or_app. right. exact H2.
  - eapply IH; eauto.
Qed.

Lemma nodup_app_l : forall A (l1 l2 : list A), NoDup (l1 ++ l2) -> NoDup l1.
Proof.
  induction l1 as [|a r IH]; intros l2 H; [constructor|]. simpl in H. inversion H; subst.
  constructor; [|eapply IH; eauto]. intro Hin. apply H2. apply in_or_app. left. exact Hin.
Qed.

Lemma nodup_app_r : forall A (l1 l2 : list A), NoDup (l1 ++ l2) -> NoDup l2.
Proof. induction l1 as [|a r IH]; intros l2 H; simpl in H; auto. inversion H; subst. auto. Qed.

Lemma fresh_in_nil : forall lo hi, fresh_in lo hi [].
Proof. intros. split; [constructor|intros x []]. Qed.

Lemma fresh_in_app : forall lo mid hi l1 l2,
  fresh_in lo mid l1 -> fresh_in mid hi l2 -> (lo <= mid)%N -> (mid <= hi)%N -> fresh_in lo hi (l1 ++ l2).
Proof.
  intros lo mid hi l1 l2 [N1 R1] [N2 R2] H1 H2. split.
  - apply nodup_app; auto. intros x Hx Hx2. specialize (R1 x Hx). specialize (R2 x Hx2). lia.
  - intros x Hx. apply in_app_or in Hx. destruct Hx as [Hx|Hx]; [specialize (R1 x Hx)|specialize (R2 x Hx)]; lia.
Qed.

Lemma fresh_in_widen : forall lo lo' hi hi' l, fresh_in lo hi l -> (lo' <= lo)%N -> (hi <= hi')%N -> fresh_in lo' hi' l.
Proof. intros lo lo' hi hi' l [Hn Hr] H1 H2. split; auto. intros x Hx. specialize (Hr x Hx). lia. Qed.

(* ---------------- what the construction builds ---------------- *)
Definition kmiss (cur : node) (segs : list seg) : Prop :=
  match cur, segs with
  | NMap _ kvs, SKey k _ :: _ => find (key_is (PStr k)) kvs = None
  | _, _ => True
  end.

Lemma wrap_type_leaf : forall lit value fresh vo x, wrap_type lit value fresh vo = ROk x -> is_leaf x = true.
Proof.
  intros lit value fresh vo x H. unfold wrap_type, rbind in H. cbv zeta in H.
  destruct (of_outcome (typed_value lit value)) as [ast|e]; [|discriminate].
  repeat match type of H with
  | context [match ?t with _ => _ end] => destruct t
  end; try discriminate; inversion H; reflexivity.
Qed.

Lemma build_next_shape : forall lit rest value next vo x,
  build_next lit rest value next vo = ROk x ->
  linv x = true /\ (forall segs, kmiss x segs) /\ (coids x = [] \/ coids x = [next]).
Proof.
  intros lit rest value next vo x H. destruct rest as [|[k ko|z] r]; simpl in H.
  - pose proof (wrap_type_leaf _ _ _ _ _ H) as Hl. destruct x; try discriminate.
    split; [reflexivity|]. split; [intros segs; exact I|left; reflexivity].
  - inversion H; subst. split; [reflexivity|]. split; [|right; reflexivity].
    intros [|[k2 ko2|z2] segs]; simpl; auto.
  - inversion H; subst. split; [reflexivity|]. split; [intros segs; exact I|right; reflexivity].
Qed.

Lemma pads_shape : forall lit n rest value next vo l next',
  pads lit n rest value next vo = ROk (l, next') ->
  (next <= next')%N /\ fresh_in next next' (flat_map coids l) /\
  Forall (fun x => linv x = true /\ forall segs, kmiss x segs) l.
Proof.
  intros lit n. induction n as [|m IH]; intros rest value next vo l next' H; simpl in H.
  - inversion H; subst. split; [lia|]. split; [apply fresh_in_nil|constructor].
  - destruct (build_next lit rest value next vo) as [x|e] eqn:Eb; simpl in H; [|discriminate].
    destruct (pads lit m rest value (N.succ next) vo) as [[l0 n0]|e] eqn:E; simpl in H; [|discriminate].
    inversion H; subst. destruct (IH _ _ _ _ _ _ E) as [Hle [Hf Ha]].
    destruct (build_next_shape _ _ _ _ _ _ Eb) as [Hl [Hk Hc]].
    split; [lia|]. split.
    + simpl. apply (fresh_in_app next (N.succ next) next'); auto; try lia.
      destruct Hc as [-> | ->]; [apply fresh_in_nil|].
      split; [constructor; [intros []|constructor]|]. intros y [<-|[]]. lia.
    + constructor; auto.
Qed.

Lemma mkeys_nodup_snoc : forall ks k,
  mkeys_nodup ks = true -> forallb (fun x => negb (mkey_eq x k)) ks = true -> mkeys_nodup (ks ++ [k]) = true.
Proof.
  induction ks as [|a r IH]; intros k Hn Hk; simpl in *; auto.
  apply andb_true_iff in Hn. destruct Hn as [Ha Hr]. apply andb_true_iff in Hk. destruct Hk as [Hak Hrk].
  rewrite IH by assumption. rewrite andb_true_r. rewrite forallb_app. simpl. rewrite Ha, Hak. reflexivity.
Qed.

Lemma find_key_none_fresh : forall k ko fresh kvs,
  find (key_is (PStr k)) kvs = None ->
  forallb (fun x => negb (mkey_eq x (key_leaf k ko fresh))) (map fst kvs) = true.
Proof.
  intros k ko fresh. induction kvs as [|kv r IH]; simpl; intros H; auto.
  destruct (key_is (PStr k) kv) eqn:E; [discriminate|]. rewrite IH by exact H. rewrite andb_true_r.
  unfold key_is in E. unfold mkey_eq, key_leaf. destruct (fst kv); auto. rewrite E. reflexivity.
Qed.

Theorem grow_inv : forall lit segs cur pc next vo value g pc' next',
  grow lit segs cur pc next vo value = ROk (g, pc', next') ->
  linv cur = true -> kmiss cur segs ->
  (next <= next')%N /\ linv g = true /\ exists extra, coids g = coids cur ++ extra /\ fresh_in next next' extra.
Proof.
  intros lit segs. induction segs as [|s rest IH]; intros cur pc next vo value g pc' next' H Hl Hk.
  - simpl in H. inversion H; subst. split; [lia|]. split; auto. exists []. rewrite app_nil_r. split; auto. apply fresh_in_nil.
  - destruct cur as [i v|i kvs|i els|i els]; simpl in H.
    + discriminate.
    + (* mapping: a new entry at the end *)
      destruct s as [k ko|z]; [|discriminate].
      destruct (build_next lit rest value next vo) as [child|e] eqn:Eb; simpl in H; [|discriminate].
      destruct (grow lit rest child (mkpc (Some (oid i)) (PStr k)) (N.succ (N.succ next)) vo value) as [[[g0 pc0] n0]|e] eqn:Eg;
        simpl in H; [|discriminate].
      inversion H; subst. clear H.
      destruct (build_next_shape _ _ _ _ _ _ Eb) as [Hcl [Hck Hcc]].
      destruct (IH _ _ _ _ _ _ _ _ Eg Hcl (Hck rest)) as [Hle [Hgl [extra [Hce Hfr]]]].
      simpl in Hl. apply andb_true_iff in Hl. destruct Hl as [Hl Hvals]. apply andb_true_iff in Hl. destruct Hl as [Hi Hn].
      split; [lia|]. split.
      * simpl. rewrite Hi. simpl. apply andb_true_iff. split.
        -- rewrite map_app. simpl. apply mkeys_nodup_snoc; auto. apply find_key_none_fresh. exact Hk.
        -- rewrite forallb_app. rewrite Hvals. simpl. rewrite Hgl. reflexivity.
      * exists (coids child ++ extra). split.
        -- simpl. rewrite flat_map_app. simpl. rewrite app_nil_r, Hce. reflexivity.
        -- apply (fresh_in_app next (N.succ (N.succ next)) next'); auto; try lia.
           destruct Hcc as [-> | ->]; [apply fresh_in_nil|].
           split; [constructor; [intros []|constructor]|]. intros y [<-|[]]. lia.
    + (* sequence: padding, then the requested element *)
      destruct (match s with SIdx z => Some z | SKey k _ => py_int k end) as [z|]; [|discriminate].
      destruct (pads lit (Z.to_nat (z - Z.of_nat (length els) + 1)) rest value next vo) as [[l n1]|e] eqn:Ep;
        simpl in H; [|discriminate].
      destruct (last_and_init l) as [[init lastn]|] eqn:El; [|discriminate].
      destruct (grow lit rest lastn (mkpc (Some (oid i)) (PInt z)) n1 vo value) as [[[g0 pc0] n0]|e] eqn:Eg;
        simpl in H; [|discriminate].
      inversion H; subst. clear H.
      destruct (pads_shape _ _ _ _ _ _ _ _ Ep) as [Hle1 [Hfr1 Hall]].
      pose proof (last_and_init_spec _ _ _ _ El) as ->.
      apply Forall_app in Hall. destruct Hall as [Hinit Hlast]. inversion Hlast; subst.
      destruct H1 as [Hll Hlk].
      destruct (IH _ _ _ _ _ _ _ _ Eg Hll (Hlk rest)) as [Hle [Hgl [extra [Hce Hfr]]]].
      simpl in Hl. apply andb_true_iff in Hl. destruct Hl as [Hi Hels].
      split; [lia|]. split.
      * simpl. rewrite Hi. simpl. rewrite !forallb_app. rewrite Hels. simpl. rewrite Hgl, andb_true_r.
        apply forallb_forall. intros x Hx. rewrite Forall_forall in Hinit. apply (Hinit x Hx).
      * exists (flat_map coids (init ++ [lastn]) ++ extra). split.
        -- simpl. rewrite !flat_map_app. simpl. rewrite !app_nil_r, Hce. rewrite <- !app_assoc. reflexivity.
        -- apply (fresh_in_app next n1 next'); auto.
    + (* set: the member is added *)
      destruct s as [k ko|z]; [|discriminate]. inversion H; subst. clear H.
      simpl in Hl. apply andb_true_iff in Hl. destruct Hl as [Hi Hels].
      split; [lia|]. split.
      * simpl. rewrite Hi. simpl. destruct (existsb (member_is (PStr k)) els); auto.
        rewrite forallb_app, Hels. reflexivity.
      * exists []. rewrite app_nil_r. split; auto. apply fresh_in_nil.
Qed.

(* ---------------- putting the grown object back ---------------- *)
Theorem putf_linv : forall o c' d, linv d = true -> linv c' = true -> linv (putf o c' d) = true.
Proof.
  intros o c'. induction d using node_ind'; intros Hd Hc; simpl.
  - destruct (is_obj o (NLeaf i v)); auto.
  - destruct (is_obj o (NMap i kvs)); auto.
    simpl in *. apply andb_true_iff in Hd. destruct Hd as [Hd Hk]. apply andb_true_iff in Hd. destruct Hd as [Hi Hn].
    rewrite Hi. simpl.
    assert (E : map fst (map (fun kv => (fst kv, putf o c' (snd kv))) kvs) = map fst kvs)
      by (rewrite map_map; apply map_ext; reflexivity).
    rewrite E, Hn. simpl.
    rewrite forallb_forall in *. intros kv' Hkv'. apply in_map_iff in Hkv'. destruct Hkv' as [kv [<- Hkv]]. simpl.
    specialize (Hk kv Hkv). apply andb_true_iff in Hk. destruct Hk as [Hl Hk]. rewrite Hl. simpl.
    rewrite Forall_forall in H. apply (proj2 (H kv Hkv)); auto.
  - destruct (is_obj o (NSeq i els)); auto.
    simpl in *. apply andb_true_iff in Hd. destruct Hd as [Hi Hk]. rewrite Hi. simpl.
    rewrite forallb_forall in *. intros x' Hx'. apply in_map_iff in Hx'. destruct Hx' as [x [<- Hx]].
    rewrite Forall_forall in H. apply (H x Hx); auto.
  - destruct (is_obj o (NSet i els)); auto.
Qed.

Lemma objs_coids : forall o d n, In n (objs o d) -> In o (coids d).
Proof.
  intros o. induction d using node_ind'; simpl; intros n Hn.
  - contradiction.
  - apply in_app_or in Hn. destruct Hn as [Hn|Hn].
    + destruct (N.eqb (oid i) o) eqn:E; [|contradiction]. apply N.eqb_eq in E. auto.
    + right. apply in_flat_map in Hn. destruct Hn as [kv [Hkv Hn]]. apply in_flat_map. exists kv. split; auto.
      rewrite Forall_forall in H. apply (proj2 (H kv Hkv) n Hn).
  - apply in_app_or in Hn. destruct Hn as [Hn|Hn].
    + destruct (N.eqb (oid i) o) eqn:E; [|contradiction]. apply N.eqb_eq in E. auto.
    + right. apply in_flat_map in Hn. destruct Hn as [x [Hx Hn]]. apply in_flat_map. exists x. split; auto.
      rewrite Forall_forall in H. apply (H x Hx n Hn).
  - destruct (N.eqb (oid i) o) eqn:E; [|contradiction]. apply N.eqb_eq in E. auto.
Qed.

Lemma putf_absent : forall o c' d, ~ In o (coids d) -> putf o c' d = d.
Proof.
  intros o c'. induction d using node_ind'; intros Hn; simpl.
  - reflexivity.
  - destruct (is_obj o (NMap i kvs)) eqn:E.
    + unfold is_obj in E. simpl in E. apply N.eqb_eq in E. exfalso. apply Hn. simpl. auto.
    + f_equal. rewrite <- (map_id kvs) at 2. apply map_ext_in. intros kv Hkv.
      rewrite Forall_forall in H. rewrite (proj2 (H kv Hkv)); [destruct kv; reflexivity|].
      intro Hin. apply Hn. simpl. right. apply in_flat_map. exists kv. auto.
  - destruct (is_obj o (NSeq i els)) eqn:E.
    + unfold is_obj in E. simpl in E. apply N.eqb_eq in E. exfalso. apply Hn. simpl. auto.
    + f_equal. rewrite <- (map_id els) at 2. apply map_ext_in. intros x Hx.
      rewrite Forall_forall in H. apply (H x Hx). intro Hin. apply Hn. simpl. right. apply in_flat_map. exists x. auto.
  - destruct (is_obj o (NSet i els)) eqn:E; auto.
    unfold is_obj in E. simpl in E. apply N.eqb_eq in E. exfalso. apply Hn. simpl. auto.
Qed.

(* one element of a list of subtrees holds the object: only that element changes *)
Lemma putf_list_perm : forall o c' cur extra (l : list node),
  NoDup (flat_map coids l) ->
  (forall x, In x l -> NoDup (coids x) -> In cur (objs o x) ->
     Permutation (coids (putf o c' x)) (coids x ++ extra)) ->
  (exists x, In x l /\ In cur (objs o x)) ->
  Permutation (flat_map (fun x => coids (putf o c' x)) l) (flat_map coids l ++ extra).
Proof.
  intros o c' cur extra. induction l as [|x r IH]; intros Hn Hp [y [Hy Hc]]; [contradiction|].
  simpl in *.
  assert (Hnx : NoDup (coids x)) by (eapply nodup_app_l; eauto).
  assert (Hnr : NoDup (flat_map coids r)) by (eapply nodup_app_r; eauto).
  destruct (in_dec N.eq_dec o (coids x)) as [Hox|Hox].
  - (* the object sits in x: the rest is untouched *)
    assert (Hr : flat_map (fun x0 => coids (putf o c' x0)) r = flat_map coids r).
    { apply flat_map_ext_in_local. intros z Hz. rewrite putf_absent; auto.
      intro Hoz. eapply (nodup_app_disjoint _ _ _ o Hn); eauto. apply in_flat_map. exists z. auto. }
    rewrite Hr.
    assert (Hcx : In cur (objs o x)).
    { destruct Hy as [<-|Hy]; auto. exfalso.
      eapply (nodup_app_disjoint _ _ _ o Hn); eauto. apply in_flat_map. exists y. split; auto.
      eapply objs_coids; eauto. }
    eapply Permutation_trans; [apply Permutation_app_tail; apply (Hp x (or_introl eq_refl) Hnx Hcx)|].
    rewrite <- !app_assoc. apply Permutation_app_head. apply Permutation_app_comm.
  - rewrite (putf_absent o c' x Hox). rewrite <- app_assoc. apply Permutation_app_head.
    apply IH; auto.
    destruct Hy as [<-|Hy]; [exfalso; apply Hox; eapply objs_coids; eauto|]. exists y. auto.
Qed.

Lemma is_obj_coid : forall o d, is_obj o d = true -> coid d = Some o.
Proof.
  intros o d H. unfold is_obj in H. destruct (coid d) as [x|]; [|discriminate]. apply N.eqb_eq in H. subst. reflexivity.
Qed.

Theorem putf_perm : forall o c' cur extra d,
  NoDup (coids d) -> In cur (objs o d) ->
  Permutation (coids c') (coids cur ++ extra) ->
  Permutation (coids (putf o c' d)) (coids d ++ extra).
Proof.
  intros o c' cur extra. induction d using node_ind'; intros Hn Hc Hp.
  - simpl in Hc. contradiction.
  - simpl putf. destruct (is_obj o (NMap i kvs)) eqn:E.
    + rewrite (objs_unique o (NMap i kvs) cur (NMap i kvs) Hn Hc (objs_self _ _ (is_obj_coid _ _ E))). exact Hp.
    + unfold is_obj in E. simpl in E. simpl in Hc. rewrite E in Hc. simpl in Hc.
      simpl. apply perm_skip. simpl in Hn. inversion Hn; subst.
      rewrite flat_map_map. simpl.
      rewrite <- (flat_map_map _ _ _ snd (fun x => coids (putf o c' x))).
      rewrite <- (flat_map_map _ _ _ snd coids).
      apply (putf_list_perm o c' cur extra (map snd kvs)).
      * rewrite flat_map_map. exact H3.
      * intros x Hx Hnx Hcx. apply in_map_iff in Hx. destruct Hx as [kv [<- Hkv]].
        rewrite Forall_forall in H. apply (proj2 (H kv Hkv)); auto.
      * apply in_flat_map in Hc. destruct Hc as [kv [Hkv Hc]]. exists (snd kv). split; auto. apply in_map. exact Hkv.
  - simpl putf. destruct (is_obj o (NSeq i els)) eqn:E.
    + rewrite (objs_unique o (NSeq i els) cur (NSeq i els) Hn Hc (objs_self _ _ (is_obj_coid _ _ E))). exact Hp.
    + unfold is_obj in E. simpl in E. simpl in Hc. rewrite E in Hc. simpl in Hc.
      simpl. apply perm_skip. simpl in Hn. inversion Hn; subst.
      rewrite flat_map_map.
      apply (putf_list_perm o c' cur extra els); auto.
      * intros x Hx Hnx Hcx. rewrite Forall_forall in H. apply (H x Hx); auto.
      * apply in_flat_map in Hc. destruct Hc as [x [Hx Hc]]. exists x. auto.
  - simpl putf. destruct (is_obj o (NSet i els)) eqn:E.
    + rewrite (objs_unique o (NSet i els) cur (NSet i els) Hn Hc (objs_self _ _ (is_obj_coid _ _ E))). exact Hp.
    + unfold is_obj in E. simpl in E. simpl in Hc. rewrite E in Hc. contradiction.
Qed.

(* ---------------- a null replaced by a new container ---------------- *)
Lemma put_key_split : forall k v kvs kv,
  find (key_is k) kvs = Some kv ->
  exists pre post, kvs = pre ++ kv :: post /\ put_key k v kvs = pre ++ (fst kv, v) :: post.
Proof.
  intros k v. induction kvs as [|kv0 r IH]; intros kv H; simpl in *; [discriminate|].
  destruct (key_is k kv0) eqn:E.
  - inversion H; subst. exists [], r. split; reflexivity.
  - destruct (IH kv H) as [pre [post [E1 E2]]]. exists (kv0 :: pre), post. simpl. rewrite <- E1, E2. split; reflexivity.
Qed.

Lemma put_nth_split : forall v els n x,
  nth_error els n = Some x -> exists pre post, els = pre ++ x :: post /\ put_nth n v els = pre ++ v :: post.
Proof.
  intros v. induction els as [|y r IH]; intros n x H; [destruct n; discriminate|].
  destruct n as [|m]; simpl in *.
  - inversion H; subst. exists [], r. split; reflexivity.
  - destruct (IH m x H) as [pre [post [E1 E2]]]. exists (y :: pre), post. simpl. rewrite <- E1, E2. split; reflexivity.
Qed.

Lemma perm_insert : forall A (a b v : list A), Permutation (a ++ v ++ b) ((a ++ b) ++ v).
Proof. intros. rewrite <- app_assoc. apply Permutation_app_head. apply Permutation_app_comm. Qed.

Lemma null_put_inv : forall cur s ci cpc v,
  found_of cur s = ROk (Some (NLeaf ci PNone, cpc)) ->
  linv cur = true -> linv v = true ->
  linv (null_put cur s v) = true /\ Permutation (coids (null_put cur s v)) (coids cur ++ coids v).
Proof.
  intros cur s ci cpc v H Hl Hv. destruct cur as [i x|i kvs|i els|i els]; simpl in H.
  - destruct s; discriminate.
  - destruct s as [k ko|z]; [|discriminate].
    destruct (find (key_is (PStr k)) kvs) as [kv|] eqn:Ef; [|discriminate]. injection H as Hsnd Hcpc.
    destruct (put_key_split (PStr k) v kvs kv Ef) as [pre [post [E1 E2]]].
    simpl. rewrite E2. subst kvs.
    simpl in Hl. apply andb_true_iff in Hl. destruct Hl as [Hl Hvals]. apply andb_true_iff in Hl. destruct Hl as [Hi Hn].
    rewrite forallb_app in Hvals. simpl in Hvals.
    apply andb_true_iff in Hvals. destruct Hvals as [Hpre Hvals]. apply andb_true_iff in Hvals. destruct Hvals as [Hkv Hpost].
    apply andb_true_iff in Hkv. destruct Hkv as [Hkl _].
    split.
    + rewrite Hi. simpl. rewrite map_app in *. simpl in *. rewrite Hn. simpl.
      rewrite forallb_app. simpl. rewrite Hpre, Hpost, Hkl, Hv. reflexivity.
    + apply perm_skip. rewrite !flat_map_app. simpl. rewrite Hsnd. simpl. apply perm_insert.
  - unfold null_put.
    destruct (match s with SIdx z => Some z | SKey k _ => py_int k end) as [z|] eqn:Ez.
    + cbv zeta in H.
      assert (Hn : exists n, nth_error els n = Some (NLeaf ci PNone) /\
                   Z.to_nat (if (0 <=? z)%Z then z else (z + Z.of_nat (length els))%Z) = n).
      { destruct (z <? Z.of_nat (length els))%Z; [|discriminate].
        destruct (0 <=? z)%Z.
        - destruct (nth_error els (Z.to_nat z)) eqn:En; [|discriminate]. inversion H; subst. eauto.
        - destruct (0 <=? z + Z.of_nat (length els))%Z; [|discriminate].
          destruct (nth_error els (Z.to_nat (z + Z.of_nat (length els)))) eqn:En; [|discriminate]. inversion H; subst. eauto. }
      destruct Hn as [n [Hn ->]].
      destruct (put_nth_split v els n _ Hn) as [pre [post [E1 E2]]]. rewrite E2. subst els.
      simpl in Hl. apply andb_true_iff in Hl. destruct Hl as [Hi Hels].
      rewrite forallb_app in Hels. simpl in Hels. apply andb_true_iff in Hels. destruct Hels as [Hpre Hpost].
      split.
      * simpl. rewrite Hi. simpl. rewrite forallb_app. simpl. rewrite Hpre, Hv, Hpost. reflexivity.
      * simpl. apply perm_skip. rewrite !flat_map_app. simpl. apply perm_insert.
    + destruct s as [k ko|z0]; [|discriminate].
      match type of H with (if ?c then _ else _) = _ => destruct c end; discriminate.
  - destruct s as [k ko|z]; [|discriminate].
    destruct (find (member_is (PStr k)) els) as [m|] eqn:Ef; [|discriminate]. inversion H; subst.
    apply find_some in Ef. destruct Ef as [_ Ef]. simpl in Ef. discriminate.
Qed.

Lemma linv_child : forall c n, is_child c n -> linv n = true -> linv c = true.
Proof.
  intros c n Hc Hl. destruct n as [i v|i kvs|i els|i els]; simpl in *.
  - contradiction.
  - destruct Hc as [kv [Hkv <-]]. apply andb_true_iff in Hl. destruct Hl as [_ Hl].
    rewrite forallb_forall in Hl. specialize (Hl kv Hkv). apply andb_true_iff in Hl. tauto.
  - apply andb_true_iff in Hl. destruct Hl as [_ Hl]. rewrite forallb_forall in Hl. auto.
  - destruct Hc as [_ Hc]. destruct c; try discriminate. reflexivity.
Qed.

Lemma found_none_kmiss : forall cur s rest, found_of cur s = ROk None -> kmiss cur (s :: rest).
Proof.
  intros cur s rest H. destruct cur as [i v|i kvs|i els|i els]; simpl; auto.
  destruct s as [k ko|z]; auto. simpl in H. destruct (find (key_is (PStr k)) kvs); [discriminate|reflexivity].
Qed.

(* THE CONSTRUCTION keeps the invariants: the new document holds the old container identities and
   pairwise different new ones out of [next, next') *)
Theorem walk_inv : forall lit segs cur pc d next vo value d' pc' next',
  wf_doc d -> linv d = true -> in_doc cur d -> linv cur = true ->
  walk lit segs cur pc d next vo value = ROk (d', pc', next') ->
  (next <= next')%N /\ linv d' = true /\
  exists extra, Permutation (coids d') (coids d ++ extra) /\ fresh_in next next' extra.
Proof.
  intros lit segs. induction segs as [|s rest IH]; intros cur pc d next vo value d' pc' next' Hwf Hl Hin Hlc H.
  - simpl in H. inversion H; subst. split; [lia|]. split; auto.
    exists []. rewrite app_nil_r. split; [apply Permutation_refl|apply fresh_in_nil].
  - destruct (found_of cur s) as [[[c cpc]|]|e] eqn:Ef.
    + pose proof (found_is_child _ _ _ _ Ef) as Hc.
      destruct (null_step_cases c rest) as [Hgo|[ci [s2 [rest2 [-> ->]]]]].
      * rewrite (walk_go _ _ _ _ _ _ _ _ _ _ _ Ef Hgo) in H.
        apply (IH c cpc d next vo value d' pc' next' Hwf Hl); auto.
        -- eapply in_doc_child; eauto.
        -- eapply linv_child; eauto.
      * rewrite (walk_null _ _ _ _ _ _ _ _ _ _ _ _ Ef) in H.
        assert (Hcur : exists o, coid cur = Some o /\
                  exists cont g, build_next lit (s2 :: rest2) value next vo = ROk cont /\
                    grow lit (s2 :: rest2) cont cpc (N.succ next) vo value = ROk g /\
                    d' = put_obj o (null_put cur s (fst (fst g))) d /\ next' = snd g).
        { unfold rbind in H.
          destruct (negb (forallb straight_buildable (s2 :: rest2))); [discriminate|].
          destruct cur as [i x|i kvs|i els|i els]; try discriminate;
            (destruct (build_next lit (s2 :: rest2) value next vo) as [cont|e] eqn:Eb; [|discriminate]);
            (destruct (grow lit (s2 :: rest2) cont cpc (N.succ next) vo value) as [g|e] eqn:Eg; [|discriminate]);
            simpl in H; inversion H; subst; eexists; (split; [reflexivity|]); exists cont, g; auto. }
        destruct Hcur as [o [Ec [cont [[[g0 pc0] n0] [Eb [Eg [-> ->]]]]]]]. simpl.
        destruct (build_next_shape _ _ _ _ _ _ Eb) as [Hcl [Hck Hcc]].
        destruct (build_next_cont _ _ _ _ _ _ _ Eb) as [B1 B2].
        assert (Hcc' : coids cont = [next]).
        { destruct Hcc as [Hcc|Hcc]; auto. destruct cont; simpl in *; try discriminate. }
        destruct (grow_inv _ _ _ _ _ _ _ _ _ _ Eg Hcl (Hck _)) as [Hle [Hgl [extra [Hce Hfr]]]].
        destruct (null_put_inv cur s ci cpc g0 Ef Hlc Hgl) as [Hnl Hnp].
        rewrite put_obj_putf.
        split; [lia|]. split; [apply putf_linv; auto|].
        exists (coids g0). split.
        -- apply (putf_perm o _ cur); auto.
        -- rewrite Hce, Hcc'. apply (fresh_in_app next (N.succ next) n0 [next] extra); auto; try lia.
           split; [constructor; [intros []|constructor]|]. intros y [<-|[]]. lia.
    + rewrite walk_unfold, Ef in H. unfold rbind in H.
      destruct (negb (forallb straight_buildable rest)); [discriminate|].
      destruct (grow lit (s :: rest) cur pc next vo value) as [[[g0 pc0] n0]|e] eqn:Eg; [|discriminate].
      destruct (coid cur) as [o|] eqn:Ec; [|discriminate]. simpl in H. inversion H; subst.
      destruct (grow_inv _ _ _ _ _ _ _ _ _ _ Eg Hlc (found_none_kmiss _ _ _ Ef)) as [Hle [Hgl [extra [Hce Hfr]]]].
      rewrite put_obj_putf.
      split; [lia|]. split; [apply putf_linv; auto|].
      exists extra. split; auto.
      apply (putf_perm o _ cur); auto. rewrite Hce. apply Permutation_refl.
    + rewrite walk_unfold, Ef in H. discriminate.
Qed.
