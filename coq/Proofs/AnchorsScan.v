(* C10: what scan_for_anchors records and what rename_anchor reaches, in terms
   of the places of SpecC10; rename_objs as a map over places / nodes. *)
From Coq Require Import List Ascii String ZArith NArith Bool Lia.
From YP Require Import Outcome PyStr PyVal Doc PathParser Searches MergeConfig Merge Anchors SpecC10
  AnchorsProofs AnchorsPolicy.
Import ListNotations.
Open Scope string_scope.
Open Scope list_scope.

(* ---------- the dictionaries ---------- *)
Lemma ad_get_set : forall c k v d, ad_get c (ad_set k v d) = if String.eqb c k then Some v else ad_get c d.
Proof.
  intros c k v d. induction d as [|[k' v'] r IH]; simpl.
  - reflexivity.
  - destruct (String.eqb k k') eqn:E; simpl.
    + apply String.eqb_eq in E. subst k'. destruct (String.eqb c k); reflexivity.
    + destruct (String.eqb c k') eqn:E2.
      * apply String.eqb_eq in E2. subst k'. rewrite String.eqb_sym, E. reflexivity.
      * exact IH.
Qed.

Lemma ad_keys_set : forall c k v d, In c (ad_keys (ad_set k v d)) <-> c = k \/ In c (ad_keys d).
Proof.
  intros c k v d. induction d as [|[k' v'] r IH]; simpl.
  - intuition.
  - destruct (String.eqb k k') eqn:E; simpl.
    + apply String.eqb_eq in E. subst k'. intuition.
    + rewrite IH. intuition.
Qed.

Lemma ad_keys_set_nodup : forall k v d, NoDup (ad_keys d) -> NoDup (ad_keys (ad_set k v d)).
Proof.
  intros k v d. induction d as [|[k' v'] r IH]; simpl; intros H.
  - constructor; [intros []|constructor].
  - inversion H; subst. destruct (String.eqb k k') eqn:E; simpl.
    + apply String.eqb_eq in E. subst k'. constructor; assumption.
    + constructor; [|auto]. intros Hin. apply ad_keys_set in Hin. destruct Hin as [->|Hin]; [|contradiction].
      rewrite String.eqb_refl in E. discriminate.
Qed.

Lemma ad_get_keys : forall c d, In c (ad_keys d) -> exists x, ad_get c d = Some x.
Proof.
  intros c d. induction d as [|[k v] r IH]; simpl; intros H; [contradiction|].
  destruct (String.eqb c k) eqn:E; [eauto|]. destruct H as [->|H]; [rewrite String.eqb_refl in E; discriminate|auto].
Qed.

(* ---------- the nodes scan_for_anchors looks at, in order ---------- *)
Fixpoint scanned (dom : node) : list node :=
  match dom with
  | NMap _ kvs =>
      flat_map (fun kv => fst kv :: snd kv :: match snd kv with
                                               | NMap _ _ | NSeq _ _ => scanned (snd kv)
                                               | _ => []
                                               end) kvs
  | NSeq _ els => flat_map scanned els
  | _ => [dom]
  end.

Definition scan_fold (ns : list node) (d : an_dict) : an_dict := fold_left (fun d n => scan_one n d) ns d.

Lemma scan_is_fold : forall dom d, an_scan_anchors dom d = scan_fold (scanned dom) d.
Proof.
  induction dom as [i v|i kvs IH|i els IH|i els IH] using node_ind'; intros d; try reflexivity.
  - simpl. revert d. induction kvs as [|[k v] r IHr]; intros d; [reflexivity|].
    inversion IH as [|? ? [_ IHv] IHrest]; subst. simpl in IHv.
    cbn [flat_map fst snd]. unfold scan_fold. rewrite fold_left_app. cbn [fold_left].
    rewrite (IHr IHrest). unfold scan_fold. f_equal.
    destruct v; try reflexivity; rewrite IHv; reflexivity.
  - simpl. revert d. induction els as [|e r IHr]; intros d; [reflexivity|].
    inversion IH as [|? ? IHe IHrest]; subst.
    cbn [flat_map]. unfold scan_fold. rewrite fold_left_app. rewrite (IHr IHrest). unfold scan_fold. f_equal.
    apply IHe.
Qed.

Lemma scan_fold_get : forall ns d c x,
  ad_get c (scan_fold ns d) = Some x -> (In x ns /\ an_name x = Some c) \/ ad_get c d = Some x.
Proof.
  induction ns as [|n r IH]; intros d c x H; [now right|].
  simpl in H. apply IH in H. destruct H as [[H1 H2]|H]; [left; split; [now right|assumption]|].
  unfold scan_one in H. destruct (an_name n) as [a|] eqn:En; [|now right].
  rewrite ad_get_set in H. destruct (String.eqb c a) eqn:E; [|now right].
  apply String.eqb_eq in E. subst a. inversion H; subst x. left. split; [now left|assumption].
Qed.

Lemma scan_fold_keys_mono : forall ns d c, In c (ad_keys d) -> In c (ad_keys (scan_fold ns d)).
Proof.
  induction ns as [|n r IH]; intros d c H; [exact H|]. simpl. apply IH.
  unfold scan_one. destruct (an_name n); [|exact H]. apply ad_keys_set. now right.
Qed.

Lemma scan_fold_keys : forall ns d n c, In n ns -> an_name n = Some c -> In c (ad_keys (scan_fold ns d)).
Proof.
  induction ns as [|x r IH]; intros d n c Hin Hn; [contradiction|]. simpl.
  destruct Hin as [->|Hin]; [|eapply IH; eauto].
  apply scan_fold_keys_mono. unfold scan_one. rewrite Hn. apply ad_keys_set. now left.
Qed.

Lemma scan_fold_nodup : forall ns d, NoDup (ad_keys d) -> NoDup (ad_keys (scan_fold ns d)).
Proof.
  induction ns as [|n r IH]; intros d H; [exact H|]. simpl. apply IH.
  unfold scan_one. destruct (an_name n); [now apply ad_keys_set_nodup|exact H].
Qed.

(* ---------- scanned nodes and places ---------- *)
Lemma places_scanned : forall dom n, In n (places dom) -> In n (scanned dom).
Proof.
  induction dom as [i v|i kvs IH|i els IH|i els IH] using node_ind'; intros n Hn; try (simpl in Hn; contradiction).
  - rewrite places_map in Hn. simpl. apply in_flat_map in Hn. destruct Hn as [[k v] [Hin Hn]].
    apply in_flat_map. exists (k, v). split; [assumption|]. cbn [fst snd] in *.
    destruct Hn as [<-|Hn]; [now left|]. right.
    rewrite Forall_forall in IH. destruct (IH (k, v) Hin) as [_ IHv]. cbn [snd] in IHv.
    destruct v; simpl in Hn.
    + destruct Hn as [<-|[]]. now left.
    + right. apply IHv. exact Hn.
    + right. apply IHv. exact Hn.
    + contradiction.
  - rewrite places_seq in Hn. simpl. apply in_flat_map in Hn. destruct Hn as [e [Hin Hn]].
    apply in_flat_map. exists e. split; [assumption|].
    rewrite Forall_forall in IH. specialize (IH e Hin).
    destruct e; simpl in Hn.
    + destruct Hn as [<-|[]]. now left.
    + apply IH. exact Hn.
    + apply IH. exact Hn.
    + contradiction.
Qed.

Lemma noname_none : forall n, an_noname n = true -> an_name n = None.
Proof. intros n H. unfold an_noname in H. rewrite c10_name_an_name in H. destruct (an_name n); [discriminate|reflexivity]. Qed.

Lemma scanned_places : forall dom n,
  an_scalars_only dom = true -> is_leaf dom = false ->
  In n (scanned dom) -> an_name n <> None -> In n (places dom).
Proof.
  induction dom as [i v|i kvs IH|i els IH|i els IH] using node_ind'; intros n Hs Hl Hn Hname; try discriminate.
  - rewrite places_map. simpl in Hn. simpl in Hs. apply andb_true_iff in Hs. destruct Hs as [_ Hs].
    rewrite forallb_forall in Hs.
    apply in_flat_map in Hn. destruct Hn as [[k v] [Hin Hn]]. apply in_flat_map. exists (k, v). split; [assumption|].
    cbn [fst snd] in *. specialize (Hs (k, v) Hin). cbn [fst snd] in Hs. apply andb_true_iff in Hs. destruct Hs as [Hk Hv].
    destruct Hn as [<-|[<-|Hn]]; [now left| |].
    + right. destruct v; simpl; try (now left); simpl in Hv; apply andb_true_iff in Hv + idtac;
        exfalso; apply Hname; apply noname_none; try tauto; exact Hv.
    + right. rewrite Forall_forall in IH. destruct (IH (k, v) Hin) as [_ IHv]. cbn [snd] in IHv.
      destruct v; try contradiction; simpl; apply IHv; auto.
  - rewrite places_seq. simpl in Hn. simpl in Hs. apply andb_true_iff in Hs. destruct Hs as [_ Hs].
    rewrite forallb_forall in Hs.
    apply in_flat_map in Hn. destruct Hn as [e [Hin Hn]]. apply in_flat_map. exists e. split; [assumption|].
    specialize (Hs e Hin). rewrite Forall_forall in IH. specialize (IH e Hin).
    destruct e; simpl in Hn |- *.
    + exact Hn.
    + apply IH; auto.
    + apply IH; auto.
    + destruct Hn as [<-|[]]. exfalso. apply Hname. apply noname_none. exact Hs.
  - simpl in Hn. destruct Hn as [<-|[]]. simpl in Hs. exfalso. apply Hname. now apply noname_none.
Qed.

Lemma places_all : forall dom n, In n (places dom) -> In n (an_all dom).
Proof.
  induction dom as [i v|i kvs IH|i els IH|i els IH] using node_ind'; intros n Hn; try (simpl in Hn; contradiction).
  - rewrite places_map in Hn. simpl. right. apply in_flat_map in Hn. destruct Hn as [[k v] [Hin Hn]].
    apply in_flat_map. exists (k, v). split; [assumption|]. cbn [fst snd] in *. apply in_or_app.
    destruct Hn as [<-|Hn]; [left; destruct k; now left|]. right.
    rewrite Forall_forall in IH. destruct (IH (k, v) Hin) as [_ IHv]. cbn [snd] in IHv.
    destruct v; simpl in Hn.
    + destruct Hn as [<-|[]]. now left.
    + apply IHv. exact Hn.
    + apply IHv. exact Hn.
    + contradiction.
  - rewrite places_seq in Hn. simpl. right. apply in_flat_map in Hn. destruct Hn as [e [Hin Hn]].
    apply in_flat_map. exists e. split; [assumption|].
    rewrite Forall_forall in IH. specialize (IH e Hin).
    destruct e; simpl in Hn.
    + destruct Hn as [<-|[]]. now left.
    + apply IH. exact Hn.
    + apply IH. exact Hn.
    + contradiction.
Qed.

(* what the dictionaries of a well-formed document hold *)
Lemma scan_get_place : forall d c x,
  an_doc_ok d = true -> ad_get c (an_scan_anchors d []) = Some x -> In x (places d) /\ c10_name x = Some c.
Proof.
  intros d c x Hok H. unfold an_doc_ok in Hok. apply andb_true_iff in Hok. destruct Hok as [Hok Hs].
  apply andb_true_iff in Hok. destruct Hok as [Hl _]. apply negb_true_iff in Hl.
  rewrite scan_is_fold in H. apply scan_fold_get in H. destruct H as [[Hin Hn]|H]; [|discriminate].
  split; [|exact Hn]. apply scanned_places; auto. congruence.
Qed.

Lemma scan_keys_place : forall d p c, In p (places d) -> c10_name p = Some c -> In c (ad_keys (an_scan_anchors d [])).
Proof. intros d p c Hp Hn. rewrite scan_is_fold. eapply scan_fold_keys; [apply places_scanned; eauto|exact Hn]. Qed.

Lemma scan_keys_nodup : forall d, NoDup (ad_keys (an_scan_anchors d [])).
Proof. intros d. rewrite scan_is_fold. apply scan_fold_nodup. constructor. Qed.

(* ---------- rename_objs ---------- *)
Section Rename.
Variable ids : list N.
Variable nn : string.
Notation rho := (rename_objs ids nn).

Definition an_in_ids (n : node) : bool := existsb (N.eqb (node_oid n)) ids.

Lemma rho_oid : forall n, node_oid (rho n) = node_oid n.
Proof. intros n. destruct n; simpl; unfold node_oid; simpl; unfold an_upd; destruct (existsb _ ids); reflexivity. Qed.

Lemma rho_out : forall n, is_leaf n = true -> an_in_ids n = false -> rho n = n.
Proof.
  intros n Hl H. destruct n; try discriminate. simpl. unfold an_upd. unfold an_in_ids, node_oid in H. simpl in H.
  rewrite H. reflexivity.
Qed.

Lemma rho_in : forall n, is_leaf n = true -> an_in_ids n = true -> rho n = an_with_name nn n.
Proof.
  intros n Hl H. destruct n; try discriminate. simpl. unfold an_upd. unfold an_in_ids, node_oid in H. simpl in H.
  rewrite H. reflexivity.
Qed.

Lemma rho_vplaces : forall v, places (rho v) = map rho (places v) -> vplaces (rho v) = map rho (vplaces v).
Proof. intros v H. destruct v; simpl in *; try exact H; reflexivity. Qed.

Lemma rho_places : forall d, places (rho d) = map rho (places d).
Proof.
  induction d as [i v|i kvs IH|i els IH|i els IH] using node_ind'; try reflexivity.
  - change (rho (NMap i kvs)) with
      (NMap (an_upd ids nn i) (map (fun kv => (rho (fst kv), rho (snd kv))) kvs)).
    rewrite !places_map. clear i. induction kvs as [|[k v] r IHr]; [reflexivity|].
    inversion IH as [|? ? [_ IHv] IHrest]; subst. cbn [map flat_map fst snd].
    rewrite map_app. cbn [map]. rewrite (IHr IHrest). f_equal. f_equal. apply rho_vplaces. exact IHv.
  - change (rho (NSeq i els)) with (NSeq (an_upd ids nn i) (map rho els)).
    rewrite !places_seq. clear i. induction els as [|e r IHr]; [reflexivity|].
    inversion IH as [|? ? IHe IHrest]; subst. cbn [map flat_map]. rewrite map_app, (IHr IHrest). f_equal.
    apply rho_vplaces. exact IHe.
Qed.

Lemma rho_all : forall d, an_all (rho d) = map rho (an_all d).
Proof.
  induction d as [i v|i kvs IH|i els IH|i els IH] using node_ind'; try reflexivity.
  - change (rho (NMap i kvs)) with
      (NMap (an_upd ids nn i) (map (fun kv => (rho (fst kv), rho (snd kv))) kvs)).
    cbn [an_all map]. f_equal. clear i. induction kvs as [|[k v] r IHr]; [reflexivity|].
    inversion IH as [|? ? [IHk IHv] IHrest]; subst. cbn [map flat_map fst snd] in *.
    rewrite !map_app. rewrite (IHr IHrest), IHk, IHv. reflexivity.
  - change (rho (NSeq i els)) with (NSeq (an_upd ids nn i) (map rho els)).
    cbn [an_all map]. f_equal. clear i. induction els as [|e r IHr]; [reflexivity|].
    inversion IH as [|? ? IHe IHrest]; subst. cbn [map flat_map]. rewrite map_app, (IHr IHrest), IHe. reflexivity.
  - change (rho (NSet i els)) with (NSet (an_upd ids nn i) (map rho els)).
    cbn [an_all map]. f_equal. clear i. induction els as [|e r IHr]; [reflexivity|].
    inversion IH as [|? ? IHe IHrest]; subst. cbn [map flat_map]. rewrite map_app, (IHr IHrest), IHe. reflexivity.
Qed.

Lemma rho_heap_ok : forall d, an_heap_ok d -> an_heap_ok (rho d).
Proof.
  intros d H n m Hn Hm E. rewrite rho_all in Hn, Hm.
  apply in_map_iff in Hn. destruct Hn as [n0 [<- Hn]]. apply in_map_iff in Hm. destruct Hm as [m0 [<- Hm]].
  rewrite !rho_oid in E. now rewrite (H n0 m0 Hn Hm E).
Qed.
End Rename.

(* what rename_anchor reaches: every place carrying the name; only nodes carrying it *)
Lemma an_hit_in : forall a n, an_has a n = true -> In (node_oid n) (an_hit a n).
Proof. intros a n H. unfold an_hit. rewrite H. now left. Qed.

Lemma reach_places : forall a d p, In p (places d) -> an_has a p = true -> In (node_oid p) (rename_reach a d).
Proof.
  intros a. induction d as [i v|i kvs IH|i els IH|i els IH] using node_ind'; intros p Hp Hh; try (simpl in Hp; contradiction).
  - rewrite places_map in Hp. simpl. apply in_flat_map in Hp. destruct Hp as [[k v] [Hin Hp]].
    apply in_flat_map. exists (k, v). split; [assumption|]. cbn [fst snd] in *.
    destruct Hp as [<-|Hp]; [apply in_or_app; left; now apply an_hit_in|].
    apply in_or_app. right. apply in_or_app.
    rewrite Forall_forall in IH. destruct (IH (k, v) Hin) as [_ IHv]. cbn [snd] in IHv.
    destruct v; simpl in Hp.
    + destruct Hp as [<-|[]]. left. now apply an_hit_in.
    + right. apply IHv; assumption.
    + right. apply IHv; assumption.
    + contradiction.
  - rewrite places_seq in Hp. simpl. apply in_flat_map in Hp. destruct Hp as [e [Hin Hp]].
    apply in_flat_map. exists e. split; [assumption|].
    rewrite Forall_forall in IH. specialize (IH e Hin).
    destruct e; simpl in Hp.
    + destruct Hp as [<-|[]]. simpl. now apply an_hit_in.
    + apply IH; assumption.
    + apply IH; assumption.
    + contradiction.
Qed.

Lemma an_hit_inv : forall a n o, In o (an_hit a n) -> an_has a n = true /\ node_oid n = o.
Proof. intros a n o H. unfold an_hit in H. destruct (an_has a n); [|contradiction]. destruct H as [<-|[]]. auto. Qed.

Lemma all_self : forall d, In d (an_all d).
Proof. intros d. destruct d; now left. Qed.

Lemma reach_all : forall a d o, In o (rename_reach a d) ->
  exists q, In q (an_all d) /\ an_has a q = true /\ node_oid q = o.
Proof.
  intros a. induction d as [i v|i kvs IH|i els IH|i els IH] using node_ind'; intros o Ho.
  - simpl in Ho. apply an_hit_inv in Ho. exists (NLeaf i v). split; [now left|exact Ho].
  - simpl in Ho. apply in_flat_map in Ho. destruct Ho as [[k v] [Hin Ho]]. cbn [fst snd] in Ho.
    rewrite Forall_forall in IH. destruct (IH (k, v) Hin) as [_ IHv]. cbn [snd] in IHv.
    assert (Sub : forall q, In q (an_all k) \/ In q (an_all v) -> In q (an_all (NMap i kvs))).
    { intros q Hq. simpl. right. apply in_flat_map. exists (k, v). split; [assumption|]. apply in_or_app. exact Hq. }
    apply in_app_or in Ho. destruct Ho as [Ho|Ho].
    + apply an_hit_inv in Ho. exists k. split; [apply Sub; left; apply all_self|exact Ho].
    + apply in_app_or in Ho. destruct Ho as [Ho|Ho].
      * apply an_hit_inv in Ho. exists v. split; [apply Sub; right; apply all_self|exact Ho].
      * destruct (IHv o Ho) as [q [Hq Hr]]. exists q. split; [apply Sub; now right|exact Hr].
  - simpl in Ho. apply in_flat_map in Ho. destruct Ho as [e [Hin Ho]].
    rewrite Forall_forall in IH. destruct (IH e Hin o Ho) as [q [Hq Hr]]. exists q. split; [|exact Hr].
    simpl. right. apply in_flat_map. exists e. auto.
  - simpl in Ho. apply an_hit_inv in Ho. exists (NSet i els). split; [now left|exact Ho].
Qed.
