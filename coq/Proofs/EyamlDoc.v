(* C19, document level, part 2: one rotation step keeps the invariant; the loop. *)
From Coq Require Import List Ascii String NArith Bool Arith Lia.
From YP Require Import Outcome PyStr PyVal Doc Eyaml C19Spec C19DocSpec EyamlProofs EyamlSubst.
Import ListNotations.
Open Scope string_scope.
Open Scope list_scope.
Import Ey.

(* ---- locations ------------------------------------------------------------------------ *)

Lemma lookup_app : forall l1 l2 n,
  lookup n (l1 ++ l2) = match lookup n l1 with Some c => lookup c l2 | None => None end.
Proof.
  induction l1 as [|r l1 IH]; intros l2 n; [reflexivity|].
  simpl. destruct (child n r) as [c|]; [apply IH | reflexivity].
Qed.

Lemma lookup_vnodes : forall l n y, (forall m, ~ In (RMember m) l) -> lookup n l = Some y -> In y (vnodes n).
Proof.
  induction l as [|r rest IH]; intros n y Hm H.
  - inversion H; subst; apply vnodes_self.
  - simpl in H. destruct (child n r) as [c|] eqn:Hc; [|discriminate H].
    assert (Hset : is_set n = false).
    { destruct n as [| | |i els]; try reflexivity. destruct r as [k|j|m]; try discriminate Hc.
      exfalso; apply (Hm m); left; reflexivity. }
    eapply child_vnodes; [exact Hset | exact Hc|].
    apply IH; [intros m Hin; apply (Hm m); right; exact Hin | exact H].
Qed.

(* ---- [rotated]: reflexivity, monotonicity, locations, frame --------------------------------- *)

Lemma rotated_refl : forall (L : node -> node -> Prop) n,
  (forall x, In x (vnodes n) -> is_eyaml_node x = true -> L x x) -> rotated L n n.
Proof.
  intros L. induction n as [i v | i kvs IH | i els IH | i els IH] using node_ind'; intro H.
  - simpl. destruct (is_eyaml_value v) eqn:E; [|reflexivity]. apply H; [left; reflexivity | exact E].
  - rewrite rotated_map. exists kvs; split; [reflexivity|].
    assert (Hs : forall k v x, In (k, v) kvs -> In x (vnodes v) -> is_eyaml_node x = true -> L x x)
      by (intros k v x Hin Hx; apply H; eapply vnodes_map_child; eassumption).
    clear H. induction kvs as [|[k v] r IHr]; [exact I|]. rewrite rot_kvs_cons.
    pose proof (Forall_inv IH) as [_ IHv]; pose proof (Forall_inv_tail IH) as IHrest.
    split; [reflexivity|]. split.
    + apply IHv. intros x Hx; apply (Hs k v x); [left; reflexivity | exact Hx].
    + apply IHr; [exact IHrest | intros k' v' x Hin; apply (Hs k' v' x); right; exact Hin].
  - rewrite rotated_seq. exists els; split; [reflexivity|].
    assert (Hs : forall v x, In v els -> In x (vnodes v) -> is_eyaml_node x = true -> L x x)
      by (intros v x Hin Hx; apply H; eapply vnodes_seq_child; eassumption).
    clear H. induction els as [|v r IHr]; [exact I|]. rewrite rot_els_cons.
    pose proof (Forall_inv IH) as IHv; pose proof (Forall_inv_tail IH) as IHrest.
    split.
    + apply IHv. intros x Hx; apply (Hs v x); [left; reflexivity | exact Hx].
    + apply IHr; [exact IHrest | intros v' x Hin; apply (Hs v' x); right; exact Hin].
  - reflexivity.
Qed.

Lemma rotated_mono : forall (L L' : node -> node -> Prop),
  (forall a b, L a b -> L' a b) -> forall n n', rotated L n n' -> rotated L' n n'.
Proof.
  intros L L' HL. induction n as [i v | i kvs IH | i els IH | i els IH] using node_ind'; intros n' H.
  - simpl in H |- *. destruct (is_eyaml_value v); [apply HL; exact H | exact H].
  - rewrite rotated_map in H |- *. destruct H as [kvs' [-> H]]. exists kvs'; split; [reflexivity|].
    revert kvs' H. induction kvs as [|[k v] r IHr]; intros [|[k' v'] r'] H; try exact H.
    rewrite rot_kvs_cons in H |- *. destruct H as [Hk [Hv Hr]].
    pose proof (Forall_inv IH) as [_ IHv]; pose proof (Forall_inv_tail IH) as IHrest.
    split; [exact Hk|]. split; [apply IHv; exact Hv | apply IHr; assumption].
  - rewrite rotated_seq in H |- *. destruct H as [els' [-> H]]. exists els'; split; [reflexivity|].
    revert els' H. induction els as [|v r IHr]; intros [|v' r'] H; try exact H.
    rewrite rot_els_cons in H |- *. destruct H as [Hv Hr].
    pose proof (Forall_inv IH) as IHv; pose proof (Forall_inv_tail IH) as IHrest.
    split; [apply IHv; exact Hv | apply IHr; assumption].
  - exact H.
Qed.

Lemma rot_kvs_assoc : forall L k kvs kvs' c0, rot_kvs L kvs kvs' -> assoc_key k kvs = Some c0 ->
  exists c, assoc_key k kvs' = Some c /\ rotated L c0 c.
Proof.
  induction kvs as [|[kn v] r IH]; intros [|[kn' v'] r'] c0 H A; try discriminate A; try (exfalso; exact H).
  rewrite rot_kvs_cons in H. destruct H as [Hk [Hv Hr]]. simpl in Hk, Hv. subst kn'.
  simpl in A |- *. destruct kn as [ik kv| | |]; try (apply IH; assumption).
  destruct (py_eq kv k); [inversion A; subst; exists v'; split; [reflexivity | exact Hv] | apply IH; assumption].
Qed.

Lemma rot_els_nth : forall L j els els' c0, rot_els L els els' -> nth_error els j = Some c0 ->
  exists c, nth_error els' j = Some c /\ rotated L c0 c.
Proof.
  induction j as [|j IH]; intros [|v r] [|v' r'] c0 H A; try discriminate A; try (exfalso; exact H);
    rewrite rot_els_cons in H; destruct H as [Hv Hr]; simpl in A |- *.
  - inversion A; subst; exists v'; split; [reflexivity | exact Hv].
  - eapply IH; eassumption.
Qed.

Lemma rotated_lookup : forall L l n0 n m0, (forall m, ~ In (RMember m) l) ->
  rotated L n0 n -> lookup n0 l = Some m0 -> exists y, lookup n l = Some y /\ rotated L m0 y.
Proof.
  induction l as [|r rest IH]; intros n0 n m0 Hm H A.
  - inversion A; subst; exists n; split; [reflexivity | exact H].
  - simpl in A. destruct (child n0 r) as [c0|] eqn:Hc; [|discriminate A].
    assert (Hm' : forall m, ~ In (RMember m) rest) by (intros m Hin; apply (Hm m); right; exact Hin).
    destruct n0 as [i v|i kvs|i els|i els]; destruct r as [k|j|m]; try discriminate Hc.
    + rewrite rotated_map in H. destruct H as [kvs' [-> H]]. simpl in Hc.
      destruct (rot_kvs_assoc L k kvs kvs' c0 H Hc) as [c [Hc' Hr]].
      destruct (IH c0 c m0 Hm' Hr A) as [y [Hy Hy']]. exists y; split; [simpl; rewrite Hc'; exact Hy | exact Hy'].
    + rewrite rotated_seq in H. destruct H as [els' [-> H]]. simpl in Hc.
      destruct (rot_els_nth L j els els' c0 H Hc) as [c [Hc' Hr]].
      destruct (IH c0 c m0 Hm' Hr A) as [y [Hy Hy']]. exists y; split; [simpl; rewrite Hc'; exact Hy | exact Hy'].
    + exfalso; apply (Hm m); left; reflexivity.
Qed.

(* the frame: every non-encrypted key, value, ordering and anchor is unchanged *)
Lemma anchor_name_info : forall a b, node_info a = node_info b -> anchor_name a = anchor_name b.
Proof. intros a b H; unfold anchor_name; rewrite H; reflexivity. Qed.

Lemma rotated_frame : forall n n', rotated frame_leaf n n' -> frame_of n' = frame_of n.
Proof.
  induction n as [i v | i kvs IH | i els IH | i els IH] using node_ind'; intros n' H.
  - simpl in H. destruct (is_eyaml_value v) eqn:E; [|subst n'; reflexivity].
    destruct H as [Hs Ha]. destruct n' as [i' v'| | |]; try discriminate Hs. simpl in Hs.
    simpl. rewrite Hs, E. f_equal. exact Ha.
  - rewrite rotated_map in H. destruct H as [kvs' [-> H]]. simpl. f_equal.
    revert kvs' H. induction kvs as [|[k v] r IHr]; intros [|[k' v'] r'] H; try reflexivity; try (exfalso; exact H).
    rewrite rot_kvs_cons in H. destruct H as [Hk [Hv Hr]]. simpl in Hk, Hv. subst k'.
    pose proof (Forall_inv IH) as [_ IHv]; pose proof (Forall_inv_tail IH) as IHrest.
    simpl. rewrite (IHv v' Hv), (IHr IHrest r' Hr). reflexivity.
  - rewrite rotated_seq in H. destruct H as [els' [-> H]]. simpl. f_equal.
    revert els' H. induction els as [|v r IHr]; intros [|v' r'] H; try reflexivity; try (exfalso; exact H).
    rewrite rot_els_cons in H. destruct H as [Hv Hr].
    pose proof (Forall_inv IH) as IHv; pose proof (Forall_inv_tail IH) as IHrest.
    simpl. rewrite (IHv v' Hv), (IHr IHrest r' Hr). reflexivity.
  - simpl in H; subst n'; reflexivity.
Qed.

(* ---- one replacement (Processor.set_value at one matched location) --------------------------- *)
Section OneStep.
  Variables (d0 : node) (next0 : N).
  Variable Lst : node -> node -> Prop.
  Hypothesis Lst_leaf : forall a b, Lst a b -> is_leaf b = true.

  Variables (d : node) (next : N) (l : loc) (parent : node) (i : info) (v : pyval) (value : string).
  Notation y := (NLeaf i v).
  Notation N' := (fresh_leaf next y value).
  Notation d' := (subst (node_oid parent) (last l (RIdx 0)) (oid i) (has_anchor_attr i) N' d).
  Hypothesis HI : Inv d next.
  Hypothesis Hnl : is_leaf d = false.
  Hypothesis Hl : lookup d l = Some y.
  Hypothesis Hp : lookup d (removelast l) = Some parent.
  Hypothesis Hnm : forall m, ~ In (RMember m) l.

  Lemma step_y_in : In y (vnodes d).
  Proof. eapply lookup_vnodes; eassumption. Qed.

  Lemma step_l_split : l = removelast l ++ [last l (RIdx 0)].
  Proof.
    apply app_removelast_last. intro E; rewrite E in Hl; simpl in Hl. inversion Hl as [E']. rewrite E' in Hnl; discriminate Hnl.
  Qed.

  Lemma step_inv : Inv d' (N.succ next).
  Proof.
    eapply (subst_inv _ _ _ _ _ d next HI i v step_y_in); try reflexivity. exact Hnl.
  Qed.

  Lemma step_not_leaf : is_leaf d' = false.
  Proof. rewrite subst_is_leaf; exact Hnl. Qed.

  Lemma step_resolve : forall p, resolve d' p = resolve d p.
  Proof.
    intro p. eapply (resolve_subst _ _ _ _ _ d next HI i v step_y_in); try reflexivity.
    intros x Hx; exact Hx.
  Qed.

  Lemma step_rotated : is_eyaml_node y = true -> (forall m0, Lst m0 y -> Lst m0 N') ->
    rotated Lst d0 d -> rotated Lst d0 d'.
  Proof.
    intros Hs HN H.
    eapply (rotated_subst _ _ _ _ _ d next HI i v step_y_in); try reflexivity; try eassumption.
    intros x Hx; exact Hx.
  Qed.

  Lemma step_addressed : lookup d' l = Some N'.
  Proof.
    rewrite step_l_split at 2.
    eapply (lookup_subst_addressed _ _ _ _ _ d next HI i v step_y_in); try reflexivity.
    - intros x Hx; exact Hx.
    - rewrite <- step_l_split; exact Hnm.
    - exact Hp.
    - pose proof Hl as E. rewrite step_l_split, lookup_app, Hp in E. simpl in E.
      destruct (child parent (last l (RIdx 0))) as [c|]; [inversion E; reflexivity | discriminate E].
  Qed.

  Lemma step_lookup : forall l0 z, lookup d l0 = Some z ->
    exists z', lookup d' l0 = Some z' /\
      (z' = N' \/ (node_info z' = node_info z /\ (is_leaf z = true -> z' = z))).
  Proof.
    intros l0 z H.
    assert (E : lookup d' l0 = Some (subst (node_oid parent) (last l (RIdx 0)) (oid i) (has_anchor_attr i) N' z)
                \/ (lookup d' l0 = Some N' /\ z = y /\ l0 <> [])).
    { eapply (lookup_subst _ _ _ _ _ d next HI i v step_y_in); try reflexivity; [intros x Hx; exact Hx | exact H]. }
    destruct E as [E|[E _]].
    - eexists; split; [exact E|]. right; split; [apply subst_info | intro Hz; apply subst_leaf; exact Hz].
    - eexists; split; [exact E | left; reflexivity].
  Qed.

  Lemma step_vnodes : forall z', In z' (vnodes d') ->
    z' = N' \/ exists z, In z (vnodes d) /\ node_info z' = node_info z /\ (is_leaf z = true -> z' = z) /\
                         ~ (node_oid z = oid i /\ has_anchor_attr i = true).
  Proof.
    intros z' H.
    assert (E : z' = N' \/ exists z, In z (vnodes d) /\
                  z' = subst (node_oid parent) (last l (RIdx 0)) (oid i) (has_anchor_attr i) N' z /\
                  (z = d \/ ~ (node_oid z = oid i /\ has_anchor_attr i = true))).
    { eapply (vnodes_subst _ _ _ _ _ d next HI i v step_y_in); try reflexivity; [intros x Hx; exact Hx | exact H]. }
    destruct E as [E|[z [Hz [E Hc]]]].
    - left; exact E.
    - right; exists z; split; [exact Hz|]. subst z'. split; [apply subst_info|]. split; [intro Hl'; apply subst_leaf; exact Hl'|].
      destruct Hc as [->|Hc]; [|exact Hc].
      intros [Ho _]. pose proof (inv_id d next HI d y (vnodes_self d) step_y_in Ho) as E. rewrite E in Hnl; discriminate Hnl.
  Qed.
End OneStep.

(* ---- the run -------------------------------------------------------------------------------- *)
Section Run.
  Variable key : Type.
  Variables enc dec : key -> string -> option string.
  Variable layout : out_fmt -> string -> string.
  Variables oldk newk : key.
  Hypothesis dec_enc : forall k p c, enc k p = Some c -> dec k c = Some p.
  Hypothesis dec_other : forall k k' p c, k <> k' -> enc k p = Some c -> dec k' c = None.
  Hypothesis enc_shape : forall k p c, enc k p = Some c -> cipher_ok c = true.
  (* the layout law, asked only of the ciphertexts the cipher produces *)
  Hypothesis layout_ok : forall k p c fmt, enc k p = Some c ->
    exists stored, post_encrypt fmt (layout fmt c) = Ok stored /\ clean stored = c.
  Hypothesis keys_differ : oldk <> newk.

  Lemma rekey_value_w : forall (p : string) (fmt : out_fmt) (stored : string),
    plain_ok p = true ->
    encrypt_eyaml key enc layout newk p fmt = Ok stored ->
    decrypt_eyaml key dec newk (PStr stored) = Ok (PStr p)
    /\ decrypt_eyaml key dec oldk (PStr stored) = Raise EyamlExc.
  Proof.
    intros p fmt stored Hp He.
    destruct (plain_ok_parts p Hp) as (Hne & Hpa & Hpr & Hpe).
    unfold encrypt_eyaml in He; rewrite Hpe, Hpa in He; simpl in He.
    destruct (enc newk p) as [c|] eqn:Hc; [|discriminate He].
    pose proof (enc_shape _ _ _ Hc) as Hok.
    destruct (layout_ok _ _ _ fmt Hc) as (st & Hpost & Hclean).
    rewrite Hpost in He; inversion He; subst st; clear He.
    split.
    - eapply decrypt_stored; eauto.
    - eapply decrypt_stored_wrong_key; eauto.
  Qed.

  Variables (d0 : node) (next0 : N).

  (* what a value position of the current document is to the loaded one: the very
     node, or a node created by the run that is its re-keyed image *)
  Definition Lst (n0 n' : node) : Prop :=
    is_eyaml_node n0 = true /\ (node_oid n0 < next0)%N /\
    (n' = n0 \/ ((next0 <= node_oid n')%N /\ rekeyed_leaf key dec oldk newk n0 n')).

  Lemma Lst_leaf : forall a b, Lst a b -> is_leaf b = true.
  Proof.
    intros a b [Hl [_ [->|[_ H]]]]; [destruct a; try discriminate Hl; reflexivity|].
    destruct H as (i & s & i' & s' & p & _ & -> & _); reflexivity.
  Qed.

  Lemma encrypt_secret : forall txt fmt value,
    encrypt_eyaml key enc layout newk txt fmt = Ok value -> is_eyaml_str value = true.
  Proof.
    intros txt fmt value H; unfold encrypt_eyaml in H.
    destruct (is_eyaml_str txt) eqn:E; [inversion H; subst; exact E|].
    destruct (negb (is_ascii_str txt)); [discriminate H|].
    destruct (enc newk txt) as [c|] eqn:Hc; [|discriminate H].
    pose proof (enc_shape _ _ _ Hc) as Hok. destruct (layout_ok _ _ _ fmt Hc) as (st & Hpost & Hclean).
    rewrite Hpost in H; inversion H; subst st.
    destruct (cipher_ok_parts c Hok) as (Hm & _). unfold is_eyaml_str; rewrite Hclean; exact Hm.
  Qed.

  (* (A) the visited node gives way to its re-keyed image *)
  Lemma Lst_rotate : forall i v txt fmt value o m0,
    is_eyaml_value v = true ->
    decrypt_eyaml key dec oldk v = Ok (PStr txt) ->
    encrypt_eyaml key enc layout newk txt fmt = Ok value ->
    (next0 <= o)%N ->
    Lst m0 (NLeaf i v) -> Lst m0 (fresh_leaf o (NLeaf i v) value).
  Proof.
    intros i v txt fmt value o m0 Hs Hd He Ho [Hl [Hlt H]].
    destruct v as [| | | |s|]; try discriminate Hs.
    pose proof (encrypt_secret _ _ _ He) as Hsec.
    split; [exact Hl|]. split; [exact Hlt|]. right. split; [exact Ho|].
    destruct H as [E|[_ H]].
    - subst m0. exists i, s, (mkinfo o (anchor_name (NLeaf i (PStr s))) true None), value, txt.
      repeat split; try assumption.
      + apply anchor_name_fresh_leaf.
      + destruct (rekey_value_w txt fmt value H He) as (A & _); exact A.
      + destruct (rekey_value_w txt fmt value H He) as (_ & B); exact B.
    - destruct H as (i0 & s0 & i' & s' & p & -> & E & Ha & Hs' & Hd0 & Hp).
      inversion E; subst i' s'; clear E.
      exists i0, s0, (mkinfo o (anchor_name (NLeaf i (PStr s))) true None), value, p.
      repeat split; try assumption.
      + rewrite <- Ha; apply anchor_name_fresh_leaf.
      + exfalso. destruct (Hp H) as [_ B]. rewrite B in Hd; discriminate Hd.
      + exfalso. destruct (Hp H) as [_ B]. rewrite B in Hd; discriminate Hd.
  Qed.

  (* (B) a node of the run holding the new value gives way to another one *)
  Lemma Lst_again : forall i' value o m0,
    (next0 <= oid i')%N -> (next0 <= o)%N ->
    Lst m0 (NLeaf i' (PStr value)) -> Lst m0 (fresh_leaf o (NLeaf i' (PStr value)) value).
  Proof.
    intros i' value o m0 Hi Ho [Hl [Hlt H]].
    split; [exact Hl|]. split; [exact Hlt|]. right. split; [exact Ho|].
    destruct H as [E|[_ H]].
    - exfalso. subst m0. unfold node_oid in Hlt; simpl in Hlt. lia.
    - destruct H as (i0 & s0 & i1 & s' & p & -> & E & Ha & Hs' & Hd0 & Hp).
      inversion E; subst i1 s'; clear E.
      exists i0, s0, (mkinfo o (anchor_name (NLeaf i' (PStr value))) true None), value, p.
      repeat split; try assumption; try (apply Hp; assumption).
      rewrite <- Ha; apply anchor_name_fresh_leaf.
  Qed.

  Lemma set_at_ok : forall st l value fmt st', set_at st l value fmt = Ok st' ->
    exists parent i v,
      lookup (r_doc st) (removelast l) = Some parent /\ lookup (r_doc st) l = Some (NLeaf i v) /\
      st' = mkrs (subst (node_oid parent) (last l (RIdx 0)) (oid i) (has_anchor_attr i)
                        (fresh_leaf (r_next st) (NLeaf i v) value) (r_doc st))
                 (r_seen st) (r_changed st) (r_exit st) (N.succ (r_next st))
                 (match fmt with OBlock => r_next st :: r_folded st | OString => r_folded st end)
                 (r_log st).
  Proof.
    intros st l value fmt st' H; unfold set_at in H.
    destruct (lookup (r_doc st) (removelast l)) as [parent|]; [|discriminate H].
    destruct (lookup (r_doc st) l) as [[i v| | |]|]; try discriminate H.
    inversion H. exists parent, i, v. repeat split.
  Qed.

  (* the part of the state invariant that does not depend on seen_anchors *)
  Record Core (st : rstate) : Prop := mkCore {
    c_inv : Inv (r_doc st) (r_next st);
    c_next : (next0 <= r_next st)%N;
    c_notleaf : is_leaf (r_doc st) = false;
    c_rot : rotated Lst d0 (r_doc st);
    c_res : forall p, resolve (r_doc st) p = resolve d0 p
  }.

  Definition Done (st : rstate) (l : loc) : Prop :=
    exists y, lookup (r_doc st) l = Some y /\ (next0 <= node_oid y)%N.

  Definition SeenOK (st : rstate) : Prop :=
    r_exit st = 0 -> forall z a, In z (vnodes (r_doc st)) -> araw z = Some a -> In a (r_seen st) ->
                                (next0 <= node_oid z)%N.

  Section SetLocs.
    (* Processor.set_value: every location the path matches, in turn *)
    Variables (ix : info) (vx : pyval) (value : string) (fmt : out_fmt) (R : list loc).
    Notation x := (NLeaf ix vx).
    Hypothesis Hx_secret : is_eyaml_value vx = true.
    Hypothesis Hx_rot : forall o m0, (next0 <= o)%N -> Lst m0 x -> Lst m0 (fresh_leaf o x value).
    Hypothesis Hval_secret : is_eyaml_str value = true.
    Hypothesis HR_nm : forall l, In l R -> forall m, ~ In (RMember m) l.

    Definition Vv (y : node) : Prop := exists i', y = NLeaf i' (PStr value) /\ (next0 <= oid i')%N.
    Definition GoneX (st : rstate) : Prop := forall z, In z (vnodes (r_doc st)) -> node_oid z <> oid ix.
    Definition AllX (st : rstate) : Prop := forall l, In l R -> lookup (r_doc st) l = Some x.

    Record SV (st : rstate) : Prop := mkSV {
      sv_core : Core st;
      sv_xlt : (oid ix < r_next st)%N;
      sv_q : forall l, In l R -> exists y, lookup (r_doc st) l = Some y /\ (y = x \/ Vv y);
      sv_seen : r_exit st = 0 -> forall z a, In z (vnodes (r_doc st)) -> araw z = Some a -> In a (r_seen st) ->
                                 (next0 <= node_oid z)%N \/ z = x;
      sv_gone : has_anchor_attr ix = true -> GoneX st \/ AllX st
    }.

    Lemma set_at_sv : forall st l st', SV st -> In l R -> set_at st l value fmt = Ok st' ->
      SV st' /\ Done st' l /\ (forall l0, Done st l0 -> Done st' l0) /\
      r_seen st' = r_seen st /\ r_exit st' = r_exit st /\ r_changed st' = r_changed st /\ r_log st' = r_log st /\
      (has_anchor_attr ix = true -> GoneX st').
    Proof.
      intros st l st' HS Hl H.
      destruct (set_at_ok _ _ _ _ _ H) as (parent & i & v & Hp & Hy & ->). clear H.
      destruct HS as [[HI Hn Hnl Hrot Hres] Hxlt Hq Hseen Hgone].
      pose proof (HR_nm l Hl) as Hnm.
      pose proof (step_y_in _ _ _ _ Hy Hnm) as Hyin.
      (* the node found there is the visited one or one of the run *)
      destruct (Hq l Hl) as [y' [Hy' Hcase]]. rewrite Hy in Hy'. inversion Hy' as [Ey]. clear Hy'.
      assert (Hys : is_eyaml_node (NLeaf i v) = true).
      { destruct Hcase as [E|[i' [E _]]]; rewrite <- Ey in E; inversion E; subst; simpl; [exact Hx_secret | exact Hval_secret]. }
      assert (HyL : forall m0, Lst m0 (NLeaf i v) -> Lst m0 (fresh_leaf (r_next st) (NLeaf i v) value)).
      { destruct Hcase as [E|[i' [E Hi']]]; rewrite <- Ey in E; inversion E; subst.
        - intros m0; apply Hx_rot; exact Hn.
        - intros m0; apply Lst_again; assumption. }
      assert (Hfresh_new : (next0 <= node_oid (fresh_leaf (r_next st) (NLeaf i v) value))%N) by exact Hn.
      split; [|split; [|split]].
      - constructor; simpl.
        + constructor; simpl.
          * eapply step_inv; eassumption.
          * lia.
          * eapply step_not_leaf; eassumption.
          * eapply step_rotated; try eassumption. exact Lst_leaf.
          * intro p. rewrite <- Hres. eapply step_resolve; eassumption.
        + lia.
        + intros l1 Hl1. destruct (Hq l1 Hl1) as [y1 [Hy1 Hc1]].
          destruct (step_lookup _ _ _ parent _ _ value HI Hy Hnm l1 y1 Hy1) as [z' [Hz' [E|[_ E]]]].
          * exists z'; split; [exact Hz'|]. right. subst z'. eexists; split; [reflexivity | exact Hn].
          * exists z'; split; [exact Hz'|].
            assert (Hleaf : is_leaf y1 = true) by (destruct Hc1 as [->|[i' [-> _]]]; reflexivity).
            rewrite (E Hleaf); exact Hc1.
        + intros Hex z' a Hz' Ha Hin.
          destruct (step_vnodes _ _ _ parent _ _ value HI Hnl Hy Hnm z' Hz') as [E|[z [Hz [Hinfo [Hleaf _]]]]].
          * left; subst z'; exact Hn.
          * assert (Ha' : araw z = Some a) by (unfold araw in Ha |- *; rewrite <- Hinfo; exact Ha).
            destruct (Hseen Hex z a Hz Ha' Hin) as [A|A].
            -- left. unfold node_oid; rewrite Hinfo; exact A.
            -- right. subst z. apply Hleaf; reflexivity.
        + intro Hattr. left. intros z' Hz'.
          destruct (step_vnodes _ _ _ parent _ _ value HI Hnl Hy Hnm z' Hz') as [E|[z [Hz [Hinfo [_ Hnot]]]]].
          * subst z'. unfold node_oid; simpl. lia.
          * unfold node_oid; rewrite Hinfo. fold (node_oid z).
            destruct (Hgone Hattr) as [G|A]; [apply G; exact Hz|].
            (* all locations still hold the visited node: this replacement removes it everywhere *)
            rewrite (A l Hl) in Hy. inversion Hy; subst i v.
            intro Ho. apply Hnot; split; assumption.
      - exists (fresh_leaf (r_next st) (NLeaf i v) value). split; [eapply step_addressed; eassumption | exact Hn].
      - intros l0 [y0 [Hy0 Hnew0]].
        destruct (step_lookup _ _ _ parent _ _ value HI Hy Hnm l0 y0 Hy0) as [z' [Hz' [E|[Hinfo _]]]].
        + exists z'; split; [exact Hz' | subst z'; exact Hn].
        + exists z'; split; [exact Hz' | unfold node_oid; rewrite Hinfo; exact Hnew0].
      - repeat split.
        intro Hattr. intros z' Hz'.
        destruct (step_vnodes _ _ _ parent _ _ value HI Hnl Hy Hnm z' Hz') as [E|[z [Hz [Hinfo [_ Hnot]]]]].
        + subst z'. unfold node_oid; simpl. lia.
        + unfold node_oid; rewrite Hinfo. fold (node_oid z).
          destruct (Hgone Hattr) as [G|A]; [apply G; exact Hz|].
          rewrite (A l Hl) in Hy. inversion Hy; subst i v.
          intro Ho. apply Hnot; split; assumption.
    Qed.

    Lemma set_value_locs_sv : forall ls st st', SV st -> (forall l, In l ls -> In l R) ->
      set_value_locs st ls value fmt = Ok st' ->
      SV st' /\ (forall l, In l ls -> Done st' l) /\ (forall l0, Done st l0 -> Done st' l0) /\
      r_seen st' = r_seen st /\ r_exit st' = r_exit st /\ r_changed st' = r_changed st /\ r_log st' = r_log st /\
      (ls <> [] -> has_anchor_attr ix = true -> GoneX st').
    Proof.
      induction ls as [|l r IH]; intros st st' HS Hls H; simpl in H.
      - inversion H; subst. split; [exact HS|]. split; [intros l []|]. split; [tauto|].
        repeat (split; [reflexivity|]). intro F; exfalso; apply F; reflexivity.
      - destruct (set_at st l value fmt) as [s1| |] eqn:E; simpl in H; try discriminate H.
        destruct (set_at_sv st l s1 HS (Hls l (or_introl eq_refl)) E) as (HS1 & HD1 & HM1 & E1 & E2 & E3 & E4 & G1).
        destruct (IH s1 st' HS1 (fun l0 H0 => Hls l0 (or_intror H0)) H) as (HS2 & HD2 & HM2 & F1 & F2 & F3 & F4 & G2).
        split; [exact HS2|]. split; [|split].
        + intros l0 [<-|Hin]; [apply HM2; exact HD1 | apply HD2; exact Hin].
        + intros l0 Hd; apply HM2, HM1; exact Hd.
        + repeat split; try congruence.
          intros _ Hattr. destruct (sv_gone st' HS2 Hattr) as [G|A]; [exact G|].
          (* the visited node cannot be back at every location: it is gone since the first replacement *)
          exfalso. destruct r as [|l1 r1].
          * inversion H; subst st'. destruct HD1 as [y1 [Hy1 Hn1]]. rewrite (A l (Hls l (or_introl eq_refl))) in Hy1.
            inversion Hy1; subst y1. pose proof (sv_xlt st HS).
            pose proof (c_inv st (sv_core st HS)) as HI.
            assert (Hxin : In x (vnodes (r_doc st))).
            { destruct (sv_q st HS l (Hls l (or_introl eq_refl))) as [y [Hy _]].
              pose proof (G1 Hattr) as G. pose proof (A l (Hls l (or_introl eq_refl))) as Ax.
              exfalso. apply (G x); [eapply lookup_vnodes; [apply HR_nm; apply Hls; left; reflexivity | exact Ax] | reflexivity]. }
            pose proof (inv_fresh _ _ HI x Hxin) as Hlt. unfold node_oid in Hn1, Hlt; simpl in Hn1, Hlt.
            pose proof (c_next st (sv_core st HS)). 
            pose proof (G1 Hattr) as G. apply (G x); [|reflexivity].
            eapply lookup_vnodes; [apply HR_nm; apply Hls; left; reflexivity | apply A; apply Hls; left; reflexivity].
          * pose proof (G2 ltac:(discriminate) Hattr) as G. apply (G x); [|reflexivity].
            eapply lookup_vnodes; [apply HR_nm; apply Hls; left; reflexivity | apply A; apply Hls; left; reflexivity].
    Qed.
  End SetLocs.

  Lemma Core_ext : forall st st', r_doc st' = r_doc st -> r_next st' = r_next st -> Core st -> Core st'.
  Proof. intros st st' E1 E2 [A B C D E]; constructor; rewrite ?E1, ?E2; assumption. Qed.

  Lemma Done_ext : forall st st' l, r_doc st' = r_doc st -> Done st l -> Done st' l.
  Proof. intros st st' l E [y H]; exists y; rewrite E; exact H. Qed.

  Definition J (st : rstate) : Prop := Core st /\ SeenOK st.

  (* the locations of a discovered path hold encrypted leaves of the loaded document *)
  Definition PathOK (p : ypath) : Prop :=
    forall l, In l (resolve d0 p) -> exists i v, lookup d0 l = Some (NLeaf i v) /\ is_eyaml_value v = true.

  Lemma mem_string_true_in : forall a l, mem_string a l = true -> In a l.
  Proof.
    induction l as [|b r IH]; simpl; intro H; [discriminate H|].
    destruct (String.eqb a b) eqn:E; [left; symmetry; apply String.eqb_eq; exact E | right; apply IH; exact H].
  Qed.

  Lemma anchor_name_some_araw : forall n a, anchor_name n = Some a -> araw n = Some a.
  Proof.
    intros n a H; unfold anchor_name, araw in *.
    destruct (has_anchor_attr (node_info n)); [|discriminate H].
    destruct (anchor (node_info n)) as [b|]; [|discriminate H].
    destruct (str_is_empty b); [discriminate H | exact H].
  Qed.

  Lemma araw_some_attr : forall i v a, araw (NLeaf i v) = Some a -> has_anchor_attr i = true.
  Proof. intros i v a H; unfold araw in H; simpl in H. destruct (has_anchor_attr i); [reflexivity | discriminate H]. Qed.

  Lemma rotate_at_J : forall st p l st', J st -> PathOK p -> In l (resolve d0 p) ->
    rotate_at key enc dec layout oldk newk st p l = Ok st' ->
    J st' /\ (r_exit st' = 0 -> Done st' l) /\ (forall l0, Done st l0 -> Done st' l0) /\
    (r_exit st' = 0 -> r_exit st = 0).
  Proof.
    intros st p l st' [HC HS] HP Hl H. unfold rotate_at in H.
    destruct (resolve_lookup p d0 l Hl) as [_ Hnm].
    destruct (HP l Hl) as (i0 & v0 & Hl0 & Hs0).
    destruct (rotated_lookup Lst l d0 (r_doc st) _ Hnm (c_rot st HC) Hl0) as [y [Hy Hry]].
    simpl in Hry. rewrite Hs0 in Hry.
    rewrite Hy in H.
    assert (Hyleaf : exists i v, y = NLeaf i v /\ is_eyaml_value v = true).
    { destruct Hry as [_ [_ [->|[_ Hr]]]]; [exists i0, v0; split; [reflexivity | exact Hs0]|].
      destruct Hr as (a & s & i' & s' & q & _ & -> & _ & Hs' & _). exists i', (PStr s'); split; [reflexivity | exact Hs']. }
    destruct Hyleaf as (i & v & -> & Hsec).
    pose proof (c_inv st HC) as HI.
    assert (Hxin : In (NLeaf i v) (vnodes (r_doc st))) by (eapply lookup_vnodes; eassumption).
    assert (Haraw : anchor_name (NLeaf i v) = araw (NLeaf i v)) by (apply anchor_name_araw; apply (inv_named _ _ HI); exact Hxin).
    remember (anchor_name (NLeaf i v)) as anc eqn:Eanc.
    destruct (match anc with Some a => mem_string a (r_seen st) | None => false end) eqn:Hskip.
    - (* an alias of a node seen before *)
      inversion H; subst st'. split; [split; assumption|]. split; [|split; tauto].
      intro Hex. exists (NLeaf i v); split; [exact Hy|].
      destruct anc as [a|]; [|discriminate Hskip].
      apply (HS Hex (NLeaf i v) a Hxin); [rewrite <- Haraw; reflexivity | apply mem_string_true_in; exact Hskip].
    - set (seen' := match anc with Some a => r_seen st ++ [a] | None => r_seen st end) in *.
      assert (Hfail : forall st3, r_doc st3 = r_doc st -> r_next st3 = r_next st -> r_exit st3 = 3 ->
                 J st3 /\ (r_exit st3 = 0 -> Done st3 l) /\ (forall l0, Done st l0 -> Done st3 l0) /\ (r_exit st3 = 0 -> r_exit st = 0)).
      { intros st3 E1 E2 E3. split; [split; [eapply Core_ext; eassumption | intro F; rewrite E3 in F; discriminate F]|].
        split; [intro F; rewrite E3 in F; discriminate F|]. split; [intros l0 Hd; eapply Done_ext; eassumption | intro F; rewrite E3 in F; discriminate F]. }
      destruct (decrypt_eyaml key dec oldk v) as [pv|e|] eqn:Hd; [| |discriminate H].
      2:{ destruct e; try discriminate H. inversion H; subst st'. apply Hfail; reflexivity. }
      destruct pv as [| | | |txt|]; try discriminate H.
      destruct (encrypt_eyaml key enc layout newk txt (if mem_N (oid i) (r_folded st) then OBlock else OString)) as [encval|e|] eqn:He;
        [| |discriminate H].
      2:{ destruct e; try discriminate H. inversion H; subst st'. apply Hfail; reflexivity. }
      simpl in H.
      match type of H with (do st2 <- ?X; _) = _ => destruct X as [st2| |] eqn:E end; simpl in H; try discriminate H.
      inversion H; subst st'; clear H. simpl in E.
      rewrite (c_res st HC p) in E.
      set (st1 := mkrs (r_doc st) seen' (r_changed st) (r_exit st) (r_next st) (r_folded st) (r_log st)) in *.
      assert (HC1 : Core st1) by (eapply Core_ext; [| |exact HC]; reflexivity).
      assert (Hall : forall l', In l' (resolve d0 p) -> lookup (r_doc st) l' = Some (NLeaf i v)).
      { intros l' Hl'. rewrite <- (c_res st HC p) in Hl', Hl.
        destruct (resolve_lookup p (r_doc st) l' Hl') as [[y' Hy'] _]. rewrite Hy'. f_equal.
        eapply (resolve_same _ _ HI p (r_doc st) l' l); try eassumption. intros z Hz; exact Hz. }
      assert (HSV : SV i v encval (resolve d0 p) st1).
      { constructor.
        - exact HC1.
        - apply (inv_fresh _ _ HI _ Hxin).
        - intros l' Hl'. exists (NLeaf i v); split; [apply Hall; exact Hl' | left; reflexivity].
        - simpl. intros Hex z a Hz Ha Hin.
          assert (Hcases : In a (r_seen st) \/ anc = Some a).
          { unfold seen' in Hin. destruct anc as [a'|]; [|left; exact Hin].
            apply in_app_iff in Hin. destruct Hin as [Hin|[<-|[]]]; [left; exact Hin | right; reflexivity]. }
          destruct Hcases as [Hin'|Ea]; [left; apply (HS Hex z a Hz Ha Hin')|].
          right. apply (inv_id _ _ HI); [exact Hz | exact Hxin|].
          eapply (inv_anchor _ _ HI); [exact Hz | exact Hxin | exact Ha | rewrite <- Haraw, Ea; reflexivity].
        - intros _. right. exact Hall. }
      destruct (set_value_locs_sv i v encval _ (resolve d0 p) Hsec
                  (fun o m0 Ho => Lst_rotate i v txt _ encval o m0 Hsec Hd He Ho)
                  (encrypt_secret _ _ _ He)
                  (fun l' Hl' => proj2 (resolve_lookup p d0 l' Hl'))
                  (resolve d0 p) st1 st2 HSV (fun l' H' => H') E)
        as (HS2 & HD2 & HM2 & F1 & F2 & F3 & F4 & G2).
      split; [split|].
      + eapply Core_ext; [| |exact (sv_core _ _ _ _ _ HS2)]; reflexivity.
      + intros Hex z a Hz Ha Hin. simpl in Hex, Hz, Hin.
        destruct (sv_seen _ _ _ _ _ HS2 Hex z a Hz Ha Hin) as [A|A]; [exact A|].
        exfalso. subst z. pose proof (araw_some_attr _ _ _ Ha) as Hattr.
        assert (Hne : resolve d0 p <> []) by (intro F; rewrite F in Hl; destruct Hl).
        apply (G2 Hne Hattr (NLeaf i v) Hz); reflexivity.
      + split; [intros _; eapply Done_ext; [|apply HD2; exact Hl]; reflexivity|].
        split; [intros l0 Hd0; eapply Done_ext; [|apply HM2; eapply Done_ext; [|exact Hd0]]; reflexivity|].
        simpl. rewrite F2. tauto.
  Qed.

  Lemma rotate_locs_J : forall ls st p st', J st -> PathOK p -> (forall l, In l ls -> In l (resolve d0 p)) ->
    rotate_locs key enc dec layout oldk newk st p ls = Ok st' ->
    J st' /\ (r_exit st' = 0 -> forall l, In l ls -> Done st' l) /\ (forall l0, Done st l0 -> Done st' l0) /\
    (r_exit st' = 0 -> r_exit st = 0).
  Proof.
    induction ls as [|l r IH]; intros st p st' HJ HP Hls H; simpl in H.
    - inversion H; subst. split; [exact HJ|]. split; [intros _ l []|]. split; tauto.
    - destruct (rotate_at key enc dec layout oldk newk st p l) as [s1| |] eqn:E; simpl in H; try discriminate H.
      destruct (rotate_at_J st p l s1 HJ HP (Hls l (or_introl eq_refl)) E) as (HJ1 & HD1 & HM1 & HE1).
      destruct (IH s1 p st' HJ1 HP (fun l0 H0 => Hls l0 (or_intror H0)) H) as (HJ2 & HD2 & HM2 & HE2).
      split; [exact HJ2|]. split; [|split].
      + intros Hex l0 [<-|Hin]; [apply HM2, HD1, HE2, Hex | apply HD2; assumption].
      + intros l0 Hd; apply HM2, HM1, Hd.
      + intro Hex; apply HE1, HE2, Hex.
  Qed.

  Lemma rotate_paths_J : forall ps st st', J st -> (forall p, In p ps -> PathOK p) ->
    rotate_paths key enc dec layout oldk newk st ps = Ok st' ->
    J st' /\ (r_exit st' = 0 -> forall p l, In p ps -> In l (resolve d0 p) -> Done st' l) /\
    (forall l0, Done st l0 -> Done st' l0) /\ (r_exit st' = 0 -> r_exit st = 0).
  Proof.
    induction ps as [|p r IH]; intros st st' HJ HP H; simpl in H.
    - inversion H; subst. split; [exact HJ|]. split; [intros _ p l []|]. split; tauto.
    - destruct (rotate_path key enc dec layout oldk newk st p) as [s1| |] eqn:E; simpl in H; try discriminate H.
      unfold rotate_path in E. rewrite (c_res st (proj1 HJ) p) in E.
      assert (E' : rotate_locs key enc dec layout oldk newk st p (resolve d0 p) = Ok s1)
        by (destruct (resolve d0 p); [discriminate E | exact E]).
      destruct (rotate_locs_J _ st p s1 HJ (HP p (or_introl eq_refl)) (fun l H0 => H0) E') as (HJ1 & HD1 & HM1 & HE1).
      destruct (IH s1 st' HJ1 (fun q Hq => HP q (or_intror Hq)) H) as (HJ2 & HD2 & HM2 & HE2).
      split; [exact HJ2|]. split; [|split].
      + intros Hex q l [<-|Hin] Hl; [apply HM2, (HD1 (HE2 Hex)), Hl | eapply HD2; eassumption].
      + intros l0 Hd; apply HM2, HM1, Hd.
      + intro Hex; apply HE1, HE2, Hex.
  Qed.
End Run.
