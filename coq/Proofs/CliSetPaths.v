(* Proofs for yaml-set and yaml-paths (C16). *)
From Coq Require Import List Ascii String ZArith Bool Arith Lia.
From YP Require Import Outcome PyStr Cli CliSpec CliMerge.
Import ListNotations.
Open Scope list_scope.

(* ---------------- yaml-set ---------------- *)

Lemma dumped_verb2 : forall n, dumped (log_verbose n [OVerb] ++ log_verbose n [OVerb]) = [].
Proof. intros. rewrite dumped_app, dumped_log_verbose. reflexivity. Qed.
Lemma dumped_verbs : forall n k, dumped (log_verbose n (repeat OVerb k)) = [].
Proof.
  intros. unfold log_verbose. destruct (_ && _); [|reflexivity].
  induction k; simpl; auto.
Qed.

Lemma set_write_delivers : forall a n file fl e yd jd d,
  (r_status (set_write a n file fl e yd jd d) = Exit 0 /\
   exists j, delivered (set_write a n file fl e yd jd d) =
               [(j, [if negb fl && negb (sa_is_json_ext a) then yd else jd])]) \/
  (r_status (set_write a n file fl e yd jd d) <> Exit 0 /\ delivered (set_write a n file fl e yd jd d) = []).
Proof.
  intros. unfold set_write, delivered.
  destruct (if negb fl && negb (sa_is_json_ext a) then e else None) as [c|]; destruct (is_dash file); simpl.
  - right. split; [discriminate|].
    destruct (sa_backup a); simpl; rewrite ?dumped_app, ?dumped_log_verbose; reflexivity.
  - right. split; [discriminate|].
    destruct (sa_backup a); simpl; rewrite ?dumped_app, ?dumped_log_verbose; reflexivity.
  - left. split; [reflexivity|]. eexists.
    destruct (sa_backup a); simpl; rewrite ?dumped_app, ?dumped_log_verbose; reflexivity.
  - left. split; [reflexivity|]. eexists.
    destruct (sa_backup a); simpl; rewrite ?dumped_app, ?dumped_log_verbose; simpl; reflexivity.
Qed.

(* the YAML dumper raises: never exit 0, nothing delivered, and a file target gets its original bytes back *)
Lemma set_write_dump_fails : forall a n file fl c yd jd d,
  negb fl && negb (sa_is_json_ext a) = true ->
  r_status (set_write a n file fl (Some c) yd jd d) = Uncaught (UCrash c) /\
  delivered (set_write a n file fl (Some c) yd jd d) = [] /\
  (is_dash file = false -> r_fx (set_write a n file fl (Some c) yd jd d) = [ERestore]).
Proof.
  intros a n file fl c yd jd d Y. unfold set_write, delivered. rewrite Y.
  destruct (is_dash file); simpl.
  - split; [reflexivity|]. split; [|discriminate].
    destruct (sa_backup a); simpl; rewrite ?dumped_app, ?dumped_log_verbose; reflexivity.
  - split; [reflexivity|]. split; [|reflexivity].
    destruct (sa_backup a); simpl; rewrite ?dumped_app, ?dumped_log_verbose; reflexivity.
Qed.

Section SetProofs.
  Variable built : lres nat.
  Variable saveto : nat -> lres nat.
  Variable change : nat -> change_res.
  Variable flow : nat -> bool.
  Variable dump_fail : nat -> option string.
  Variable jsonview : nat -> nat.
  Variable yamlview : nat -> nat.
  Variable change_verb : nat -> nat.

  (* write_output_document after [out] (which holds no dump): one document or none *)
  Lemma set_finish_delivers : forall a n file out d,
    dumped out = [] ->
    (r_status (set_finish flow dump_fail jsonview yamlview a n file out d) = Exit 0 /\
     exists j, delivered (set_finish flow dump_fail jsonview yamlview a n file out d) = [(j, [set_written a flow yamlview jsonview d])]) \/
    (r_status (set_finish flow dump_fail jsonview yamlview a n file out d) <> Exit 0 /\
     delivered (set_finish flow dump_fail jsonview yamlview a n file out d) = []).
  Proof.
    intros a n file out d O. unfold set_finish.
    destruct (set_write_delivers a n file (flow d) (dump_fail d) (yamlview d) (jsonview d) d) as [[S [j D]]|[S D]].
    - left. split; [exact S|]. exists j. unfold delivered in *. cbn [r_out r_fx]. rewrite dumped_app, O. exact D.
    - right. split; [exact S|]. unfold delivered in *. cbn [r_out r_fx]. rewrite dumped_app, O. exact D.
  Qed.

  Definition change_post (a : set_args) (d1 : nat) : nat :=
    match set_change_kind a with
    | ChNothing => d1
    | _ => match change d1 with ChOk d2 => d2 | ChYpe _ d2 => d2 | _ => d1 end
    end.

  Lemma set_change_tail_delivers : forall a n file out2 d1,
    dumped out2 = [] ->
    (r_status (set_change_tail change flow dump_fail jsonview yamlview change_verb a n file out2 d1) = Exit 0 /\
     exists j, delivered (set_change_tail change flow dump_fail jsonview yamlview change_verb a n file out2 d1) =
               [(j, [set_written a flow yamlview jsonview (change_post a d1)])]) \/
    (r_status (set_change_tail change flow dump_fail jsonview yamlview change_verb a n file out2 d1) <> Exit 0 /\
     delivered (set_change_tail change flow dump_fail jsonview yamlview change_verb a n file out2 d1) = []).
  Proof.
    intros a n file out2 d1 O. unfold set_change_tail, change_post.
    assert (O3 : dumped (out2 ++ log_verbose n (repeat OVerb (change_verb d1))) = [])
      by (rewrite dumped_app, O, dumped_verbs; reflexivity).
    assert (Fail : forall s out, s <> Exit 0 -> dumped out = [] ->
              (r_status (mkrun s out []) = Exit 0 /\
               exists j, delivered (mkrun s out []) = [(j, [set_written a flow yamlview jsonview d1])]) \/
              (r_status (mkrun s out []) <> Exit 0 /\ delivered (mkrun s out []) = [])).
    { intros s out N D. right. split; [exact N|]. unfold delivered. cbn [r_out r_fx]. rewrite D. reflexivity. }
    destruct (set_change_kind a) eqn:K; cbv beta iota zeta;
      try (apply set_finish_delivers; exact O);
      (destruct (change d1) as [d2|e d2| |u] eqn:CH; cbn [set_after_change]; cbv beta iota;
       try destruct e; try destruct u;
       first [ apply set_finish_delivers; exact O3
             | right; split; [discriminate | unfold delivered; cbn [r_out r_fx]; rewrite O3; reflexivity] ]).
  Qed.

  (* the tail of main(): either it exits 0 having delivered exactly the library's post-state,
     or it fails having delivered nothing *)
  Lemma set_apply_delivers : forall a n file d0 ns,
    (r_status (set_apply saveto change flow dump_fail jsonview yamlview change_verb a n file d0 ns) = Exit 0 /\
     exists j, delivered (set_apply saveto change flow dump_fail jsonview yamlview change_verb a n file d0 ns) =
               [(j, [set_written a flow yamlview jsonview (set_post a saveto change d0)])]) \/
    (r_status (set_apply saveto change flow dump_fail jsonview yamlview change_verb a n file d0 ns) <> Exit 0 /\
     delivered (set_apply saveto change flow dump_fail jsonview yamlview change_verb a n file d0 ns) = []).
  Proof.
    intros a n file d0 ns. unfold set_apply, set_post.
    destruct (if sa_check a then set_check a ns else CheckPass) as [|s h] eqn:CK.
    2:{ right. unfold delivered. simpl. rewrite dumped_hints. split; [|reflexivity].
        destruct (sa_check a); [|discriminate]. clear -CK. revert CK.
        induction ns as [|x r IH]; simpl; [discriminate|].
        destruct (sn_is_eyaml x).
        - destruct (xorb (sa_pub a) (sa_priv a)); [intros E; inversion E; discriminate|].
          destruct (sn_decrypt x) as [[|]|[]]; try (intros E; inversion E; discriminate); exact IH.
        - destruct (sn_check_eq x); [exact IH|intros E; inversion E; discriminate]. }
    assert (V1 : dumped ([] ++ log_verbose n [OVerb]) = []) by (simpl; apply dumped_log_verbose).
    pose proof (dumped_verb2 n) as V2.
    destruct (sa_saveto a) eqn:ST.
    - destruct (Nat.ltb 1 (List.length ns)).
      { right. split; [discriminate|reflexivity]. }
      destruct ns as [|x r].
      { right. unfold delivered; simpl. rewrite dumped_log_verbose. split; [discriminate|reflexivity]. }
      destruct (saveto d0) as [d1|u] eqn:SV.
      2:{ right. destruct u; unfold delivered; simpl; rewrite dumped_log_verbose; split; try discriminate; reflexivity. }
      apply (set_change_tail_delivers a n file _ d1 V2).
    - apply (set_change_tail_delivers a n file _ d0 V1).
  Qed.

  (* yaml-set: exit 0 => exactly one document is delivered (to the file, or to STDOUT when the
     document came from STDIN) and it is the library's post-state of the loaded (or, for an
     empty file, freshly built) document; any other ending delivers nothing *)
  Lemma set_file : forall a tty valfile_err load gather,
    (r_status (cli_set_main built saveto change flow dump_fail jsonview yamlview change_verb a tty valfile_err load gather) = Exit 0 /\
     exists d0 j,
       (get_yaml_data load = L1Ok (Some d0) \/ (get_yaml_data load = L1Ok None /\ built = LOk d0)) /\
       delivered (cli_set_main built saveto change flow dump_fail jsonview yamlview change_verb a tty valfile_err load gather) =
         [(j, [set_written a flow yamlview jsonview (set_post a saveto change d0)])]) \/
    (r_status (cli_set_main built saveto change flow dump_fail jsonview yamlview change_verb a tty valfile_err load gather) <> Exit 0 /\
     delivered (cli_set_main built saveto change flow dump_fail jsonview yamlview change_verb a tty valfile_err load gather) = []).
  Proof.
    intros a tty valfile_err load gather. unfold cli_set_main.
    destruct (negb (Nat.eqb (set_validate_errors a tty) 0)).
    { right. unfold delivered; simpl. rewrite dumped_hints. split; [discriminate|reflexivity]. }
    destruct (if negb (value_given a) && negb (sa_stdin a) && sa_valfile a then valfile_err else None).
    { right. split; [discriminate|reflexivity]. }
    destruct (negb (nonempty (sa_file a) || _)).
    { right. split; [discriminate|reflexivity]. }
    destruct (get_yaml_data load) as [od| |c] eqn:L.
    2:{ right. split; [discriminate|reflexivity]. }
    2:{ right. split; [discriminate|reflexivity]. }
    assert (D0 : forall d0, (od = Some d0 \/ (od = None /\ built = LOk d0)) ->
                 forall ns n file,
      (r_status (set_apply saveto change flow dump_fail jsonview yamlview change_verb a n file d0 ns) = Exit 0 /\
       exists d1 j, (L1Ok od = L1Ok (Some d1) \/ (L1Ok od = L1Ok None /\ built = LOk d1)) /\
         delivered (set_apply saveto change flow dump_fail jsonview yamlview change_verb a n file d0 ns) = [(j, [set_written a flow yamlview jsonview (set_post a saveto change d1)])]) \/
      (r_status (set_apply saveto change flow dump_fail jsonview yamlview change_verb a n file d0 ns) <> Exit 0 /\
       delivered (set_apply saveto change flow dump_fail jsonview yamlview change_verb a n file d0 ns) = [])).
    { intros d0 H ns n file. destruct (set_apply_delivers a n file d0 ns) as [[S [j D]]|[S D]].
      - left. split; [exact S|]. exists d0, j. split; [|exact D].
        destruct H as [H|[H1 H2]]; [left; congruence|right; split; congruence].
      - right. split; assumption. }
    destruct od as [d|].
    - destruct gather as [ns|u].
      + apply D0. left. reflexivity.
      + destruct u; try (right; split; [discriminate|reflexivity]).
        destruct (set_must_exist a); [right; split; [discriminate|reflexivity]|].
        apply D0. left. reflexivity.
    - destruct built as [d|u] eqn:B.
      2:{ right. split; [discriminate|reflexivity]. }
      destruct gather as [ns|u].
      + apply D0. right. split; reflexivity.
      + destruct u; try (right; split; [discriminate|reflexivity]).
        destruct (set_must_exist a); [right; split; [discriminate|reflexivity]|].
        apply D0. right. split; reflexivity.
  Qed.

  (* a failed --check, or an unmatched path that must exist, ends the run with a non-zero status *)
  Lemma set_check_stops : forall a n file d0 ns s h,
    sa_check a = true -> set_check a ns = CheckStop s h ->
    set_apply saveto change flow dump_fail jsonview yamlview change_verb a n file d0 ns = mkrun s (hints h) [].
  Proof. intros a n file d0 ns s h C K. unfold set_apply. rewrite C, K. reflexivity. Qed.
End SetProofs.

Lemma set_written_faithful : forall a flow yamlview jsonview d,
  dump_faithful yamlview -> negb (flow d) && negb (sa_is_json_ext a) = true ->
  set_written a flow yamlview jsonview d = d.
Proof. intros a flow yv jv d F Y. unfold set_written. rewrite Y. apply F. Qed.

(* ---------------- yaml-paths ---------------- *)

Lemma has_path_iff : forall s es, has_path s es = true <-> In s (entry_texts es).
Proof.
  intros s es. induction es as [|[x p] r IH]; simpl; [split; [discriminate|tauto]|].
  rewrite orb_true_iff, IH, String.eqb_eq. split; intros [H|H]; auto.
Qed.

Lemma entry_texts_app : forall a b, entry_texts (a ++ b) = entry_texts a ++ entry_texts b.
Proof. intros. unfold entry_texts. apply map_app. Qed.

Lemma add_unique_spec : forall expr rs acc,
  NoDup (entry_texts acc) ->
  NoDup (entry_texts (add_unique expr rs acc)) /\
  (forall s, In s (entry_texts (add_unique expr rs acc)) <-> In s (entry_texts acc) \/ In s (map pr_str rs)).
Proof.
  intros expr rs. induction rs as [|p r IH]; intros acc ND; simpl.
  - split; [exact ND|]. intros s. tauto.
  - destruct (has_path (pr_str p) acc) eqn:H.
    + destruct (IH acc ND) as [N I]. split; [exact N|]. intros s. rewrite I.
      apply has_path_iff in H. split; [tauto|]. intros [A|[A|A]]; auto. subst. auto.
    + assert (ND' : NoDup (entry_texts (acc ++ [(expr, p)]))).
      { rewrite entry_texts_app. simpl.
        assert (NI : ~ In (pr_str p) (entry_texts acc)).
        { intros X. apply has_path_iff in X. congruence. }
        clear -ND NI. induction (entry_texts acc) as [|x l IHl]; simpl.
        - constructor; [tauto|constructor].
        - inversion ND; subst. constructor.
          + rewrite in_app_iff. simpl. intros [A|[A|[]]]; [tauto|]. subst. apply NI. left. reflexivity.
          + apply IHl; [assumption|]. intros A. apply NI. right. exact A. }
      destruct (IH _ ND') as [N I]. split; [exact N|]. intros s. rewrite I.
      rewrite entry_texts_app, in_app_iff. simpl. tauto.
Qed.

Lemma paths_collect_spec : forall xs acc bad nh,
  all_clean xs -> NoDup (entry_texts acc) ->
  exists es, paths_collect xs acc bad nh = (es, bad, nh, None) /\
    NoDup (entry_texts es) /\
    (forall s, In s (entry_texts es) <-> In s (entry_texts acc) \/ In s (result_texts xs)).
Proof.
  induction xs as [|[expr o] r IH]; intros acc bad nh C ND; simpl.
  - exists acc. split; [reflexivity|]. split; [exact ND|]. intros s. unfold result_texts. simpl. tauto.
  - destruct (C (expr, o) (or_introl eq_refl)) as [rs E]. simpl in E. subst o.
    destruct (add_unique_spec expr rs acc ND) as [N I].
    destruct (IH (add_unique expr rs acc) bad nh) as (es & E & N2 & I2).
    { intros x Hx. apply C. right. exact Hx. }
    { exact N. }
    exists es. split; [exact E|]. split; [exact N2|]. intros s. rewrite I2, I.
    unfold result_texts. simpl. rewrite in_app_iff. tauto.
Qed.

Lemma remove_path_spec : forall s es,
  NoDup (entry_texts es) ->
  NoDup (entry_texts (remove_path s es)) /\
  (forall t, In t (entry_texts (remove_path s es)) <-> In t (entry_texts es) /\ t <> s).
Proof.
  intros s es. induction es as [|[x p] r IH]; intros ND; simpl.
  - split; [constructor|]. intros t. tauto.
  - inversion ND as [|? ? NI ND']; subst.
    destruct (String.eqb s (pr_str p)) eqn:E.
    + apply String.eqb_eq in E. subst s. split; [exact ND'|]. intros t. simpl. split.
      * intros H. split; [right; exact H|]. intros X. subst. exact (NI H).
      * intros [[H|H] N]; [congruence|exact H].
    + apply String.eqb_neq in E. destruct (IH ND') as [N I]. simpl. split.
      * constructor; [|exact N]. rewrite I. tauto.
      * intros t. rewrite I. split.
        -- intros [H|[H1 H2]]; [subst; split; [left; reflexivity|congruence]|split; [right; exact H1|exact H2]].
        -- intros [[H|H] H2]; [left; exact H|right; split; assumption].
Qed.

Lemma remove_all_spec : forall rs es,
  NoDup (entry_texts es) ->
  NoDup (entry_texts (fold_left (fun es p => remove_path (pr_str p) es) rs es)) /\
  (forall t, In t (entry_texts (fold_left (fun es p => remove_path (pr_str p) es) rs es)) <->
             In t (entry_texts es) /\ ~ In t (map pr_str rs)).
Proof.
  induction rs as [|p r IH]; intros es ND; simpl.
  - split; [exact ND|]. intros t. tauto.
  - destruct (remove_path_spec (pr_str p) es ND) as [N I].
    destruct (IH _ N) as [N2 I2]. split; [exact N2|]. intros t. rewrite I2, I. split.
    + intros [[A B] C]. split; [exact A|]. intros [X|X]; [congruence|tauto].
    + intros [A B]. split; [split; [exact A|]|]; intros X; apply B; [left; congruence|right; exact X].
Qed.

Lemma paths_except_spec : forall xs acc bad nh,
  all_clean xs -> NoDup (entry_texts acc) ->
  exists es, paths_except xs acc bad nh = (es, bad, nh, None) /\
    NoDup (entry_texts es) /\
    (forall s, In s (entry_texts es) <-> In s (entry_texts acc) /\ ~ In s (result_texts xs)).
Proof.
  induction xs as [|[expr o] r IH]; intros acc bad nh C ND; simpl.
  - exists acc. split; [reflexivity|]. split; [exact ND|]. intros s. unfold result_texts. simpl. tauto.
  - destruct (C (expr, o) (or_introl eq_refl)) as [rs E]. simpl in E. subst o.
    destruct (remove_all_spec rs acc ND) as [N I].
    destruct (IH _ bad nh (fun x Hx => C x (or_intror Hx)) N) as (es & E & N2 & I2).
    exists es. split; [exact E|]. split; [exact N2|]. intros s. rewrite I2, I.
    unfold result_texts. simpl. rewrite in_app_iff. tauto.
Qed.

(* the entries that reach print_results for one document: every search result, once, minus
   every --except result *)
Lemma paths_entries : forall ss xs,
  all_clean ss -> all_clean xs ->
  exists es es2,
    paths_collect ss [] false 0 = (es, false, 0, None) /\
    paths_except xs es false 0 = (es2, false, 0, None) /\
    NoDup (entry_texts es2) /\
    (forall s, In s (entry_texts es2) <-> In s (result_texts ss) /\ ~ In s (result_texts xs)).
Proof.
  intros ss xs Cs Cx.
  destruct (paths_collect_spec ss [] false 0 Cs (NoDup_nil _)) as (es & E & N & I).
  destruct (paths_except_spec xs es false 0 Cx N) as (es2 & E2 & N2 & I2).
  exists es, es2. split; [exact E|]. split; [exact E2|]. split; [exact N2|].
  intros s. rewrite I2, I. simpl. tauto.
Qed.

(* print_results prints one line per entry, in order (when no value is looked up) *)
Lemma paths_print_lines : forall a file idx es,
  pa_values a = false ->
  exists texts, paths_print a file idx es = (map (fun t => OPath t None) texts, None) /\
                List.length texts = List.length es.
Proof.
  intros a file idx es V. induction es as [|[expr p] r IH]; simpl.
  - exists []. split; reflexivity.
  - rewrite V. destruct IH as (ts & E & L). rewrite E. eexists (_ :: ts). split; [reflexivity|].
    simpl. rewrite L. reflexivity.
Qed.
